/-
  Svgdx.Proofs.ExprDepth — the token scan `nestingDepth` is SOUND for the recursive descent.

  `expression.rs` refuses, before parsing, every token list with `base + nesting_depth(tokens) >
  MAX_EXPR_DEPTH` (model: `nestingDepth`, `evaluateAt`), so that the recursive parser cannot overflow the
  stack.  Here the claim behind that guard is proved for the model: the descent never nests its three
  recursive re-entries — `( … )`, unary minus, `f( … )` — deeper than `nestingDepth ts`.

  * `primaryD … exprListD`, `evaluateD` — the same descent with a depth budget `d`: passed on unchanged
    to sequential calls, decremented at the three re-entries of `primary`, `Err.depthLimit` at 0;
  * `evaluateD_eq_evaluate`     — with a budget of at least `nestingDepth ts` the budgeted descent IS the
    plain one (all inputs: well formed or not, balanced or not, successful or failing);
  * `evaluateD_eq_or_depthLimit` — with any budget it is the plain one or `depthLimit`, nothing else;
  * `evaluateAt_eq_evaluateD`    — what `evaluateAt` lets through stays within `maxExprDepth - base` levels;
  * `DepthDemo`                 — the budget matters: `((1))` needs 2.
-/
import Svgdx.Proofs.ExprFuel
import Svgdx.Expr.RatOps
namespace Svgdx
namespace Expr
open Str

/-! ### 1. The depth-budgeted descent -/

section
variable {α σ : Type} (o : Ops α σ) (lk : Lookup α σ) (elref : Str → Res α)

mutual
/-- `primary` with a depth budget: the three re-entries cost one each -/
def primaryD : Nat → Nat → List Str → List (Token α) → σ → Res (Value α × List (Token α) × σ)
  | 0, _, _, _, _ => .error .outOfFuel
  | _ + 1, _, _, [], _ => .error .parse
  | _ + 1, _, _, .number x :: ts, st => .ok (Value.num x, ts, st)
  | _ + 1, _, _, .string s :: ts, st => .ok (.one (.str s), ts, st)
  | _ + 1, _, ck, .var v :: ts, st =>
    match lk v ck st with
    | .ok (e, st') => .ok (e, ts, st')
    | .error e => .error e
  | _ + 1, _, _, .elref v :: ts, st =>
    match elref v with
    | .ok x => .ok (Value.num x, ts, st)
    | .error e => .error e
  | fuel + 1, d, ck, .openParen :: ts, st =>
    match d with
    | 0 => .error .depthLimit
    | d' + 1 =>
      match exprListD fuel d' ck true ts st with
      | .ok (e, .closeParen :: ts', st') => .ok (e, ts', st')
      | .ok _ => .error .parse
      | .error e => .error e
  | fuel + 1, d, ck, .sub :: ts, st =>
    match d with
    | 0 => .error .depthLimit
    | d' + 1 =>
      match primaryD fuel d' ck ts st with
      | .ok (v, ts', st') =>
        match v.oneNumber with
        | .ok x => .ok (Value.num (o.neg x), ts', st')
        | .error e => .error e
      | .error e => .error e
  | fuel + 1, d, ck, .symbol name :: ts, st =>
    match parseFunction name with
    | .unknown => .error .parse
    | .unmodelled => .error .unmodelled
    | .known f =>
      match ts with
      | .openParen :: ts1 =>
        match d with
        | 0 => .error .depthLimit
        | d' + 1 =>
          match exprListD fuel d' ck true ts1 st with
          | .ok (args, ts2, st1) =>
            match evalFunction o f args st1 with
            | .ok (e, st2) =>
              match ts2 with
              | .closeParen :: ts3 => .ok (e, ts3, st2)
              | _ => .error .parse
            | .error e => .error e
          | .error e => .error e
      | _ => .error .parse
  | _ + 1, _, _, _ :: _, _ => .error .parse

def factorLoopD : Nat → Nat → List Str → α → List (Token α) → σ → Res (α × List (Token α) × σ)
  | 0, _, _, _, _, _ => .error .outOfFuel
  | fuel + 1, d, ck, acc, .mul :: ts, st =>
    match primaryD fuel d ck ts st with
    | .ok (v, ts', st') =>
      match v.oneNumber with
      | .ok y => factorLoopD fuel d ck (o.mul acc y) ts' st'
      | .error e => .error e
    | .error e => .error e
  | fuel + 1, d, ck, acc, .div :: ts, st =>
    match primaryD fuel d ck ts st with
    | .ok (v, ts', st') =>
      match v.oneNumber with
      | .ok y => factorLoopD fuel d ck (o.div acc y) ts' st'
      | .error e => .error e
    | .error e => .error e
  | fuel + 1, d, ck, acc, .mod :: ts, st =>
    match primaryD fuel d ck ts st with
    | .ok (v, ts', st') =>
      match v.oneNumber with
      | .ok y => factorLoopD fuel d ck (o.remEuclid acc y) ts' st'
      | .error e => .error e
    | .error e => .error e
  | _ + 1, _, _, acc, ts, st => .ok (acc, ts, st)

def factorD : Nat → Nat → List Str → List (Token α) → σ → Res (Value α × List (Token α) × σ)
  | 0, _, _, _, _ => .error .outOfFuel
  | fuel + 1, d, ck, ts, st =>
    match primaryD fuel d ck ts st with
    | .ok (v, ts', st') =>
      match v.oneNumber with
      | .ok x =>
        match factorLoopD fuel d ck x ts' st' with
        | .ok (y, ts'', st'') => .ok (Value.num y, ts'', st'')
        | .error e => .error e
      | .error _ => .ok (v, ts', st')
    | .error e => .error e

def termLoopD : Nat → Nat → List Str → α → List (Token α) → σ → Res (α × List (Token α) × σ)
  | 0, _, _, _, _, _ => .error .outOfFuel
  | fuel + 1, d, ck, acc, .add :: ts, st =>
    match factorD fuel d ck ts st with
    | .ok (v, ts', st') =>
      match v.oneNumber with
      | .ok y => termLoopD fuel d ck (o.add acc y) ts' st'
      | .error e => .error e
    | .error e => .error e
  | fuel + 1, d, ck, acc, .sub :: ts, st =>
    match factorD fuel d ck ts st with
    | .ok (v, ts', st') =>
      match v.oneNumber with
      | .ok y => termLoopD fuel d ck (o.sub acc y) ts' st'
      | .error e => .error e
    | .error e => .error e
  | _ + 1, _, _, acc, ts, st => .ok (acc, ts, st)

def termD : Nat → Nat → List Str → List (Token α) → σ → Res (Value α × List (Token α) × σ)
  | 0, _, _, _, _ => .error .outOfFuel
  | fuel + 1, d, ck, ts, st =>
    match factorD fuel d ck ts st with
    | .ok (v, ts', st') =>
      match v.oneNumber with
      | .ok x =>
        match termLoopD fuel d ck x ts' st' with
        | .ok (y, ts'', st'') => .ok (Value.num y, ts'', st'')
        | .error e => .error e
      | .error _ => .ok (v, ts', st')
    | .error e => .error e

def comparisonD : Nat → Nat → List Str → List (Token α) → σ → Res (Value α × List (Token α) × σ)
  | 0, _, _, _, _ => .error .outOfFuel
  | fuel + 1, d, ck, ts, st =>
    match termD fuel d ck ts st with
    | .ok (v, ts', st') =>
      match v.oneNumber with
      | .ok first =>
        match ts' with
        | .symbol s :: ts1 =>
          match parseCmpOp s with
          | some op =>
            match termD fuel d ck ts1 st' with
            | .ok (v2, ts2, st2) =>
              match v2.oneNumber with
              | .ok second => .ok (Value.num (bool o (cmpApply o op first second)), ts2, st2)
              | .error e => .error e
            | .error e => .error e
          | none => .ok (Value.num first, ts', st')
        | _ => .ok (Value.num first, ts', st')
      | .error _ => .ok (v, ts', st')
    | .error e => .error e

def logicalLoopD : Nat → Nat → List Str → Value α → List (Token α) → σ →
    Res (Value α × List (Token α) × σ)
  | 0, _, _, _, _, _ => .error .outOfFuel
  | fuel + 1, d, ck, e, .symbol s :: ts, st =>
    match parseLogOp s with
    | some op =>
      match comparisonD fuel d ck ts st with
      | .ok (v, ts', st') =>
        match v.oneNumber with
        | .ok other =>
          match e.oneNumber with
          | .ok x => logicalLoopD fuel d ck (Value.num (bool o (logApply o op x other))) ts' st'
          | .error er => .error er
        | .error er => .error er
      | .error er => .error er
    | none => .ok (e, .symbol s :: ts, st)
  | _ + 1, _, _, e, ts, st => .ok (e, ts, st)

def logicalD : Nat → Nat → List Str → List (Token α) → σ → Res (Value α × List (Token α) × σ)
  | 0, _, _, _, _ => .error .outOfFuel
  | fuel + 1, d, ck, ts, st =>
    match comparisonD fuel d ck ts st with
    | .ok (v, ts', st') => logicalLoopD fuel d ck v ts' st'
    | .error e => .error e

def exprListLoopD : Nat → Nat → List Str → List (Atom α) → List (Token α) → σ →
    Res (Value α × List (Token α) × σ)
  | 0, _, _, _, _, _ => .error .outOfFuel
  | fuel + 1, d, ck, out, ts, st =>
    match logicalD fuel d ck ts st with
    | .ok (v, .comma :: ts', st') => exprListLoopD fuel d ck (out ++ v.flatten) ts' st'
    | .ok (v, ts', st') => .ok (.list (out ++ v.flatten), ts', st')
    | .error e => .error e

def exprListD : Nat → Nat → List Str → Bool → List (Token α) → σ →
    Res (Value α × List (Token α) × σ)
  | 0, _, _, _, _, _ => .error .outOfFuel
  | _ + 1, _, _, true, .closeParen :: ts, st => .ok (.list [], .closeParen :: ts, st)
  | fuel + 1, d, ck, _, ts, st => exprListLoopD fuel d ck [] ts st
end

/-- `evaluate` with a depth budget `d` for the recursive re-entries of `primary` -/
def evaluateD (d : Nat) (ck : List Str) (ts : List (Token α)) (st : σ) : Res (Value α × σ) :=
  match exprListD o lk elref (fuelFor ts) d ck false ts st with
  | .ok (e, [], st') => .ok (e, st')
  | .ok _ => .error .parse
  | .error e => .error e

end

/-! ### 2. The scan: what a consumed stretch of tokens does to the scan state -/

section
variable {α : Type}

/-- the scan state `(groups, open, run, depth)` of `nestingStep` -/
abbrev Scan := List Nat × Nat × Nat × Nat

/-- the scan state after `ts`, started in state `s` -/
def nestingFrom (s : Scan) (ts : List (Token α)) : Scan := ts.foldl nestingStep s

@[simp] theorem nestingFrom_nil (s : Scan) : nestingFrom s ([] : List (Token α)) = s := rfl

@[simp] theorem nestingFrom_cons (s : Scan) (t : Token α) (ts : List (Token α)) :
    nestingFrom s (t :: ts) = nestingFrom (nestingStep s t) ts := rfl

theorem nestingFrom_append (s : Scan) (p q : List (Token α)) :
    nestingFrom s (p ++ q) = nestingFrom (nestingFrom s p) q := by
  simp [nestingFrom, List.foldl_append]

theorem nestingDepth_eq (ts : List (Token α)) :
    nestingDepth ts = (nestingFrom ([], 0, 0, 0) ts).2.2.2 := rfl

theorem natMax_eq (a b : Nat) : Nat.max a b = max a b := rfl

/-- the recorded depth only grows -/
theorem depth_le_step (s : Scan) (t : Token α) : s.2.2.2 ≤ (nestingStep s t).2.2.2 := by
  obtain ⟨g, op, run, dp⟩ := s
  cases t <;> simp [nestingStep, natMax_eq] <;> omega

theorem depth_le_nestingFrom (s : Scan) (ts : List (Token α)) :
    s.2.2.2 ≤ (nestingFrom s ts).2.2.2 := by
  induction ts generalizing s with
  | nil => simp
  | cons t r ih => exact Nat.le_trans (depth_le_step s t) (ih _)

/-- after a step the recorded depth covers what is open -/
theorem level_le_step (s : Scan) (t : Token α) :
    (nestingStep s t).2.1 + (nestingStep s t).2.2.1 ≤ (nestingStep s t).2.2.2 := by
  obtain ⟨g, op, run, dp⟩ := s
  cases t <;> simp [nestingStep, natMax_eq] <;> omega

/-- a stretch of tokens which leaves the stack of open groups as it found it, from every state -/
def Bal (p : List (Token α)) : Prop :=
  ∀ g op run dp, ∃ run' dp', nestingFrom (g, op, run, dp) p = (g, op, run', dp')

theorem Bal.nil : Bal ([] : List (Token α)) := fun _ _ run dp => ⟨run, dp, rfl⟩

theorem Bal.append {p q : List (Token α)} (hp : Bal p) (hq : Bal q) : Bal (p ++ q) := by
  intro g op run dp
  obtain ⟨r1, d1, h1⟩ := hp g op run dp
  obtain ⟨r2, d2, h2⟩ := hq g op r1 d1
  exact ⟨r2, d2, by rw [nestingFrom_append, h1, h2]⟩

/-- not a parenthesis -/
def NotParen : Token α → Prop
  | .openParen => False
  | .closeParen => False
  | _ => True

theorem Bal.single {t : Token α} (ht : NotParen t) : Bal [t] := by
  intro _ _ run dp
  cases t <;> simp [NotParen] at ht <;> simp [nestingStep]

theorem Bal.paren {p : List (Token α)} (hp : Bal p) : Bal (.openParen :: (p ++ [.closeParen])) := by
  intro g op run dp
  obtain ⟨r1, d1, h1⟩ := hp ((run + 1) :: g) (op + (run + 1)) 0 (Nat.max dp (op + (run + 1) + 0))
  refine ⟨0, ?_⟩
  simp only [nestingFrom_cons, nestingFrom_append, nestingStep, h1, nestingFrom_nil]
  simp

/-- `ts'` is what is left of `ts` after a stretch which leaves the open groups alone -/
def Consumed (ts ts' : List (Token α)) : Prop := ∃ p, ts = p ++ ts' ∧ Bal p

theorem Consumed.refl (ts : List (Token α)) : Consumed ts ts := ⟨[], rfl, Bal.nil⟩

theorem Consumed.trans {a b c : List (Token α)} (h1 : Consumed a b) (h2 : Consumed b c) :
    Consumed a c := by
  obtain ⟨p1, rfl, hb1⟩ := h1
  obtain ⟨p2, rfl, hb2⟩ := h2
  exact ⟨p1 ++ p2, by simp, hb1.append hb2⟩

theorem Consumed.cons {t : Token α} {a b : List (Token α)} (ht : NotParen t) (h : Consumed a b) :
    Consumed (t :: a) b := by
  obtain ⟨p, rfl, hb⟩ := h
  exact ⟨t :: p, rfl, (Bal.single ht).append hb⟩

theorem Consumed.paren {a b : List (Token α)} (h : Consumed a (.closeParen :: b)) :
    Consumed (.openParen :: a) b := by
  obtain ⟨p, rfl, hb⟩ := h
  exact ⟨.openParen :: (p ++ [.closeParen]), by simp, hb.paren⟩

/-- the budget `dc` covers everything the scan of `ts` will still count ABOVE the groups open now -/
def Fits (dc : Nat) (ts : List (Token α)) : Prop :=
  ∃ s : Scan, (nestingFrom s ts).2.2.2 ≤ s.2.1 + dc

/-- the same, in operand position: the minus signs directly in front have been paid for as well -/
def FitsP (dc : Nat) (ts : List (Token α)) : Prop :=
  ∃ s : Scan, (nestingFrom s ts).2.2.2 ≤ s.2.1 + s.2.2.1 + dc

theorem Fits.toP {dc : Nat} {ts : List (Token α)} (h : Fits dc ts) : FitsP dc ts := by
  obtain ⟨s, hs⟩ := h
  exact ⟨s, by omega⟩

theorem Fits.consumed {dc : Nat} {ts ts' : List (Token α)} (h : Fits dc ts)
    (hc : Consumed ts ts') : Fits dc ts' := by
  obtain ⟨⟨g, op, run, dp⟩, hs⟩ := h
  obtain ⟨p, rfl, hb⟩ := hc
  obtain ⟨r1, d1, h1⟩ := hb g op run dp
  rw [nestingFrom_append, h1] at hs
  exact ⟨(g, op, r1, d1), hs⟩

theorem Fits.tail {dc : Nat} {t : Token α} {ts : List (Token α)} (h : Fits dc (t :: ts))
    (ht : NotParen t) : Fits dc ts :=
  h.consumed (Consumed.cons ht (Consumed.refl ts))

/-- a unary minus: the budget is not exhausted, and one less is enough for the operand -/
theorem FitsP.sub {dc : Nat} {ts : List (Token α)} (h : FitsP dc (.sub :: ts)) :
    ∃ k, dc = k + 1 ∧ FitsP k ts := by
  obtain ⟨⟨g, op, run, dp⟩, hs⟩ := h
  rw [nestingFrom_cons] at hs
  have h1 := level_le_step (g, op, run, dp) (Token.sub : Token α)
  have h2 := depth_le_nestingFrom (nestingStep (g, op, run, dp) (Token.sub : Token α)) ts
  simp only [nestingStep] at hs h1 h2
  cases dc with
  | zero => simp [natMax_eq] at hs h1 h2; omega
  | succ k =>
    refine ⟨k, rfl, ⟨(g, op, run + 1, Nat.max dp (op + (run + 1))), ?_⟩⟩
    simp [natMax_eq] at hs ⊢
    omega

/-- an opening parenthesis: the budget is not exhausted, and one less is enough for the inside
    (and for whatever follows the matching `)`) -/
theorem FitsP.openParen {dc : Nat} {ts : List (Token α)} (h : FitsP dc (.openParen :: ts)) :
    ∃ k, dc = k + 1 ∧ Fits k ts := by
  obtain ⟨⟨g, op, run, dp⟩, hs⟩ := h
  rw [nestingFrom_cons] at hs
  have h1 := level_le_step (g, op, run, dp) (Token.openParen : Token α)
  have h2 := depth_le_nestingFrom (nestingStep (g, op, run, dp) (Token.openParen : Token α)) ts
  simp only [nestingStep] at hs h1 h2
  cases dc with
  | zero => simp [natMax_eq] at hs h1 h2; omega
  | succ k =>
    refine ⟨k, rfl, ⟨((run + 1) :: g, op + (run + 1), 0, Nat.max dp (op + (run + 1) + 0)), ?_⟩⟩
    simp [natMax_eq] at hs ⊢
    omega

/-- a name keeps the run of minus signs in front of it -/
theorem FitsP.symbol {dc : Nat} {name : Str} {ts : List (Token α)}
    (h : FitsP dc (.symbol name :: ts)) : FitsP dc ts := by
  obtain ⟨⟨g, op, run, dp⟩, hs⟩ := h
  rw [nestingFrom_cons] at hs
  simp only [nestingStep] at hs
  exact ⟨_, hs⟩

theorem fits_of_nestingDepth_le {d : Nat} {ts : List (Token α)} (h : nestingDepth ts ≤ d) :
    Fits d ts := ⟨([], 0, 0, 0), by rw [nestingDepth_eq] at h; simpa using h⟩

end

/-! ### 3. Every successful call of the descent consumes a stretch which leaves the open groups alone -/

section
variable {α σ : Type} (o : Ops α σ) (lk : Lookup α σ) (elref : Str → Res α)

/-- the result of a parser function, if a success, has consumed such a stretch -/
def Shape {β : Type} (ts : List (Token α)) (r : Res (β × List (Token α) × σ)) : Prop :=
  ∀ v ts' st', r = .ok (v, ts', st') → Consumed ts ts'

structure AllShape (n : Nat) : Prop where
  primary : ∀ ck ts st, Shape ts (primary o lk elref n ck ts st)
  factorLoop : ∀ ck acc ts st, Shape ts (factorLoop o lk elref n ck acc ts st)
  factor : ∀ ck ts st, Shape ts (factor o lk elref n ck ts st)
  termLoop : ∀ ck acc ts st, Shape ts (termLoop o lk elref n ck acc ts st)
  term : ∀ ck ts st, Shape ts (term o lk elref n ck ts st)
  comparison : ∀ ck ts st, Shape ts (comparison o lk elref n ck ts st)
  logicalLoop : ∀ ck acc ts st, Shape ts (logicalLoop o lk elref n ck acc ts st)
  logical : ∀ ck ts st, Shape ts (logical o lk elref n ck ts st)
  exprListLoop : ∀ ck out ts st, Shape ts (exprListLoop o lk elref n ck out ts st)
  exprList : ∀ ck b ts st, Shape ts (exprList o lk elref n ck b ts st)

theorem allShape_zero : AllShape o lk elref 0 := by
  constructor <;> intros <;> intro v ts' st' h <;>
    simp [primary, factorLoop, factor, termLoop, term, comparison, logicalLoop, logical,
      exprListLoop, exprList] at h

theorem primary_shape (n : Nat) (ih : AllShape o lk elref n) (ck : List Str) (ts : List (Token α))
    (st : σ) : Shape ts (primary o lk elref (n + 1) ck ts st) := by
  intro v ts' st' h
  cases ts with
  | nil => simp [primary] at h
  | cons t r =>
    cases t with
    | number x =>
      simp [primary] at h
      obtain ⟨_, rfl, _⟩ := h
      exact Consumed.cons trivial (Consumed.refl _)
    | string s =>
      simp [primary] at h
      obtain ⟨_, rfl, _⟩ := h
      exact Consumed.cons trivial (Consumed.refl _)
    | var x =>
      cases hl : lk x ck st with
      | error e => simp [primary, hl] at h
      | ok res =>
        obtain ⟨e, st1⟩ := res
        simp [primary, hl] at h
        obtain ⟨_, rfl, _⟩ := h
        exact Consumed.cons trivial (Consumed.refl _)
    | elref x =>
      cases hl : elref x with
      | error e => simp [primary, hl] at h
      | ok y =>
        simp [primary, hl] at h
        obtain ⟨_, rfl, _⟩ := h
        exact Consumed.cons trivial (Consumed.refl _)
    | openParen =>
      cases hx : exprList o lk elref n ck true r st with
      | error e => simp [primary, hx] at h
      | ok res =>
        obtain ⟨e, ts1, st1⟩ := res
        have hp := ih.exprList ck true r st e ts1 st1 hx
        cases ts1 with
        | nil => simp [primary, hx] at h
        | cons t1 ts2 =>
          cases t1 <;> simp [primary, hx] at h
          obtain ⟨_, rfl, _⟩ := h
          exact Consumed.paren hp
    | sub =>
      cases hx : primary o lk elref n ck r st with
      | error e => simp [primary, hx] at h
      | ok res =>
        obtain ⟨v1, ts1, st1⟩ := res
        have hp := ih.primary ck r st v1 ts1 st1 hx
        cases hn : v1.oneNumber with
        | error e => simp [primary, hx, hn] at h
        | ok x =>
          simp [primary, hx, hn] at h
          obtain ⟨_, rfl, _⟩ := h
          exact Consumed.cons trivial hp
    | symbol name =>
      cases hf : parseFunction name with
      | unknown => simp [primary, hf] at h
      | unmodelled => simp [primary, hf] at h
      | known f =>
        cases r with
        | nil => simp [primary, hf] at h
        | cons t0 ts1 =>
          cases t0 <;> simp [primary, hf] at h
          cases hx : exprList o lk elref n ck true ts1 st with
          | error e => simp [hx] at h
          | ok res =>
            obtain ⟨args, ts2, st1⟩ := res
            have hp := ih.exprList ck true ts1 st args ts2 st1 hx
            cases he : evalFunction o f args st1 with
            | error e => simp [hx, he] at h
            | ok res2 =>
              obtain ⟨e, st2⟩ := res2
              cases ts2 with
              | nil => simp [hx, he] at h
              | cons t2 ts3 =>
                cases t2 <;> simp [hx, he] at h
                obtain ⟨_, rfl, _⟩ := h
                exact Consumed.cons trivial (Consumed.paren hp)
    | closeParen => simp [primary] at h
    | comma => simp [primary] at h
    | add => simp [primary] at h
    | mul => simp [primary] at h
    | div => simp [primary] at h
    | mod => simp [primary] at h

theorem factorLoop_shape (n : Nat) (ih : AllShape o lk elref n) (ck : List Str) (acc : α)
    (ts : List (Token α)) (st : σ) : Shape ts (factorLoop o lk elref (n + 1) ck acc ts st) := by
  intro v ts' st' h
  cases ts with
  | nil =>
    simp [factorLoop] at h
    obtain ⟨_, rfl, _⟩ := h
    exact Consumed.refl _
  | cons t r =>
    cases t with
    | number x =>
      simp [factorLoop] at h
      obtain ⟨_, rfl, _⟩ := h
      exact Consumed.refl _
    | var x =>
      simp [factorLoop] at h
      obtain ⟨_, rfl, _⟩ := h
      exact Consumed.refl _
    | elref x =>
      simp [factorLoop] at h
      obtain ⟨_, rfl, _⟩ := h
      exact Consumed.refl _
    | string x =>
      simp [factorLoop] at h
      obtain ⟨_, rfl, _⟩ := h
      exact Consumed.refl _
    | symbol x =>
      simp [factorLoop] at h
      obtain ⟨_, rfl, _⟩ := h
      exact Consumed.refl _
    | openParen =>
      simp [factorLoop] at h
      obtain ⟨_, rfl, _⟩ := h
      exact Consumed.refl _
    | closeParen =>
      simp [factorLoop] at h
      obtain ⟨_, rfl, _⟩ := h
      exact Consumed.refl _
    | comma =>
      simp [factorLoop] at h
      obtain ⟨_, rfl, _⟩ := h
      exact Consumed.refl _
    | add =>
      simp [factorLoop] at h
      obtain ⟨_, rfl, _⟩ := h
      exact Consumed.refl _
    | sub =>
      simp [factorLoop] at h
      obtain ⟨_, rfl, _⟩ := h
      exact Consumed.refl _
    | mul =>
      cases hx : primary o lk elref n ck r st with
      | error e => simp [factorLoop, hx] at h
      | ok res =>
        obtain ⟨v1, ts1, st1⟩ := res
        have hp := ih.primary ck r st v1 ts1 st1 hx
        cases hn : v1.oneNumber with
        | error e => simp [factorLoop, hx, hn] at h
        | ok y =>
          simp [factorLoop, hx, hn] at h
          have hl := ih.factorLoop ck _ ts1 st1 v ts' st' h
          exact Consumed.cons trivial (Consumed.trans hp hl)
    | div =>
      cases hx : primary o lk elref n ck r st with
      | error e => simp [factorLoop, hx] at h
      | ok res =>
        obtain ⟨v1, ts1, st1⟩ := res
        have hp := ih.primary ck r st v1 ts1 st1 hx
        cases hn : v1.oneNumber with
        | error e => simp [factorLoop, hx, hn] at h
        | ok y =>
          simp [factorLoop, hx, hn] at h
          have hl := ih.factorLoop ck _ ts1 st1 v ts' st' h
          exact Consumed.cons trivial (Consumed.trans hp hl)
    | mod =>
      cases hx : primary o lk elref n ck r st with
      | error e => simp [factorLoop, hx] at h
      | ok res =>
        obtain ⟨v1, ts1, st1⟩ := res
        have hp := ih.primary ck r st v1 ts1 st1 hx
        cases hn : v1.oneNumber with
        | error e => simp [factorLoop, hx, hn] at h
        | ok y =>
          simp [factorLoop, hx, hn] at h
          have hl := ih.factorLoop ck _ ts1 st1 v ts' st' h
          exact Consumed.cons trivial (Consumed.trans hp hl)

theorem termLoop_shape (n : Nat) (ih : AllShape o lk elref n) (ck : List Str) (acc : α)
    (ts : List (Token α)) (st : σ) : Shape ts (termLoop o lk elref (n + 1) ck acc ts st) := by
  intro v ts' st' h
  cases ts with
  | nil =>
    simp [termLoop] at h
    obtain ⟨_, rfl, _⟩ := h
    exact Consumed.refl _
  | cons t r =>
    cases t with
    | number x =>
      simp [termLoop] at h
      obtain ⟨_, rfl, _⟩ := h
      exact Consumed.refl _
    | var x =>
      simp [termLoop] at h
      obtain ⟨_, rfl, _⟩ := h
      exact Consumed.refl _
    | elref x =>
      simp [termLoop] at h
      obtain ⟨_, rfl, _⟩ := h
      exact Consumed.refl _
    | string x =>
      simp [termLoop] at h
      obtain ⟨_, rfl, _⟩ := h
      exact Consumed.refl _
    | symbol x =>
      simp [termLoop] at h
      obtain ⟨_, rfl, _⟩ := h
      exact Consumed.refl _
    | openParen =>
      simp [termLoop] at h
      obtain ⟨_, rfl, _⟩ := h
      exact Consumed.refl _
    | closeParen =>
      simp [termLoop] at h
      obtain ⟨_, rfl, _⟩ := h
      exact Consumed.refl _
    | comma =>
      simp [termLoop] at h
      obtain ⟨_, rfl, _⟩ := h
      exact Consumed.refl _
    | add =>
      cases hx : factor o lk elref n ck r st with
      | error e => simp [termLoop, hx] at h
      | ok res =>
        obtain ⟨v1, ts1, st1⟩ := res
        have hp := ih.factor ck r st v1 ts1 st1 hx
        cases hn : v1.oneNumber with
        | error e => simp [termLoop, hx, hn] at h
        | ok y =>
          simp [termLoop, hx, hn] at h
          have hl := ih.termLoop ck _ ts1 st1 v ts' st' h
          exact Consumed.cons trivial (Consumed.trans hp hl)
    | sub =>
      cases hx : factor o lk elref n ck r st with
      | error e => simp [termLoop, hx] at h
      | ok res =>
        obtain ⟨v1, ts1, st1⟩ := res
        have hp := ih.factor ck r st v1 ts1 st1 hx
        cases hn : v1.oneNumber with
        | error e => simp [termLoop, hx, hn] at h
        | ok y =>
          simp [termLoop, hx, hn] at h
          have hl := ih.termLoop ck _ ts1 st1 v ts' st' h
          exact Consumed.cons trivial (Consumed.trans hp hl)
    | mul =>
      simp [termLoop] at h
      obtain ⟨_, rfl, _⟩ := h
      exact Consumed.refl _
    | div =>
      simp [termLoop] at h
      obtain ⟨_, rfl, _⟩ := h
      exact Consumed.refl _
    | mod =>
      simp [termLoop] at h
      obtain ⟨_, rfl, _⟩ := h
      exact Consumed.refl _

theorem factor_shape (n : Nat) (ih : AllShape o lk elref n) (ck : List Str) (ts : List (Token α))
    (st : σ) : Shape ts (factor o lk elref (n + 1) ck ts st) := by
  intro v ts' st' h
  cases hx : primary o lk elref n ck ts st with
  | error e => simp [factor, hx] at h
  | ok res =>
    obtain ⟨v1, ts1, st1⟩ := res
    have hp := ih.primary ck ts st v1 ts1 st1 hx
    cases hn : v1.oneNumber with
    | error e =>
      simp [factor, hx, hn] at h
      obtain ⟨_, rfl, _⟩ := h
      exact hp
    | ok x =>
      cases hl : factorLoop o lk elref n ck x ts1 st1 with
      | error e => simp [factor, hx, hn, hl] at h
      | ok res2 =>
        obtain ⟨y, ts2, st2⟩ := res2
        have hq := ih.factorLoop ck x ts1 st1 y ts2 st2 hl
        simp [factor, hx, hn, hl] at h
        obtain ⟨_, rfl, _⟩ := h
        exact Consumed.trans hp hq

theorem term_shape (n : Nat) (ih : AllShape o lk elref n) (ck : List Str) (ts : List (Token α))
    (st : σ) : Shape ts (term o lk elref (n + 1) ck ts st) := by
  intro v ts' st' h
  cases hx : factor o lk elref n ck ts st with
  | error e => simp [term, hx] at h
  | ok res =>
    obtain ⟨v1, ts1, st1⟩ := res
    have hp := ih.factor ck ts st v1 ts1 st1 hx
    cases hn : v1.oneNumber with
    | error e =>
      simp [term, hx, hn] at h
      obtain ⟨_, rfl, _⟩ := h
      exact hp
    | ok x =>
      cases hl : termLoop o lk elref n ck x ts1 st1 with
      | error e => simp [term, hx, hn, hl] at h
      | ok res2 =>
        obtain ⟨y, ts2, st2⟩ := res2
        have hq := ih.termLoop ck x ts1 st1 y ts2 st2 hl
        simp [term, hx, hn, hl] at h
        obtain ⟨_, rfl, _⟩ := h
        exact Consumed.trans hp hq

theorem comparison_shape (n : Nat) (ih : AllShape o lk elref n) (ck : List Str) (ts : List (Token α))
    (st : σ) : Shape ts (comparison o lk elref (n + 1) ck ts st) := by
  intro v ts' st' h
  cases hx : term o lk elref n ck ts st with
  | error e => simp [comparison, hx] at h
  | ok res =>
    obtain ⟨v1, ts1, st1⟩ := res
    have hp := ih.term ck ts st v1 ts1 st1 hx
    cases hn : v1.oneNumber with
    | error e =>
      simp [comparison, hx, hn] at h
      obtain ⟨_, rfl, _⟩ := h
      exact hp
    | ok first =>
      cases ts1 with
      | nil => simp [comparison, hx, hn] at h; obtain ⟨_, h2, _⟩ := h; subst h2; exact hp
      | cons t r =>
        cases t with
        | symbol s =>
          cases hc : parseCmpOp s with
          | none => simp [comparison, hx, hn, hc] at h; obtain ⟨_, h2, _⟩ := h; subst h2; exact hp
          | some op =>
            cases hx2 : term o lk elref n ck r st1 with
            | error e => simp [comparison, hx, hn, hc, hx2] at h
            | ok res2 =>
              obtain ⟨v2, ts2, st2⟩ := res2
              have hq := ih.term ck r st1 v2 ts2 st2 hx2
              cases hn2 : v2.oneNumber with
              | error e => simp [comparison, hx, hn, hc, hx2, hn2] at h
              | ok second =>
                simp [comparison, hx, hn, hc, hx2, hn2] at h
                obtain ⟨_, rfl, _⟩ := h
                exact Consumed.trans hp
                  (Consumed.cons trivial hq)
        | _ => simp [comparison, hx, hn] at h; obtain ⟨_, h2, _⟩ := h; subst h2; exact hp

theorem logicalLoop_shape (n : Nat) (ih : AllShape o lk elref n) (ck : List Str) (acc : Value α)
    (ts : List (Token α)) (st : σ) :
    Shape ts (logicalLoop o lk elref (n + 1) ck acc ts st) := by
  intro v ts' st' h
  cases ts with
  | nil =>
    simp [logicalLoop] at h
    obtain ⟨_, rfl, _⟩ := h
    exact Consumed.refl _
  | cons t r =>
    cases t with
    | symbol s =>
      cases hc : parseLogOp s with
      | none =>
        simp [logicalLoop, hc] at h
        obtain ⟨_, rfl, _⟩ := h
        exact Consumed.refl _
      | some op =>
        cases hx : comparison o lk elref n ck r st with
        | error e => simp [logicalLoop, hc, hx] at h
        | ok res =>
          obtain ⟨v1, ts1, st1⟩ := res
          have hp := ih.comparison ck r st v1 ts1 st1 hx
          cases hn : v1.oneNumber with
          | error e => simp [logicalLoop, hc, hx, hn] at h
          | ok other =>
            cases ha : acc.oneNumber with
            | error e => simp [logicalLoop, hc, hx, hn, ha] at h
            | ok x =>
              simp [logicalLoop, hc, hx, hn, ha] at h
              have hl := ih.logicalLoop ck _ ts1 st1 v ts' st' h
              exact Consumed.cons trivial
                (Consumed.trans hp hl)
    | _ =>
      simp [logicalLoop] at h
      obtain ⟨_, rfl, _⟩ := h
      exact Consumed.refl _

theorem logical_shape (n : Nat) (ih : AllShape o lk elref n) (ck : List Str) (ts : List (Token α))
    (st : σ) : Shape ts (logical o lk elref (n + 1) ck ts st) := by
  intro v ts' st' h
  cases hx : comparison o lk elref n ck ts st with
  | error e => simp [logical, hx] at h
  | ok res =>
    obtain ⟨v1, ts1, st1⟩ := res
    have hp := ih.comparison ck ts st v1 ts1 st1 hx
    simp [logical, hx] at h
    exact Consumed.trans hp (ih.logicalLoop ck v1 ts1 st1 v ts' st' h)

theorem exprListLoop_shape (n : Nat) (ih : AllShape o lk elref n) (ck : List Str)
    (out : List (Atom α)) (ts : List (Token α)) (st : σ) :
    Shape ts (exprListLoop o lk elref (n + 1) ck out ts st) := by
  intro v ts' st' h
  cases hx : logical o lk elref n ck ts st with
  | error e => simp [exprListLoop, hx] at h
  | ok res =>
    obtain ⟨v1, ts1, st1⟩ := res
    have hp := ih.logical ck ts st v1 ts1 st1 hx
    cases ts1 with
    | nil =>
      simp [exprListLoop, hx] at h
      obtain ⟨_, rfl, _⟩ := h
      exact hp
    | cons t r =>
      cases t with
      | comma =>
        simp [exprListLoop, hx] at h
        exact Consumed.trans hp
          (Consumed.cons trivial (ih.exprListLoop ck _ r st1 v ts' st' h))
      | _ =>
        simp [exprListLoop, hx] at h
        obtain ⟨_, rfl, _⟩ := h
        exact hp

theorem exprList_shape (n : Nat) (ih : AllShape o lk elref n) (ck : List Str) (b : Bool)
    (ts : List (Token α)) (st : σ) : Shape ts (exprList o lk elref (n + 1) ck b ts st) := by
  intro v ts' st' h
  have loop : exprListLoop o lk elref n ck [] ts st = .ok (v, ts', st') → Consumed ts ts' :=
    ih.exprListLoop ck [] ts st v ts' st'
  cases b with
  | false => simp [exprList] at h; exact loop h
  | true =>
    cases ts with
    | nil => simp [exprList] at h; exact loop h
    | cons t r =>
      cases t with
      | closeParen =>
        simp [exprList] at h
        obtain ⟨_, rfl, _⟩ := h
        exact Consumed.refl _
      | _ => simp [exprList] at h; exact loop h

theorem allShape : ∀ n, AllShape o lk elref n
  | 0 => allShape_zero o lk elref
  | n + 1 =>
    have ih := allShape n
    { primary := primary_shape o lk elref n ih
      factorLoop := factorLoop_shape o lk elref n ih
      factor := factor_shape o lk elref n ih
      termLoop := termLoop_shape o lk elref n ih
      term := term_shape o lk elref n ih
      comparison := comparison_shape o lk elref n ih
      logicalLoop := logicalLoop_shape o lk elref n ih
      logical := logical_shape o lk elref n ih
      exprListLoop := exprListLoop_shape o lk elref n ih
      exprList := exprList_shape o lk elref n ih }

end

/-! ### 4. The simulation: a budget which covers the scan is never exhausted -/

section
variable {α σ : Type} (o : Ops α σ) (lk : Lookup α σ) (elref : Str → Res α)

/-- at fuel `n`, every function of the budgeted descent agrees with the plain one on token lists the
    budget fits -/
structure AllSim (n : Nat) : Prop where
  primary : ∀ dc ck ts st, FitsP dc ts →
    primaryD o lk elref n dc ck ts st = primary o lk elref n ck ts st
  factorLoop : ∀ dc ck acc ts st, Fits dc ts →
    factorLoopD o lk elref n dc ck acc ts st = factorLoop o lk elref n ck acc ts st
  factor : ∀ dc ck ts st, Fits dc ts →
    factorD o lk elref n dc ck ts st = factor o lk elref n ck ts st
  termLoop : ∀ dc ck acc ts st, Fits dc ts →
    termLoopD o lk elref n dc ck acc ts st = termLoop o lk elref n ck acc ts st
  term : ∀ dc ck ts st, Fits dc ts →
    termD o lk elref n dc ck ts st = term o lk elref n ck ts st
  comparison : ∀ dc ck ts st, Fits dc ts →
    comparisonD o lk elref n dc ck ts st = comparison o lk elref n ck ts st
  logicalLoop : ∀ dc ck acc ts st, Fits dc ts →
    logicalLoopD o lk elref n dc ck acc ts st = logicalLoop o lk elref n ck acc ts st
  logical : ∀ dc ck ts st, Fits dc ts →
    logicalD o lk elref n dc ck ts st = logical o lk elref n ck ts st
  exprListLoop : ∀ dc ck out ts st, Fits dc ts →
    exprListLoopD o lk elref n dc ck out ts st = exprListLoop o lk elref n ck out ts st
  exprList : ∀ dc ck b ts st, Fits dc ts →
    exprListD o lk elref n dc ck b ts st = exprList o lk elref n ck b ts st

theorem allSim_zero : AllSim o lk elref 0 := by
  constructor <;> intros <;>
    simp [primaryD, factorLoopD, factorD, termLoopD, termD, comparisonD, logicalLoopD, logicalD,
      exprListLoopD, exprListD, primary, factorLoop, factor, termLoop, term, comparison, logicalLoop,
      logical, exprListLoop, exprList]

theorem primary_sim (n : Nat) (ih : AllSim o lk elref n) (dc : Nat) (ck : List Str)
    (ts : List (Token α)) (st : σ) (hf : FitsP dc ts) :
    primaryD o lk elref (n + 1) dc ck ts st = primary o lk elref (n + 1) ck ts st := by
  cases ts with
  | nil => simp [primaryD, primary]
  | cons t r =>
    cases t with
    | openParen =>
      obtain ⟨k, rfl, hk⟩ := hf.openParen
      simp only [primaryD, primary]
      rw [ih.exprList k ck true r st hk]
      rfl
    | sub =>
      obtain ⟨k, rfl, hk⟩ := hf.sub
      simp only [primaryD, primary]
      rw [ih.primary k ck r st hk]
      rfl
    | symbol name =>
      simp only [primaryD, primary]
      cases parseFunction name with
      | unknown => rfl
      | unmodelled => rfl
      | known f =>
        cases r with
        | nil => rfl
        | cons t0 ts1 =>
          cases t0 <;> try rfl
          obtain ⟨k, rfl, hk⟩ := hf.symbol.openParen
          simp only []
          rw [ih.exprList k ck true ts1 st hk]
          rfl
    | _ => first | (simp [primaryD, primary]; done) | (simp only [primaryD, primary]; rfl)

theorem factorLoop_sim (n : Nat) (ih : AllSim o lk elref n) (dc : Nat) (ck : List Str) (acc : α)
    (ts : List (Token α)) (st : σ) (hf : Fits dc ts) :
    factorLoopD o lk elref (n + 1) dc ck acc ts st = factorLoop o lk elref (n + 1) ck acc ts st := by
  cases ts with
  | nil => simp [factorLoopD, factorLoop]
  | cons t r =>
    cases t <;> try (simp [factorLoopD, factorLoop]; done)
    all_goals
      have hr : Fits dc r := hf.tail trivial
      simp only [factorLoopD, factorLoop]
      rw [ih.primary dc ck r st hr.toP]
      cases hx : primary o lk elref n ck r st with
      | error e => rfl
      | ok res =>
        obtain ⟨v1, ts1, st1⟩ := res
        have hc := (allShape o lk elref n).primary ck r st v1 ts1 st1 hx
        dsimp only
        cases hn : v1.oneNumber with
        | error e => rfl
        | ok y => exact ih.factorLoop dc ck _ ts1 st1 (hr.consumed hc)

theorem factor_sim (n : Nat) (ih : AllSim o lk elref n) (dc : Nat) (ck : List Str)
    (ts : List (Token α)) (st : σ) (hf : Fits dc ts) :
    factorD o lk elref (n + 1) dc ck ts st = factor o lk elref (n + 1) ck ts st := by
  simp only [factorD, factor]
  rw [ih.primary dc ck ts st hf.toP]
  cases hx : primary o lk elref n ck ts st with
  | error e => rfl
  | ok res =>
    obtain ⟨v1, ts1, st1⟩ := res
    have hc := (allShape o lk elref n).primary ck ts st v1 ts1 st1 hx
    dsimp only
    cases hn : v1.oneNumber with
    | error e => rfl
    | ok x =>
      dsimp only
      rw [ih.factorLoop dc ck x ts1 st1 (hf.consumed hc)]
      rfl

theorem termLoop_sim (n : Nat) (ih : AllSim o lk elref n) (dc : Nat) (ck : List Str) (acc : α)
    (ts : List (Token α)) (st : σ) (hf : Fits dc ts) :
    termLoopD o lk elref (n + 1) dc ck acc ts st = termLoop o lk elref (n + 1) ck acc ts st := by
  cases ts with
  | nil => simp [termLoopD, termLoop]
  | cons t r =>
    cases t <;> try (simp [termLoopD, termLoop]; done)
    all_goals
      have hr : Fits dc r := hf.tail trivial
      simp only [termLoopD, termLoop]
      rw [ih.factor dc ck r st hr]
      cases hx : factor o lk elref n ck r st with
      | error e => rfl
      | ok res =>
        obtain ⟨v1, ts1, st1⟩ := res
        have hc := (allShape o lk elref n).factor ck r st v1 ts1 st1 hx
        dsimp only
        cases hn : v1.oneNumber with
        | error e => rfl
        | ok y => exact ih.termLoop dc ck _ ts1 st1 (hr.consumed hc)

theorem term_sim (n : Nat) (ih : AllSim o lk elref n) (dc : Nat) (ck : List Str)
    (ts : List (Token α)) (st : σ) (hf : Fits dc ts) :
    termD o lk elref (n + 1) dc ck ts st = term o lk elref (n + 1) ck ts st := by
  simp only [termD, term]
  rw [ih.factor dc ck ts st hf]
  cases hx : factor o lk elref n ck ts st with
  | error e => rfl
  | ok res =>
    obtain ⟨v1, ts1, st1⟩ := res
    have hc := (allShape o lk elref n).factor ck ts st v1 ts1 st1 hx
    dsimp only
    cases hn : v1.oneNumber with
    | error e => rfl
    | ok x =>
      dsimp only
      rw [ih.termLoop dc ck x ts1 st1 (hf.consumed hc)]
      rfl

theorem comparison_sim (n : Nat) (ih : AllSim o lk elref n) (dc : Nat) (ck : List Str)
    (ts : List (Token α)) (st : σ) (hf : Fits dc ts) :
    comparisonD o lk elref (n + 1) dc ck ts st = comparison o lk elref (n + 1) ck ts st := by
  simp only [comparisonD, comparison]
  rw [ih.term dc ck ts st hf]
  cases hx : term o lk elref n ck ts st with
  | error e => rfl
  | ok res =>
    obtain ⟨v1, ts1, st1⟩ := res
    have hc := (allShape o lk elref n).term ck ts st v1 ts1 st1 hx
    dsimp only
    cases hn : v1.oneNumber with
    | error e => rfl
    | ok first =>
      dsimp only
      cases ts1 with
      | nil => rfl
      | cons t r =>
        cases t <;> try rfl
        rename_i s
        dsimp only
        cases hcmp : parseCmpOp s with
        | none => rfl
        | some op =>
          dsimp only
          rw [ih.term dc ck r st1 ((hf.consumed hc).tail trivial)]
          rfl

theorem logicalLoop_sim (n : Nat) (ih : AllSim o lk elref n) (dc : Nat) (ck : List Str)
    (acc : Value α) (ts : List (Token α)) (st : σ) (hf : Fits dc ts) :
    logicalLoopD o lk elref (n + 1) dc ck acc ts st
      = logicalLoop o lk elref (n + 1) ck acc ts st := by
  cases ts with
  | nil => simp [logicalLoopD, logicalLoop]
  | cons t r =>
    cases t <;> try (simp [logicalLoopD, logicalLoop]; done)
    rename_i s
    simp only [logicalLoopD, logicalLoop]
    cases hl : parseLogOp s with
    | none => rfl
    | some op =>
      dsimp only
      have hr : Fits dc r := hf.tail trivial
      rw [ih.comparison dc ck r st hr]
      cases hx : comparison o lk elref n ck r st with
      | error e => rfl
      | ok res =>
        obtain ⟨v1, ts1, st1⟩ := res
        have hc := (allShape o lk elref n).comparison ck r st v1 ts1 st1 hx
        dsimp only
        cases hn : v1.oneNumber with
        | error e => rfl
        | ok other =>
          dsimp only
          cases ha : acc.oneNumber with
          | error e => rfl
          | ok x => exact ih.logicalLoop dc ck _ ts1 st1 (hr.consumed hc)

theorem logical_sim (n : Nat) (ih : AllSim o lk elref n) (dc : Nat) (ck : List Str)
    (ts : List (Token α)) (st : σ) (hf : Fits dc ts) :
    logicalD o lk elref (n + 1) dc ck ts st = logical o lk elref (n + 1) ck ts st := by
  simp only [logicalD, logical]
  rw [ih.comparison dc ck ts st hf]
  cases hx : comparison o lk elref n ck ts st with
  | error e => rfl
  | ok res =>
    obtain ⟨v1, ts1, st1⟩ := res
    have hc := (allShape o lk elref n).comparison ck ts st v1 ts1 st1 hx
    exact ih.logicalLoop dc ck v1 ts1 st1 (hf.consumed hc)

theorem exprListLoop_sim (n : Nat) (ih : AllSim o lk elref n) (dc : Nat) (ck : List Str)
    (out : List (Atom α)) (ts : List (Token α)) (st : σ) (hf : Fits dc ts) :
    exprListLoopD o lk elref (n + 1) dc ck out ts st
      = exprListLoop o lk elref (n + 1) ck out ts st := by
  simp only [exprListLoopD, exprListLoop]
  rw [ih.logical dc ck ts st hf]
  cases hx : logical o lk elref n ck ts st with
  | error e => rfl
  | ok res =>
    obtain ⟨v1, ts1, st1⟩ := res
    have hc := (allShape o lk elref n).logical ck ts st v1 ts1 st1 hx
    cases ts1 with
    | nil => rfl
    | cons t r =>
      cases t <;> try rfl
      exact ih.exprListLoop dc ck _ r st1 ((hf.consumed hc).tail trivial)

theorem exprList_sim (n : Nat) (ih : AllSim o lk elref n) (dc : Nat) (ck : List Str) (b : Bool)
    (ts : List (Token α)) (st : σ) (hf : Fits dc ts) :
    exprListD o lk elref (n + 1) dc ck b ts st = exprList o lk elref (n + 1) ck b ts st := by
  have loop := ih.exprListLoop dc ck [] ts st hf
  cases b with
  | false => simp only [exprListD, exprList]; exact loop
  | true =>
    cases ts with
    | nil => simp only [exprListD, exprList]; exact loop
    | cons t r => cases t <;> simp only [exprListD, exprList] <;> first | rfl | exact loop

theorem allSim : ∀ n, AllSim o lk elref n
  | 0 => allSim_zero o lk elref
  | n + 1 =>
    have ih := allSim n
    { primary := primary_sim o lk elref n ih
      factorLoop := factorLoop_sim o lk elref n ih
      factor := factor_sim o lk elref n ih
      termLoop := termLoop_sim o lk elref n ih
      term := term_sim o lk elref n ih
      comparison := comparison_sim o lk elref n ih
      logicalLoop := logicalLoop_sim o lk elref n ih
      logical := logical_sim o lk elref n ih
      exprListLoop := exprListLoop_sim o lk elref n ih
      exprList := exprList_sim o lk elref n ih }

/-- SOUNDNESS OF THE SCAN: with a budget of (at least) `nestingDepth ts` recursive re-entries the
    descent never exhausts it — the budgeted descent is the plain one, on every token list -/
theorem evaluateD_eq_evaluate (d : Nat) (ck : List Str) (ts : List (Token α)) (st : σ)
    (h : nestingDepth ts ≤ d) :
    evaluateD o lk elref d ck ts st = evaluate o lk elref ck ts st := by
  unfold evaluateD evaluate
  rw [(allSim o lk elref (fuelFor ts)).exprList d ck false ts st (fits_of_nestingDepth_le h)]
  rfl

end

section
variable {α σ : Type} (o : Ops α σ)

/-- the guard of `evaluateAt`: whenever it lets an expression through at nesting depth `base`, the
    descent stays within the `maxExprDepth - base` levels which are left -/
theorem evaluateAt_eq_evaluateD (lkB : Nat → Lookup α σ) (elref : Str → Res α) (base : Nat)
    (ck : List Str) (ts : List (Token α)) (st : σ) (h : base + nestingDepth ts ≤ maxExprDepth) :
    evaluateAt o lkB elref base ck ts st
      = evaluateD o (lkB (base + nestingDepth ts + 1)) elref (maxExprDepth - base) ck ts st := by
  unfold evaluateAt
  rw [if_neg (by omega)]
  exact (evaluateD_eq_evaluate o _ elref _ ck ts st (by omega)).symm

end

/-! ### 5. The budget only ever ADDS the answer `depthLimit` -/

section
variable {α σ : Type} (o : Ops α σ) (lk : Lookup α σ) (elref : Str → Res α)

/-- the budgeted answer is the plain answer, or `depthLimit` -/
abbrev OrLimit {β : Type} (rD r : Res β) : Prop := rD = r ∨ rD = .error .depthLimit

/-- close `OrLimit x x` after unfolding one step of the two descents -/
local macro "lim_same" : tactic => `(tactic| first
  | exact Or.inl rfl
  | (left
     simp [primaryD, factorLoopD, factorD, termLoopD, termD, comparisonD, logicalLoopD, logicalD,
       exprListLoopD, exprListD, primary, factorLoop, factor, termLoop, term, comparison,
       logicalLoop, logical, exprListLoop, exprList]
     done))

/-- close `OrLimit (.error .depthLimit) x` -/
local macro "lim_limit" : tactic => `(tactic| first
  | exact Or.inr rfl
  | (right; simp [primaryD]; done))

structure AllLim (n : Nat) : Prop where
  primary : ∀ dc ck ts st,
    OrLimit (primaryD o lk elref n dc ck ts st) (primary o lk elref n ck ts st)
  factorLoop : ∀ dc ck acc ts st,
    OrLimit (factorLoopD o lk elref n dc ck acc ts st) (factorLoop o lk elref n ck acc ts st)
  factor : ∀ dc ck ts st,
    OrLimit (factorD o lk elref n dc ck ts st) (factor o lk elref n ck ts st)
  termLoop : ∀ dc ck acc ts st,
    OrLimit (termLoopD o lk elref n dc ck acc ts st) (termLoop o lk elref n ck acc ts st)
  term : ∀ dc ck ts st,
    OrLimit (termD o lk elref n dc ck ts st) (term o lk elref n ck ts st)
  comparison : ∀ dc ck ts st,
    OrLimit (comparisonD o lk elref n dc ck ts st) (comparison o lk elref n ck ts st)
  logicalLoop : ∀ dc ck acc ts st,
    OrLimit (logicalLoopD o lk elref n dc ck acc ts st) (logicalLoop o lk elref n ck acc ts st)
  logical : ∀ dc ck ts st,
    OrLimit (logicalD o lk elref n dc ck ts st) (logical o lk elref n ck ts st)
  exprListLoop : ∀ dc ck out ts st,
    OrLimit (exprListLoopD o lk elref n dc ck out ts st) (exprListLoop o lk elref n ck out ts st)
  exprList : ∀ dc ck b ts st,
    OrLimit (exprListD o lk elref n dc ck b ts st) (exprList o lk elref n ck b ts st)

theorem allLim_zero : AllLim o lk elref 0 := by
  constructor <;> intros <;> left <;>
    simp [primaryD, factorLoopD, factorD, termLoopD, termD, comparisonD, logicalLoopD, logicalD,
      exprListLoopD, exprListD, primary, factorLoop, factor, termLoop, term, comparison, logicalLoop,
      logical, exprListLoop, exprList]

theorem primary_lim (n : Nat) (ih : AllLim o lk elref n) (dc : Nat) (ck : List Str)
    (ts : List (Token α)) (st : σ) :
    OrLimit (primaryD o lk elref (n + 1) dc ck ts st) (primary o lk elref (n + 1) ck ts st) := by
  cases ts with
  | nil => lim_same
  | cons t r =>
    cases t with
    | openParen =>
      cases dc with
      | zero => lim_limit
      | succ k =>
        simp only [primaryD, primary]
        rcases ih.exprList k ck true r st with h | h <;> rw [h]
        · lim_same
        · lim_limit
    | sub =>
      cases dc with
      | zero => lim_limit
      | succ k =>
        simp only [primaryD, primary]
        rcases ih.primary k ck r st with h | h <;> rw [h]
        · lim_same
        · lim_limit
    | symbol name =>
      simp only [primaryD, primary]
      cases parseFunction name with
      | unknown => lim_same
      | unmodelled => lim_same
      | known f =>
        cases r with
        | nil => lim_same
        | cons t0 ts1 =>
          cases t0 <;> try (lim_same; done)
          cases dc with
          | zero => lim_limit
          | succ k =>
            dsimp only
            rcases ih.exprList k ck true ts1 st with h | h <;> rw [h]
            · lim_same
            · lim_limit
    | _ => simp only [primaryD, primary] <;> lim_same

theorem factorLoop_lim (n : Nat) (ih : AllLim o lk elref n) (dc : Nat) (ck : List Str) (acc : α)
    (ts : List (Token α)) (st : σ) :
    OrLimit (factorLoopD o lk elref (n + 1) dc ck acc ts st)
      (factorLoop o lk elref (n + 1) ck acc ts st) := by
  cases ts with
  | nil => lim_same
  | cons t r =>
    cases t <;> try (lim_same; done)
    all_goals
      simp only [factorLoopD, factorLoop]
      rcases ih.primary dc ck r st with h | h <;> rw [h]
      · cases primary o lk elref n ck r st with
        | error e => lim_same
        | ok res =>
          obtain ⟨v1, ts1, st1⟩ := res
          dsimp only
          cases v1.oneNumber with
          | error e => lim_same
          | ok y => exact ih.factorLoop dc ck _ ts1 st1
      · lim_limit

theorem factor_lim (n : Nat) (ih : AllLim o lk elref n) (dc : Nat) (ck : List Str)
    (ts : List (Token α)) (st : σ) :
    OrLimit (factorD o lk elref (n + 1) dc ck ts st) (factor o lk elref (n + 1) ck ts st) := by
  simp only [factorD, factor]
  rcases ih.primary dc ck ts st with h | h <;> rw [h]
  · cases primary o lk elref n ck ts st with
    | error e => lim_same
    | ok res =>
      obtain ⟨v1, ts1, st1⟩ := res
      dsimp only
      cases v1.oneNumber with
      | error e => lim_same
      | ok x =>
        dsimp only
        rcases ih.factorLoop dc ck x ts1 st1 with h2 | h2 <;> rw [h2]
        · lim_same
        · lim_limit
  · lim_limit

theorem termLoop_lim (n : Nat) (ih : AllLim o lk elref n) (dc : Nat) (ck : List Str) (acc : α)
    (ts : List (Token α)) (st : σ) :
    OrLimit (termLoopD o lk elref (n + 1) dc ck acc ts st)
      (termLoop o lk elref (n + 1) ck acc ts st) := by
  cases ts with
  | nil => lim_same
  | cons t r =>
    cases t <;> try (lim_same; done)
    all_goals
      simp only [termLoopD, termLoop]
      rcases ih.factor dc ck r st with h | h <;> rw [h]
      · cases factor o lk elref n ck r st with
        | error e => lim_same
        | ok res =>
          obtain ⟨v1, ts1, st1⟩ := res
          dsimp only
          cases v1.oneNumber with
          | error e => lim_same
          | ok y => exact ih.termLoop dc ck _ ts1 st1
      · lim_limit

theorem term_lim (n : Nat) (ih : AllLim o lk elref n) (dc : Nat) (ck : List Str)
    (ts : List (Token α)) (st : σ) :
    OrLimit (termD o lk elref (n + 1) dc ck ts st) (term o lk elref (n + 1) ck ts st) := by
  simp only [termD, term]
  rcases ih.factor dc ck ts st with h | h <;> rw [h]
  · cases factor o lk elref n ck ts st with
    | error e => lim_same
    | ok res =>
      obtain ⟨v1, ts1, st1⟩ := res
      dsimp only
      cases v1.oneNumber with
      | error e => lim_same
      | ok x =>
        dsimp only
        rcases ih.termLoop dc ck x ts1 st1 with h2 | h2 <;> rw [h2]
        · lim_same
        · lim_limit
  · lim_limit

theorem comparison_lim (n : Nat) (ih : AllLim o lk elref n) (dc : Nat) (ck : List Str)
    (ts : List (Token α)) (st : σ) :
    OrLimit (comparisonD o lk elref (n + 1) dc ck ts st)
      (comparison o lk elref (n + 1) ck ts st) := by
  simp only [comparisonD, comparison]
  rcases ih.term dc ck ts st with h | h <;> rw [h]
  · cases term o lk elref n ck ts st with
    | error e => lim_same
    | ok res =>
      obtain ⟨v1, ts1, st1⟩ := res
      dsimp only
      cases v1.oneNumber with
      | error e => lim_same
      | ok first =>
        dsimp only
        cases ts1 with
        | nil => lim_same
        | cons t r =>
          cases t <;> try (lim_same; done)
          rename_i s
          dsimp only
          cases parseCmpOp s with
          | none => lim_same
          | some op =>
            dsimp only
            rcases ih.term dc ck r st1 with h2 | h2 <;> rw [h2]
            · lim_same
            · lim_limit
  · lim_limit

theorem logicalLoop_lim (n : Nat) (ih : AllLim o lk elref n) (dc : Nat) (ck : List Str)
    (acc : Value α) (ts : List (Token α)) (st : σ) :
    OrLimit (logicalLoopD o lk elref (n + 1) dc ck acc ts st)
      (logicalLoop o lk elref (n + 1) ck acc ts st) := by
  cases ts with
  | nil => lim_same
  | cons t r =>
    cases t <;> try (lim_same; done)
    rename_i s
    simp only [logicalLoopD, logicalLoop]
    cases parseLogOp s with
    | none => lim_same
    | some op =>
      dsimp only
      rcases ih.comparison dc ck r st with h | h <;> rw [h]
      · cases comparison o lk elref n ck r st with
        | error e => lim_same
        | ok res =>
          obtain ⟨v1, ts1, st1⟩ := res
          dsimp only
          cases v1.oneNumber with
          | error e => lim_same
          | ok other =>
            dsimp only
            cases acc.oneNumber with
            | error e => lim_same
            | ok x => exact ih.logicalLoop dc ck _ ts1 st1
      · lim_limit

theorem logical_lim (n : Nat) (ih : AllLim o lk elref n) (dc : Nat) (ck : List Str)
    (ts : List (Token α)) (st : σ) :
    OrLimit (logicalD o lk elref (n + 1) dc ck ts st) (logical o lk elref (n + 1) ck ts st) := by
  simp only [logicalD, logical]
  rcases ih.comparison dc ck ts st with h | h <;> rw [h]
  · cases comparison o lk elref n ck ts st with
    | error e => lim_same
    | ok res =>
      obtain ⟨v1, ts1, st1⟩ := res
      exact ih.logicalLoop dc ck v1 ts1 st1
  · lim_limit

theorem exprListLoop_lim (n : Nat) (ih : AllLim o lk elref n) (dc : Nat) (ck : List Str)
    (out : List (Atom α)) (ts : List (Token α)) (st : σ) :
    OrLimit (exprListLoopD o lk elref (n + 1) dc ck out ts st)
      (exprListLoop o lk elref (n + 1) ck out ts st) := by
  simp only [exprListLoopD, exprListLoop]
  rcases ih.logical dc ck ts st with h | h <;> rw [h]
  · cases logical o lk elref n ck ts st with
    | error e => lim_same
    | ok res =>
      obtain ⟨v1, ts1, st1⟩ := res
      cases ts1 with
      | nil => lim_same
      | cons t r =>
        cases t <;> try (lim_same; done)
        exact ih.exprListLoop dc ck _ r st1
  · lim_limit

theorem exprList_lim (n : Nat) (ih : AllLim o lk elref n) (dc : Nat) (ck : List Str) (b : Bool)
    (ts : List (Token α)) (st : σ) :
    OrLimit (exprListD o lk elref (n + 1) dc ck b ts st)
      (exprList o lk elref (n + 1) ck b ts st) := by
  have loop := ih.exprListLoop dc ck [] ts st
  cases b with
  | false => simp only [exprListD, exprList]; exact loop
  | true =>
    cases ts with
    | nil => simp only [exprListD, exprList]; exact loop
    | cons t r =>
      cases t <;> simp only [exprListD, exprList] <;> first | lim_same | exact loop

theorem allLim : ∀ n, AllLim o lk elref n
  | 0 => allLim_zero o lk elref
  | n + 1 =>
    have ih := allLim n
    { primary := primary_lim o lk elref n ih
      factorLoop := factorLoop_lim o lk elref n ih
      factor := factor_lim o lk elref n ih
      termLoop := termLoop_lim o lk elref n ih
      term := term_lim o lk elref n ih
      comparison := comparison_lim o lk elref n ih
      logicalLoop := logicalLoop_lim o lk elref n ih
      logical := logical_lim o lk elref n ih
      exprListLoop := exprListLoop_lim o lk elref n ih
      exprList := exprList_lim o lk elref n ih }

/-- with ANY budget the budgeted descent gives the plain answer or `depthLimit`: it never invents
    another value or another error -/
theorem evaluateD_eq_or_depthLimit (d : Nat) (ck : List Str) (ts : List (Token α)) (st : σ) :
    evaluateD o lk elref d ck ts st = evaluate o lk elref ck ts st ∨
      evaluateD o lk elref d ck ts st = .error .depthLimit := by
  unfold evaluateD evaluate
  rcases (allLim o lk elref (fuelFor ts)).exprList d ck false ts st with h | h <;> rw [h]
  · lim_same
  · lim_limit

end

/-! ### 6. Non-vacuity: the budget matters, and on these inputs the scan gives exactly what is needed -/

namespace DepthDemo

section
variable {σ : Type} (m : Libm Rat) (rnd : σ → Rat × σ) (rint : Int → Int → σ → Rat × σ)

def noVar : Lookup Rat σ := fun _ _ _ => .error .parse
def noRef : Str → Res Rat := fun _ => .error .reference

/-- `((1))` -/
def nested2 : List (Token Rat) := [.openParen, .openParen, .number 1, .closeParen, .closeParen]

/-- `-(-abs(1))`: every kind of re-entry -/
def mixed4 : List (Token Rat) :=
  [.sub, .openParen, .sub, .symbol cs!"abs", .openParen, .number 1, .closeParen, .closeParen]

/-- `1 - (2)`: a binary minus is counted like a unary one — the scan is an over-approximation -/
def binary1 : List (Token Rat) := [.number 1, .sub, .openParen, .number 2, .closeParen]

theorem nestingDepth_nested2 : nestingDepth nested2 = 2 := by decide

theorem nested2_budget1 (st : σ) :
    evaluateD (ratOps m rnd rint) noVar noRef 1 [] nested2 st = .error .depthLimit := by
  with_unfolding_all rfl

theorem nested2_budget2 (st : σ) :
    evaluateD (ratOps m rnd rint) noVar noRef 2 [] nested2 st = .ok (.list [.num 1], st) := by
  with_unfolding_all rfl

theorem nested2_plain (st : σ) :
    evaluate (ratOps m rnd rint) noVar noRef [] nested2 st = .ok (.list [.num 1], st) := by
  with_unfolding_all rfl

theorem nestingDepth_mixed4 : nestingDepth mixed4 = 4 := by decide

theorem mixed4_budget3 (st : σ) :
    evaluateD (ratOps m rnd rint) noVar noRef 3 [] mixed4 st = .error .depthLimit := by
  with_unfolding_all rfl

theorem mixed4_budget4 (st : σ) :
    evaluateD (ratOps m rnd rint) noVar noRef 4 [] mixed4 st = .ok (.list [.num 1], st) := by
  with_unfolding_all rfl

theorem nestingDepth_binary1 : nestingDepth binary1 = 2 := by decide

/-- here the descent needs only 1 where the scan says 2 -/
theorem binary1_budget1 (st : σ) :
    evaluateD (ratOps m rnd rint) noVar noRef 1 [] binary1 st
      = evaluate (ratOps m rnd rint) noVar noRef [] binary1 st := by
  with_unfolding_all rfl

theorem binary1_budget0 (st : σ) :
    evaluateD (ratOps m rnd rint) noVar noRef 0 [] binary1 st = .error .depthLimit := by
  with_unfolding_all rfl

/-- an unbalanced `)`: both descents answer `ParseError`, whatever the budget the scan asks for -/
theorem unbalanced_agree (st : σ) :
    evaluateD (ratOps m rnd rint) noVar noRef
        (nestingDepth ([.closeParen, .openParen, .number 1, .closeParen] : List (Token Rat))) []
        [.closeParen, .openParen, .number 1, .closeParen] st = .error .parse := by
  with_unfolding_all rfl

end
end DepthDemo

/-! ### 7. Axioms -/

#print axioms allShape
#print axioms allSim
#print axioms evaluateD_eq_evaluate
#print axioms evaluateAt_eq_evaluateD
#print axioms allLim
#print axioms evaluateD_eq_or_depthLimit
#print axioms DepthDemo.nestingDepth_nested2
#print axioms DepthDemo.nested2_budget1
#print axioms DepthDemo.nested2_budget2
#print axioms DepthDemo.nested2_plain
#print axioms DepthDemo.nestingDepth_mixed4
#print axioms DepthDemo.mixed4_budget3
#print axioms DepthDemo.mixed4_budget4
#print axioms DepthDemo.nestingDepth_binary1
#print axioms DepthDemo.binary1_budget1
#print axioms DepthDemo.binary1_budget0
#print axioms DepthDemo.unbalanced_agree

end Expr
end Svgdx
