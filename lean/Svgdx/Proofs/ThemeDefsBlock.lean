/-
  Svgdx.Proofs.ThemeDefsBlock — the `<defs>` block of `write_auto_styles` is well-formed XML content.

  A definition text is described by a list of PIECES (`Piece`: white space, start tag, empty-element tag, end tag;
  tags written the way themes.rs writes them, including the blank before `>` of `<pattern … >`).  `DefOk d` says that
  `d` is the text of a balanced piece list with XML Names, unique attribute names, attribute values without
  `< > & ' "` and line ends, ending in an end tag.  Proved:
   * `defOk_wf`: such a text is accepted by the recogniser `Xml.Spec.wfContent`;
   * `patternDef_ok` / `pattern_defs_wf`: every pattern definition the builder emits, for an ARBITRARY class it
     accepts (any spelling of the number) and any spacing, is such a text - from the closed form `patternDef_eq`
     and character facts, not by evaluation; `fixed_defs_ok`: so are the arrow marker and the two shadow filters;
     `build_defs_ok`: hence every element of `(buildWith order cfg cs es).1`;
   * `indentEntry_eq`: `indent_all` on a text without CR that does not end in a newline puts the indentation in
     front and behind every newline; on a piece list this touches white-space pieces only (`indentEntry_pieces`);
   * `defsBlock_wacc` / `defsBlock_wellformed` / `build_defsBlock_wellformed`: `defsBlock debug defs` is accepted,
     in front of any accepted rest;
   * `autoStyleText_wacc` / `autoStyleText_wellformed` / `autoStyles_wellformed`: the whole injected text;
   * `inject_after_root`: root start tag ++ injected text ++ rest is accepted when the rest is accepted inside
     the root.
-/
import Svgdx.Proofs.ThemeDefsWf
namespace Svgdx.Theme
open Svgdx Str Xml Spec

/-! ### acceptance behind pending white space -/

def wsCh (c : Char) : Bool := c == ' ' || c == '\n'
def AllWs (w : Str) : Prop := ∀ x ∈ w, wsCh x = true

theorem allWs_append {a b : Str} (ha : AllWs a) (hb : AllWs b) : AllWs (a ++ b) := by
  intro x hx
  rcases List.mem_append.mp hx with h | h
  · exact ha x h
  · exact hb x h

theorem allWs_replicate (n : Nat) : AllWs (List.replicate n ' ') := by
  intro x hx
  rw [List.eq_of_mem_replicate hx]; rfl

theorem refsOk_of_no_amp (s : Str) (h : ∀ c ∈ s, c ≠ '&') : refsOk s = true := by
  induction s with
  | nil => rfl
  | cons c r ih =>
    have hc : (c != '&') = true := by simpa using h c (by simp)
    simp [refsOk, hc, ih (fun d hd => h d (by simp [hd]))]

theorem ws_facts {w : Str} (hw : AllWs w) : (∀ c ∈ w, c ≠ '<') ∧ charDataOk w = true := by
  have hne : ∀ (a : Char), wsCh a = false → ∀ c ∈ w, c ≠ a := by
    intro a ha c hc e
    subst e
    rw [hw c hc] at ha; cases ha
  refine ⟨hne '<' (by decide), ?_⟩
  simp only [charDataOk, Bool.and_eq_true]
  exact ⟨refsOk_of_no_amp w (hne '&' (by decide)), noCDEnd_of_no_gt w (hne '>' (by decide))⟩

/-- `s` is accepted (open elements `stk`) also when white space stands in front of it -/
def WAcc (stk : List Str) (s : Str) : Prop := ∀ w, AllWs w → Acc stk (w ++ s)

theorem WAcc.acc {stk : List Str} {s : Str} (h : WAcc stk s) : Acc stk s := by
  simpa using h [] (by intro x hx; cases hx)

theorem wacc_ws {stk : List Str} {v s : Str} (hv : AllWs v) (h : WAcc stk s) : WAcc stk (v ++ s) := by
  intro w hw
  rw [← List.append_assoc]
  exact h (w ++ v) (allWs_append hw hv)

theorem wacc_of_startsLt {stk : List Str} {s : Str} (hs : StartsLt s) (h : Acc stk s) : WAcc stk s := by
  intro w hw
  by_cases hne : w = []
  · subst hne; simpa using h
  · exact acc_text stk w s hne (ws_facts hw).1 (ws_facts hw).2 hs h

theorem wacc_nil : WAcc [] [] := wacc_of_startsLt (Or.inl rfl) acc_nil

/-! ### tags as themes.rs writes them -/

def attrSafe (c : Char) : Bool := c != '<' && c != '>' && c != '&' && c != '\'' && c != '"'
/-- a character of an attribute value that needs no escaping and is no line end -/
def valCh (c : Char) : Bool := attrSafe c && c != '\n' && c != '\r'

theorem escape_plain (v : Str) (h : ∀ x ∈ v, attrSafe x = true) : escape v = v := by
  induction v with
  | nil => rfl
  | cons c r ih =>
    have hc := h c (by simp)
    simp only [attrSafe, Bool.and_eq_true, bne_iff_ne, ne_eq] at hc
    have : escChar c = [c] := by
      unfold escChar
      split <;> simp_all
    simp [escape, this, ih (fun x hx => h x (by simp [hx]))]

structure RawTag where
  name : Str
  attrs : List (Str × Str)
  /-- a blank before the closing `>` -/
  sp : Bool := false

def rawAttrs (l : List (Str × Str)) : Str := l.flatMap fun kv => ' ' :: (kv.1 ++ '=' :: '"' :: (kv.2 ++ ['"']))

def tagClose (sp emp : Bool) : Str := (if sp then [' '] else []) ++ (if emp then cs!"/>" else ['>'])

def RawTag.text (t : RawTag) (emp : Bool) : Str := '<' :: (t.name ++ (rawAttrs t.attrs ++ tagClose t.sp emp))

structure RawTag.Ok (t : RawTag) : Prop where
  name : isName t.name = true
  keys : (t.attrs.map Prod.fst).all isName = true
  nodup : (t.attrs.map Prod.fst).Nodup
  vals : ∀ kv ∈ t.attrs, ∀ x ∈ kv.2, valCh x = true

theorem valCh_safe {x : Char} (h : valCh x = true) : attrSafe x = true := by
  simp only [valCh, Bool.and_eq_true] at h; exact h.1.1

theorem rawAttrs_eq (l : List (Str × Str)) (h : ∀ kv ∈ l, ∀ x ∈ kv.2, valCh x = true) : rawAttrs l = attrsText l := by
  induction l with
  | nil => rfl
  | cons kv l ih =>
    have e := escape_plain kv.2 (fun x hx => valCh_safe (h kv (by simp) x hx))
    have ih' := ih (fun kv' hkv x hx => h kv' (by simp [hkv]) x hx)
    simp only [rawAttrs, attrsText, List.flatMap_cons] at ih' ⊢
    rw [ih']
    simp [attrText, e]

theorem tagTail_attrs_tl (l : List (Str × Str)) (hk : ∀ kv ∈ l, isName kv.1 = true) (tl after : Str) (emp : Bool)
    (htl : ∀ f acc, tagTail (f + 1) tl acc = some (acc.reverse, emp, after)) :
    ∀ fuel acc, l.length < fuel →
      tagTail fuel (attrsText l ++ tl) acc = some (acc.reverse ++ l.map Prod.fst, emp, after) := by
  induction l with
  | nil =>
    intro fuel acc hf
    obtain ⟨f, rfl⟩ : ∃ f, fuel = f + 1 := ⟨fuel - 1, by simp at hf; omega⟩
    simpa [attrsText] using htl f acc
  | cons kv l ih =>
    intro fuel acc hf
    obtain ⟨f, rfl⟩ : ∃ f, fuel = f + 1 := ⟨fuel - 1, by simp at hf; omega⟩
    obtain ⟨k, v⟩ := kv
    have hkn : isName k = true := hk (k, v) (by simp)
    have ih' := ih (fun kv hkv => hk kv (by simp [hkv])) f (k :: acc) (by simp at hf; omega)
    cases hkc : k with
    | nil => rw [hkc] at hkn; simp [isName] at hkn
    | cons c kt =>
      have hc : isNameStart c = true := by
        rw [hkc] at hkn; simp only [isName, Bool.and_eq_true] at hkn; exact hkn.1
      obtain ⟨c1, c2, _, _, c5, _⟩ := nameStart_facts hc
      have e1 : ('>' == c) = false := by simpa using fun e => c1 e.symm
      have e2 : ('/' == c) = false := by simpa using fun e => c2 e.symm
      have hs : attrsText ((k, v) :: l) ++ tl =
          ' ' :: (k ++ '=' :: '"' :: (escape v ++ '"' :: (attrsText l ++ tl))) := by
        simp [attrsText, attrText]
      have hsp : isS ' ' = true := by decide
      have hsk : skipS (' ' :: (k ++ '=' :: '"' :: (escape v ++ '"' :: (attrsText l ++ tl)))) =
          k ++ '=' :: '"' :: (escape v ++ '"' :: (attrsText l ++ tl)) := by
        rw [hkc]
        simp only [skipS, List.cons_append, List.dropWhile_cons, hsp, c5, if_true, Bool.false_eq_true, if_false]
      have hp1 : stripPrefix ['>'] (k ++ '=' :: '"' :: (escape v ++ '"' :: (attrsText l ++ tl))) = none := by
        rw [hkc]; simp [stripPrefix, e1]
      have hp2 : stripPrefix cs!"/>" (k ++ '=' :: '"' :: (escape v ++ '"' :: (attrsText l ++ tl))) = none := by
        rw [hkc]; simp [stripPrefix, e2]
      rw [← hkc, hs, tagTail]
      simp only [hsk, hp1, hp2, startsS, hsp, if_true, attrSpec_attr k v _ hkn, ih']
      simp

theorem tagClose_tail (sp emp : Bool) (rest : Str) :
    ∀ f acc, tagTail (f + 1) (tagClose sp emp ++ rest) acc = some (acc.reverse, emp, rest) := by
  intro f acc
  cases sp <;> cases emp <;> simp [tagClose, tagTail, skipS, isS, stripPrefix]

/-- one start / empty-element tag -/
theorem acc_rawtag (stk : List Str) (t : RawTag) (emp : Bool) (rest : Str) (ht : t.Ok)
    (h : Acc (if emp then stk else t.name :: stk) rest) : Acc stk (t.text emp ++ rest) := by
  intro f hf
  obtain ⟨k, rfl⟩ : ∃ k, f = k + 1 := ⟨f - 1, by omega⟩
  have hkeys : ∀ kv ∈ t.attrs, isName kv.1 = true := by
    intro kv hkv
    exact List.all_eq_true.mp ht.keys kv.1 (List.mem_map.mpr ⟨kv, hkv, rfl⟩)
  have htext : t.text emp ++ rest = '<' :: (t.name ++ (attrsText t.attrs ++ (tagClose t.sp emp ++ rest))) := by
    simp [RawTag.text, rawAttrs_eq t.attrs ht.vals]
  rw [htext] at hf ⊢
  have hfollow : ∀ c r, attrsText t.attrs ++ (tagClose t.sp emp ++ rest) = c :: r → isNameChar c = false := by
    intro c r hcr
    cases ha : t.attrs with
    | nil =>
      rw [ha] at hcr
      cases hsp : t.sp <;> cases emp <;> (simp [attrsText, tagClose, hsp] at hcr; rw [← hcr.1]; decide)
    | cons kv l =>
      rw [ha] at hcr
      simp [attrsText, attrText] at hcr
      rw [← hcr.1]; decide
  have htn := takeName_append t.name _ ht.name hfollow
  have htt := tagTail_attrs_tl t.attrs hkeys (tagClose t.sp emp ++ rest) rest emp (tagClose_tail t.sp emp rest)
    ((attrsText t.attrs ++ (tagClose t.sp emp ++ rest)).length + 1) [] (by
      have : t.attrs.length ≤ (attrsText t.attrs).length := by
        generalize t.attrs = l
        induction l with
        | nil => simp
        | cons kv l ih => simp [attrsText, attrText] at ih ⊢; omega
      simp only [List.length_append]; omega)
  cases hnm : t.name with
  | nil => have := ht.name; rw [hnm] at this; simp [isName] at this
  | cons c nt =>
    have hc : isNameStart c = true := by
      have := ht.name; rw [hnm] at this; simp only [isName, Bool.and_eq_true] at this; exact this.1
    obtain ⟨_, c2, c3, _, _, _⟩ := nameStart_facts hc
    have e2 : ('/' == c) = false := by simpa using fun e => c2 e.symm
    have e3 : ('!' == c) = false := by simpa using fun e => c3 e.symm
    rw [hnm] at htn
    simp only [List.cons_append] at htn hf ⊢
    simp only [content, stripPrefix, e2, e3]
    simp only [bne_self_eq_false, Bool.false_eq_true, if_false, htn, htt, List.reverse_nil, List.nil_append,
      (distinct_iff _).mpr ht.nodup, Bool.true_and]
    rw [← hnm]
    exact h k (by simp at hf; omega)

theorem isNameChar_noNl {c : Char} (h : isNameChar c = true) : c ≠ '\n' ∧ c ≠ '\r' :=
  ⟨by rintro rfl; revert h; decide, by rintro rfl; revert h; decide⟩

def NoNl (s : Str) : Prop := ∀ x ∈ s, x ≠ '\n' ∧ x ≠ '\r'

theorem noNl_append {a b : Str} (ha : NoNl a) (hb : NoNl b) : NoNl (a ++ b) := by
  intro x hx
  rcases List.mem_append.mp hx with h | h
  · exact ha x h
  · exact hb x h

theorem noNl_cons {c : Char} {b : Str} (hc : c ≠ '\n' ∧ c ≠ '\r') (hb : NoNl b) : NoNl (c :: b) := by
  intro x hx
  rcases List.mem_cons.mp hx with rfl | h
  · exact hc
  · exact hb x h

theorem noNl_name {n : Str} (h : isName n = true) : NoNl n := by
  intro x hx
  exact isNameChar_noNl (List.all_eq_true.mp (isName_all h) x hx)

theorem rawAttrs_noNl (l : List (Str × Str)) (hk : ∀ kv ∈ l, isName kv.1 = true)
    (hv : ∀ kv ∈ l, ∀ x ∈ kv.2, valCh x = true) : NoNl (rawAttrs l) := by
  induction l with
  | nil => intro x hx; cases hx
  | cons kv l ih =>
    have hval : NoNl kv.2 := by
      intro x hx
      have := hv kv (by simp) x hx
      simp only [valCh, Bool.and_eq_true, bne_iff_ne, ne_eq] at this
      exact ⟨this.1.2, this.2⟩
    simp only [rawAttrs, List.flatMap_cons]
    refine noNl_append (noNl_cons (by decide) (noNl_append (noNl_name (hk kv (by simp)))
      (noNl_cons (by decide) (noNl_cons (by decide) (noNl_append hval (noNl_cons (by decide) (by intro x hx; cases hx))))))) ?_
    exact ih (fun kv' h => hk kv' (by simp [h])) (fun kv' h => hv kv' (by simp [h]))

theorem rawtag_noNl (t : RawTag) (emp : Bool) (ht : t.Ok) : NoNl (t.text emp) := by
  have hkeys : ∀ kv ∈ t.attrs, isName kv.1 = true := by
    intro kv hkv
    exact List.all_eq_true.mp ht.keys kv.1 (List.mem_map.mpr ⟨kv, hkv, rfl⟩)
  have hc : NoNl (tagClose t.sp emp) := by
    unfold NoNl
    cases t.sp <;> cases emp <;> decide
  exact noNl_cons (by decide) (noNl_append (noNl_name ht.name) (noNl_append (rawAttrs_noNl _ hkeys ht.vals) hc))

/-! ### piece lists -/

inductive Piece where
  | ws (w : Str)
  | start (t : RawTag)
  | empty (t : RawTag)
  | end_ (n : Str)

def Piece.render : Piece → Str
  | .ws w => w
  | .start t => t.text false
  | .empty t => t.text true
  | .end_ n => cs!"</" ++ n ++ ['>']

def Piece.Ok : Piece → Prop
  | .ws w => AllWs w
  | .start t => t.Ok
  | .empty t => t.Ok
  | .end_ n => isName n = true

/-- the nesting check of `Ctl.check`, for pieces -/
def pchk : List Str → List Piece → Option (List Str)
  | stk, [] => some stk
  | stk, .ws _ :: r => pchk stk r
  | stk, .start t :: r => pchk (t.name :: stk) r
  | stk, .empty _ :: r => pchk stk r
  | [], .end_ _ :: _ => none
  | n :: stk, .end_ m :: r => if n = m then pchk stk r else none

def renderAll (ps : List Piece) : Str := ps.flatMap Piece.render

/-- **a balanced piece list is accepted**, below any open elements `base` and in front of any accepted rest -/
theorem wacc_pieces (base : List Str) (rest : Str) (stk' : List Str) (hrest : WAcc (stk' ++ base) rest) :
    ∀ (ps : List Piece) (stk : List Str), (∀ p ∈ ps, p.Ok) → pchk stk ps = some stk' →
      WAcc (stk ++ base) (renderAll ps ++ rest) := by
  intro ps
  induction ps with
  | nil =>
    intro stk _ hc
    simp only [pchk, Option.some.injEq] at hc
    subst hc
    simpa [renderAll] using hrest
  | cons p ps ih =>
    intro stk hok hc
    have hp := hok p (by simp)
    have ih' := fun s => ih s (fun q hq => hok q (by simp [hq]))
    have e : renderAll (p :: ps) ++ rest = p.render ++ (renderAll ps ++ rest) := by simp [renderAll]
    rw [e]
    cases p with
    | ws w =>
      simp only [pchk] at hc
      exact wacc_ws hp (ih' stk hc)
    | start t =>
      simp only [pchk] at hc
      apply wacc_of_startsLt (Or.inr ⟨_, rfl⟩)
      exact acc_rawtag (stk ++ base) t false _ hp (by simpa using (ih' (t.name :: stk) hc).acc)
    | empty t =>
      simp only [pchk] at hc
      apply wacc_of_startsLt (Or.inr ⟨_, rfl⟩)
      exact acc_rawtag (stk ++ base) t true _ hp (by simpa using (ih' stk hc).acc)
    | end_ n =>
      cases stk with
      | nil => simp [pchk] at hc
      | cons top stk2 =>
        simp only [pchk] at hc
        split at hc
        · rename_i heq
          subst heq
          apply wacc_of_startsLt (Or.inr ⟨_, rfl⟩)
          have := acc_end (stk2 ++ base) top (renderAll ps ++ rest) hp (ih' stk2 hc).acc
          simpa [Piece.render] using this
        · cases hc

/-- last piece is an end tag -/
def endsEnd (ps : List Piece) : Bool :=
  match ps.getLast? with
  | some (.end_ _) => true
  | _ => false

/-- `d` is the text of the piece list `ps`: balanced, pieces in order, ending in an end tag -/
structure PiecesFor (d : Str) (ps : List Piece) : Prop where
  text : d = renderAll ps
  ok : ∀ p ∈ ps, p.Ok
  bal : pchk [] ps = some []
  last : endsEnd ps = true

/-- a definition text of the shape themes.rs produces -/
def DefOk (d : Str) : Prop := ∃ ps, PiecesFor d ps

theorem piecesFor_wacc {d : Str} {ps : List Piece} (h : PiecesFor d ps) (base : List Str) (rest : Str)
    (hrest : WAcc base rest) : WAcc base (d ++ rest) := by
  rw [h.text]
  simpa using wacc_pieces base rest [] (by simpa using hrest) ps [] h.ok h.bal

/-- **such a text is well-formed content** -/
theorem defOk_wf {d : Str} (h : DefOk d) : wfContent d = true := by
  obtain ⟨ps, hps⟩ := h
  have := (piecesFor_wacc hps [] [] wacc_nil).acc
  simp only [List.append_nil] at this
  exact this _ (by omega)

/-! ### the definitions of themes.rs as piece lists -/

instance (t : RawTag) : Decidable t.Ok :=
  decidable_of_iff (isName t.name = true ∧ (t.attrs.map Prod.fst).all isName = true ∧ (t.attrs.map Prod.fst).Nodup ∧
      ∀ kv ∈ t.attrs, ∀ x ∈ kv.2, valCh x = true)
    ⟨fun h => ⟨h.1, h.2.1, h.2.2.1, h.2.2.2⟩, fun h => ⟨h.name, h.keys, h.nodup, h.vals⟩⟩

instance (p : Piece) : Decidable p.Ok := by
  cases p <;> unfold Piece.Ok <;> (try unfold AllWs) <;> infer_instance

instance (d : Str) (ps : List Piece) : Decidable (PiecesFor d ps) :=
  decidable_of_iff (d = renderAll ps ∧ (∀ p ∈ ps, p.Ok) ∧ pchk [] ps = some [] ∧ endsEnd ps = true)
    ⟨fun h => ⟨h.1, h.2.1, h.2.2.1, h.2.2.2⟩, fun h => ⟨h.text, h.ok, h.bal, h.last⟩⟩

def arrowPieces : List Piece :=
  [ .start ⟨cs!"marker", [(cs!"id", cs!"d-arrow"), (cs!"refX", cs!"1"), (cs!"refY", cs!"0.5"),
      (cs!"orient", cs!"auto-start-reverse"), (cs!"markerWidth", cs!"6"), (cs!"markerHeight", cs!"5"),
      (cs!"viewBox", cs!"0 0 1 1")], false⟩,
    .ws cs!"\n  ",
    .empty ⟨cs!"path", [(cs!"d", cs!"M 0 0 1 0.4 1 0.6 0 1"), (cs!"style", cs!"stroke: none; fill: context-stroke;")], false⟩,
    .ws cs!"\n", .end_ cs!"marker" ]

def filterPieces (id sd k2 : Str) : List Piece :=
  [ .start ⟨cs!"filter", [(cs!"id", id), (cs!"x", cs!"-50%"), (cs!"y", cs!"-50%"), (cs!"width", cs!"200%"),
      (cs!"height", cs!"200%")], false⟩,
    .ws cs!"\n  ",
    .empty ⟨cs!"feGaussianBlur", [(cs!"in", cs!"SourceAlpha"), (cs!"stdDeviation", sd)], false⟩,
    .ws cs!"\n  ",
    .empty ⟨cs!"feOffset", [(cs!"dx", cs!"1"), (cs!"dy", cs!"1")], false⟩,
    .ws cs!"\n  ",
    .empty ⟨cs!"feComposite", [(cs!"in2", cs!"SourceGraphic"), (cs!"operator", cs!"arithmetic"), (cs!"k1", cs!"0"),
      (cs!"k2", k2), (cs!"k3", cs!"1"), (cs!"k4", cs!"0")], false⟩,
    .ws cs!"\n", .end_ cs!"filter" ]

def shadowPieces (fn : Str) : List Piece :=
  if fn == cs!"d_softshadow" then filterPieces cs!"d-softshadow" cs!"0.7" cs!"0.4"
  else filterPieces cs!"d-hardshadow" cs!"0.2" cs!"0.6"

/-- the arrow marker and the two shadow filters are such texts (by evaluation: they are constants of themes.rs) -/
theorem fixed_defs_ok :
    PiecesFor (nth ars 5) arrowPieces ∧
    ∀ p ∈ Gen.Theme.build_table, PiecesFor (nth (shadowStrings p.2) 1) (shadowPieces p.2) := by decide +kernel

/-! #### pattern definitions -/

theorem valCh_of_numChar {x : Char} (h : numChar x = true) : valCh x = true := by
  simp only [numChar, isDigit, Bool.or_eq_true, Bool.and_eq_true, decide_eq_true_eq, beq_iff_eq] at h
  rcases h with (⟨h1, h2⟩ | rfl) | rfl
  · have a : 48 ≤ x.toNat := UInt32.le_iff_toNat_le.mp h1
    have b : x.toNat ≤ 57 := UInt32.le_iff_toNat_le.mp h2
    simp only [valCh, attrSafe, Bool.and_eq_true, bne_iff_ne, ne_eq]
    refine ⟨⟨⟨⟨⟨⟨?_, ?_⟩, ?_⟩, ?_⟩, ?_⟩, ?_⟩, ?_⟩ <;> (rintro rfl; revert a b; decide)
  · decide
  · decide

theorem pattern_val_facts :
    (∀ row ∈ patternRows, (stem row).all valCh = true ∧
      (match row.rotate with | some r => r.all valCh | none => true) = true) := by decide +kernel

theorem theme_stroke_valCh (t : ThemeKind) : (themeStroke t).all valCh = true := by
  cases t <;> decide +kernel

theorem ptnId_valCh {row : PatternRow} (hrow : row ∈ patternRows) {c : Str} (hc : RowClass row c) :
    ∀ x ∈ ptnId c, valCh x = true := by
  obtain ⟨tail, _, hid, ht⟩ := rowClass_shape hrow hc
  rw [hid]
  intro x hx
  rcases List.mem_append.mp hx with h | h
  · exact List.all_eq_true.mp (pattern_val_facts row hrow).1 x h
  · rcases ht with rfl | ⟨suf, n, rfl, hp⟩
    · cases h
    · rcases List.mem_cons.mp h with rfl | h
      · decide
      · rcases (parseU32_chars hp).2 x h with rfl | hd
        · decide
        · exact valCh_of_numChar (by simp [numChar, hd])

def rotAttrs : Option Str → List (Str × Str)
  | some r => [(cs!"patternTransform", cs!"rotate(" ++ (r ++ cs!")"))]
  | none => []

set_option maxRecDepth 8000 in
theorem rotStr_eq (rot : Option Str) : rotStr rot = rawAttrs (rotAttrs rot) := by
  cases rot with
  | none => rfl
  | some r =>
    have : rotStr (some r) = cs!" patternTransform=\"rotate(" ++ (r ++ cs!")\"") := by rfl
    rw [this]
    simp [rotAttrs, rawAttrs]

def patTag (pid : Str) (n : Nat) (rot : Option Str) : RawTag :=
  ⟨cs!"pattern", [(cs!"id", pid), (cs!"x", cs!"0"), (cs!"y", cs!"0"), (cs!"width", natToStr n), (cs!"height", natToStr n)] ++
    (rotAttrs rot ++ [(cs!"patternUnits", cs!"userSpaceOnUse")]), true⟩

def rectTag : RawTag :=
  ⟨cs!"rect", [(cs!"width", cs!"100%"), (cs!"height", cs!"100%"), (cs!"style", cs!"stroke: none;")], false⟩

def lineTag0 (stroke : Str) (n : Nat) : RawTag :=
  ⟨cs!"line", [(cs!"x1", cs!"0"), (cs!"y1", cs!"0"), (cs!"x2", natToStr n), (cs!"y2", cs!"0"),
    (cs!"style", cs!"stroke-width: " ++ (Num.fstr (sqrtMilli n (pdNum 0)) ++ (cs!"; stroke: " ++ stroke)))], false⟩

def lineTag1 (stroke : Str) (n : Nat) : RawTag :=
  ⟨cs!"line", [(cs!"x1", cs!"0"), (cs!"y1", cs!"0"), (cs!"x2", cs!"0"), (cs!"y2", natToStr n),
    (cs!"style", cs!"stroke-width: " ++ (Num.fstr (sqrtMilli n (pdNum 0)) ++ (cs!"; stroke: " ++ stroke)))], false⟩

def lineTag2 (stroke : Str) (n : Nat) : RawTag :=
  ⟨cs!"circle", [(cs!"cx", Num.fstr ((n : Rat) / pdNum 1)), (cs!"cy", Num.fstr ((n : Rat) / pdNum 1)),
    (cs!"r", Num.fstr (sqrtMilli n (pdNum 2))), (cs!"style", cs!"stroke: none; fill: " ++ stroke)], false⟩

def linePieces (stroke : Str) (n : Nat) (ty : Str) : List Piece :=
  [(branch 0, lineTag0 stroke n), (branch 1, lineTag1 stroke n), (branch 2, lineTag2 stroke n)].flatMap
    fun bt => if bt.1.1.contains ty then [.empty bt.2] else []

def patternPieces (stroke c : Str) (n : Nat) (ty : Str) (rot : Option Str) : List Piece :=
  [.start (patTag (ptnId c) n rot), .ws cs!"\n  ", .empty rectTag, .ws cs!"\n  "] ++
    (linePieces stroke n ty ++ [.ws cs!"\n", .end_ cs!"pattern"])

theorem renderAll_append (a b : List Piece) : renderAll (a ++ b) = renderAll a ++ renderAll b := by
  simp [renderAll]

theorem linePieces_render (stroke : Str) (n : Nat) (ty : Str) :
    renderAll (linePieces stroke n ty) = patternLines stroke n ty := by
  have h0 : Piece.render (.empty (lineTag0 stroke n)) = fmt (branch 0).2 (lineNamed stroke n) [] := by
    rw [line0_eq]; simp [Piece.render, RawTag.text, lineTag0, rawAttrs, tagClose]
  have h1 : Piece.render (.empty (lineTag1 stroke n)) = fmt (branch 1).2 (lineNamed stroke n) [] := by
    rw [line1_eq]; simp [Piece.render, RawTag.text, lineTag1, rawAttrs, tagClose]
  have h2 : Piece.render (.empty (lineTag2 stroke n)) = fmt (branch 2).2 (lineNamed stroke n) [] := by
    rw [line2_eq]; simp [Piece.render, RawTag.text, lineTag2, rawAttrs, tagClose]
  rw [patternLines_eq, branches_eq]
  simp only [linePieces, renderAll, List.flatMap_cons, List.flatMap_nil, List.flatMap_append]
  congr 1
  · split <;> simp [h0]
  · congr 1
    · split <;> simp [h1]
    · congr 1
      split <;> simp [h2]

theorem patternPieces_render (stroke c : Str) (n : Nat) (ty : Str) (rot : Option Str) :
    patternDef stroke c n ty rot = renderAll (patternPieces stroke c n ty rot) := by
  rw [patternDef_eq, rotStr_eq]
  simp only [patternPieces, renderAll_append, linePieces_render]
  simp [renderAll, Piece.render, RawTag.text, patTag, rectTag, rawAttrs, tagClose, idPat]

/-! #### … and they are in order -/

theorem vals_nil : ∀ kv ∈ ([] : List (Str × Str)), ∀ x ∈ kv.2, valCh x = true := by intro kv h; cases h

theorem vals_cons {k v : Str} {l : List (Str × Str)} (hv : ∀ x ∈ v, valCh x = true)
    (hl : ∀ kv ∈ l, ∀ x ∈ kv.2, valCh x = true) : ∀ kv ∈ (k, v) :: l, ∀ x ∈ kv.2, valCh x = true := by
  intro kv hkv
  rcases List.mem_cons.mp hkv with rfl | h
  · exact hv
  · exact hl kv h

theorem vals_append {a b : List (Str × Str)} (ha : ∀ kv ∈ a, ∀ x ∈ kv.2, valCh x = true)
    (hb : ∀ kv ∈ b, ∀ x ∈ kv.2, valCh x = true) : ∀ kv ∈ a ++ b, ∀ x ∈ kv.2, valCh x = true := by
  intro kv hkv
  rcases List.mem_append.mp hkv with h | h
  · exact ha kv h
  · exact hb kv h

theorem val_lit (s : Str) (h : s.all valCh = true := by decide) : ∀ x ∈ s, valCh x = true :=
  List.all_eq_true.mp h

theorem val_app {a b : Str} (ha : ∀ x ∈ a, valCh x = true) (hb : ∀ x ∈ b, valCh x = true) :
    ∀ x ∈ a ++ b, valCh x = true := by
  intro x hx
  rcases List.mem_append.mp hx with h | h
  · exact ha x h
  · exact hb x h

theorem val_nat (n : Nat) : ∀ x ∈ natToStr n, valCh x = true :=
  fun x hx => valCh_of_numChar (natToStr_numChar n x hx)

theorem val_fstr (q : Rat) : ∀ x ∈ Num.fstr q, valCh x = true :=
  fun x hx => valCh_of_numChar (fstr_numChar q x hx)

theorem patTag_ok {pid : Str} (n : Nat) {rot : Option Str} (hpid : ∀ x ∈ pid, valCh x = true)
    (hrot : ∀ r, rot = some r → ∀ x ∈ r, valCh x = true) : (patTag pid n rot).Ok := by
  refine ⟨by rfl, ?_, ?_, ?_⟩
  · cases rot <;> rfl
  · cases rot <;> simp [patTag, rotAttrs]
  · apply vals_append
    · exact vals_cons hpid (vals_cons (val_lit _) (vals_cons (val_lit _) (vals_cons (val_nat n) (vals_cons (val_nat n) vals_nil))))
    · apply vals_append
      · cases rot with
        | none => exact vals_nil
        | some r => exact vals_cons (val_app (val_lit _) (val_app (hrot r rfl) (val_lit _))) vals_nil
      · exact vals_cons (val_lit _) vals_nil

theorem lineTag0_ok {stroke : Str} (hs : ∀ x ∈ stroke, valCh x = true) (n : Nat) : (lineTag0 stroke n).Ok := by
  refine ⟨by rfl, by rfl, by simp [lineTag0], ?_⟩
  exact vals_cons (val_lit _) (vals_cons (val_lit _) (vals_cons (val_nat n) (vals_cons (val_lit _)
    (vals_cons (val_app (val_lit _) (val_app (val_fstr _) (val_app (val_lit _) hs))) vals_nil))))

theorem lineTag1_ok {stroke : Str} (hs : ∀ x ∈ stroke, valCh x = true) (n : Nat) : (lineTag1 stroke n).Ok := by
  refine ⟨by rfl, by rfl, by simp [lineTag1], ?_⟩
  exact vals_cons (val_lit _) (vals_cons (val_lit _) (vals_cons (val_lit _) (vals_cons (val_nat n)
    (vals_cons (val_app (val_lit _) (val_app (val_fstr _) (val_app (val_lit _) hs))) vals_nil))))

theorem lineTag2_ok {stroke : Str} (hs : ∀ x ∈ stroke, valCh x = true) (n : Nat) : (lineTag2 stroke n).Ok := by
  refine ⟨by rfl, by rfl, by simp [lineTag2], ?_⟩
  exact vals_cons (val_fstr _) (vals_cons (val_fstr _) (vals_cons (val_fstr _)
    (vals_cons (val_app (val_lit _) hs) vals_nil)))

theorem linePieces_ok {stroke : Str} (hs : ∀ x ∈ stroke, valCh x = true) (n : Nat) (ty : Str) :
    ∀ p ∈ linePieces stroke n ty, p.Ok := by
  intro p hp
  simp only [linePieces, List.mem_flatMap, List.mem_cons, List.not_mem_nil, or_false] at hp
  obtain ⟨bt, hbt, hp⟩ := hp
  split at hp
  · simp only [List.mem_cons, List.not_mem_nil, or_false] at hp
    subst hp
    rcases hbt with rfl | rfl | rfl
    · exact lineTag0_ok hs n
    · exact lineTag1_ok hs n
    · exact lineTag2_ok hs n
  · cases hp

theorem linePieces_pchk (stroke : Str) (n : Nat) (ty : Str) (stk : List Str) (rest : List Piece) :
    pchk stk (linePieces stroke n ty ++ rest) = pchk stk rest := by
  simp only [linePieces, List.flatMap_cons, List.flatMap_nil, List.append_nil]
  split <;> split <;> split <;> simp [pchk]

/-- **a pattern definition is such a text**: any id and stroke made of plain value characters, any spacing, any
    pattern type, any rotation made of such characters -/
theorem patternPieces_for {stroke c : Str} (n : Nat) (ty : Str) {rot : Option Str}
    (hs : ∀ x ∈ stroke, valCh x = true) (hpid : ∀ x ∈ ptnId c, valCh x = true)
    (hrot : ∀ r, rot = some r → ∀ x ∈ r, valCh x = true) :
    PiecesFor (patternDef stroke c n ty rot) (patternPieces stroke c n ty rot) := by
  refine ⟨patternPieces_render stroke c n ty rot, ?_, ?_, ?_⟩
  · intro p hp
    simp only [patternPieces, List.mem_append, List.mem_cons, List.not_mem_nil, or_false] at hp
    rcases hp with (rfl | rfl | rfl | rfl) | hp | rfl | rfl
    · exact patTag_ok n hpid hrot
    · show AllWs cs!"\n  "; unfold AllWs; decide
    · show rectTag.Ok; decide
    · show AllWs cs!"\n  "; unfold AllWs; decide
    · exact linePieces_ok hs n ty p hp
    · show AllWs cs!"\n"; unfold AllWs; decide
    · show isName cs!"pattern" = true; decide
  · simp only [patternPieces, List.cons_append, List.nil_append, pchk, linePieces_pchk]
    simp [patTag]
  · have e : patternPieces stroke c n ty rot =
        ([.start (patTag (ptnId c) n rot), .ws cs!"\n  ", .empty rectTag, .ws cs!"\n  "] ++
          (linePieces stroke n ty ++ [.ws cs!"\n"])) ++ [.end_ cs!"pattern"] := by simp [patternPieces]
    unfold endsEnd
    rw [e, List.getLast?_concat]

/-- **(1) the pattern definition for an arbitrary class the builder accepts** (`c` the bare pattern class of `row`
    or `prefix-N` in any spelling `get_spacing` accepts), any theme, any spacing: a text of the described shape … -/
theorem patternDef_ok (t : ThemeKind) {row : PatternRow} (hrow : row ∈ patternRows) {c : Str} (hc : RowClass row c)
    (n : Nat) : DefOk (patternDef (themeStroke t) c n row.ty row.rotate) := by
  refine ⟨_, patternPieces_for n row.ty (List.all_eq_true.mp (theme_stroke_valCh t)) (ptnId_valCh hrow hc) ?_⟩
  intro r hr
  have := (pattern_val_facts row hrow).2
  rw [hr] at this
  exact List.all_eq_true.mp this

/-- … hence accepted by the recogniser -/
theorem pattern_defs_wf (t : ThemeKind) {row : PatternRow} (hrow : row ∈ patternRows) {c : Str} (hc : RowClass row c)
    (n : Nat) : wfContent (patternDef (themeStroke t) c n row.ty row.rotate) = true :=
  defOk_wf (patternDef_ok t hrow hc n)

/-- every definition `Theme::build` returns, for every configuration, class list, element list and order -/
theorem build_defs_ok (order : List Str → List Str) (cfg : ThemeCfg) (cs es : List Str) :
    ∀ d ∈ (buildWith order cfg cs es).1, DefOk d := by
  intro d hd
  simp only [buildWith, defsOf, List.mem_append] at hd
  rcases hd with (hd | hd) | hd
  · unfold arrowDefs at hd
    split at hd
    · simp only [List.mem_singleton] at hd; subst hd; exact ⟨_, fixed_defs_ok.1⟩
    · cases hd
  · obtain ⟨it, hit, rfl⟩ := List.mem_map.mp hd
    obtain ⟨row, hrow, c, n, hc, rfl⟩ := patternItems_rowClass hit
    exact patternDef_ok cfg.theme hrow hc n
  · simp only [shadowDefs, List.mem_flatMap] at hd
    obtain ⟨p, hp, hd⟩ := hd
    split at hd
    · simp only [List.mem_singleton] at hd; subst hd; exact ⟨_, fixed_defs_ok.2 p hp⟩
    · cases hd

theorem build_defs_wf (order : List Str → List Str) (cfg : ThemeCfg) (cs es : List Str) :
    ∀ d ∈ (buildWith order cfg cs es).1, wfContent d = true :=
  fun d hd => defOk_wf (build_defs_ok order cfg cs es d hd)

/-! ### `indent_all` -/

/-- the indentation behind every newline -/
def ins (pad s : Str) : Str := s.flatMap fun c => if c == '\n' then '\n' :: pad else [c]

theorem ins_append (pad a b : Str) : ins pad (a ++ b) = ins pad a ++ ins pad b := by simp [ins]

theorem ins_cons (pad : Str) (c : Char) (r : Str) :
    ins pad (c :: r) = (if c == '\n' then '\n' :: pad else [c]) ++ ins pad r := rfl

theorem ins_noNl (pad : Str) {s : Str} (h : NoNl s) : ins pad s = s := by
  induction s with
  | nil => rfl
  | cons c r ih =>
    have hcn : c ≠ '\n' := (h c (by simp)).1
    rw [ins_cons, ih (fun x hx => h x (by simp [hx]))]
    simp [hcn]

theorem ins_eq_nil {pad s : Str} (h : ins pad s = []) : s = [] := by
  cases s with
  | nil => rfl
  | cons c r =>
    simp only [ins, List.flatMap_cons] at h
    split at h <;> simp at h

theorem stripCr_id (l : Str) (h : ∀ x ∈ l, x ≠ '\r') : stripCr l = l := by
  unfold stripCr
  split
  · rename_i hl
    have : l.getLast? = some '\r' := by simpa using hl
    exact absurd rfl (h '\r' (List.mem_of_getLast? this))
  · rfl

theorem splitBy_go_cons (f : Char → Bool) : ∀ (s cur : Str), ∃ y ys, splitBy.go f s cur = y :: ys := by
  intro s
  induction s with
  | nil => intro cur; exact ⟨_, _, rfl⟩
  | cons c r ih =>
    intro cur
    simp only [splitBy.go]
    split
    · exact ⟨_, _, rfl⟩
    · exact ih _

theorem lines_go (pad : Str) : ∀ (s cur : Str), (∀ x ∈ s, x ≠ '\r') → (∀ x ∈ cur, x ≠ '\r') → (s ≠ [] ∨ cur ≠ []) →
    s.getLast? ≠ some '\n' →
    intercalate ['\n'] ((rustLinesOf (splitBy.go (· == '\n') s cur)).map (pad ++ ·)) =
      pad ++ (cur.reverse ++ ins pad s) := by
  intro s
  induction s with
  | nil =>
    intro cur _ _ hne _
    have hc : cur ≠ [] := by simpa using hne
    simp [splitBy.go, rustLinesOf, hc, intercalate, ins]
  | cons c r ih =>
    intro cur hs hcur _ hl
    by_cases hcn : c = '\n'
    · subst hcn
      have hr : r ≠ [] := by rintro rfl; simp at hl
      have hlr : r.getLast? ≠ some '\n' := by
        cases r with
        | nil => exact absurd rfl hr
        | cons y r' => simpa [List.getLast?_cons_cons] using hl
      obtain ⟨y, ys, hgo⟩ := splitBy_go_cons (· == '\n') r []
      have ih' := ih [] (fun x hx => hs x (by simp [hx])) (by simp) (Or.inl hr) hlr
      rw [hgo] at ih'
      have e1 : splitBy.go (· == '\n') ('\n' :: r) cur = cur.reverse :: y :: ys := by
        simp [splitBy.go, hgo]
      rw [e1]
      simp only [rustLinesOf, List.map_cons]
      rw [stripCr_id _ (by simpa using hcur)]
      cases hL : (rustLinesOf (y :: ys)).map (pad ++ ·) with
      | nil =>
        rw [hL] at ih'
        simp only [intercalate, List.reverse_nil, List.nil_append] at ih'
        have : ins pad r = [] := by
          have := congrArg List.length ih'
          simp at this
          exact List.eq_nil_of_length_eq_zero (by omega)
        exact absurd (ins_eq_nil this) hr
      | cons a L' =>
        rw [hL] at ih'
        simp only [intercalate]
        rw [ih']
        simp [ins]
    · have hcb : (c == '\n') = false := by simpa using hcn
      have hlr : r.getLast? ≠ some '\n' := by
        cases r with
        | nil => simp
        | cons y r' => simpa [List.getLast?_cons_cons] using hl
      have ih' := ih (c :: cur) (fun x hx => hs x (by simp [hx]))
        (by intro x hx; rcases List.mem_cons.mp hx with rfl | h
            · exact hs _ (by simp)
            · exact hcur x h) (Or.inr (by simp)) hlr
      have e1 : splitBy.go (· == '\n') (c :: r) cur = splitBy.go (· == '\n') r (c :: cur) := by
        simp [splitBy.go, hcb]
      rw [e1, ih', ins_cons]
      simp [hcn]

/-- **`indent_all` on a text without CR that is not empty and does not end in a newline**: the indentation in
    front, and behind every newline -/
theorem indentEntry_eq (n : Nat) (d : Str) (hcr : ∀ x ∈ d, x ≠ '\r') (hne : d ≠ []) (hl : d.getLast? ≠ some '\n') :
    indentEntry n d = List.replicate n ' ' ++ ins (List.replicate n ' ') d := by
  have := lines_go (List.replicate n ' ') d [] hcr (by simp) (Or.inl hne) hl
  simpa [indentEntry, rustLines, splitBy] using this

/-! ### indentation of a piece list -/

def Piece.indent (pad : Str) : Piece → Piece
  | .ws w => .ws (ins pad w)
  | p => p

theorem piece_noCr {p : Piece} (hp : p.Ok) : ∀ x ∈ p.render, x ≠ '\r' := by
  cases p with
  | ws w => intro x hx e; subst e; have := hp _ hx; revert this; decide
  | start t => exact fun x hx => (rawtag_noNl t false hp x hx).2
  | empty t => exact fun x hx => (rawtag_noNl t true hp x hx).2
  | end_ n =>
    have : NoNl (cs!"</" ++ n ++ ['>']) :=
      noNl_append (noNl_append (by unfold NoNl; decide) (noNl_name hp)) (by unfold NoNl; decide)
    exact fun x hx => (this x hx).2

theorem ins_render (pad : Str) {p : Piece} (hp : p.Ok) : ins pad p.render = (p.indent pad).render := by
  cases p with
  | ws w => rfl
  | start t => exact ins_noNl pad (rawtag_noNl t false hp)
  | empty t => exact ins_noNl pad (rawtag_noNl t true hp)
  | end_ n =>
    exact ins_noNl pad (noNl_append (noNl_append (by unfold NoNl; decide) (noNl_name hp)) (by unfold NoNl; decide))

theorem ins_renderAll (pad : Str) : ∀ (ps : List Piece), (∀ p ∈ ps, p.Ok) →
    ins pad (renderAll ps) = renderAll (ps.map (Piece.indent pad)) := by
  intro ps
  induction ps with
  | nil => intro _; rfl
  | cons p ps ih =>
    intro h
    have := ih (fun q hq => h q (by simp [hq]))
    simp only [renderAll, List.flatMap_cons, List.map_cons] at this ⊢
    rw [ins_append, ins_render pad (h p (by simp)), this]

theorem allWs_ins {pad w : Str} (hp : AllWs pad) (hw : AllWs w) : AllWs (ins pad w) := by
  intro x hx
  simp only [ins, List.mem_flatMap] at hx
  obtain ⟨c, hc, hx⟩ := hx
  split at hx
  · rcases List.mem_cons.mp hx with rfl | h
    · rfl
    · exact hp x h
  · simp only [List.mem_singleton] at hx; subst hx; exact hw _ hc

theorem indent_ok {pad : Str} (hp : AllWs pad) {p : Piece} (h : p.Ok) : (p.indent pad).Ok := by
  cases p with
  | ws w => exact allWs_ins hp h
  | start t => exact h
  | empty t => exact h
  | end_ n => exact h

theorem pchk_indent (pad : Str) : ∀ (ps : List Piece) (stk : List Str),
    pchk stk (ps.map (Piece.indent pad)) = pchk stk ps := by
  intro ps
  induction ps with
  | nil => intro stk; rfl
  | cons p ps ih =>
    intro stk
    cases p with
    | ws w => simp [Piece.indent, pchk, ih]
    | start t => simp [Piece.indent, pchk, ih]
    | empty t => simp [Piece.indent, pchk, ih]
    | end_ n =>
      cases stk with
      | nil => simp [Piece.indent, pchk]
      | cons top s => simp [Piece.indent, pchk, ih]

theorem render_last {ps : List Piece} (h : endsEnd ps = true) : ∃ s, renderAll ps = s ++ ['>'] := by
  unfold endsEnd at h
  split at h
  · rename_i n hl
    obtain ⟨ys, hys⟩ := List.getLast?_eq_some_iff.mp hl
    rw [hys]
    exact ⟨renderAll ys ++ (cs!"</" ++ n), by simp [renderAll, Piece.render]⟩
  · cases h

/-- `indent_all` on the text of a piece list: indentation in front, white-space pieces indented -/
theorem indentEntry_pieces (n : Nat) {d : Str} {ps : List Piece} (h : PiecesFor d ps) :
    indentEntry n d = List.replicate n ' ' ++ renderAll (ps.map (Piece.indent (List.replicate n ' '))) := by
  obtain ⟨s, hs⟩ := render_last h.last
  have hcr : ∀ x ∈ d, x ≠ '\r' := by
    rw [h.text]
    intro x hx
    simp only [renderAll, List.mem_flatMap] at hx
    obtain ⟨p, hp, hx⟩ := hx
    exact piece_noCr (h.ok p hp) x hx
  have hd : d = s ++ ['>'] := by rw [h.text, hs]
  rw [indentEntry_eq n d hcr (by rw [hd]; simp) (by rw [hd]; simp), h.text, ins_renderAll _ ps h.ok]

theorem indented_wacc {d : Str} (h : DefOk d) (n : Nat) (base : List Str) (rest : Str) (hrest : WAcc base rest) :
    WAcc base (indentEntry n d ++ rest) := by
  obtain ⟨ps, hps⟩ := h
  rw [indentEntry_pieces n hps, List.append_assoc]
  apply wacc_ws (allWs_replicate n)
  have := wacc_pieces base rest [] (by simpa using hrest) (ps.map (Piece.indent (List.replicate n ' '))) []
    (by intro p hp
        obtain ⟨q, hq, rfl⟩ := List.mem_map.mp hp
        exact indent_ok (allWs_replicate n) (hps.ok q hq))
    (by rw [pchk_indent]; exact hps.bal)
  simpa using this

theorem indentAll_wacc (n : Nat) (base : List Str) (rest : Str) (hrest : WAcc base rest) :
    ∀ defs : List Str, (∀ d ∈ defs, DefOk d) → WAcc base (intercalate ['\n'] (indentAll defs n) ++ rest) := by
  intro defs
  induction defs with
  | nil => intro _; simpa [indentAll, intercalate] using hrest
  | cons d r ih =>
    intro h
    cases r with
    | nil => simpa [indentAll, intercalate] using indented_wacc (h d (by simp)) n base rest hrest
    | cons d' r' =>
      have ih' := ih (fun x hx => h x (by simp [hx]))
      have : intercalate ['\n'] (indentAll (d :: d' :: r') n) ++ rest =
          indentEntry n d ++ (['\n'] ++ (intercalate ['\n'] (indentAll (d' :: r') n) ++ rest)) := by
        simp [indentAll, intercalate]
      rw [this]
      exact indented_wacc (h d (by simp)) n base _ (wacc_ws (by unfold AllWs; decide) ih')

/-! ### the `<defs>` block -/

def defsTag : RawTag := ⟨cs!"defs", [], false⟩
def styleTag : RawTag := ⟨cs!"style", [], false⟩
def defsComment : Str := commentSafe cs!" svgdx-generated auto-style defs "
def styleComment : Str := commentSafe cs!" svgdx-generated auto-style CSS "

theorem defs_frame_eq :
    write (defsHead false) = cs!"\n  " ++ (defsTag.text false ++ cs!"\n") ∧
    write (defsHead true) =
      cs!"\n  " ++ (defsTag.text false ++ (cs!"\n    " ++ (cs!"<!--" ++ defsComment ++ cs!"-->" ++ cs!"\n"))) ∧
    write defsTail = cs!"\n  " ++ (cs!"</" ++ cs!"defs" ++ ['>']) := by decide +kernel

theorem allWs_lit (w : Str) (h : w.all wsCh = true := by decide) : AllWs w := List.all_eq_true.mp h

/-- **(2) the `<defs>` block is accepted**, below any open elements and in front of any accepted rest, whenever
    every definition is a text of the described shape -/
theorem defsBlock_wacc (debug : Bool) (defs : List Str) (hd : ∀ d ∈ defs, DefOk d) (stk : List Str) (rest : Str)
    (hrest : WAcc stk rest) : WAcc stk (defsBlock debug defs ++ rest) := by
  have htail : WAcc (cs!"defs" :: stk) (cs!"\n  " ++ (cs!"</" ++ cs!"defs" ++ ['>'] ++ rest)) :=
    wacc_ws (allWs_lit _) (wacc_of_startsLt (Or.inr ⟨_, rfl⟩) (acc_end stk cs!"defs" rest (by decide) hrest.acc))
  have hbody := indentAll_wacc 4 (cs!"defs" :: stk) _ htail defs hd
  have hnl := wacc_ws (allWs_lit cs!"\n") hbody
  cases debug
  · have h2 := acc_rawtag stk defsTag false _ (by decide) hnl.acc
    have h3 := wacc_ws (allWs_lit cs!"\n  ") (wacc_of_startsLt (Or.inr ⟨_, rfl⟩) h2)
    have e : defsBlock false defs ++ rest = cs!"\n  " ++ (defsTag.text false ++ (cs!"\n" ++
        (intercalate ['\n'] (indentAll defs 4) ++ (cs!"\n  " ++ (cs!"</" ++ cs!"defs" ++ ['>'] ++ rest))))) := by
      simp [defsBlock, defsText, defs_frame_eq.1, defs_frame_eq.2.2, List.append_assoc]
    rw [e]; exact h3
  · have hc := acc_comment (cs!"defs" :: stk) defsComment _ (commentSafe_ok _).1 (commentSafe_ok _).2 hnl.acc
    have hc' := wacc_ws (allWs_lit cs!"\n    ") (wacc_of_startsLt (Or.inr ⟨_, rfl⟩) hc)
    have h2 := acc_rawtag stk defsTag false _ (by decide) hc'.acc
    have h3 := wacc_ws (allWs_lit cs!"\n  ") (wacc_of_startsLt (Or.inr ⟨_, rfl⟩) h2)
    have e : defsBlock true defs ++ rest = cs!"\n  " ++ (defsTag.text false ++ (cs!"\n    " ++
        (cs!"<!--" ++ defsComment ++ cs!"-->" ++ (cs!"\n" ++
        (intercalate ['\n'] (indentAll defs 4) ++ (cs!"\n  " ++ (cs!"</" ++ cs!"defs" ++ ['>'] ++ rest))))))) := by
      simp [defsBlock, defsText, defs_frame_eq.2.1, defs_frame_eq.2.2, List.append_assoc]
    rw [e]; exact h3

theorem defsBlock_wellformed (debug : Bool) (defs : List Str) (hd : ∀ d ∈ defs, DefOk d) :
    wfContent (defsBlock debug defs) = true := by
  have := (defsBlock_wacc debug defs hd [] [] wacc_nil).acc
  simp only [List.append_nil] at this
  exact this _ (by omega)

/-- … hence for what `Theme::build` returns, for every configuration, class list and element list -/
theorem build_defsBlock_wellformed (debug : Bool) (order : List Str → List Str) (cfg : ThemeCfg) (cs es : List Str) :
    wfContent (defsBlock debug (buildWith order cfg cs es).1) = true :=
  defsBlock_wellformed debug _ (build_defs_ok order cfg cs es)

/-! ### the `<style>` element, in front of a rest -/

def cdataText (css : Str) : Str := (cdataSplit css).flatMap fun part => cs!"<![CDATA[" ++ part ++ cs!"]]>"

theorem style_render_facts :
    renderEv (.text (indentLine 2)) = cs!"\n  " ∧ renderEv (.text (indentLine 4)) = cs!"\n    " ∧
    renderEv (.start styleElem) = styleTag.text false := by decide +kernel

theorem style_write_eq (debug : Bool) (styles : List Str) :
    write (styleEvents debug styles) =
      cs!"\n  " ++ (styleTag.text false ++ ((if debug then cs!"\n    " ++ (cs!"<!--" ++ styleComment ++ cs!"-->") else []) ++
        (cs!"\n    " ++ (cdataText (styleCData styles) ++ (cs!"\n  " ++ (cs!"</" ++ cs!"style" ++ ['>'])))))) := by
  obtain ⟨t2, t4, ts⟩ := style_render_facts
  rw [write_eq]
  cases debug
  · simp only [styleEvents, Bool.false_eq_true, if_false, List.append_nil, List.cons_append, List.nil_append, coalesce,
      List.flatMap_cons, List.flatMap_nil, t2, t4, ts]
    simp [renderEv, cdataText]
  · simp only [styleEvents, if_true, List.cons_append, List.nil_append, coalesce,
      List.flatMap_cons, List.flatMap_nil, t2, t4, ts]
    simp [renderEv, cdataText, styleComment]

theorem acc_cdatas (stk : List Str) (s : Str) (h : Acc stk s) : ∀ parts : List Str, (∀ p ∈ parts, NoCE p) →
    Acc stk (parts.flatMap (fun part => cs!"<![CDATA[" ++ part ++ cs!"]]>") ++ s) := by
  intro parts
  induction parts with
  | nil => intro _; simpa using h
  | cons p ps ih =>
    intro hp
    have := acc_cdata stk p _ (hp p (by simp)) (ih (fun q hq => hp q (by simp [hq])))
    simpa [List.append_assoc] using this

theorem wacc_cdataText (stk : List Str) (css s : Str) (h : Acc stk s) : WAcc stk (cdataText css ++ s) := by
  apply wacc_of_startsLt
  · unfold cdataText
    cases hp : cdataSplit css with
    | nil => exact absurd hp (cdataSplit_ne_nil css)
    | cons p ps => exact Or.inr ⟨_, rfl⟩
  · exact acc_cdatas stk s h _ (cdataSplit_noCE css)

/-- the written `<style>` element, for arbitrary rule texts, in front of any accepted rest -/
theorem styleBlock_wacc (debug : Bool) (styles : List Str) (stk : List Str) (rest : Str) (hrest : WAcc stk rest) :
    WAcc stk (write (styleEvents debug styles) ++ rest) := by
  have htail : WAcc (cs!"style" :: stk) (cs!"\n  " ++ (cs!"</" ++ cs!"style" ++ ['>'] ++ rest)) :=
    wacc_ws (allWs_lit _) (wacc_of_startsLt (Or.inr ⟨_, rfl⟩) (acc_end stk cs!"style" rest (by decide) hrest.acc))
  have hcd := wacc_ws (allWs_lit cs!"\n    ") (wacc_cdataText (cs!"style" :: stk) (styleCData styles) _ htail.acc)
  rw [style_write_eq]
  cases debug
  · have h2 := acc_rawtag stk styleTag false _ (by decide) hcd.acc
    have h3 := wacc_ws (allWs_lit cs!"\n  ") (wacc_of_startsLt (Or.inr ⟨_, rfl⟩) h2)
    simpa [List.append_assoc, RawTag.text] using h3
  · have hc := acc_comment (cs!"style" :: stk) styleComment _ (commentSafe_ok _).1 (commentSafe_ok _).2 hcd.acc
    have hc' := wacc_ws (allWs_lit cs!"\n    ") (wacc_of_startsLt (Or.inr ⟨_, rfl⟩) hc)
    have h2 := acc_rawtag stk styleTag false _ (by decide) hc'.acc
    have h3 := wacc_ws (allWs_lit cs!"\n  ") (wacc_of_startsLt (Or.inr ⟨_, rfl⟩) h2)
    simpa [List.append_assoc, RawTag.text] using h3

/-! ### the whole injected text -/

/-- **(3) everything `write_auto_styles` writes is accepted**, below any open elements and in front of any
    accepted rest: arbitrary rule texts, definitions of the described shape -/
theorem autoStyleText_wacc (debug : Bool) (defs styles : List Str) (hd : ∀ d ∈ defs, DefOk d) (stk : List Str)
    (rest : Str) (hrest : WAcc stk rest) : WAcc stk (autoStyleText debug defs styles ++ rest) := by
  have hs : WAcc stk ((if styles.isEmpty then [] else write (styleEvents debug styles)) ++ rest) := by
    split
    · simpa using hrest
    · exact styleBlock_wacc debug styles stk rest hrest
  unfold autoStyleText
  rw [List.append_assoc]
  split
  · simpa using hs
  · exact defsBlock_wacc debug defs hd stk _ hs

theorem autoStyleText_wellformed (debug : Bool) (defs styles : List Str) (hd : ∀ d ∈ defs, DefOk d) :
    wfContent (autoStyleText debug defs styles) = true := by
  have := (autoStyleText_wacc debug defs styles hd [] [] wacc_nil).acc
  simp only [List.append_nil] at this
  exact this _ (by omega)

/-- the injected text of a configuration: every theme, every author string, every class list, every element list -/
theorem autoStyles_wellformed (debug : Bool) (cfg : ThemeCfg) (classes elements : List Str) :
    wfContent (autoStyles debug cfg classes elements) = true :=
  autoStyleText_wellformed debug _ _ (build_defs_ok sortU cfg classes elements)

/-- **(4) injection after the root start tag**: if the rest of the document is accepted inside the root element
    (`WAcc (root :: stk) rest`: with the root open, also behind white space), then root start tag ++ injected text
    ++ rest is accepted where the root start tag ++ rest is -/
theorem inject_after_root (root : RawTag) (hroot : root.Ok) (debug : Bool) (cfg : ThemeCfg) (classes elements : List Str)
    (stk : List Str) (rest : Str) (hrest : WAcc (root.name :: stk) rest) :
    Acc stk (root.text false ++ rest) ∧
    Acc stk (root.text false ++ (autoStyles debug cfg classes elements ++ rest)) :=
  ⟨acc_rawtag stk root false rest hroot hrest.acc,
   acc_rawtag stk root false _ hroot
    (autoStyleText_wacc debug _ _ (build_defs_ok sortU cfg classes elements) (root.name :: stk) rest hrest).acc⟩

/-- … at the top level, for the recogniser's entry point -/
theorem inject_after_root_wf (root : RawTag) (hroot : root.Ok) (debug : Bool) (cfg : ThemeCfg)
    (classes elements : List Str) (rest : Str) (hrest : WAcc [root.name] rest) :
    wfContent (root.text false ++ rest) = true ∧
    wfContent (root.text false ++ (autoStyles debug cfg classes elements ++ rest)) = true := by
  obtain ⟨h1, h2⟩ := inject_after_root root hroot debug cfg classes elements [] rest hrest
  exact ⟨h1 _ (by omega), h2 _ (by omega)⟩

end Svgdx.Theme
