/-
  Svgdx.Proofs.Attrs — the `AttrMap` invariant and lookup lemmas.
  Keys stay unique under every operation, `reorder` only permutes, and lookups behave like a finite map.
-/
import Svgdx.Geom.Attrs
import Mathlib.Tactic.Linarith
namespace Svgdx
namespace Attrs

def keys (a : Attrs) : List Str := a.map Prod.fst

/-- the AttrMap invariant: no key twice -/
def NodupKeys (a : Attrs) : Prop := (keys a).Nodup

theorem lookup_iff_mem {a : Attrs} (h : NodupKeys a) (k v : Str) :
    lookupTable a k = some v ↔ (k, v) ∈ a := by
  induction a with
  | nil => simp [lookupTable]
  | cons x xs ih =>
    obtain ⟨k', v'⟩ := x
    have hn : k' ∉ keys xs ∧ NodupKeys xs := by
      simpa [NodupKeys, keys] using h
    simp only [lookupTable]
    by_cases hk : k' = k
    · subst hk
      simp only [beq_self_eq_true, if_true, Option.some.injEq, List.mem_cons, Prod.mk.injEq, true_and]
      constructor
      · intro h'; exact Or.inl h'.symm
      · rintro (h' | h')
        · exact h'.symm
        · exact absurd (List.mem_map.mpr ⟨(k', v), h', rfl⟩) hn.1
    · have : (k' == k) = false := by simpa using hk
      simp only [this, Bool.false_eq_true, if_false, List.mem_cons, Prod.mk.injEq]
      rw [ih hn.2]
      constructor
      · exact Or.inr
      · rintro (⟨h', _⟩ | h')
        · exact absurd h'.symm hk
        · exact h'

theorem lookup_none_iff {a : Attrs} (k : Str) : lookupTable a k = none ↔ k ∉ keys a := by
  induction a with
  | nil => simp [lookupTable, keys]
  | cons x xs ih =>
    obtain ⟨k', v'⟩ := x
    simp only [lookupTable, keys, List.map_cons, List.mem_cons, not_or]
    by_cases hk : k' = k
    · subst hk; simp
    · have : (k' == k) = false := by simpa using hk
      simp only [this, Bool.false_eq_true, if_false]
      rw [ih]
      simp only [keys]
      constructor
      · intro h; exact ⟨fun e => hk e.symm, h⟩
      · intro h; exact h.2

theorem contains_iff_mem_keys (a : Attrs) (k : Str) : contains a k = true ↔ k ∈ keys a := by
  unfold contains get
  cases h : lookupTable a k with
  | none => simp [(lookup_none_iff k).mp h]
  | some v =>
    simp only [Option.isSome_some, true_iff]
    by_contra hc
    have := (lookup_none_iff (a := a) k).mpr hc
    simp [this] at h

theorem insertSorted_perm (e : Str × Str) (l : Attrs) : (insertSorted e l).Perm (e :: l) := by
  induction l with
  | nil => simp [insertSorted]
  | cons x xs ih =>
    simp only [insertSorted]
    split
    · exact List.Perm.refl _
    · exact (List.Perm.cons x ih).trans (List.Perm.swap e x xs)

theorem foldl_insertSorted_perm (a acc : Attrs) :
    (a.foldl (fun acc e => insertSorted e acc) acc).Perm (a ++ acc) := by
  induction a generalizing acc with
  | nil => simp
  | cons x xs ih =>
    simp only [List.foldl_cons, List.cons_append]
    refine (ih (insertSorted x acc)).trans ?_
    refine (List.Perm.append_left xs (insertSorted_perm x acc)).trans ?_
    exact List.perm_middle

theorem reorder_perm (a : Attrs) : (reorder a).Perm a := by
  simpa [reorder] using foldl_insertSorted_perm a []

theorem keys_perm {a b : Attrs} (h : a.Perm b) : (keys a).Perm (keys b) := h.map _

theorem nodupKeys_perm {a b : Attrs} (h : a.Perm b) : NodupKeys a ↔ NodupKeys b :=
  (keys_perm h).nodup_iff

theorem reorder_nodup {a : Attrs} (h : NodupKeys a) : NodupKeys (reorder a) :=
  (nodupKeys_perm (reorder_perm a)).mpr h

theorem lookup_perm {a b : Attrs} (hp : a.Perm b) (h : NodupKeys a) (k : Str) :
    lookupTable a k = lookupTable b k := by
  have hb : NodupKeys b := (nodupKeys_perm hp).mp h
  cases ha : lookupTable a k with
  | none =>
    have : k ∉ keys b := fun hk => (lookup_none_iff k).mp ha ((keys_perm hp).mem_iff.mpr hk)
    exact ((lookup_none_iff k).mpr this).symm
  | some v =>
    have : (k, v) ∈ b := hp.mem_iff.mp ((lookup_iff_mem h k v).mp ha)
    exact ((lookup_iff_mem hb k v).mpr this).symm

theorem keys_updateInPlace (k v : Str) (a : Attrs) : keys (updateInPlace k v a) = keys a := by
  induction a with
  | nil => rfl
  | cons x xs ih =>
    obtain ⟨k', v'⟩ := x
    simp only [updateInPlace]
    split
    · simp [keys]
    · simp only [keys, List.map_cons] at ih ⊢
      rw [ih]

theorem insert_nodup {a : Attrs} (h : NodupKeys a) (k v : Str) : NodupKeys (insert a k v) := by
  unfold insert
  apply reorder_nodup
  split
  · simpa [NodupKeys, keys_updateInPlace] using h
  · rename_i hc
    have : k ∉ keys a := by
      intro hk; exact hc ((contains_iff_mem_keys a k).mpr hk)
    simp only [NodupKeys, keys, List.map_append, List.map_cons, List.map_nil]
    rw [List.nodup_append]
    refine ⟨h, by simp, ?_⟩
    intro x hx y hy
    simp only [List.mem_singleton] at hy
    subst hy
    intro hxy; subst hxy; exact this hx

theorem lookup_updateInPlace_self {a : Attrs} (k v : Str) (hc : k ∈ keys a) :
    lookupTable (updateInPlace k v a) k = some v := by
  induction a with
  | nil => simp [keys] at hc
  | cons x xs ih =>
    obtain ⟨k', v'⟩ := x
    simp only [updateInPlace]
    by_cases hk : k' = k
    · subst hk; simp [lookupTable]
    · have hb : (k' == k) = false := by simpa using hk
      simp only [hb, Bool.false_eq_true, if_false, lookupTable]
      apply ih
      simp only [keys, List.map_cons, List.mem_cons] at hc
      rcases hc with hc | hc
      · exact absurd hc.symm hk
      · exact hc

theorem lookup_updateInPlace_other (a : Attrs) (k v k2 : Str) (hne : k2 ≠ k) :
    lookupTable (updateInPlace k v a) k2 = lookupTable a k2 := by
  induction a with
  | nil => rfl
  | cons x xs ih =>
    obtain ⟨k', v'⟩ := x
    simp only [updateInPlace]
    by_cases hk : k' = k
    · subst hk
      have : (k' == k2) = false := by simpa using (fun e => hne e.symm)
      simp [lookupTable, this]
    · have hb : (k' == k) = false := by simpa using hk
      simp only [hb, Bool.false_eq_true, if_false, lookupTable, ih]

theorem lookup_append_singleton (a : Attrs) (k v k2 : Str) :
    lookupTable (a ++ [(k, v)]) k2 =
      (match lookupTable a k2 with | some x => some x | none => if k == k2 then some v else none) := by
  induction a with
  | nil => simp [lookupTable]
  | cons x xs ih =>
    obtain ⟨k', v'⟩ := x
    simp only [List.cons_append, lookupTable]
    split
    · rfl
    · exact ih

/-- lookup after insert: the inserted key has the new value … -/
theorem get_insert_self {a : Attrs} (h : NodupKeys a) (k v : Str) : get (insert a k v) k = some v := by
  unfold get insert
  split
  · rename_i hc
    have hk := (contains_iff_mem_keys a k).mp hc
    have hn : NodupKeys (updateInPlace k v a) := by simpa [NodupKeys, keys_updateInPlace] using h
    rw [lookup_perm (reorder_perm _) (reorder_nodup hn)]
    exact lookup_updateInPlace_self k v hk
  · rename_i hc
    have hk : k ∉ keys a := fun hk => hc ((contains_iff_mem_keys a k).mpr hk)
    have hn : NodupKeys (a ++ [(k, v)]) := by
      simp only [NodupKeys, keys, List.map_append, List.map_cons, List.map_nil]
      rw [List.nodup_append]
      refine ⟨h, by simp, ?_⟩
      intro x hx y hy
      simp only [List.mem_singleton] at hy
      subst hy
      intro hxy; subst hxy; exact hk hx
    rw [lookup_perm (reorder_perm _) (reorder_nodup hn), lookup_append_singleton]
    simp [(lookup_none_iff k).mpr hk]

/-- … and every other key is untouched -/
theorem get_insert_other {a : Attrs} (h : NodupKeys a) (k v k2 : Str) (hne : k2 ≠ k) :
    get (insert a k v) k2 = get a k2 := by
  unfold get insert
  split
  · have hn : NodupKeys (updateInPlace k v a) := by simpa [NodupKeys, keys_updateInPlace] using h
    rw [lookup_perm (reorder_perm _) (reorder_nodup hn)]
    exact lookup_updateInPlace_other a k v k2 hne
  · rename_i hc
    have hk : k ∉ keys a := fun hk => hc ((contains_iff_mem_keys a k).mpr hk)
    have hn : NodupKeys (a ++ [(k, v)]) := by
      simp only [NodupKeys, keys, List.map_append, List.map_cons, List.map_nil]
      rw [List.nodup_append]
      refine ⟨h, by simp, ?_⟩
      intro x hx y hy
      simp only [List.mem_singleton] at hy
      subst hy
      intro hxy; subst hxy; exact hk hx
    rw [lookup_perm (reorder_perm _) (reorder_nodup hn), lookup_append_singleton]
    have : (k == k2) = false := by simpa using (fun e => hne e.symm)
    cases lookupTable a k2 <;> simp [this]

theorem keys_pop (a : Attrs) (k : Str) : keys (pop a k).1 = (keys a).erase k := by
  induction a with
  | nil => simp [pop, keys]
  | cons x xs ih =>
    obtain ⟨k', v'⟩ := x
    simp only [pop]
    by_cases hk : k' = k
    · subst hk; simp [keys]
    · have hb : (k' == k) = false := by simpa using hk
      simp only [hb, Bool.false_eq_true, if_false, keys, List.map_cons]
      rw [List.erase_cons_tail (by simpa using hb)]
      simp only [keys] at ih
      rw [← ih]

theorem remove_nodup {a : Attrs} (h : NodupKeys a) (k : Str) : NodupKeys (remove a k) := by
  simp only [NodupKeys, remove, keys_pop]
  exact h.erase k

/-- a removed key is gone (uses key uniqueness: `pop` removes the first occurrence only) -/
theorem contains_remove_self {a : Attrs} (h : NodupKeys a) (k : Str) : contains (remove a k) k = false := by
  have : k ∉ keys (remove a k) := by
    simp only [remove, keys_pop]
    exact fun hk => (List.Nodup.mem_erase_iff h).mp hk |>.1 rfl
  cases hc : contains (remove a k) k with
  | false => rfl
  | true => exact absurd ((contains_iff_mem_keys _ k).mp hc) this

theorem keys_remove_subset (a : Attrs) (k : Str) : ∀ x ∈ keys (remove a k), x ∈ keys a := by
  intro x hx
  simp only [remove, keys_pop] at hx
  exact List.mem_of_mem_erase hx

theorem removeAll_nodup {a : Attrs} (h : NodupKeys a) (ks : List Str) : NodupKeys (removeAll a ks) := by
  induction ks generalizing a with
  | nil => simpa [removeAll]
  | cons k ks ih => simpa [removeAll] using ih (remove_nodup h k)

theorem keys_removeAll_subset (a : Attrs) (ks : List Str) : ∀ x ∈ keys (removeAll a ks), x ∈ keys a := by
  induction ks generalizing a with
  | nil => simp [removeAll]
  | cons k ks ih =>
    intro x hx
    simp only [removeAll, List.foldl_cons] at hx
    exact keys_remove_subset a k x (ih (remove a k) x hx)

/-- every listed key is gone after `remove_attrs` -/
theorem contains_removeAll {a : Attrs} (h : NodupKeys a) (ks : List Str) (k : Str) (hk : k ∈ ks) :
    contains (removeAll a ks) k = false := by
  induction ks generalizing a with
  | nil => simp at hk
  | cons k' ks ih =>
    simp only [removeAll, List.foldl_cons]
    rcases List.mem_cons.mp hk with rfl | hk'
    · -- removed first; later removals cannot bring it back
      have h1 := contains_remove_self h k
      cases hc : contains (List.foldl remove (remove a k) ks) k with
      | false => rfl
      | true =>
        have := keys_removeAll_subset (remove a k) ks k ((contains_iff_mem_keys _ k).mp hc)
        have h2 := (contains_iff_mem_keys _ k).mpr this
        simp [h1] at h2
    · exact ih (remove_nodup h k') hk'

end Attrs
end Svgdx
