/-
  Svgdx.Proofs.XmlRaw — the tokenizer cuts its input into consecutive slices: writing the events back
  reproduces the input exactly.
-/
import Svgdx.Xml.Raw
import Mathlib.Tactic.Linarith
namespace Svgdx.Xml
open Svgdx Str

theorem stripPrefix_spec (p s r : Str) (h : stripPrefix p s = some r) : p ++ r = s := by
  induction p generalizing s with
  | nil => simp [stripPrefix] at h; simp [h]
  | cons a p ih =>
    cases s with
    | nil => simp [stripPrefix] at h
    | cons b s =>
      simp only [stripPrefix] at h
      split at h
      · rename_i hab
        have : a = b := by simpa using hab
        subst this
        simp [ih s h]
      · cases h

theorem findSub_spec (pat s : Str) (i : Nat) (h : findSub pat s = some i) :
    s.take i ++ pat ++ s.drop (i + pat.length) = s := by
  induction s generalizing i with
  | nil =>
    simp only [findSub] at h
    split at h
    · rename_i hp
      have : pat = [] := by simpa using hp
      subst this; cases h; simp
    · cases h
  | cons c cs ih =>
    simp only [findSub] at h
    split at h
    · rename_i hsw
      cases h
      simp only [startsWith, Option.isSome_iff_exists] at hsw
      obtain ⟨r, hr⟩ := hsw
      have := stripPrefix_spec pat (c :: cs) r hr
      simp only [List.take_zero, List.nil_append, Nat.zero_add]
      rw [← this]
      simp
    · cases hf : findSub pat cs with
      | none => simp [hf] at h
      | some j =>
        simp only [hf, Option.map_some, Option.some.injEq] at h
        subst h
        have := ih j hf
        simp only [List.take_succ_cons, List.cons_append]
        have e : j + 1 + pat.length = (j + pat.length) + 1 := by omega
        rw [e, List.drop_succ_cons]
        simpa using this

theorem splitAt_spec (pat s a b : Str) (h : splitAt pat s = some (a, b)) : a ++ pat ++ b = s := by
  simp only [splitAt, splitOnSub] at h
  cases hf : findSub pat s with
  | none => simp [hf] at h
  | some i =>
    simp only [hf, Option.map_some, Option.some.injEq, Prod.mk.injEq] at h
    obtain ⟨rfl, rfl⟩ := h
    exact findSub_spec pat s i hf

theorem scanTag_spec (s : Str) (q : Option Char) (acc c after : Str)
    (h : scanTag s q acc = some (c, after)) : c ++ ['>'] ++ after = acc.reverse ++ s := by
  induction s generalizing q acc with
  | nil => simp [scanTag] at h
  | cons x xs ih =>
    cases q with
    | some qc =>
      simp only [scanTag] at h
      split at h <;> (have := ih _ _ h; simpa using this)
    | none =>
      simp only [scanTag] at h
      split at h
      · rename_i hx
        have : x = '>' := by simpa using hx
        subst this
        simp only [Option.some.injEq, Prod.mk.injEq] at h
        obtain ⟨rfl, rfl⟩ := h
        simp
      · split at h <;> (have := ih _ _ h; simpa using this)

theorem scanDoctype_spec (s : Str) (d : Nat) (q : Option Char) (acc c after : Str)
    (h : scanDoctype s d q acc = some (c, after)) : c ++ ['>'] ++ after = acc.reverse ++ s := by
  induction s generalizing d q acc with
  | nil => simp [scanDoctype] at h
  | cons x xs ih =>
    cases q with
    | some qc =>
      simp only [scanDoctype] at h
      split at h <;> (have := ih _ _ _ h; simpa using this)
    | none =>
      simp only [scanDoctype] at h
      split at h
      · rename_i hx
        have : x = '>' := by
          have := hx
          simp only [Bool.and_eq_true, beq_iff_eq] at this
          exact this.1
        subst this
        simp only [Option.some.injEq, Prod.mk.injEq] at h
        obtain ⟨rfl, rfl⟩ := h
        simp
      · split at h
        · have := ih _ _ _ h; simpa using this
        · split at h
          · have := ih _ _ _ h; simpa using this
          · split at h <;> (have := ih _ _ _ h; simpa using this)

/-- one event and the rest make up the input -/
theorem nextTok_spec (s : Str) (t : Tok) (rest : Str) (h : nextTok s = some (t, rest)) :
    t.render ++ rest = s := by
  unfold nextTok at h
  split at h
  · cases h
  · rename_i r
    -- markup
    split at h
    · rename_i r1 hp
      cases hs : splitAt cs!"-->" r1 with
      | none => simp [hs] at h
      | some p =>
        obtain ⟨c, after⟩ := p
        simp only [hs, Option.map_some, Option.some.injEq, Prod.mk.injEq] at h
        obtain ⟨rfl, rfl⟩ := h
        have h1 := splitAt_spec _ _ _ _ hs
        have h2 := stripPrefix_spec _ _ _ hp
        simp only [Tok.render]
        rw [← h2, ← h1]; simp
    · split at h
      · rename_i r1 hp
        cases hs : splitAt cs!"]]>" r1 with
        | none => simp [hs] at h
        | some p =>
          obtain ⟨c, after⟩ := p
          simp only [hs, Option.map_some, Option.some.injEq, Prod.mk.injEq] at h
          obtain ⟨rfl, rfl⟩ := h
          have h1 := splitAt_spec _ _ _ _ hs
          have h2 := stripPrefix_spec _ _ _ hp
          simp only [Tok.render]
          rw [← h2, ← h1]; simp
      · split at h
        · rename_i r1 hp
          cases hs : scanDoctype r1 0 none [] with
          | none => simp [hs] at h
          | some p =>
            obtain ⟨c, after⟩ := p
            simp only [hs, Option.map_some, Option.some.injEq, Prod.mk.injEq] at h
            obtain ⟨rfl, rfl⟩ := h
            have h1 := scanDoctype_spec _ _ _ _ _ _ hs
            have h2 := stripPrefix_spec _ _ _ hp
            simp only [Tok.render]
            rw [← h2]
            simp only [List.reverse_nil, List.nil_append] at h1
            rw [← h1]
            simp only [List.append_assoc]
            rw [← List.append_assoc (List.takeWhile _ c), List.takeWhile_append_dropWhile]
            rfl
        · split at h
          · obtain ⟨⟨c, after⟩, hs, hh⟩ := Option.map_eq_some_iff.mp h
            simp only [Prod.mk.injEq] at hh
            obtain ⟨rfl, rfl⟩ := hh
            have h1 := splitAt_spec _ _ _ _ hs
            simp only [Tok.render]
            rw [← h1]; simp
          · obtain ⟨⟨c, after⟩, hs, hh⟩ := Option.map_eq_some_iff.mp h
            simp only [Prod.mk.injEq] at hh
            obtain ⟨rfl, rfl⟩ := hh
            have h1 := scanTag_spec _ _ _ _ _ hs
            simp only [List.reverse_nil, List.nil_append] at h1
            simp only [Tok.render]
            rw [← h1]
            have hsplit : (c.reverse.dropWhile isAsciiWs).reverse ++ (c.reverse.takeWhile isAsciiWs).reverse = c := by
              rw [← List.reverse_append, List.takeWhile_append_dropWhile, List.reverse_reverse]
            simp only [List.append_assoc, List.cons_append, List.nil_append]
            rw [← List.append_assoc (List.reverse _) (List.reverse _), hsplit]
          · obtain ⟨⟨c, after⟩, hs, hh⟩ := Option.map_eq_some_iff.mp h
            have h1 := scanTag_spec _ _ _ _ _ hs
            simp only [List.reverse_nil, List.nil_append] at h1
            dsimp only at hh
            split at hh
            · rename_i body hb
              simp only [Prod.mk.injEq] at hh
              obtain ⟨rfl, rfl⟩ := hh
              have : c = body.reverse ++ ['/'] := by
                have := congrArg List.reverse hb
                simpa using this
              simp only [Tok.render]
              rw [← h1, this]; simp
            · simp only [Prod.mk.injEq] at hh
              obtain ⟨rfl, rfl⟩ := hh
              simp only [Tok.render]
              rw [← h1]; simp
  · simp only [Option.some.injEq, Prod.mk.injEq] at h
    obtain ⟨rfl, rfl⟩ := h
    simp [Tok.render, List.takeWhile_append_dropWhile]

/-- **pass-through is the identity**: whatever the tokenizer accepts is written back byte for byte -/
theorem render_tokenize (fuel : Nat) (s : Str) (ts : List Tok) (h : tokenize fuel s = some ts) :
    render ts = s := by
  induction fuel generalizing s ts with
  | zero =>
    cases s with
    | nil => simp [tokenize] at h; subst h; rfl
    | cons c cs => simp [tokenize] at h
  | succ fuel ih =>
    cases s with
    | nil => simp [tokenize] at h; subst h; rfl
    | cons c cs =>
      simp only [tokenize] at h
      cases hn : nextTok (c :: cs) with
      | none => simp [hn] at h
      | some p =>
        obtain ⟨t, rest⟩ := p
        simp only [hn] at h
        cases ht : tokenize fuel rest with
        | none => simp [ht] at h
        | some ts' =>
          simp only [ht, Option.map_some, Option.some.injEq] at h
          subst h
          have := ih rest ts' ht
          simp only [render, List.flatMap_cons] at this ⊢
          rw [this]
          exact nextTok_spec _ _ _ hn

theorem passThrough_id (s out : Str) (h : passThrough s = some out) : out = s := by
  simp only [passThrough] at h
  cases ht : tokenize (s.length + 1) s with
  | none => simp [ht] at h
  | some ts =>
    simp only [ht, Option.map_some, Option.some.injEq] at h
    rw [← h]
    exact render_tokenize _ _ _ ht

end Svgdx.Xml
