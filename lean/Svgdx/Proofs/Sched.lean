/-
  Svgdx.Proofs.Sched — order independence (confluence) of the retry loop `process_tags`.

  Model: `Svgdx.Sched.Retry` (`onePass`, `retry`, `run`).

  Under the hypotheses
    * unique ids, and
    * every item is `Monotone` (resolving more elements can only turn "not ready" into an
      answer, never change or remove an answer),
  the outcome of the loop does not depend on the order of the pending elements:
    * `run_perm_isSome` : it succeeds for one order iff it succeeds for every order,
    * `run_perm_view`   : every element gets the same value whatever the order,
    * `run_complete`    : on success every element is resolved, consistently with the final
                          environment,
    * `run_none_stuck`  : `none` means a genuinely unsatisfiable non-empty remainder (none of the
                          pending items evaluates in the environment reached, and none of them
                          is resolved in *any* reachable environment), not an artefact of the
                          order or of the fuel,
    * `fuel_irrelevant` : more fuel than `length + 1` changes nothing.
  The monotonicity hypothesis matters: see the counterexample at the end.

  Proof route: `Reach L e` = the environments that can be built from `[]` by adding, one at a
  time, an item of `L` not yet present whose `eval` succeeds in the current environment.  Every
  environment of the loop is reachable; a reachable environment is *consistent* (each entry is
  the value of its item in the final view, `Reach.consistent`); and any reachable environment is
  included in any *maximal* reachable one (`Reach.incl_of_maximal`).  The loop ends either in a
  total environment or in a maximal one with a non-empty blocked remainder.

  Core Lean only.
-/
import Svgdx.Sched.Retry
namespace Svgdx.Sched

variable {ι ν : Type}

/-- an item only ever *gains* an answer when more elements are resolved, and never changes it -/
def Monotone (t : Item ι ν) : Prop :=
  ∀ f g : ι → Option ν, (∀ i v, f i = some v → g i = some v) →
    ∀ v, t.eval f = some v → t.eval g = some v

/-- pointwise inclusion of views -/
def Incl (f g : ι → Option ν) : Prop := ∀ i v, f i = some v → g i = some v

theorem Incl.refl (f : ι → Option ν) : Incl f f := fun _ _ h => h

theorem Incl.trans {f g h : ι → Option ν} (h₁ : Incl f g) (h₂ : Incl g h) : Incl f h :=
  fun i v hi => h₂ i v (h₁ i v hi)

theorem Incl.antisymm {f g : ι → Option ν} (h₁ : Incl f g) (h₂ : Incl g f) (i : ι) : f i = g i := by
  cases hf : f i with
  | some v => exact (h₁ i v hf).symm
  | none =>
    cases hg : g i with
    | none => rfl
    | some w => rw [h₂ i w hg] at hf; cases hf

variable [DecidableEq ι]

/-! ### `view` -/

@[simp] theorem view_nil (i : ι) : view ([] : Env ι ν) i = none := rfl

theorem view_cons (j : ι) (w : ν) (e : Env ι ν) (i : ι) :
    view ((j, w) :: e) i = if j = i then some w else view e i := by
  unfold view
  by_cases h : j = i
  · simp [h]
  · simp [h]

theorem incl_cons {e : Env ι ν} {j : ι} (w : ν) (h : view e j = none) :
    Incl (view e) (view ((j, w) :: e)) := by
  intro i v hi
  rw [view_cons]
  by_cases hji : j = i
  · subst hji; rw [h] at hi; cases hi
  · rw [if_neg hji]; exact hi

/-! ### reachable environments -/

/-- environments that can be built by adding, one at a time, an item of `L` that is not
resolved yet and evaluates in the current environment -/
inductive Reach (L : List (Item ι ν)) : Env ι ν → Prop
  | nil : Reach L []
  | cons {e : Env ι ν} {t : Item ι ν} {v : ν} :
      Reach L e → t ∈ L → view e t.id = none → t.eval (view e) = some v →
      Reach L ((t.id, v) :: e)

/-- nothing more can be added: every unresolved item of `L` fails -/
def Maximal (L : List (Item ι ν)) (e : Env ι ν) : Prop :=
  ∀ t ∈ L, view e t.id = none → t.eval (view e) = none

/-- every item of `L` is resolved -/
def Total (L : List (Item ι ν)) (e : Env ι ν) : Prop :=
  ∀ t ∈ L, (view e t.id).isSome

theorem Total.maximal {L : List (Item ι ν)} {e : Env ι ν} (h : Total L e) : Maximal L e := by
  intro t ht hn
  have := h t ht
  rw [hn] at this
  cases this

omit [DecidableEq ι] in
theorem id_inj {L : List (Item ι ν)} (hnd : (L.map (·.id)).Nodup) {s t : Item ι ν}
    (hs : s ∈ L) (ht : t ∈ L) (h : s.id = t.id) : s = t := by
  induction L with
  | nil => cases hs
  | cons a L ih =>
    simp only [List.map_cons, List.nodup_cons, List.mem_map, not_exists, not_and] at hnd
    rcases List.mem_cons.1 hs with rfl | hs'
    · rcases List.mem_cons.1 ht with rfl | ht'
      · rfl
      · exact absurd h.symm (hnd.1 t ht')
    · rcases List.mem_cons.1 ht with rfl | ht'
      · exact absurd h (hnd.1 s hs')
      · exact ih hnd.2 hs' ht'

/-- a reachable environment is consistent: the value recorded for an item is the value of the
item in the *final* view -/
theorem Reach.consistent {L : List (Item ι ν)} (hnd : (L.map (·.id)).Nodup)
    (hmono : ∀ t ∈ L, Monotone t) {e : Env ι ν} (hr : Reach L e) :
    ∀ t ∈ L, ∀ v, view e t.id = some v → t.eval (view e) = some v := by
  induction hr with
  | nil => intro t _ v h; simp at h
  | @cons e s w _ hs hfresh hev ih =>
    intro t ht v hv
    rw [view_cons] at hv
    have hincl := incl_cons w hfresh
    by_cases hid : s.id = t.id
    · rw [if_pos hid] at hv
      cases hv
      have hst := id_inj hnd hs ht hid
      subst hst
      exact hmono _ hs _ _ hincl _ hev
    · rw [if_neg hid] at hv
      exact hmono _ ht _ _ hincl _ (ih t ht v hv)

/-- KEY LEMMA: any reachable environment is included in any maximal reachable environment -/
theorem Reach.incl_of_maximal {L : List (Item ι ν)} (hnd : (L.map (·.id)).Nodup)
    (hmono : ∀ t ∈ L, Monotone t) {e₁ e₂ : Env ι ν} (h₁ : Reach L e₁) (h₂ : Reach L e₂)
    (hmax : Maximal L e₂) : Incl (view e₁) (view e₂) := by
  induction h₁ with
  | nil => intro i v h; simp at h
  | @cons e s w _ hs hfresh hev ih =>
    intro i v hv
    rw [view_cons] at hv
    by_cases hid : s.id = i
    · rw [if_pos hid] at hv
      cases hv
      subst hid
      have hev₂ : s.eval (view e₂) = some w := hmono _ hs _ _ ih _ hev
      cases hv₂ : view e₂ s.id with
      | none => rw [hmax s hs hv₂] at hev₂; cases hev₂
      | some v' =>
        have := h₂.consistent hnd hmono s hs v' hv₂
        rw [hev₂] at this
        exact this.symm
    · rw [if_neg hid] at hv
      exact ih i v hv

/-! ### one pass, without the accumulator -/

/-- `onePass` without the accumulator -/
def pass : Env ι ν → List (Item ι ν) → Env ι ν × List (Item ι ν)
  | env, [] => (env, [])
  | env, t :: ts =>
    match t.eval (view env) with
    | some v => pass ((t.id, v) :: env) ts
    | none => ((pass env ts).1, t :: (pass env ts).2)

@[simp] theorem pass_nil (env : Env ι ν) : pass env ([] : List (Item ι ν)) = (env, []) := rfl

theorem pass_cons_some {env : Env ι ν} {t : Item ι ν} {v : ν} (ts : List (Item ι ν))
    (h : t.eval (view env) = some v) : pass env (t :: ts) = pass ((t.id, v) :: env) ts := by
  simp [pass, h]

theorem pass_cons_none {env : Env ι ν} {t : Item ι ν} (ts : List (Item ι ν))
    (h : t.eval (view env) = none) :
    pass env (t :: ts) = ((pass env ts).1, t :: (pass env ts).2) := by
  simp [pass, h]

theorem onePass_eq (env : Env ι ν) (ts remain : List (Item ι ν)) :
    onePass env ts remain = ((pass env ts).1, remain.reverse ++ (pass env ts).2) := by
  induction ts generalizing env remain with
  | nil => simp [onePass]
  | cons t ts ih =>
    cases h : t.eval (view env) with
    | some v => simp [onePass, h, ih, pass_cons_some ts h]
    | none => simp [onePass, h, ih, pass_cons_none ts h]

theorem pass_sublist (env : Env ι ν) (ts : List (Item ι ν)) : (pass env ts).2.Sublist ts := by
  induction ts generalizing env with
  | nil => simp
  | cons t ts ih =>
    cases h : t.eval (view env) with
    | some v => rw [pass_cons_some ts h]; exact (ih _).cons _
    | none => rw [pass_cons_none ts h]; exact (ih _).cons_cons _

theorem pass_length_le (env : Env ι ν) (ts : List (Item ι ν)) :
    (pass env ts).2.length ≤ ts.length := (pass_sublist env ts).length_le

/-- a pass without progress added nothing, and every item failed in the (unchanged) environment -/
theorem pass_noprogress {env : Env ι ν} {ts : List (Item ι ν)}
    (hlen : (pass env ts).2.length = ts.length) :
    (pass env ts).1 = env ∧ ∀ t ∈ ts, t.eval (view env) = none := by
  induction ts generalizing env with
  | nil => simp
  | cons t ts ih =>
    cases h : t.eval (view env) with
    | some v =>
      rw [pass_cons_some ts h] at hlen
      have := pass_length_le ((t.id, v) :: env) ts
      simp only [List.length_cons] at hlen
      omega
    | none =>
      rw [pass_cons_none ts h] at hlen ⊢
      simp only [List.length_cons, Nat.add_right_cancel_iff] at hlen
      have := ih hlen
      refine ⟨this.1, ?_⟩
      intro t' ht'
      rcases List.mem_cons.1 ht' with rfl | ht'
      · exact h
      · exact this.2 t' ht'

theorem pass_spec {L : List (Item ι ν)} {env : Env ι ν} {ts : List (Item ι ν)}
    (hr : Reach L env) (hin : ∀ t ∈ ts, t ∈ L) (hfresh : ∀ t ∈ ts, view env t.id = none)
    (hnd : (ts.map (·.id)).Nodup) :
    Reach L (pass env ts).1 ∧
    Incl (view env) (view (pass env ts).1) ∧
    (∀ i, view env i = none → (∀ t ∈ ts, t.id ≠ i) → view (pass env ts).1 i = none) ∧
    (∀ t ∈ (pass env ts).2, view (pass env ts).1 t.id = none) ∧
    (∀ t ∈ ts, t ∈ (pass env ts).2 ∨ (view (pass env ts).1 t.id).isSome) := by
  induction ts generalizing env with
  | nil =>
    refine ⟨hr, Incl.refl _, fun i h _ => h, ?_, ?_⟩
    · intro t ht; simp at ht
    · intro t ht; cases ht
  | cons t ts ih =>
    simp only [List.map_cons, List.nodup_cons, List.mem_map, not_exists, not_and] at hnd
    have hin' : ∀ t' ∈ ts, t' ∈ L := fun t' h => hin t' (List.mem_cons_of_mem _ h)
    have htL : t ∈ L := hin t List.mem_cons_self
    have htf : view env t.id = none := hfresh t List.mem_cons_self
    cases h : t.eval (view env) with
    | some v =>
      rw [pass_cons_some ts h]
      have hr' : Reach L ((t.id, v) :: env) := Reach.cons hr htL htf h
      have hfresh' : ∀ t' ∈ ts, view ((t.id, v) :: env) t'.id = none := by
        intro t' ht'
        rw [view_cons, if_neg (fun hid => hnd.1 t' ht' hid.symm)]
        exact hfresh t' (List.mem_cons_of_mem _ ht')
      obtain ⟨R, I, N, F, C⟩ := ih hr' hin' hfresh' hnd.2
      refine ⟨R, (incl_cons v htf).trans I, ?_, F, ?_⟩
      · intro i hi hne
        apply N i
        · rw [view_cons, if_neg (hne t List.mem_cons_self)]; exact hi
        · exact fun t' ht' => hne t' (List.mem_cons_of_mem _ ht')
      · intro t' ht'
        rcases List.mem_cons.1 ht' with rfl | ht'
        · right
          have : view ((t'.id, v) :: env) t'.id = some v := by rw [view_cons, if_pos rfl]
          rw [I _ _ this]; rfl
        · exact C t' ht'
    | none =>
      rw [pass_cons_none ts h]
      have hfresh' : ∀ t' ∈ ts, view env t'.id = none :=
        fun t' ht' => hfresh t' (List.mem_cons_of_mem _ ht')
      obtain ⟨R, I, N, F, C⟩ := ih hr hin' hfresh' hnd.2
      refine ⟨R, I, ?_, ?_, ?_⟩
      · intro i hi hne
        exact N i hi (fun t' ht' => hne t' (List.mem_cons_of_mem _ ht'))
      · intro t' ht'
        rcases List.mem_cons.1 ht' with rfl | ht'
        · exact N _ htf (fun s hs hid => hnd.1 s hs hid)
        · exact F t' ht'
      · intro t' ht'
        rcases List.mem_cons.1 ht' with rfl | ht'
        · exact Or.inl List.mem_cons_self
        · rcases C t' ht' with h' | h'
          · exact Or.inl (List.mem_cons_of_mem _ h')
          · exact Or.inr h'

/-! ### the loop invariant -/

/-- state of the loop: `env` is reachable and `L` is split into the pending items `q`
(unresolved) and the resolved ones -/
structure Inv (L : List (Item ι ν)) (env : Env ι ν) (q : List (Item ι ν)) : Prop where
  reach : Reach L env
  nodup : (q.map (·.id)).Nodup
  sub : ∀ t ∈ q, t ∈ L
  fresh : ∀ t ∈ q, view env t.id = none
  cover : ∀ t ∈ L, t ∈ q ∨ (view env t.id).isSome

theorem Inv.init {L l : List (Item ι ν)} (hp : L.Perm l) (hnd : (L.map (·.id)).Nodup) :
    Inv L ([] : Env ι ν) l where
  reach := Reach.nil
  nodup := (hp.map _).nodup_iff.1 hnd
  sub := fun _ ht => hp.mem_iff.2 ht
  fresh := fun _ _ => rfl
  cover := fun _ ht => Or.inl (hp.mem_iff.1 ht)

theorem Inv.pass {L : List (Item ι ν)} {env : Env ι ν} {q : List (Item ι ν)} (h : Inv L env q) :
    Inv L (pass env q).1 (pass env q).2 := by
  obtain ⟨R, I, _, F, C⟩ := pass_spec h.reach h.sub h.fresh h.nodup
  refine ⟨R, ?_, ?_, F, ?_⟩
  · exact ((pass_sublist env q).map _).nodup h.nodup
  · exact fun t ht => h.sub t ((pass_sublist env q).subset ht)
  · intro t ht
    rcases h.cover t ht with hq | hs
    · exact C t hq
    · right
      cases hv : view env t.id with
      | none => rw [hv] at hs; cases hs
      | some v => rw [I _ _ hv]; rfl

/-- a stuck state: maximal, with a non-empty blocked remainder -/
theorem Inv.maximal {L : List (Item ι ν)} {env : Env ι ν} {q : List (Item ι ν)} (h : Inv L env q)
    (hfail : ∀ t ∈ q, t.eval (view env) = none) : Maximal L env := by
  intro t ht hn
  rcases h.cover t ht with hq | hs
  · exact hfail t hq
  · rw [hn] at hs; cases hs

/-! ### `retry` -/

theorem retry_succ (fuel : Nat) (env : Env ι ν) {q : List (Item ι ν)} (hq : q ≠ []) :
    retry (fuel + 1) env q =
      if (pass env q).2.length = q.length then none
      else retry fuel (pass env q).1 (pass env q).2 := by
  cases q with
  | nil => exact absurd rfl hq
  | cons t ts => simp [retry, onePass_eq]

theorem retry_some {L : List (Item ι ν)} {fuel : Nat} {env e : Env ι ν} {q : List (Item ι ν)}
    (hI : Inv L env q) (h : retry fuel env q = some e) : Reach L e ∧ Total L e := by
  induction fuel generalizing env q with
  | zero => simp [retry] at h
  | succ n ih =>
    cases q with
    | nil =>
      simp only [retry, Option.some.injEq] at h
      subst h
      refine ⟨hI.reach, fun t ht => ?_⟩
      rcases hI.cover t ht with hq | hs
      · cases hq
      · exact hs
    | cons t ts =>
      rw [retry_succ n env (by simp)] at h
      split at h
      · cases h
      · exact ih hI.pass h

theorem retry_none {L : List (Item ι ν)} {fuel : Nat} {env : Env ι ν} {q : List (Item ι ν)}
    (hI : Inv L env q) (hf : q.length < fuel) (h : retry fuel env q = none) :
    ∃ e p, Inv L e p ∧ p ≠ [] ∧ ∀ t ∈ p, t.eval (view e) = none := by
  induction fuel generalizing env q with
  | zero => omega
  | succ n ih =>
    cases q with
    | nil => simp [retry] at h
    | cons t ts =>
      rw [retry_succ n env (by simp)] at h
      split at h
      · next hlen => exact ⟨env, t :: ts, hI, by simp, (pass_noprogress hlen).2⟩
      · next hlen =>
        have := pass_length_le env (t :: ts)
        exact ih hI.pass (by omega) h

theorem retry_fuel (f₁ f₂ : Nat) (env : Env ι ν) (q : List (Item ι ν))
    (h₁ : q.length < f₁) (h₂ : q.length < f₂) : retry f₁ env q = retry f₂ env q := by
  induction f₁ generalizing f₂ env q with
  | zero => omega
  | succ n ih =>
    cases f₂ with
    | zero => omega
    | succ m =>
      cases q with
      | nil => simp [retry]
      | cons t ts =>
        rw [retry_succ n env (by simp), retry_succ m env (by simp)]
        split
        · rfl
        · have := pass_length_le env (t :: ts)
          exact ih m _ _ (by omega) (by omega)

/-- more fuel than `length + 1` changes nothing -/
theorem fuel_irrelevant (items : List (Item ι ν)) (fuel : Nat) (h : items.length + 1 ≤ fuel) :
    retry fuel [] items = run items :=
  retry_fuel fuel (items.length + 1) [] items (by omega) (by omega)

/-! ### outcome of `run`, relative to any reordering `L` of the items -/

theorem run_some_of_perm {L l : List (Item ι ν)} (hp : L.Perm l) (hnd : (L.map (·.id)).Nodup)
    {e : Env ι ν} (h : run l = some e) : Reach L e ∧ Total L e :=
  retry_some (Inv.init hp hnd) h

theorem run_none_of_perm {L l : List (Item ι ν)} (hp : L.Perm l) (hnd : (L.map (·.id)).Nodup)
    (h : run l = none) :
    ∃ e p, Inv L e p ∧ p ≠ [] ∧ ∀ t ∈ p, t.eval (view e) = none :=
  retry_none (Inv.init hp hnd) (Nat.lt_succ_self _) h

/-- a success and a failure cannot coexist -/
theorem not_some_and_none {L : List (Item ι ν)} (hnd : (L.map (·.id)).Nodup)
    (hmono : ∀ t ∈ L, Monotone t) {e₁ e₂ : Env ι ν} {p : List (Item ι ν)}
    (h₁ : Reach L e₁) (ht₁ : Total L e₁) (hI : Inv L e₂ p) (hp : p ≠ [])
    (hfail : ∀ t ∈ p, t.eval (view e₂) = none) : False := by
  have hincl := h₁.incl_of_maximal hnd hmono hI.reach (hI.maximal hfail)
  cases p with
  | nil => exact hp rfl
  | cons t ts =>
    have htL := hI.sub t List.mem_cons_self
    have hn := hI.fresh t List.mem_cons_self
    have hs := ht₁ t htL
    cases hv : view e₁ t.id with
    | none => rw [hv] at hs; cases hs
    | some v => rw [hincl _ _ hv] at hn; cases hn

/-! ### main theorems -/

/-- (a) the loop succeeds for one order iff it succeeds for every order -/
theorem run_perm_isSome {l₁ l₂ : List (Item ι ν)} (hp : l₁.Perm l₂)
    (hnd : (l₁.map (·.id)).Nodup) (hmono : ∀ t ∈ l₁, Monotone t) :
    (run l₁).isSome = (run l₂).isSome := by
  cases h₁ : run l₁ with
  | some e₁ =>
    cases h₂ : run l₂ with
    | some e₂ => rfl
    | none =>
      exfalso
      obtain ⟨r₁, t₁⟩ := run_some_of_perm (List.Perm.refl l₁) hnd h₁
      obtain ⟨e, p, hI, hne, hfail⟩ := run_none_of_perm hp hnd h₂
      exact not_some_and_none hnd hmono r₁ t₁ hI hne hfail
  | none =>
    cases h₂ : run l₂ with
    | none => rfl
    | some e₂ =>
      exfalso
      obtain ⟨r₂, t₂⟩ := run_some_of_perm hp hnd h₂
      obtain ⟨e, p, hI, hne, hfail⟩ := run_none_of_perm (List.Perm.refl l₁) hnd h₁
      exact not_some_and_none hnd hmono r₂ t₂ hI hne hfail

/-- (b) every element gets the same value whatever the order -/
theorem run_perm_view {l₁ l₂ : List (Item ι ν)} (hp : l₁.Perm l₂)
    (hnd : (l₁.map (·.id)).Nodup) (hmono : ∀ t ∈ l₁, Monotone t) {e₁ e₂ : Env ι ν}
    (h₁ : run l₁ = some e₁) (h₂ : run l₂ = some e₂) : ∀ i, view e₁ i = view e₂ i := by
  obtain ⟨r₁, t₁⟩ := run_some_of_perm (List.Perm.refl l₁) hnd h₁
  obtain ⟨r₂, t₂⟩ := run_some_of_perm hp hnd h₂
  exact Incl.antisymm (r₁.incl_of_maximal hnd hmono r₂ t₂.maximal)
    (r₂.incl_of_maximal hnd hmono r₁ t₁.maximal)

/-- (a) and (b) together -/
theorem run_perm {l₁ l₂ : List (Item ι ν)} (hp : l₁.Perm l₂)
    (hnd : (l₁.map (·.id)).Nodup) (hmono : ∀ t ∈ l₁, Monotone t) :
    (run l₁).isSome = (run l₂).isSome ∧
    ∀ e₁ e₂, run l₁ = some e₁ → run l₂ = some e₂ → ∀ i, view e₁ i = view e₂ i :=
  ⟨run_perm_isSome hp hnd hmono, fun _ _ h₁ h₂ => run_perm_view hp hnd hmono h₁ h₂⟩

/-- on success every element is resolved, and consistent with the final environment -/
theorem run_complete {l : List (Item ι ν)} (hnd : (l.map (·.id)).Nodup)
    (hmono : ∀ t ∈ l, Monotone t) {e : Env ι ν} (h : run l = some e) :
    ∀ t ∈ l, ∃ v, view e t.id = some v ∧ t.eval (view e) = some v := by
  obtain ⟨r, tot⟩ := run_some_of_perm (List.Perm.refl l) hnd h
  intro t ht
  have hs := tot t ht
  cases hv : view e t.id with
  | none => rw [hv] at hs; cases hs
  | some v => exact ⟨v, rfl, r.consistent hnd hmono t ht v hv⟩

/-- `none` means an unsatisfiable non-empty remainder: the loop reached a (reachable)
environment `e` with a non-empty list `pending` of items of `l`, exactly the unresolved ones,
none of which evaluates under `e` — and none of which is resolved in *any* reachable
environment (so no order, and no amount of fuel, would have resolved them) -/
theorem run_none_stuck {l : List (Item ι ν)} (hnd : (l.map (·.id)).Nodup)
    (hmono : ∀ t ∈ l, Monotone t) (h : run l = none) :
    ∃ (e : Env ι ν) (pending : List (Item ι ν)),
      pending ≠ [] ∧ Reach l e ∧
      (∀ t ∈ pending, t ∈ l) ∧
      (∀ t ∈ l, t ∈ pending ∨ (view e t.id).isSome) ∧
      (∀ t ∈ pending, view e t.id = none ∧ t.eval (view e) = none) ∧
      (∀ e', Reach l e' → ∀ t ∈ pending, view e' t.id = none) := by
  obtain ⟨e, p, hI, hne, hfail⟩ := run_none_of_perm (List.Perm.refl l) hnd h
  refine ⟨e, p, hne, hI.reach, hI.sub, hI.cover, fun t ht => ⟨hI.fresh t ht, hfail t ht⟩, ?_⟩
  intro e' hr' t ht
  have hincl := hr'.incl_of_maximal hnd hmono hI.reach (hI.maximal hfail)
  cases hv : view e' t.id with
  | none => rfl
  | some v =>
    have := hincl _ _ hv
    rw [hI.fresh t ht] at this
    cases this

/-- in particular there is a witness `t ∈ l` -/
theorem run_none_witness {l : List (Item ι ν)} (hnd : (l.map (·.id)).Nodup)
    (hmono : ∀ t ∈ l, Monotone t) (h : run l = none) :
    ∃ t ∈ l, ∀ e', Reach l e' → view e' t.id = none := by
  obtain ⟨e, p, hne, _, hsub, _, _, hnever⟩ := run_none_stuck hnd hmono h
  cases p with
  | nil => exact absurd rfl hne
  | cons t ts =>
    exact ⟨t, hsub t List.mem_cons_self, fun e' hr' => hnever e' hr' t List.mem_cons_self⟩

/-! ### the monotonicity hypothesis matters -/

namespace Counter

/-- "early registration with a default position": answers `0` while element 2 is not visible,
and `v + 1` once it is visible with value `v` — not monotone -/
def a : Item Nat Nat := ⟨1, fun f => match f 2 with | none => some 0 | some v => some (v + 1)⟩
def b : Item Nat Nat := ⟨2, fun _ => some 5⟩

example : run [a, b] = some [(2, 5), (1, 0)] := by decide
example : run [b, a] = some [(1, 6), (2, 5)] := by decide
example : (run [a, b]).map (fun e => view e 1) = some (some 0) := by decide
example : (run [b, a]).map (fun e => view e 1) = some (some 6) := by decide

/-- both orders succeed, the ids are unique, but element 1 gets a different value -/
example : ([a, b].map (·.id)).Nodup ∧ [a, b].Perm [b, a] ∧
    (run [a, b]).map (fun e => view e 1) ≠ (run [b, a]).map (fun e => view e 1) := by
  refine ⟨by decide, List.Perm.swap _ _ _, by decide⟩

example : ¬ Monotone a := by
  intro h
  have := h (fun _ => none) (fun _ => some 5) (fun _ _ hf => by cases hf) 0 rfl
  cases this

end Counter

/-! ### non-vacuity: a chain listed in the worst order -/

namespace Chain

/-- `c` is absolute, `b` is placed relative to `c`, `a` relative to `b` -/
def c : Item Nat Nat := ⟨3, fun _ => some 10⟩
def b : Item Nat Nat := ⟨2, fun f => (f 3).map (· + 1)⟩
def a : Item Nat Nat := ⟨1, fun f => (f 2).map (· + 1)⟩

/-- three passes: `c`, then `b`, then `a` -/
example : run [a, b, c] = some [(1, 12), (2, 11), (3, 10)] := by decide
example : run [c, b, a] = some [(1, 12), (2, 11), (3, 10)] := by decide
example : run [b, c, a] = some [(1, 12), (2, 11), (3, 10)] := by decide
/-- an unknown reference, or a cycle, is stuck -/
example : run [a, b] = none := by decide
example : run [a, ⟨2, fun f => (f 1).map (· + 1)⟩, c] = none := by decide

theorem mono : ∀ t ∈ [a, b, c], Monotone t := by
  intro t ht
  simp only [List.mem_cons, List.not_mem_nil, or_false] at ht
  rcases ht with rfl | rfl | rfl
  · intro f g hfg v hv
    simp only [a, Option.map_eq_some_iff] at hv ⊢
    obtain ⟨w, hw, rfl⟩ := hv
    exact ⟨w, hfg _ _ hw, rfl⟩
  · intro f g hfg v hv
    simp only [b, Option.map_eq_some_iff] at hv ⊢
    obtain ⟨w, hw, rfl⟩ := hv
    exact ⟨w, hfg _ _ hw, rfl⟩
  · intro f g _ v hv
    exact hv

/-- the hypotheses of the theorems are satisfiable, and the conclusion is the expected one -/
example : ∀ l, [a, b, c].Perm l → (run l).isSome = true := by
  intro l hp
  rw [← run_perm_isSome hp (by decide) mono]
  decide

end Chain

end Svgdx.Sched

#print axioms Svgdx.Sched.Reach.consistent
#print axioms Svgdx.Sched.Reach.incl_of_maximal
#print axioms Svgdx.Sched.onePass_eq
#print axioms Svgdx.Sched.fuel_irrelevant
#print axioms Svgdx.Sched.run_perm_isSome
#print axioms Svgdx.Sched.run_perm_view
#print axioms Svgdx.Sched.run_perm
#print axioms Svgdx.Sched.run_complete
#print axioms Svgdx.Sched.run_none_stuck
#print axioms Svgdx.Sched.run_none_witness
#print axioms Svgdx.Sched.Chain.mono
