import Svgdx.Geom.Text
import Svgdx.Proofs.Attrs
import Mathlib.Tactic.Linarith
import Mathlib.Tactic.Ring

namespace Svgdx.Props.C19x
open Svgdx Gen Text Str Num

/-! ### the attribute list under `pop` -/

theorem pop_snd (a : Attrs) (k : Str) : (Attrs.pop a k).2 = Attrs.get a k := by
  induction a with
  | nil => simp [Attrs.pop, Attrs.get, Attrs.lookupTable]
  | cons x xs ih =>
    obtain ⟨k', v⟩ := x
    simp only [Attrs.pop, Attrs.get, Attrs.lookupTable]
    by_cases h : (k' == k) = true
    · simp [h]
    · simp only [h]; simpa [Attrs.get] using ih

theorem lookup_pop_other (a : Attrs) (k k2 : Str) (h : k2 ≠ k) :
    Attrs.lookupTable (Attrs.pop a k).1 k2 = Attrs.lookupTable a k2 := by
  induction a with
  | nil => simp [Attrs.pop]
  | cons x xs ih =>
    obtain ⟨k', v⟩ := x
    rw [Attrs.pop]
    by_cases hk : k' = k
    · subst hk; simp [Attrs.lookupTable, Ne.symm h]
    · simp [hk, Attrs.lookupTable, ih]

theorem get_pop_other (a : Attrs) (k k2 : Str) (h : k2 ≠ k) :
    Attrs.get (Attrs.pop a k).1 k2 = Attrs.get a k2 := lookup_pop_other a k k2 h

/-! ### `textPosition` in closed form -/

/-- the `text-dxy` pair -/
def dxyPart (dxy : Option Str) : Except Err (Rat × Rat) :=
  match dxy with
  | some v =>
    let first := match attrSplit v with
      | [] => ([] : List (Option Rat))
      | [a] => [strp a, strp a]
      | a :: b :: _ => [strp a, strp b]
    match first with
    | [some a, some b] => pure (a, b)
    | _ => throw Err.parse
  | none => pure ((0 : Rat), (0 : Rat))

def ovr (v : Option Str) (d : Rat) : Except Err Rat :=
  match v with | some v => Elem.num v | none => pure d

def locPart (locStr : Option Str) : Except Err LocSpec :=
  match parseLocSpec (locStr.getD ['c']) with
  | some l => pure l
  | none => throw Err.invalidData

def outsideOf (name : Str) (classes : List Str) : Bool :=
  if classes.contains cs!"d-text-outside" then true
  else if classes.contains cs!"d-text-inside" then false
  else (name == cs!"line" || name == cs!"point" || name == cs!"text")

def posClasses (classes : List Str) : List Str :=
  if classes.contains cs!"d-text-outside" then classes.erase cs!"d-text-outside"
  else classes.erase cs!"d-text-inside"

def anchorElemOf (e : Elem) : Elem :=
  if e.name == cs!"text" && e.hasAttr cs!"transform" then (e.popAttr cs!"transform").1 else e

def posFinish (e : Elem) (tdx tdy : Rat) (loc : LocSpec) (offset : Rat) : Except Err (Elem × TextPos) :=
  let vertical := e.hasClass cs!"d-text-vertical"
  let outside := outsideOf e.name e.classes
  let e1 : Elem := { e with classes := posClasses e.classes }
  match (anchorElemOf e1).bbox with
  | .error er => .error er
  | .ok none => .error Err.missingBBox
  | .ok (some bb) =>
    .ok (e1, { x := (bb.locspec loc).1 + (tdx + (offsetDelta loc outside offset).1),
               y := (bb.locspec loc).2 + (tdy + (offsetDelta loc outside offset).2),
               outside := outside, loc := loc,
               classes := [cs!"d-text"] ++ anchorClasses loc outside vertical })

/-- the tail of `textPosition`, literally -/
def posFinish0 (e : Elem) (tdx tdy : Rat) (loc : LocSpec) (offset : Rat) : Except Err (Elem × TextPos) := do
  let vertical := e.hasClass cs!"d-text-vertical"
  let (cls1, hadOut) := classRemove e.classes cs!"d-text-outside"
  let (cls2, hadIn) := if hadOut then (cls1, false) else classRemove cls1 cs!"d-text-inside"
  let e := { e with classes := cls2 }
  let outside := if hadOut then true else if hadIn then false
    else (e.name == cs!"line" || e.name == cs!"point" || e.name == cs!"text")
  let tc : List Str := [cs!"d-text"] ++ anchorClasses loc outside vertical
  let (ox, oy) := offsetDelta loc outside offset
  let tdx := tdx + ox
  let tdy := tdy + oy
  let e0 := anchorElemOf e
  match ← e0.bbox with
  | none => throw Err.missingBBox
  | some bb =>
    let (px, py) := bb.locspec loc
    pure (e, { x := px + tdx, y := py + tdy, outside := outside, loc := loc, classes := tc })

def posCore (e5 : Elem) (dx dy dxy locStr off : Option Str) : Except Err (Elem × TextPos) := do
  let d0 ← dxyPart dxy
  let tdx ← ovr dx d0.1
  let tdy ← ovr dy d0.2
  let loc ← locPart locStr
  let offset ← Elem.num (off.getD ['1'])
  posFinish0 e5 tdx tdy loc offset

def pop5 (e : Elem) : Elem :=
  (((((e.popAttr cs!"text-dx").1.popAttr cs!"text-dy").1.popAttr cs!"text-dxy").1.popAttr
    cs!"text-loc").1.popAttr cs!"text-offset").1

theorem textPosition_eq_core (e : Elem) :
    textPosition e = posCore (pop5 e)
      (e.popAttr cs!"text-dx").2
      ((e.popAttr cs!"text-dx").1.popAttr cs!"text-dy").2
      (((e.popAttr cs!"text-dx").1.popAttr cs!"text-dy").1.popAttr cs!"text-dxy").2
      ((((e.popAttr cs!"text-dx").1.popAttr cs!"text-dy").1.popAttr cs!"text-dxy").1.popAttr cs!"text-loc").2
      (((((e.popAttr cs!"text-dx").1.popAttr cs!"text-dy").1.popAttr cs!"text-dxy").1.popAttr cs!"text-loc").1.popAttr cs!"text-offset").2 := by
  rfl

/-! ### removing keys -/

theorem remove_cons (k' v : Str) (xs : Attrs) (k : Str) :
    Attrs.remove ((k', v) :: xs) k = if k' = k then xs else (k', v) :: Attrs.remove xs k := by
  unfold Attrs.remove
  rw [Attrs.pop]
  by_cases hk : k' = k <;> simp [hk]

theorem remove_comm (a : Attrs) (k1 k2 : Str) :
    Attrs.remove (Attrs.remove a k1) k2 = Attrs.remove (Attrs.remove a k2) k1 := by
  induction a with
  | nil => simp [Attrs.remove, Attrs.pop]
  | cons x xs ih =>
    obtain ⟨k', v⟩ := x
    by_cases h1 : k' = k1 <;> by_cases h2 : k' = k2
    · subst h1; subst h2; rfl
    · rw [remove_cons _ _ _ k1, if_pos h1, remove_cons _ _ _ k2, if_neg h2, remove_cons, if_pos h1]
    · rw [remove_cons _ _ _ k2, if_pos h2, remove_cons _ _ _ k1, if_neg h1, remove_cons, if_pos h2]
    · rw [remove_cons _ _ _ k1, if_neg h1, remove_cons _ _ _ k2, if_neg h2, remove_cons, if_neg h2,
        remove_cons, if_neg h1, ih]

theorem get_remove_other (a : Attrs) (k k2 : Str) (h : k2 ≠ k) :
    Attrs.get (Attrs.remove a k) k2 = Attrs.get a k2 := get_pop_other a k k2 h

theorem get_removeAll_other (ks : List Str) (a : Attrs) (k2 : Str) (h : k2 ∉ ks) :
    Attrs.get (Attrs.removeAll a ks) k2 = Attrs.get a k2 := by
  induction ks generalizing a with
  | nil => rfl
  | cons k ks ih =>
    have : Attrs.removeAll a (k :: ks) = Attrs.removeAll (Attrs.remove a k) ks := rfl
    rw [this, ih _ (fun hm => h (List.mem_cons_of_mem _ hm)),
      get_remove_other _ _ _ (fun e => h (by simp [e]))]

theorem removeAll_remove_comm (ks : List Str) (a : Attrs) (k : Str) :
    Attrs.remove (Attrs.removeAll a ks) k = Attrs.removeAll (Attrs.remove a k) ks := by
  induction ks generalizing a with
  | nil => rfl
  | cons k' ks ih =>
    show Attrs.remove (Attrs.removeAll (Attrs.remove a k') ks) k = Attrs.removeAll (Attrs.remove (Attrs.remove a k) k') ks
    rw [ih, remove_comm]

/-- the five attributes `textPosition` consumes -/
def posKeys : List Str := [cs!"text-dx", cs!"text-dy", cs!"text-dxy", cs!"text-loc", cs!"text-offset"]

theorem pop5_eq (e : Elem) : pop5 e = { e with attrs := Attrs.removeAll e.attrs posKeys } := rfl

/-! ### the bounding box looks at name, content box and sixteen attributes only -/

def bboxKeys : List Str := [['x'], ['y'], cs!"width", cs!"height", cs!"x1", cs!"y1", cs!"x2", cs!"y2",
  cs!"points", ['d'], cs!"cx", cs!"cy", ['r'], cs!"rx", cs!"ry", cs!"transform"]

theorem bbox_congr (e1 e2 : Elem) (hn : e1.name = e2.name) (hc : e1.contentBBox = e2.contentBBox)
    (hg : ∀ k ∈ bboxKeys, e1.attrs.get k = e2.attrs.get k) : e1.bbox = e2.bbox := by
  have h1 := hg ['x'] (by decide)
  have h2 := hg ['y'] (by decide)
  have h3 := hg cs!"width" (by decide)
  have h4 := hg cs!"height" (by decide)
  have h5 := hg cs!"x1" (by decide)
  have h6 := hg cs!"y1" (by decide)
  have h7 := hg cs!"x2" (by decide)
  have h8 := hg cs!"y2" (by decide)
  have h9 := hg cs!"points" (by decide)
  have h10 := hg ['d'] (by decide)
  have h11 := hg cs!"cx" (by decide)
  have h12 := hg cs!"cy" (by decide)
  have h13 := hg ['r'] (by decide)
  have h14 := hg cs!"rx" (by decide)
  have h15 := hg cs!"ry" (by decide)
  have h16 := hg cs!"transform" (by decide)
  simp only [Elem.bbox, Elem.bboxRaw, hn, hc, h1, h2, h3, h4, h5, h6, h7, h8, h9, h10, h11, h12, h13,
    h14, h15, h16]

theorem posFinish0_eq (e : Elem) (tdx tdy : Rat) (loc : LocSpec) (offset : Rat) :
    posFinish0 e tdx tdy loc offset = posFinish e tdx tdy loc offset := by
  unfold posFinish0 posFinish classRemove outsideOf posClasses
  by_cases h1 : e.classes.contains cs!"d-text-outside" = true
  · simp only [h1, if_true, bind, Except.bind, pure, Except.pure]
    generalize (anchorElemOf _).bbox = r
    rcases r with er | (_ | bb) <;> rfl
  · have h3 : (e.classes.erase cs!"d-text-outside") = e.classes :=
      List.erase_of_not_mem (by simpa using h1)
    by_cases h2 : e.classes.contains cs!"d-text-inside" = true
    · simp only [h1, h2, h3, if_true, if_false, bind, Except.bind, pure, Except.pure, Bool.false_eq_true]
      generalize (anchorElemOf _).bbox = r
      rcases r with er | (_ | bb) <;> rfl
    · have h4 : (e.classes.erase cs!"d-text-inside") = e.classes :=
        List.erase_of_not_mem (by simpa using h2)
      simp only [h1, h2, h3, h4, if_false, bind, Except.bind, pure, Except.pure, Bool.false_eq_true]
      generalize (anchorElemOf _).bbox = r
      rcases r with er | (_ | bb) <;> rfl

theorem bboxKeys_not_posKeys : ∀ k ∈ bboxKeys, k ∉ posKeys := by decide

def pos5 (e : Elem) (cls : List Str) : Elem :=
  ⟨e.name, Attrs.removeAll e.attrs posKeys, cls, e.contentBBox, e.isEmpty⟩

theorem anchorElem_bbox (e : Elem) (cls : List Str) :
    (anchorElemOf (pos5 e cls)).bbox = (anchorElemOf e).bbox := by
  have hh : Elem.hasAttr (pos5 e cls) cs!"transform" = e.hasAttr cs!"transform" := by
    simp only [Elem.hasAttr, Attrs.contains, pos5]
    rw [get_removeAll_other _ _ _ (by decide)]
  unfold anchorElemOf
  rw [hh]
  have hn : (pos5 e cls).name = e.name := rfl
  rw [hn]
  by_cases hc : (e.name == cs!"text" && e.hasAttr cs!"transform") = true
  · rw [if_pos hc, if_pos hc]
    refine bbox_congr _ _ ?_ ?_ ?_
    · rfl
    · rfl
    intro k hk
    show Attrs.get (Attrs.remove (Attrs.removeAll e.attrs posKeys) cs!"transform") k
      = Attrs.get (Attrs.remove e.attrs cs!"transform") k
    rw [removeAll_remove_comm, get_removeAll_other _ _ _ (bboxKeys_not_posKeys k hk)]
  · rw [if_neg hc, if_neg hc]
    refine bbox_congr _ _ ?_ ?_ ?_
    · rfl
    · rfl
    intro k hk
    show Attrs.get (Attrs.removeAll e.attrs posKeys) k = Attrs.get e.attrs k
    rw [get_removeAll_other _ _ _ (bboxKeys_not_posKeys k hk)]

/-- `(text-dx, text-dy)`: `text-dxy` (one number for both, or two), overridden by `text-dx` / `text-dy` -/
def textShift (e : Elem) : Except Err (Rat × Rat) := do
  let d0 ← dxyPart (e.getAttr cs!"text-dxy")
  let tdx ← ovr (e.getAttr cs!"text-dx") d0.1
  let tdy ← ovr (e.getAttr cs!"text-dy") d0.2
  pure (tdx, tdy)

/-- the effective `text-loc` (default `c`) -/
def textLoc (e : Elem) : Except Err LocSpec := locPart (e.getAttr cs!"text-loc")
/-- the effective `text-offset` (default 1) -/
def textOffset (e : Elem) : Except Err Rat := Elem.num ((e.getAttr cs!"text-offset").getD ['1'])
/-- `d-text-outside` wins over `d-text-inside`; otherwise lines, points and text elements are outside -/
def textOutside (e : Elem) : Bool := outsideOf e.name e.classes
def textVertical (e : Elem) : Bool := e.hasClass cs!"d-text-vertical"

/-- the element `textPosition` hands back: the five attributes and one of the two classes gone -/
def positioned (e : Elem) : Elem :=
  { e with attrs := Attrs.removeAll e.attrs posKeys, classes := posClasses e.classes }

/-- `textPosition` as a function of the attributes and classes of `e` itself -/
def textPositionSpec (e : Elem) : Except Err (Elem × TextPos) := do
  let d ← textShift e
  let loc ← textLoc e
  let offset ← textOffset e
  match (anchorElemOf e).bbox with
  | .error er => .error er
  | .ok none => .error Err.missingBBox
  | .ok (some bb) =>
    .ok (positioned e,
      { x := (bb.locspec loc).1 + (d.1 + (offsetDelta loc (textOutside e) offset).1),
        y := (bb.locspec loc).2 + (d.2 + (offsetDelta loc (textOutside e) offset).2),
        outside := textOutside e, loc := loc,
        classes := [cs!"d-text"] ++ anchorClasses loc (textOutside e) (textVertical e) })

theorem textPosition_eq_spec (e : Elem) : textPosition e = textPositionSpec e := by
  rw [textPosition_eq_core]
  have h1 : (e.popAttr cs!"text-dx").2 = e.getAttr cs!"text-dx" := pop_snd _ _
  have h2 : ((e.popAttr cs!"text-dx").1.popAttr cs!"text-dy").2 = e.getAttr cs!"text-dy" := by
    show (Attrs.pop (Attrs.removeAll e.attrs [cs!"text-dx"]) _).2 = _
    rw [pop_snd, get_removeAll_other _ _ _ (by decide)]; rfl
  have h3 : (((e.popAttr cs!"text-dx").1.popAttr cs!"text-dy").1.popAttr cs!"text-dxy").2
      = e.getAttr cs!"text-dxy" := by
    show (Attrs.pop (Attrs.removeAll e.attrs [cs!"text-dx", cs!"text-dy"]) _).2 = _
    rw [pop_snd, get_removeAll_other _ _ _ (by decide)]; rfl
  have h4 : ((((e.popAttr cs!"text-dx").1.popAttr cs!"text-dy").1.popAttr cs!"text-dxy").1.popAttr
      cs!"text-loc").2 = e.getAttr cs!"text-loc" := by
    show (Attrs.pop (Attrs.removeAll e.attrs [cs!"text-dx", cs!"text-dy", cs!"text-dxy"]) _).2 = _
    rw [pop_snd, get_removeAll_other _ _ _ (by decide)]; rfl
  have h5 : (((((e.popAttr cs!"text-dx").1.popAttr cs!"text-dy").1.popAttr cs!"text-dxy").1.popAttr
      cs!"text-loc").1.popAttr cs!"text-offset").2 = e.getAttr cs!"text-offset" := by
    show (Attrs.pop (Attrs.removeAll e.attrs [cs!"text-dx", cs!"text-dy", cs!"text-dxy", cs!"text-loc"]) _).2 = _
    rw [pop_snd, get_removeAll_other _ _ _ (by decide)]; rfl
  rw [h1, h2, h3, h4, h5]
  unfold posCore textPositionSpec textShift textLoc textOffset
  simp only [bind, Except.bind, pure, Except.pure]
  cases dxyPart (e.getAttr cs!"text-dxy") with
  | error er => rfl
  | ok d0 =>
    dsimp only
    cases ovr (e.getAttr cs!"text-dx") d0.1 with
    | error er => rfl
    | ok tdx =>
      dsimp only
      cases ovr (e.getAttr cs!"text-dy") d0.2 with
      | error er => rfl
      | ok tdy =>
        dsimp only
        cases locPart (e.getAttr cs!"text-loc") with
        | error er => rfl
        | ok loc =>
          dsimp only
          cases Elem.num ((e.getAttr cs!"text-offset").getD ['1']) with
          | error er => rfl
          | ok off =>
            dsimp only
            rw [posFinish0_eq]
            unfold posFinish
            have hb := anchorElem_bbox e (posClasses e.classes)
            have he : ({ pop5 e with classes := posClasses (pop5 e).classes } : Elem)
                = pos5 e (posClasses e.classes) := rfl
            simp only [he, hb]
            rfl

/-! ### (a) ANCHOR -/

/-- **anchor**: whenever `textPosition` succeeds, the anchor is `locspec` (generated) of the element's
    bounding box at the effective `text-loc`, plus `offsetDelta` for the effective outside flag and
    `text-offset`, plus `(text-dx, text-dy)`; the result also records that location and flag, carries
    `d-text` and the alignment classes, and the element handed back is `positioned e`. All LocSpecs. -/
theorem anchor (e e' : Elem) (tp : TextPos) (h : textPosition e = .ok (e', tp)) :
    ∃ d loc off bb, textShift e = .ok d ∧ textLoc e = .ok loc ∧ textOffset e = .ok off ∧
      (anchorElemOf e).bbox = .ok (some bb) ∧
      tp.loc = loc ∧ tp.outside = textOutside e ∧
      tp.x = (bb.locspec loc).1 + (offsetDelta loc (textOutside e) off).1 + d.1 ∧
      tp.y = (bb.locspec loc).2 + (offsetDelta loc (textOutside e) off).2 + d.2 ∧
      tp.classes = cs!"d-text" :: anchorClasses loc (textOutside e) (textVertical e) ∧
      e' = positioned e := by
  rw [textPosition_eq_spec] at h
  unfold textPositionSpec at h
  simp only [bind, Except.bind] at h
  cases hd : textShift e with
  | error er => rw [hd] at h; cases h
  | ok d =>
    rw [hd] at h; dsimp only at h
    cases hl : textLoc e with
    | error er => rw [hl] at h; cases h
    | ok loc =>
      rw [hl] at h; dsimp only at h
      cases ho : textOffset e with
      | error er => rw [ho] at h; cases h
      | ok off =>
        rw [ho] at h; dsimp only at h
        cases hb : (anchorElemOf e).bbox with
        | error er => rw [hb] at h; cases h
        | ok ob =>
          cases ob with
          | none => rw [hb] at h; cases h
          | some bb =>
            rw [hb] at h; dsimp only at h
            injection h with h
            injection h with h1 h2
            subst h1; subst h2
            refine ⟨d, loc, off, bb, rfl, rfl, rfl, rfl, rfl, rfl, ?_, ?_, rfl, rfl⟩
            · show _ + (_ + _) = _; ring
            · show _ + (_ + _) = _; ring

/-- the converse: the four ingredients determine the result -/
theorem anchor_complete (e : Elem) (d : Rat × Rat) (loc : LocSpec) (off : Rat) (bb : BoundingBox)
    (hd : textShift e = .ok d) (hl : textLoc e = .ok loc) (ho : textOffset e = .ok off)
    (hb : (anchorElemOf e).bbox = .ok (some bb)) :
    ∃ tp, textPosition e = .ok (positioned e, tp) ∧
      tp.x = (bb.locspec loc).1 + (offsetDelta loc (textOutside e) off).1 + d.1 ∧
      tp.y = (bb.locspec loc).2 + (offsetDelta loc (textOutside e) off).2 + d.2 := by
  rw [textPosition_eq_spec]
  unfold textPositionSpec
  simp only [bind, Except.bind, hd, hl, ho, hb]
  refine ⟨_, rfl, ?_, ?_⟩
  · show _ + (_ + _) = _; ring
  · show _ + (_ + _) = _; ring

/-! the ingredients, case by case -/

theorem textLoc_default (e : Elem) (h : e.getAttr cs!"text-loc" = none) : textLoc e = .ok .Center := by
  unfold textLoc locPart; rw [h]; rfl

theorem textLoc_of (e : Elem) (v : Str) (l : LocSpec) (h : e.getAttr cs!"text-loc" = some v)
    (hp : parseLocSpec v = some l) : textLoc e = .ok l := by
  unfold textLoc locPart; rw [h]; simp only [Option.getD_some, hp]; rfl

theorem textOffset_default (e : Elem) (h : e.getAttr cs!"text-offset" = none) : textOffset e = .ok 1 := by
  unfold textOffset; rw [h]; decide +kernel

theorem textShift_default (e : Elem) (h1 : e.getAttr cs!"text-dx" = none)
    (h2 : e.getAttr cs!"text-dy" = none) (h3 : e.getAttr cs!"text-dxy" = none) :
    textShift e = .ok (0, 0) := by
  unfold textShift; rw [h1, h2, h3]; rfl

theorem textShift_dx_dy (e : Elem) (a b : Str) (x y : Rat) (h1 : e.getAttr cs!"text-dx" = some a)
    (h2 : e.getAttr cs!"text-dy" = some b) (h3 : e.getAttr cs!"text-dxy" = none)
    (ha : strp a = some x) (hb : strp b = some y) : textShift e = .ok (x, y) := by
  unfold textShift; rw [h1, h2, h3]
  simp only [dxyPart, ovr, Elem.num, ha, hb, bind, Except.bind, pure, Except.pure]

theorem textOutside_class (e : Elem) (h : e.hasClass cs!"d-text-outside" = true) : textOutside e = true := by
  unfold textOutside outsideOf; rw [show e.classes.contains cs!"d-text-outside" = true from h]; rfl

theorem textOutside_inside (e : Elem) (h1 : e.hasClass cs!"d-text-outside" = false)
    (h2 : e.hasClass cs!"d-text-inside" = true) : textOutside e = false := by
  unfold textOutside outsideOf
  rw [show e.classes.contains cs!"d-text-outside" = false from h1,
    show e.classes.contains cs!"d-text-inside" = true from h2]; rfl

theorem textOutside_default (e : Elem) (h1 : e.hasClass cs!"d-text-outside" = false)
    (h2 : e.hasClass cs!"d-text-inside" = false) :
    textOutside e = (e.name == cs!"line" || e.name == cs!"point" || e.name == cs!"text") := by
  unfold textOutside outsideOf
  rw [show e.classes.contains cs!"d-text-outside" = false from h1,
    show e.classes.contains cs!"d-text-inside" = false from h2]; rfl

/-- the anchor of an element that is not a transformed `<text>` is taken from its own bounding box -/
theorem anchorElemOf_shape (e : Elem) (h : (e.name == cs!"text" && e.hasAttr cs!"transform") = false) :
    anchorElemOf e = e := by
  unfold anchorElemOf; rw [h]; rfl

/-- what `locspec` is at each location, edge forms included -/
theorem locspec_table (b : BoundingBox) (r a : Rat) :
    b.locspec .TopLeft = (b.x1, b.y1) ∧ b.locspec .Top = ((b.x1 + b.x2) / 2, b.y1) ∧
    b.locspec .TopRight = (b.x2, b.y1) ∧ b.locspec .Right = (b.x2, (b.y1 + b.y2) / 2) ∧
    b.locspec .BottomRight = (b.x2, b.y2) ∧ b.locspec .Bottom = ((b.x1 + b.x2) / 2, b.y2) ∧
    b.locspec .BottomLeft = (b.x1, b.y2) ∧ b.locspec .Left = (b.x1, (b.y1 + b.y2) / 2) ∧
    b.locspec .Center = ((b.x1 + b.x2) / 2, (b.y1 + b.y2) / 2) ∧
    b.locspec (.TopEdge (.Ratio r)) = (b.x1 + (b.x2 - b.x1) * r, b.y1) ∧
    b.locspec (.BottomEdge (.Ratio r)) = (b.x1 + (b.x2 - b.x1) * r, b.y2) ∧
    b.locspec (.LeftEdge (.Ratio r)) = (b.x1, b.y1 + (b.y2 - b.y1) * r) ∧
    b.locspec (.RightEdge (.Ratio r)) = (b.x2, b.y1 + (b.y2 - b.y1) * r) ∧
    (b.x1 ≤ b.x2 → 0 ≤ a → b.locspec (.TopEdge (.Absolute a)) = (b.x1 + a, b.y1)) ∧
    (b.x1 ≤ b.x2 → a < 0 → b.locspec (.TopEdge (.Absolute a)) = (b.x2 + a, b.y1)) := by
  refine ⟨rfl, rfl, rfl, rfl, rfl, rfl, rfl, rfl, rfl, rfl, rfl, rfl, rfl, ?_, ?_⟩
  · intro h1 h2
    have h1' : ¬ b.x2 < b.x1 := not_lt.mpr h1
    have h2' : ¬ a < 0 := not_lt.mpr h2
    simp [BoundingBox.locspec, Length.calc_offset, h1', h2']
  · intro h1 h2
    have h1' : ¬ b.x2 < b.x1 := not_lt.mpr h1
    simp [BoundingBox.locspec, Length.calc_offset, h1', h2]

/-- `t:25%` is the top edge at a quarter of the width -/
example : parseLocSpec cs!"t:25%" = some (.TopEdge (.Ratio (1 / 4))) := by decide +kernel

/-! ### (b) INWARD / OUTWARD -/

/-- the eight named locations other than the centre -/
def namedRim (loc : LocSpec) : Bool :=
  match loc with
  | .TopLeft | .Top | .TopRight | .Right | .BottomRight | .Bottom | .BottomLeft | .Left => true
  | _ => false

/-- **inward**: a positive offset of at most half the box (so the box has positive width and height)
    keeps the anchor inside the closed box -/
theorem anchor_inward (b : BoundingBox) (loc : LocSpec) (o : Rat) (hl : namedRim loc = true)
    (ho : 0 < o)
    (hx : o ≤ (b.x2 - b.x1) / 2) (hy : o ≤ (b.y2 - b.y1) / 2) :
    let p := ((b.locspec loc).1 + (offsetDelta loc false o).1, (b.locspec loc).2 + (offsetDelta loc false o).2)
    b.x1 ≤ p.1 ∧ p.1 ≤ b.x2 ∧ b.y1 ≤ p.2 ∧ p.2 ≤ b.y2 := by
  cases loc <;> simp [namedRim] at hl <;>
    simp [BoundingBox.locspec, offsetDelta, LocSpec.is_top, LocSpec.is_bottom, LocSpec.is_left,
      LocSpec.is_right] <;>
    ((repeat' apply And.intro) <;> linarith)

/-- **outward**: with `outside` the anchor is not in the open box, for every positive offset; it is
    strictly beyond the side(s) the location names -/
theorem anchor_outward (b : BoundingBox) (loc : LocSpec) (o : Rat) (hl : namedRim loc = true)
    (ho : 0 < o) :
    let p := ((b.locspec loc).1 + (offsetDelta loc true o).1, (b.locspec loc).2 + (offsetDelta loc true o).2)
    ¬ (b.x1 < p.1 ∧ p.1 < b.x2 ∧ b.y1 < p.2 ∧ p.2 < b.y2) ∧
    (loc.is_top = true → p.2 < b.y1) ∧ (loc.is_bottom = true → b.y2 < p.2) ∧
    (loc.is_left = true → p.1 < b.x1) ∧ (loc.is_right = true → b.x2 < p.1) := by
  cases loc <;> simp [namedRim] at hl <;>
    simp [BoundingBox.locspec, offsetDelta, LocSpec.is_top, LocSpec.is_bottom, LocSpec.is_left,
      LocSpec.is_right] <;>
    ((repeat' apply And.intro) <;> intros <;> linarith)

/-! ### `processTextAttr` in closed form -/

/-- `processTextAttr` after `textPosition`, literally -/
def procRest (tv : Option Str) (orig : Elem) (pos : TextPos) : Except Err (Elem × List TextEl) := do
  let value := textString (tv.getD [])
  let xs := fstr pos.x
  let ys := fstr pos.y
  let ls := lines value
  let multiline := ls.length > 1
  let vertical := orig.hasClass cs!"d-text-vertical"
  let pre := orig.hasClass cs!"d-text-pre"
  let textEl0 : Elem := if orig.name == cs!"text" then orig else Elem.new cs!"text" []
  let textEl := (textEl0.setAttr ['x'] xs).setAttr ['y'] ys
  let (orig, lsp) := orig.popAttr cs!"text-lsp"
  let spacing ← Elem.num (lsp.getD cs!"1.05")
  let (orig, tstyle) := orig.popAttr cs!"text-style"
  let textEl := match tstyle with
    | some s => textEl.setAttr cs!"style" s
    | none => textEl
  let (origCls, textCls) := orig.classes.foldl
    (fun (acc : List Str × List Str) c =>
      let oc := if startsWith cs!"d-text-" c then (classRemove acc.1 c).1 else acc.1
      let tc := if ignoreClass c then acc.2 else acc.2 ++ [c]
      (oc, tc))
    (orig.classes, pos.classes)
  let orig := { orig with classes := origCls }
  let textEl := { textEl with classes := textCls.foldl classInsert [] }
  let textEl := if vertical then textEl.setAttr cs!"writing-mode" cs!"tb" else textEl
  let (orig, textEl) := Gen.Text.text_presentation_attrs.foldl
    (fun (acc : Elem × Elem) a =>
      match acc.1.popAttr a with
      | (o, some v) => (o, acc.2.setAttr a v)
      | (_, none) => acc)
    (orig, textEl)
  let main : TextEl := ⟨textEl, value⟩
  if !multiline then pure (orig, [main])
  else
    let tspan0 : Elem := Elem.new cs!"tspan" []
    let tspan0 := match tstyle with
      | some s => tspan0.setAttr cs!"style" s
      | none => tspan0
    let tspan0 := if vertical then tspan0.setAttr ['y'] ys else tspan0.setAttr ['x'] xs
    let spans := (spanContents pre vertical ls).zipIdx.map fun (content, idx) =>
      let off := if idx == 0 then firstLineOffset pos.outside vertical pos.loc ls.length spacing else spacing
      let t := tspan0.setAttr (if vertical then cs!"dx" else cs!"dy") (fstr off ++ cs!"em")
      (⟨t, content⟩ : TextEl)
    pure (orig, main :: spans)

theorem processTextAttr_eq (e : Elem) :
    processTextAttr e = (do
      let (orig, tv) := e.popAttr cs!"text"
      let (orig, pos) ← textPosition orig
      procRest tv orig pos) := by
  unfold processTextAttr procRest
  simp only [bind, Except.bind]
  rfl

/-- the class split: (classes left on the shape, classes of the text element before deduplication) -/
def clsFold (cls pc : List Str) : List Str × List Str :=
  cls.foldl
    (fun (acc : List Str × List Str) c =>
      let oc := if startsWith cs!"d-text-" c then (classRemove acc.1 c).1 else acc.1
      let tc := if ignoreClass c then acc.2 else acc.2 ++ [c]
      (oc, tc))
    (cls, pc)

/-- moving the text presentation attributes from the shape to the text element -/
def presFold (oe : Elem × Elem) : Elem × Elem :=
  Gen.Text.text_presentation_attrs.foldl
    (fun (acc : Elem × Elem) a =>
      match acc.1.popAttr a with
      | (o, some v) => (o, acc.2.setAttr a v)
      | (_, none) => acc)
    oe

/-- the text element before the presentation attributes are moved -/
def textStage (orig : Elem) (pos : TextPos) (tstyle : Option Str) (textCls : List Str) : Elem :=
  let textEl0 : Elem := if orig.name == cs!"text" then orig else Elem.new cs!"text" []
  let textEl := (textEl0.setAttr ['x'] (fstr pos.x)).setAttr ['y'] (fstr pos.y)
  let textEl := match tstyle with
    | some s => textEl.setAttr cs!"style" s
    | none => textEl
  let textEl := { textEl with classes := textCls.foldl classInsert [] }
  if orig.hasClass cs!"d-text-vertical" then textEl.setAttr cs!"writing-mode" cs!"tb" else textEl

/-- the tspan of line `idx` -/
def spanEl (pos : TextPos) (vertical : Bool) (tstyle : Option Str) (spacing : Rat) (count : Nat)
    (idx : Nat) : Elem :=
  let tspan0 : Elem := Elem.new cs!"tspan" []
  let tspan0 := match tstyle with
    | some s => tspan0.setAttr cs!"style" s
    | none => tspan0
  let tspan0 := if vertical then tspan0.setAttr ['y'] (fstr pos.y) else tspan0.setAttr ['x'] (fstr pos.x)
  let off := if idx == 0 then firstLineOffset pos.outside vertical pos.loc count spacing else spacing
  tspan0.setAttr (if vertical then cs!"dx" else cs!"dy") (fstr off ++ cs!"em")

def procSpec (tv : Option Str) (orig : Elem) (pos : TextPos) : Except Err (Elem × List TextEl) :=
  let value := textString (tv.getD [])
  let ls := lines value
  let vertical := orig.hasClass cs!"d-text-vertical"
  let pre := orig.hasClass cs!"d-text-pre"
  let o1 := (orig.popAttr cs!"text-lsp").1
  match Elem.num ((orig.popAttr cs!"text-lsp").2.getD cs!"1.05") with
  | .error er => .error er
  | .ok spacing =>
    let o2 := (o1.popAttr cs!"text-style").1
    let tstyle := (o1.popAttr cs!"text-style").2
    let cf := clsFold o2.classes pos.classes
    let pf := presFold ({ o2 with classes := cf.1 }, textStage orig pos tstyle cf.2)
    .ok (pf.1, (⟨pf.2, value⟩ : TextEl) ::
      (if ls.length > 1 then
        (spanContents pre vertical ls).zipIdx.map fun (ci : Str × Nat) =>
          (⟨spanEl pos vertical tstyle spacing ls.length ci.2, ci.1⟩ : TextEl)
       else []))

theorem procRest_eq (tv : Option Str) (orig : Elem) (pos : TextPos) :
    procRest tv orig pos = procSpec tv orig pos := by
  unfold procRest procSpec
  simp only [bind, Except.bind]
  cases Elem.num ((orig.popAttr cs!"text-lsp").2.getD cs!"1.05") with
  | error er => rfl
  | ok spacing =>
    dsimp only
    by_cases hm : (lines (textString (tv.getD []))).length > 1
    · simp only [hm, decide_true, Bool.not_true, Bool.false_eq_true, if_false, if_true]
      rfl
    · simp only [hm, decide_false, Bool.not_false, if_false, if_true]
      rfl

/-! ### the pieces -/

theorem pop_none_fst (a : Attrs) (k : Str) (h : (Attrs.pop a k).2 = none) : (Attrs.pop a k).1 = a := by
  induction a with
  | nil => rfl
  | cons x xs ih =>
    obtain ⟨k', v⟩ := x
    rw [Attrs.pop] at h ⊢
    by_cases hk : (k' == k) = true
    · simp [hk] at h
    · simp only [hk] at h ⊢
      simp only [Bool.false_eq_true, if_false] at h ⊢
      rw [ih h]

def presStep (acc : Elem × Elem) (a : Str) : Elem × Elem :=
  match acc.1.popAttr a with
  | (o, some v) => (o, acc.2.setAttr a v)
  | (_, none) => acc

theorem presStep_fst (o t : Elem) (a : Str) :
    (presStep (o, t) a).1 = { o with attrs := Attrs.remove o.attrs a } := by
  unfold presStep
  cases h : (Attrs.pop o.attrs a).2 with
  | none =>
    have h1 := pop_none_fst _ _ h
    have : o.popAttr a = ({ o with attrs := (Attrs.pop o.attrs a).1 }, none) := by
      unfold Elem.popAttr; rw [← h]
    rw [this]; simp only [Attrs.remove, h1]
  | some v =>
    have : o.popAttr a = ({ o with attrs := (Attrs.pop o.attrs a).1 }, some v) := by
      unfold Elem.popAttr; rw [← h]
    rw [this]; rfl

theorem presStep_snd_name (o t : Elem) (a : Str) :
    (presStep (o, t) a).2.name = t.name ∧ (presStep (o, t) a).2.classes = t.classes := by
  unfold presStep
  cases h : (Attrs.pop o.attrs a).2 with
  | none =>
    have : o.popAttr a = ({ o with attrs := (Attrs.pop o.attrs a).1 }, none) := by
      unfold Elem.popAttr; rw [← h]
    rw [this]; exact ⟨rfl, rfl⟩
  | some v =>
    have : o.popAttr a = ({ o with attrs := (Attrs.pop o.attrs a).1 }, some v) := by
      unfold Elem.popAttr; rw [← h]
    rw [this]; exact ⟨rfl, rfl⟩

theorem foldl_presStep (L : List Str) (o t : Elem) :
    (L.foldl presStep (o, t)).1 = { o with attrs := Attrs.removeAll o.attrs L } ∧
    (L.foldl presStep (o, t)).2.name = t.name ∧ (L.foldl presStep (o, t)).2.classes = t.classes := by
  induction L generalizing o t with
  | nil => exact ⟨rfl, rfl, rfl⟩
  | cons a L ih =>
    rw [List.foldl_cons]
    have h1 := presStep_fst o t a
    have h2 := presStep_snd_name o t a
    have hp : presStep (o, t) a = ((presStep (o, t) a).1, (presStep (o, t) a).2) := rfl
    rw [hp, h1]
    obtain ⟨i1, i2, i3⟩ := ih { o with attrs := Attrs.remove o.attrs a } (presStep (o, t) a).2
    exact ⟨i1, i2.trans h2.1, i3.trans h2.2⟩

theorem presFold_eq (o t : Elem) : presFold (o, t) = Gen.Text.text_presentation_attrs.foldl presStep (o, t) := rfl

/-- classes: those starting with `d-text-` leave the shape; those not ignored go to the text element -/
def isTextClass (c : Str) : Bool := startsWith cs!"d-text-" c

theorem eraseAll_filter (p : Str → Bool) (l pre : List Str) (hp : ∀ c ∈ pre, p c = false) :
    l.foldl (fun a c => if p c then a.erase c else a) (pre ++ l) = pre ++ l.filter (fun c => !p c) := by
  induction l generalizing pre with
  | nil => simp
  | cons x xs ih =>
    rw [List.foldl_cons]
    by_cases hx : p x = true
    · have hnm : x ∉ pre := fun hm => by simpa [hx] using hp x hm
      simp only [hx, if_true]
      rw [List.erase_append_right _ hnm, List.erase_cons_head, ih pre hp]
      simp [hx]
    · have hx' : p x = false := by simpa using hx
      simp only [hx', Bool.false_eq_true, if_false]
      have : pre ++ x :: xs = (pre ++ [x]) ++ xs := by simp
      rw [this, ih (pre ++ [x]) (by
        intro c hc; rcases List.mem_append.mp hc with h | h
        · exact hp c h
        · simp at h; rw [h]; exact hx')]
      simp [hx']

theorem clsFold_gen (l a1 a2 : List Str) :
    l.foldl
      (fun (acc : List Str × List Str) c =>
        let oc := if startsWith cs!"d-text-" c then (classRemove acc.1 c).1 else acc.1
        let tc := if ignoreClass c then acc.2 else acc.2 ++ [c]
        (oc, tc)) (a1, a2)
    = (l.foldl (fun a c => if isTextClass c then a.erase c else a) a1,
       a2 ++ l.filter (fun c => !ignoreClass c)) := by
  induction l generalizing a1 a2 with
  | nil => simp
  | cons x xs ih =>
    rw [List.foldl_cons, List.foldl_cons]
    dsimp only
    rw [ih]
    have hcr : (classRemove a1 x).1 = a1.erase x := by
      unfold classRemove
      by_cases hc : a1.contains x = true
      · rw [if_pos hc]
      · rw [if_neg hc]; exact (List.erase_of_not_mem (by simpa using hc)).symm
    rw [hcr]
    by_cases hi : ignoreClass x = true
    · simp only [hi, if_true, isTextClass, List.filter_cons, Bool.not_true, Bool.false_eq_true, if_false]
      rfl
    · have hi' : ignoreClass x = false := by simpa using hi
      simp only [hi', isTextClass, List.filter_cons, Bool.not_false, if_true, Bool.false_eq_true,
        if_false, List.append_assoc, List.singleton_append]
      rfl

theorem clsFold_spec (cls pc : List Str) :
    clsFold cls pc = (cls.filter (fun c => !isTextClass c), pc ++ cls.filter (fun c => !ignoreClass c)) := by
  unfold clsFold
  rw [clsFold_gen]
  have := eraseAll_filter isTextClass cls [] (by simp)
  simp only [List.nil_append] at this
  rw [this]

theorem filter_erase_of (p : Str → Bool) (l : List Str) (c : Str) (hc : p c = true) :
    (l.erase c).filter (fun c => !p c) = l.filter (fun c => !p c) := by
  induction l with
  | nil => rfl
  | cons x xs ih =>
    by_cases hx : x = c
    · subst hx; simp [hc]
    · rw [List.erase_cons_tail (by simpa using hx)]
      simp only [List.filter_cons, ih]

theorem posClasses_filter (cls : List Str) :
    (posClasses cls).filter (fun c => !isTextClass c) = cls.filter (fun c => !isTextClass c) := by
  unfold posClasses
  split
  · exact filter_erase_of isTextClass _ _ (by decide)
  · exact filter_erase_of isTextClass _ _ (by decide)

/-! ### (c) FRAME of the shape -/

/-- the attributes that do not stay on the shape: `text`, the five of `textPosition`, `text-lsp`,
    `text-style` and the seventeen text presentation attributes (generated table) -/
def movedKeys : List Str :=
  cs!"text" :: posKeys ++ [cs!"text-lsp", cs!"text-style"] ++ Gen.Text.text_presentation_attrs

theorem removeAll_append (a : Attrs) (l1 l2 : List Str) :
    Attrs.removeAll a (l1 ++ l2) = Attrs.removeAll (Attrs.removeAll a l1) l2 := by
  unfold Attrs.removeAll; rw [List.foldl_append]

theorem movedAttrs (a : Attrs) :
    Attrs.removeAll (Attrs.remove (Attrs.remove (Attrs.removeAll (Attrs.remove a cs!"text") posKeys)
      cs!"text-lsp") cs!"text-style") Gen.Text.text_presentation_attrs = Attrs.removeAll a movedKeys := by
  unfold movedKeys
  rw [removeAll_append, removeAll_append]
  rfl

/-- the shape element that comes back -/
def shapeOf (e : Elem) : Elem :=
  { e with attrs := Attrs.removeAll e.attrs movedKeys,
           classes := e.classes.filter (fun c => !isTextClass c) }

/-- the state between the two halves of `processTextAttr` -/
def mid (e : Elem) : Elem := positioned (e.popAttr cs!"text").1

theorem processTextAttr_ok (e shape : Elem) (texts : List TextEl)
    (h : processTextAttr e = .ok (shape, texts)) :
    ∃ tp, textPosition (e.popAttr cs!"text").1 = .ok (mid e, tp) ∧
      procSpec (e.getAttr cs!"text") (mid e) tp = .ok (shape, texts) := by
  rw [processTextAttr_eq] at h
  simp only [bind, Except.bind] at h
  cases ht : textPosition (e.popAttr cs!"text").1 with
  | error er => rw [ht] at h; cases h
  | ok r =>
    obtain ⟨o, tp⟩ := r
    rw [ht] at h; dsimp only at h
    obtain ⟨_, _, _, _, _, _, _, _, _, _, _, _, _, ho⟩ := anchor _ _ _ ht
    subst ho
    rw [procRest_eq] at h
    have hv : (e.popAttr cs!"text").2 = e.getAttr cs!"text" := pop_snd _ _
    rw [hv] at h
    exact ⟨tp, rfl, h⟩

/-- **frame**: the shape that comes back is `e` with exactly the `movedKeys` attributes removed (order
    of the others kept, nothing changed or added) and exactly the `d-text-…` classes removed -/
theorem frame (e shape : Elem) (texts : List TextEl) (h : processTextAttr e = .ok (shape, texts)) :
    shape = shapeOf e := by
  obtain ⟨tp, _, hp⟩ := processTextAttr_ok e shape texts h
  unfold procSpec at hp
  dsimp only at hp
  cases hn : Elem.num (((mid e).popAttr cs!"text-lsp").2.getD cs!"1.05") with
  | error er => rw [hn] at hp; cases hp
  | ok spacing =>
    rw [hn] at hp
    simp only [Except.ok.injEq, Prod.mk.injEq] at hp
    obtain ⟨h1, h2⟩ := hp
    rw [← h1, presFold_eq, (foldl_presStep _ _ _).1, clsFold_spec]
    dsimp only
    have hc : (posClasses e.classes).filter (fun c => !isTextClass c)
        = e.classes.filter (fun c => !isTextClass c) := posClasses_filter _
    show ({ name := e.name, attrs := _, classes := (posClasses e.classes).filter _,
            contentBBox := e.contentBBox, isEmpty := e.isEmpty } : Elem) = _
    rw [hc]
    unfold shapeOf
    rw [← movedAttrs]
    rfl

/-- under the `AttrMap` invariant (no key twice) removing keys is filtering, so order is kept -/
theorem remove_eq_filter {a : Attrs} (h : Attrs.NodupKeys a) (k : Str) :
    Attrs.remove a k = a.filter (fun kv => kv.1 != k) := by
  induction a with
  | nil => rfl
  | cons x xs ih =>
    obtain ⟨k', v⟩ := x
    have hn : k' ∉ Attrs.keys xs ∧ Attrs.NodupKeys xs := by simpa [Attrs.NodupKeys, Attrs.keys] using h
    rw [remove_cons]
    by_cases hk : k' = k
    · subst hk
      simp only [if_true, List.filter_cons, bne_self_eq_false, Bool.false_eq_true, if_false]
      symm
      rw [List.filter_eq_self]
      intro kv hkv
      have : kv.1 ≠ k' := fun e => hn.1 (by rw [← e]; exact List.mem_map.mpr ⟨kv, hkv, rfl⟩)
      simpa using this
    · simp [hk, ih hn.2]

theorem removeAll_eq_filter (ks : List Str) {a : Attrs} (h : Attrs.NodupKeys a) :
    Attrs.removeAll a ks = a.filter (fun kv => !ks.contains kv.1) := by
  induction ks generalizing a with
  | nil =>
    show a = _
    symm; rw [List.filter_eq_self]; intro _ _; rfl
  | cons k ks ih =>
    show Attrs.removeAll (Attrs.remove a k) ks = _
    rw [ih (Attrs.remove_nodup h k), remove_eq_filter h, List.filter_filter]
    congr 1
    funext kv
    simp only [List.contains_cons, bne, Bool.not_or]
    cases (kv.1 == k) <;> cases (ks.contains kv.1) <;> rfl

/-- **frame, as a filter**: with no key twice in `e` (the `AttrMap` invariant) the shape's attributes
    are those of `e` whose key is not in `movedKeys`, in the same order -/
theorem frame_filter (e shape : Elem) (texts : List TextEl) (hn : Attrs.NodupKeys e.attrs)
    (h : processTextAttr e = .ok (shape, texts)) :
    shape.name = e.name ∧ shape.attrs = e.attrs.filter (fun kv => !movedKeys.contains kv.1) ∧
    shape.classes = e.classes.filter (fun c => !isTextClass c) := by
  have hf := frame e shape texts h
  clear h
  subst hf
  simp only [shapeOf]
  exact ⟨trivial, removeAll_eq_filter movedKeys hn, trivial⟩

/-! ### (d) TEXT ELEMENTS -/

theorem spanEl_name (pos : TextPos) (v : Bool) (ts : Option Str) (sp : Rat) (n i : Nat) :
    (spanEl pos v ts sp n i).name = cs!"tspan" := by
  unfold spanEl; cases ts <;> cases v <;> rfl

theorem textStage_name_classes (orig : Elem) (pos : TextPos) (ts : Option Str) (tc : List Str) :
    (textStage orig pos ts tc).name = cs!"text" ∧
    (textStage orig pos ts tc).classes = tc.foldl classInsert [] := by
  unfold textStage
  by_cases hn : (orig.name == cs!"text") = true
  · have hn' : orig.name = cs!"text" := by simpa using hn
    cases ts <;> by_cases hv : orig.hasClass cs!"d-text-vertical" = true <;>
      simp only [hn, hv, if_true] <;> exact ⟨hn', rfl⟩
  · cases ts <;> by_cases hv : orig.hasClass cs!"d-text-vertical" = true <;>
      simp only [hn, hv] <;> exact ⟨rfl, rfl⟩

/-- **text elements**: a successful `processTextAttr` yields the main `<text>` element holding the whole
    text value, with `d-text`, the alignment classes of the anchor and the shape's classes that are not
    ignored; one line gives no tspan, `n ≥ 2` lines give exactly `n` tspans whose contents are
    `spanContents` of the lines -/
theorem text_elements (e shape : Elem) (texts : List TextEl) (h : processTextAttr e = .ok (shape, texts)) :
    ∃ tp main spans,
      textPosition (e.popAttr cs!"text").1 = .ok (mid e, tp) ∧
      texts = main :: spans ∧
      main.content = textString ((e.getAttr cs!"text").getD []) ∧
      main.el.name = cs!"text" ∧
      main.el.classes = (tp.classes ++ (posClasses e.classes).filter (fun c => !ignoreClass c)).foldl
        classInsert [] ∧
      ((lines (textString ((e.getAttr cs!"text").getD []))).length ≤ 1 → spans = []) ∧
      (2 ≤ (lines (textString ((e.getAttr cs!"text").getD []))).length →
        spans.length = (lines (textString ((e.getAttr cs!"text").getD []))).length ∧
        spans.map (·.content) = spanContents (e.hasClass cs!"d-text-pre") (e.hasClass cs!"d-text-vertical")
          (lines (textString ((e.getAttr cs!"text").getD []))) ∧
        ∀ s ∈ spans, s.el.name = cs!"tspan") := by
  obtain ⟨tp, ht, hp⟩ := processTextAttr_ok e shape texts h
  unfold procSpec at hp
  dsimp only at hp
  cases hn : Elem.num (((mid e).popAttr cs!"text-lsp").2.getD cs!"1.05") with
  | error er => rw [hn] at hp; cases hp
  | ok spacing =>
    rw [hn] at hp
    simp only [Except.ok.injEq, Prod.mk.injEq] at hp
    obtain ⟨_, h2⟩ := hp
    have hpre : (mid e).hasClass cs!"d-text-pre" = e.hasClass cs!"d-text-pre" := by
      show (posClasses e.classes).contains _ = e.classes.contains _
      unfold posClasses
      split
      · rw [Bool.eq_iff_iff]; simp only [List.contains_iff_mem]
        exact ⟨List.mem_of_mem_erase, fun hm => (List.mem_erase_of_ne (by decide)).mpr hm⟩
      · rw [Bool.eq_iff_iff]; simp only [List.contains_iff_mem]
        exact ⟨List.mem_of_mem_erase, fun hm => (List.mem_erase_of_ne (by decide)).mpr hm⟩
    have hver : (mid e).hasClass cs!"d-text-vertical" = e.hasClass cs!"d-text-vertical" := by
      show (posClasses e.classes).contains _ = e.classes.contains _
      unfold posClasses
      split
      · rw [Bool.eq_iff_iff]; simp only [List.contains_iff_mem]
        exact ⟨List.mem_of_mem_erase, fun hm => (List.mem_erase_of_ne (by decide)).mpr hm⟩
      · rw [Bool.eq_iff_iff]; simp only [List.contains_iff_mem]
        exact ⟨List.mem_of_mem_erase, fun hm => (List.mem_erase_of_ne (by decide)).mpr hm⟩
    rw [hpre, hver] at h2
    refine ⟨tp, _, _, ht, h2.symm, rfl, ?_, ?_, ?_, ?_⟩
    · rw [presFold_eq, (foldl_presStep _ _ _).2.1]; exact (textStage_name_classes _ _ _ _).1
    · rw [presFold_eq, (foldl_presStep _ _ _).2.2, (textStage_name_classes _ _ _ _).2, clsFold_spec]
      rfl
    · intro hl
      have : ¬ (lines (textString ((e.getAttr cs!"text").getD []))).length > 1 := by omega
      rw [if_neg this]
    · intro hl
      have : (lines (textString ((e.getAttr cs!"text").getD []))).length > 1 := by omega
      rw [if_pos this]
      refine ⟨?_, ?_, ?_⟩
      · rw [List.length_map, List.length_zipIdx]
        unfold spanContents
        cases e.hasClass cs!"d-text-vertical" <;> simp
      · rw [List.map_map]
        show List.map Prod.fst _ = _
        exact List.zipIdx_map_fst _ _
      · intro s hs
        obtain ⟨ci, _, rfl⟩ := List.mem_map.mp hs
        exact spanEl_name _ _ _ _ _ _

/-- undoing the blank-line substitution gives the lines back (plain text, no line is itself a
    zero-width space) -/
theorem spans_give_lines (ls : List Str) (h : zwsp ∉ ls) :
    (spanContents false false ls).map (fun s => if s = zwsp then [] else s) = ls := by
  unfold spanContents
  simp only [Bool.false_eq_true, if_false, List.map_map]
  conv => rhs; rw [← List.map_id ls]
  apply List.map_congr_left
  intro l hl
  have hne : l ≠ zwsp := fun e => h (e ▸ hl)
  cases l with
  | nil => simp
  | cons c cs => simp [hne]

/-! ### concrete instances of the hypotheses -/

/-- a rect with a two-line text at a quarter of its top edge -/
def exRect : Elem :=
  { name := cs!"rect",
    attrs := [(['x'], ['0']), (['y'], ['0']), (cs!"width", cs!"100"), (cs!"height", cs!"40"),
      (cs!"text", cs!"a\\nb"), (cs!"text-loc", cs!"t:25%"), (cs!"font-size", ['3'])],
    classes := [cs!"d-red", cs!"d-text-bold"] }

instance (a : Attrs) : Decidable (Attrs.NodupKeys a) := by unfold Attrs.NodupKeys; infer_instance

example : Attrs.NodupKeys exRect.attrs := by decide +kernel
example : namedRim .Top = true ∧ namedRim .BottomLeft = true := by decide
example : textLoc exRect = .ok (.TopEdge (.Ratio (1 / 4))) := by decide +kernel
example : textOutside exRect = false ∧ textVertical exRect = false := by decide +kernel
example : (shapeOf exRect).attrs = [(['x'], ['0']), (['y'], ['0']), (cs!"width", cs!"100"), (cs!"height", cs!"40")]
    ∧ (shapeOf exRect).classes = [cs!"d-red"] := by decide +kernel
example : (textPosition exRect).toOption.map (fun r => (r.2.x, r.2.y)) = some (25, 1) := by decide +kernel
example : (processTextAttr exRect).toOption.map (fun r => r.2.map (·.content)) =
    some [cs!"a\nb", ['a'], ['b']] := by decide +kernel

end Svgdx.Props.C19x
