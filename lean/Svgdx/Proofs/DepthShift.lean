/-
  Svgdx.Proofs.DepthShift — THE NESTING DEPTH IS NOT OBSERVABLE UNTIL ITS LIMIT IS HIT (model `Svgdx.Ctl.Gen`).

  `up st` is `st` one nesting level deeper. For all 15 functions of the mutual block, every state with a scope and every
  tree: if the run from `up st` does not end in the depth-limit error, then it is the run from `st`, result for result
  (success or failure), and the final state is `up` of the final state (`allShift`).

  This is what makes the body of a control element (`<loop>`, `<for>`, `<if>`), which runs one `genElem` level deeper than
  its manual unrolling written in place, comparable with that unrolling (`Svgdx/Proofs/Unroll2.lean`).

  Where the depth is read: `genElem` (the limit check, the error payload), `genContainer` (the text shorthand re-dispatches
  one level up and refuses at depth 0 — so `dispatch` and `genContainer`, which are only ever entered below a `genElem`,
  carry the hypothesis `1 ≤ depth`). A depth-limit error is never swallowed (`onePass` treats limit errors as final, also
  inside `<specs>`), so "the outer run does not end in the depth-limit error" is inherited by every inner run.
-/
import Svgdx.Proofs.Unroll
namespace Svgdx.Ctl
open Svgdx Gen

variable {ρ : Type}

/-- one nesting level deeper -/
def up (st : St ρ) : St ρ := { st with depth := st.depth + 1 }

def upR {α : Type} (x : St ρ × α) : St ρ × α := (up x.1, x.2)

def isDepthErr : CErr → Bool
  | .depthLimit .. => true
  | _ => false

/-- "not the depth-limit error" -/
def ND {α : Type} (x : St ρ × Except CErr α) : Prop := ∀ e, x.2 = .error e → isDepthErr e = false

theorem ND_of_ok {α : Type} {x : St ρ × Except CErr α} {s : St ρ} {a : α} (h : x = (s, .ok a)) : ND x := by
  subst h; intro e he; cases he

theorem isLimit_of_isDepthErr {e : CErr} (h : isDepthErr e = true) : e.isLimit = true := by
  cases e <;> simp_all [isDepthErr, CErr.isLimit]

@[simp] theorem up_geo (st : St ρ) : (up st).geo = st.geo := rfl
@[simp] theorem up_env (st : St ρ) : (up st).env = st.env := rfl
@[simp] theorem up_rng (st : St ρ) : (up st).rng = st.rng := rfl
@[simp] theorem up_cfg (st : St ρ) : (up st).cfg = st.cfg := rfl
@[simp] theorem up_scopes (st : St ρ) : (up st).scopes = st.scopes := rfl
@[simp] theorem up_depth (st : St ρ) : (up st).depth = st.depth + 1 := rfl
@[simp] theorem up_inSpecs (st : St ρ) : (up st).inSpecs = st.inSpecs := rfl
@[simp] theorem up_gen (st : St ρ) : (up st).gen = st.gen := rfl
@[simp] theorem upR_fst {α : Type} (x : St ρ × α) : (upR x).1 = up x.1 := rfl
@[simp] theorem upR_snd {α : Type} (x : St ρ × α) : (upR x).2 = x.2 := rfl

theorem up_injective {a b : St ρ} (h : up a = up b) : a = b := by
  obtain ⟨g1, o1, s1, e1, d1, i1, c1, r1, u1, p1, n1⟩ := a
  obtain ⟨g2, o2, s2, e2, d2, i2, c2, r2, u2, p2, n2⟩ := b
  simp only [up, St.mk.injEq] at h
  obtain ⟨rfl, rfl, rfl, rfl, hd, rfl, rfl, rfl, rfl, rfl, rfl⟩ := h
  have : d1 = d2 := by omega
  subst this; rfl

/-! ## the helpers commute with `up` -/

theorem up_setVar (st : St ρ) (k v : Str) : (up st).setVar k v = up (st.setVar k v) := by
  obtain ⟨g1, o1, s1, e1, d1, i1, c1, r1, u1, p1, n1⟩ := st
  cases s1 <;> rfl

theorem up_foldl_setVar (vars : List (Str × Str)) (st : St ρ) :
    vars.foldl (fun s kv => s.setVar kv.1 kv.2) (up st) = up (vars.foldl (fun s kv => s.setVar kv.1 kv.2) st) := by
  induction vars generalizing st with
  | nil => rfl
  | cons x xs ih => simp only [List.foldl_cons, up_setVar, ih]

theorem up_updateElement (ev : Evalr ρ) (st : St ρ) (e : Elem) :
    updateElement ev (up st) e = up (updateElement ev st e) := by
  unfold updateElement
  split <;> rfl

theorem up_registerOriginal (ev : Evalr ρ) (st : St ρ) (e : Elem) (k : Option Nodes) :
    registerOriginal ev (up st) e k = up (registerOriginal ev st e k) := by
  unfold registerOriginal
  split <;> rfl

theorem up_setPrev (st : St ρ) (e : Elem) : setPrev (up st) e = up (setPrev st e) := rfl

theorem up_registerEarly (ev : Evalr ρ) (st : St ρ) (n : Node) :
    registerEarly ev (up st) n = up (registerEarly ev st n) := by
  unfold registerEarly
  split
  · exact up_registerOriginal ev st _ _
  · rfl

theorem up_withRng {α : Type} (st : St ρ) (r : Except Err (α × ρ)) : withRng (up st) r = upR (withRng st r) := by
  unfold withRng
  split <;> rfl

theorem up_finishContainer (ev : Evalr ρ) (st : St ρ) (ne : Elem) (bb : Option BoundingBox) :
    finishContainer ev (up st) ne bb = up (finishContainer ev st ne bb) := by
  unfold finishContainer
  cases bb with
  | none =>
    by_cases hn : notRenderedInPlace ne.name = true
    · simp only [Option.isSome_none, Bool.false_or, Bool.false_and, hn, if_true, up_updateElement]
      rfl
    · simp only [Option.isSome_none, Bool.false_or, Bool.false_and, hn]
      rfl
  | some b =>
    simp only [Option.isSome_some, if_true, Bool.true_and, Bool.true_or, up_updateElement, up_setPrev]
    split <;> rfl

theorem up_setElementDefault (st : St ρ) (e : Elem) : (up st).setElementDefault e = up (st.setElementDefault e) := by
  obtain ⟨g1, o1, s1, e1, d1, i1, c1, r1, u1, p1, n1⟩ := st
  cases s1 <;> rfl

theorem up_foldl_setElementDefault (es : List Elem) (st : St ρ) :
    es.foldl St.setElementDefault (up st) = up (es.foldl St.setElementDefault st) := by
  induction es generalizing st with
  | nil => rfl
  | cons x xs ih => simp only [List.foldl_cons, up_setElementDefault, ih]

theorem up_genDefaults (st : St ρ) (kids : Option Nodes) : genDefaults (up st) kids = upR (genDefaults st kids) := by
  unfold genDefaults
  cases kids with
  | none => rfl
  | some ks => simp only [up_foldl_setElementDefault]; rfl

@[simp] theorem up_leafDefaults (st : St ρ) (e : Elem) (kids : Option Nodes) :
    leafDefaults (up st) e kids = leafDefaults st e kids := rfl

theorem up_genVar (ev : Evalr ρ) (st : St ρ) (e : Elem) : genVar ev (up st) e = upR (genVar ev st e) := by
  have key : ∀ (r : Except CErr (List (Str × Str) × ρ)),
      (match r with
        | .error er => (up st, (.error er : Res))
        | .ok (newVars, rng) =>
          (newVars.foldl (fun s kv => s.setVar kv.1 kv.2) { up st with rng := rng }, .ok ([], none)))
      = upR (match r with
        | .error er => (st, (.error er : Res))
        | .ok (newVars, rng) =>
          (newVars.foldl (fun s kv => s.setVar kv.1 kv.2) { st with rng := rng }, .ok ([], none))) := by
    intro r
    cases r with
    | error er => rfl
    | ok a =>
      obtain ⟨nv, rng⟩ := a
      show (List.foldl (fun s kv => s.setVar kv.1 kv.2) (up { st with rng := rng }) nv, _) = _
      rw [up_foldl_setVar]
      rfl
  exact key _

theorem up_commentEvents (ev : Evalr ρ) (st : St ρ) (e : Elem) :
    commentEvents ev (up st) e = upR (commentEvents ev st e) := by
  unfold commentEvents
  simp only [up_geo, up_env, up_rng]
  split
  · split <;> rfl
  · rfl

theorem up_seq_pure {α β : Type} (x : St ρ × Except CErr α) (g g' : St ρ → α → St ρ × Except CErr β)
    (hg : ∀ s a, g' (up s) a = upR (g s a)) : seq (upR x) g' = upR (seq x g) := by
  unfold seq
  simp only [upR_snd, upR_fst]
  split
  · rfl
  · exact hg _ _

theorem up_elementEvents (ev : Evalr ρ) (st : St ρ) (e : Elem) :
    elementEvents ev (up st) e = upR (elementEvents ev st e) := by
  unfold elementEvents
  rw [up_commentEvents]
  exact up_seq_pure _ _ _ (fun _ _ => rfl)

theorem up_genOther (ev : Evalr ρ) (st : St ρ) (e : Elem) : genOther ev (up st) e = upR (genOther ev st e) := by
  unfold genOther
  have h0 : otherPipeline ev (up st) e = otherPipeline ev st e := rfl
  rw [h0, up_withRng]
  refine up_seq_pure _ _ _ ?_
  intro s e'
  simp only [up_updateElement, up_geo]
  split
  · rfl
  · rename_i bb _
    by_cases hb : bb.isSome = true
    · simp only [hb, if_true, up_setPrev, up_elementEvents]
      exact up_seq_pure _ _ _ (fun _ _ => rfl)
    · simp only [hb, if_false, Bool.false_eq_true, up_elementEvents]
      exact up_seq_pure _ _ _ (fun _ _ => rfl)

theorem up_groupFinish (ev : Evalr ρ) (st : St ρ) (e : Elem) (r : List Ev × Option BoundingBox) :
    groupFinish ev (up st) e r = upR (groupFinish ev st e r) := by
  unfold groupFinish
  by_cases hb : r.2.isSome = true
  · simp only [hb, if_true, up_updateElement, up_setPrev]
    split
    · rfl
    · split <;> rfl
  · simp only [hb, if_false, Bool.false_eq_true, up_updateElement]
    split
    · rfl
    · split <;> rfl

theorem up_clipPost (ev : Evalr ρ) (e : Elem) (x : St ρ × Res) : clipPost ev e (upR x) = upR (clipPost ev e x) := by
  unfold clipPost
  simp only [upR_snd, upR_fst, up_geo]
  split
  · split
    · split
      · rfl
      · split
        · split
          · rfl
          · simp only [up_updateElement]; rfl
          · rfl
        · rfl
    · rfl
  · rfl

theorem up_preTest (ev : Evalr ρ) (st : St ρ) c w i : preTest ev (up st) c w i = upR (preTest ev st c w i) := by
  unfold preTest
  split
  · rfl
  · exact up_withRng st _
  · rfl

theorem up_postTest (ev : Evalr ρ) (st : St ρ) u : postTest ev (up st) u = upR (postTest ev st u) := by
  unfold postTest
  split
  · exact up_withRng st _
  · rfl

theorem up_bindLoopVar (st : St ρ) (name : Str) (v : Rat) : bindLoopVar (up st) name v = up (bindLoopVar st name v) := by
  unfold bindLoopVar
  split
  · rfl
  · exact up_setVar st _ _

theorem up_bindForVars (st : St ρ) (v : Str) (iv : Option Str) (item : Str) (idx : Nat) :
    bindForVars (up st) v iv item idx = up (bindForVars st v iv item idx) := by
  unfold bindForVars
  cases iv with
  | none => exact up_setVar st _ _
  | some i => simp only [up_setVar]

theorem up_reusePrepare (ev : Evalr ρ) (st : St ρ) (re : Elem) :
    reusePrepare ev (up st) re = upR (reusePrepare ev st re) := by
  unfold reusePrepare
  split
  · rfl
  · split
    · rfl
    · rfl
    · simp only [show (up st).originals = st.originals from rfl]
      split
      · rfl
      · have h0 : ∀ x, evalAttributes ev (up st) x = evalAttributes ev st x := fun _ => rfl
        rw [h0, up_withRng]
        refine up_seq_pure _ _ _ ?_
        intro s inst1
        simp only [up_geo]
        split
        · rfl
        · split
          · rfl
          · rename_i re2 _
            have hs : ∀ c : Bool, (if c = true then updateElement ev (up s) re2 else up s)
                = up (if c = true then updateElement ev s re2 else s) := by
              intro c; cases c <;> simp [up_updateElement]
            simp only [hs]
            generalize (if (re2.getAttr cs!"id").isSome = true then updateElement ev s re2 else s) = s'
            simp only [up_geo]
            split <;> rfl

theorem up_popAfter {α : Type} (x : St ρ × Except CErr α) : popAfter (upR x) = upR (popAfter x) := rfl

/-! ## the statement for the mutual block -/

/-- **the depth shift**: a run one level deeper that does not end in the depth-limit error is the same run -/
structure AllShift (ev : Evalr ρ) (f : Nat) : Prop where
  genElem : ∀ (st : St ρ) e kids, st.scopes ≠ [] →
    ND (genElem ev f (up st) e kids) → genElem ev f (up st) e kids = upR (genElem ev f st e kids)
  dispatch : ∀ (st : St ρ) e kids, st.scopes ≠ [] → 1 ≤ st.depth →
    ND (dispatch ev f (up st) e kids) → dispatch ev f (up st) e kids = upR (dispatch ev f st e kids)
  genSpecs : ∀ (st : St ρ) kids, st.scopes ≠ [] →
    ND (genSpecs ev f (up st) kids) → genSpecs ev f (up st) kids = upR (genSpecs ev f st kids)
  genReuse : ∀ (st : St ρ) e, st.scopes ≠ [] →
    ND (genReuse ev f (up st) e) → genReuse ev f (up st) e = upR (genReuse ev f st e)
  genIf : ∀ (st : St ρ) e kids, st.scopes ≠ [] →
    ND (genIf ev f (up st) e kids) → genIf ev f (up st) e kids = upR (genIf ev f st e kids)
  genContainer : ∀ (st : St ρ) e ks, st.scopes ≠ [] → 1 ≤ st.depth →
    ND (genContainer ev f (up st) e ks) → genContainer ev f (up st) e ks = upR (genContainer ev f st e ks)
  genGroup : ∀ (st : St ρ) e kids, st.scopes ≠ [] →
    ND (genGroup ev f (up st) e kids) → genGroup ev f (up st) e kids = upR (genGroup ev f st e kids)
  genLoop : ∀ (st : St ρ) e kids, st.scopes ≠ [] →
    ND (genLoop ev f (up st) e kids) → genLoop ev f (up st) e kids = upR (genLoop ev f st e kids)
  loopIter : ∀ (st : St ρ) ks c w u n v s i acc bb, st.scopes ≠ [] →
    ND (loopIter ev f (up st) ks c w u n v s i acc bb) →
    loopIter ev f (up st) ks c w u n v s i acc bb = upR (loopIter ev f st ks c w u n v s i acc bb)
  genFor : ∀ (st : St ρ) e kids, st.scopes ≠ [] →
    ND (genFor ev f (up st) e kids) → genFor ev f (up st) e kids = upR (genFor ev f st e kids)
  forIter : ∀ (st : St ρ) ks v iv items idx acc bb, st.scopes ≠ [] →
    ND (forIter ev f (up st) ks v iv items idx acc bb) →
    forIter ev f (up st) ks v iv items idx acc bb = upR (forIter ev f st ks v iv items idx acc bb)
  genNode : ∀ (st : St ρ) n, st.scopes ≠ [] →
    ND (genNode ev f (up st) n) → genNode ev f (up st) n = upR (genNode ev f st n)
  onePass : ∀ (st : St ρ) ts outs bb rem, st.scopes ≠ [] →
    ND (onePass ev f (up st) ts outs bb rem) → onePass ev f (up st) ts outs bb rem = upR (onePass ev f st ts outs bb rem)
  retry : ∀ (st : St ρ) ts outs bb, st.scopes ≠ [] →
    ND (retry ev f (up st) ts outs bb) → retry ev f (up st) ts outs bb = upR (retry ev f st ts outs bb)
  processNodes : ∀ (st : St ρ) ks, st.scopes ≠ [] →
    ND (processNodes ev f (up st) ks) → processNodes ev f (up st) ks = upR (processNodes ev f st ks)

theorem nd_seq_left {α β : Type} {x : St ρ × Except CErr α} {g : St ρ → α → St ρ × Except CErr β}
    (hnd : ND (seq x g)) : ND x := by
  intro e he
  apply hnd e
  unfold seq
  rw [he]

/-- `seq` is compatible with the depth shift of its two parts -/
theorem seq_shift {α β : Type} {x' x : St ρ × Except CErr α} {g' g : St ρ → α → St ρ × Except CErr β}
    (hnd : ND (seq x' g')) (hx : ND x' → x' = upR x)
    (hg : ∀ a, x.2 = .ok a → ND (g' (up x.1) a) → g' (up x.1) a = upR (g x.1 a)) : seq x' g' = upR (seq x g) := by
  obtain rfl := hx (nd_seq_left hnd)
  unfold seq at hnd ⊢
  simp only [upR_snd, upR_fst] at hnd ⊢
  split
  · rfl
  · rename_i a ha
    rw [ha] at hnd
    exact hg a ha hnd

theorem clipPost_err (ev : Evalr ρ) (e : Elem) (x : St ρ × Res) (er : CErr) (h : x.2 = .error er) :
    (clipPost ev e x).2 = .error er := by
  unfold clipPost
  rw [h]
  exact h

theorem nd_popAfter {α : Type} {x : St ρ × Except CErr α} (h : ND (popAfter x)) : ND x := h

theorem scopes_withRng {α : Type} (st : St ρ) (r : Except Err (α × ρ)) (h : st.scopes ≠ []) :
    (withRng st r).1.scopes ≠ [] := (inv_withRng st r h).2.2.1

section shift
variable (ev : Evalr ρ) (fuel : Nat) (ih : AllShift ev fuel)
include ih

theorem genElem_sstep (st : St ρ) e kids (hs : st.scopes ≠ [])
    (hnd : ND (Ctl.genElem ev (fuel + 1) (up st) e kids)) :
    Ctl.genElem ev (fuel + 1) (up st) e kids = upR (Ctl.genElem ev (fuel + 1) st e kids) := by
  rw [Ctl.genElem] at hnd
  rw [Ctl.genElem, Ctl.genElem]
  by_cases hd : (up st).depth + 1 > (up st).cfg.depthLimit
  · exfalso
    simp only [hd, if_true] at hnd
    have := hnd _ rfl
    simp [isDepthErr] at this
  · have hd' : ¬ (st.depth + 1 > st.cfg.depthLimit) := by
      simp only [up_depth, up_cfg] at hd; omega
    simp only [hd, hd', if_false] at hnd ⊢
    have hsub := ih.dispatch { st with depth := st.depth + 1 } e kids hs (by simp)
      (fun er h => hnd er (clipPost_err _ _ _ er h))
    have hdep := ((allInv ev fuel).dispatch { st with depth := st.depth + 1 } e kids hs).1
    change Ctl.dispatch ev fuel (up { st with depth := st.depth + 1 }) e kids = _ at hsub
    change clipPost ev e ({ (Ctl.dispatch ev fuel (up { st with depth := st.depth + 1 }) e kids).1 with
      depth := (Ctl.dispatch ev fuel (up { st with depth := st.depth + 1 }) e kids).1.depth - 1 },
      (Ctl.dispatch ev fuel (up { st with depth := st.depth + 1 }) e kids).2) = _
    rw [hsub]
    generalize Ctl.dispatch ev fuel { st with depth := st.depth + 1 } e kids = r at hdep ⊢
    rw [← up_clipPost]
    congr 1
    obtain ⟨s, res⟩ := r
    obtain ⟨g1, o1, s1, e1, d1, i1, c1, r1, u1, p1, n1⟩ := s
    simp only at hdep
    subst hdep
    rfl

theorem dispatch_sstep (st : St ρ) e kids (hs : st.scopes ≠ []) (h1d : 1 ≤ st.depth)
    (hnd : ND (Ctl.dispatch ev (fuel + 1) (up st) e kids)) :
    Ctl.dispatch ev (fuel + 1) (up st) e kids = upR (Ctl.dispatch ev (fuel + 1) st e kids) := by
  unfold Ctl.dispatch at hnd ⊢
  dsimp only at hnd ⊢
  by_cases h1 : (e.name == cs!"loop") = true
  · simp only [h1, if_true] at hnd ⊢
    exact ih.genLoop st e kids hs hnd
  simp only [h1, Bool.false_eq_true, if_false] at hnd ⊢
  by_cases h2 : (e.name == cs!"config") = true
  · simp only [h2, if_true, up_cfg]
    split <;> rfl
  simp only [h2, Bool.false_eq_true, if_false] at hnd ⊢
  by_cases h3 : (e.name == cs!"reuse") = true
  · simp only [h3, if_true] at hnd ⊢
    exact ih.genReuse st e hs hnd
  simp only [h3, Bool.false_eq_true, if_false] at hnd ⊢
  by_cases h4 : (e.name == cs!"specs") = true
  · simp only [h4, if_true] at hnd ⊢
    exact ih.genSpecs st kids hs hnd
  simp only [h4, Bool.false_eq_true, if_false] at hnd ⊢
  by_cases h5 : (e.name == cs!"var") = true
  · simp only [h5, if_true]
    exact up_genVar ev st e
  simp only [h5, Bool.false_eq_true, if_false] at hnd ⊢
  by_cases h6 : (e.name == cs!"if") = true
  · simp only [h6, if_true] at hnd ⊢
    exact ih.genIf st e kids hs hnd
  simp only [h6, Bool.false_eq_true, if_false] at hnd ⊢
  by_cases h7 : (e.name == cs!"defaults") = true
  · simp only [h7, if_true]
    exact up_genDefaults st kids
  simp only [h7, Bool.false_eq_true, if_false] at hnd ⊢
  by_cases h8 : (e.name == cs!"for") = true
  · simp only [h8, if_true] at hnd ⊢
    exact ih.genFor st e kids hs hnd
  simp only [h8, Bool.false_eq_true, if_false] at hnd ⊢
  by_cases h9 : (e.name == ['g'] || e.name == cs!"symbol") = true
  · simp only [h9, if_true] at hnd ⊢
    exact ih.genGroup st e kids hs hnd
  simp only [h9, Bool.false_eq_true, if_false] at hnd ⊢
  cases kids with
  | some ks => exact ih.genContainer st e ks hs h1d hnd
  | none => exact up_genOther ev st e

theorem genSpecs_sstep (st : St ρ) kids (hs : st.scopes ≠ []) (hnd : ND (Ctl.genSpecs ev (fuel + 1) (up st) kids)) :
    Ctl.genSpecs ev (fuel + 1) (up st) kids = upR (Ctl.genSpecs ev (fuel + 1) st kids) := by
  unfold Ctl.genSpecs at hnd ⊢
  simp only [up_inSpecs] at hnd ⊢
  by_cases hsp : st.inSpecs = true
  · simp only [hsp, if_true]; rfl
  · simp only [hsp, if_false, Bool.false_eq_true] at hnd ⊢
    cases kids with
    | none => rfl
    | some ks =>
      dsimp only at hnd ⊢
      have hsub := ih.processNodes { st with inSpecs := true } ks hs (by
        intro er h
        apply hnd er
        show (match (Ctl.processNodes ev fuel (up { st with inSpecs := true }) ks).2 with
          | .ok _ => (Except.ok ([], none) : Res)
          | .error er => .error er) = _
        rw [h])
      change ({ (Ctl.processNodes ev fuel (up { st with inSpecs := true }) ks).1 with inSpecs := false },
        match (Ctl.processNodes ev fuel (up { st with inSpecs := true }) ks).2 with
          | .ok _ => (Except.ok ([], none) : Res)
          | .error er => .error er) = _
      rw [hsub]
      rfl

theorem genReuse_sstep (st : St ρ) e (hs : st.scopes ≠ [])
    (hnd : ND (Ctl.genReuse ev (fuel + 1) (up st) e)) :
    Ctl.genReuse ev (fuel + 1) (up st) e = upR (Ctl.genReuse ev (fuel + 1) st e) := by
  unfold Ctl.genReuse at hnd ⊢
  refine seq_shift hnd (fun _ => up_withRng st _) ?_
  intro re hre hnd1
  have hnd2 := nd_popAfter hnd1
  have h1 := scopes_withRng st (evalAttributes ev st e) hs
  generalize (withRng st (evalAttributes ev st e)).1 = s0 at h1 hnd1 hnd2 ⊢
  have hp : (s0.pushElement re).scopes ≠ [] := by simp [St.pushElement]
  have h2 := (inv_reusePrepare ev _ re hp).2.2.1
  unfold popAfter
  rw [seq_shift hnd2 (fun _ => up_reusePrepare ev (s0.pushElement re) re) ?_]
  · rfl
  · intro ik hik hnd3
    cases hk : ik.2 with
    | some ks =>
      simp only [hk] at hnd3 ⊢
      exact ih.processNodes _ _ h2 hnd3
    | none =>
      simp only [hk] at hnd3 ⊢
      exact ih.genElem _ _ _ h2 hnd3

theorem genIf_sstep (st : St ρ) e kids (hs : st.scopes ≠ [])
    (hnd : ND (Ctl.genIf ev (fuel + 1) (up st) e kids)) :
    Ctl.genIf ev (fuel + 1) (up st) e kids = upR (Ctl.genIf ev (fuel + 1) st e kids) := by
  revert hnd
  unfold Ctl.genIf
  split
  · intro _; rfl
  · split
    · rename_i ks
      intro hnd
      refine seq_shift hnd (fun _ => up_withRng st _) ?_
      intro b hb hnd1
      cases b with
      | false => rfl
      | true =>
        simp only [if_true] at hnd1 ⊢
        exact ih.processNodes _ ks (scopes_withRng st _ hs) hnd1
    · intro _; rfl

theorem genContainer_sstep (st : St ρ) e ks (hs : st.scopes ≠ []) (h1d : 1 ≤ st.depth)
    (hnd : ND (Ctl.genContainer ev (fuel + 1) (up st) e ks)) :
    Ctl.genContainer ev (fuel + 1) (up st) e ks = upR (Ctl.genContainer ev (fuel + 1) st e ks) := by
  unfold Ctl.genContainer at hnd ⊢
  cases hg : isGraphics e.name <;> cases hi : innerText ks.toList
  all_goals simp only [hg, hi] at hnd ⊢
  case true.some t =>
    have hz : (st.depth == 0) = false := by
      cases h : st.depth == 0
      · rfl
      · simp at h; omega
    have hz' : ((up st).depth == 0) = false := by simp
    simp only [hz, hz', Bool.false_eq_true, if_false] at hnd ⊢
    have heq : ({ up st with depth := (up st).depth - 1 } : St ρ) = up { st with depth := st.depth - 1 } := by
      obtain ⟨g1, o1, s1, e1, d1, i1, c1, r1, u1, p1, n1⟩ := st
      simp only [up] at h1d ⊢
      congr 1
      omega
    rw [heq] at hnd ⊢
    have hsub := ih.genElem { st with depth := st.depth - 1 } (e.setAttr cs!"text" t) none hs (fun er h => hnd er h)
    rw [hsub]
    rfl
  all_goals
    by_cases hsvg : (e.name == cs!"svg" && e.hasAttr cs!"xmlns") = true
    · simp only [hsvg, if_true]; rfl
    · simp only [hsvg, Bool.false_eq_true, if_false] at hnd ⊢
      refine seq_shift hnd (fun _ => up_withRng st _) ?_
      intro ne hne hnd1
      have h1 := scopes_withRng st (evalAttributes ev st e) hs
      refine seq_shift hnd1 ?_ (fun _ _ _ => by simp only [up_finishContainer]; rfl)
      intro hnd2
      first
        | rfl
        | exact ih.processNodes _ ks h1 hnd2

theorem genGroup_sstep (st : St ρ) e kids (_hs : st.scopes ≠ [])
    (hnd : ND (Ctl.genGroup ev (fuel + 1) (up st) e kids)) :
    Ctl.genGroup ev (fuel + 1) (up st) e kids = upR (Ctl.genGroup ev (fuel + 1) st e kids) := by
  unfold Ctl.genGroup at hnd ⊢
  refine seq_shift hnd (fun _ => up_withRng st _) ?_
  intro ne hne hnd1
  refine seq_shift hnd1 ?_ (fun _ _ _ => up_groupFinish ev _ e _)
  intro hnd2
  cases kids with
  | none => rfl
  | some ks =>
    have hnd3 := nd_popAfter hnd2
    dsimp only at hnd3 ⊢
    unfold popAfter
    have key := seq_shift
      (g := fun (st : St ρ) (r : List Ev × Option BoundingBox) =>
        (st, (.ok ([Ev.start (adapt ne)] ++ r.1 ++ [Ev.end_ ne.name], r.2) : Res)))
      hnd3 (fun h => ih.processNodes ((withRng st (evalAttributes ev st e)).1.pushElement e) ks
      (by simp [St.pushElement]) h) (fun _ _ _ => rfl)
    rw [key]
    rfl

theorem genLoop_sstep (st : St ρ) e kids (hs : st.scopes ≠ [])
    (hnd : ND (Ctl.genLoop ev (fuel + 1) (up st) e kids)) :
    Ctl.genLoop ev (fuel + 1) (up st) e kids = upR (Ctl.genLoop ev (fuel + 1) st e kids) := by
  revert hnd
  unfold Ctl.genLoop
  dsimp only
  have h0 : loopHead ev (up st) e = loopHead ev st e := rfl
  rw [h0]
  split
  · split
    · intro _; rfl
    · intro hnd
      rename_i cnt name start step rng _
      exact ih.loopIter { st with rng := rng } _ _ _ _ _ _ _ _ _ _ hs hnd
  · intro _; rfl

theorem loopIter_sstep (st : St ρ) ks c w u n v s i acc bb (hs : st.scopes ≠ [])
    (hnd : ND (Ctl.loopIter ev (fuel + 1) (up st) ks c w u n v s i acc bb)) :
    Ctl.loopIter ev (fuel + 1) (up st) ks c w u n v s i acc bb
      = upR (Ctl.loopIter ev (fuel + 1) st ks c w u n v s i acc bb) := by
  unfold Ctl.loopIter at hnd ⊢
  refine seq_shift hnd (fun _ => up_preTest ev st c w i) ?_
  intro go hgo hnd1
  have h1 : (preTest ev st c w i).1.scopes ≠ [] := (inv_preTest ev st c w i hs).2.2.1
  generalize (preTest ev st c w i).1 = s0 at h1 hnd1 ⊢
  cases go with
  | false => rfl
  | true =>
    simp only [Bool.not_true, Bool.false_eq_true, if_false] at hnd1 ⊢
    have h2 : (bindLoopVar s0 n v).scopes ≠ [] := (inv_bindLoopVar s0 n v h1).2.2.1
    rw [up_bindLoopVar] at hnd1 ⊢
    refine seq_shift hnd1 (fun h => ih.processNodes _ ks h2 h) ?_
    intro r hr hnd2
    have h3 : (Ctl.processNodes ev fuel (bindLoopVar s0 n v) ks).1.scopes ≠ [] :=
      ((allInv ev fuel).processNodes _ ks h2).2.2.1
    generalize (Ctl.processNodes ev fuel (bindLoopVar s0 n v) ks).1 = s1 at h3 hnd2 ⊢
    simp only [up_cfg] at hnd2 ⊢
    by_cases hlim : i + 1 > s1.cfg.loopLimit
    · simp only [hlim, if_true]; rfl
    · simp only [hlim, if_false] at hnd2 ⊢
      refine seq_shift hnd2 (fun _ => up_postTest ev s1 u) ?_
      intro stop hstop hnd3
      have h4 : (postTest ev s1 u).1.scopes ≠ [] := (inv_postTest ev s1 u h3).2.2.1
      cases stop with
      | true => rfl
      | false =>
        simp only [Bool.false_eq_true, if_false] at hnd3 ⊢
        exact ih.loopIter _ _ _ _ _ _ _ _ _ _ _ h4 hnd3

theorem genFor_sstep (st : St ρ) e kids (hs : st.scopes ≠ [])
    (hnd : ND (Ctl.genFor ev (fuel + 1) (up st) e kids)) :
    Ctl.genFor ev (fuel + 1) (up st) e kids = upR (Ctl.genFor ev (fuel + 1) st e kids) := by
  revert hnd
  unfold Ctl.genFor
  split
  · intro hnd
    refine seq_shift hnd (fun _ => up_withRng st _) ?_
    intro items hitems hnd1
    exact ih.forIter _ _ _ _ _ _ _ _ (scopes_withRng st _ hs) hnd1
  · intro _; rfl

theorem forIter_sstep (st : St ρ) ks v iv items idx acc bb (hs : st.scopes ≠ [])
    (hnd : ND (Ctl.forIter ev (fuel + 1) (up st) ks v iv items idx acc bb)) :
    Ctl.forIter ev (fuel + 1) (up st) ks v iv items idx acc bb
      = upR (Ctl.forIter ev (fuel + 1) st ks v iv items idx acc bb) := by
  cases items with
  | nil => unfold Ctl.forIter; rfl
  | cons item items =>
    unfold Ctl.forIter at hnd ⊢
    have h2 : (bindForVars st v iv item idx).scopes ≠ [] := (inv_bindForVars st v iv item idx hs).2.2.1
    rw [up_bindForVars] at hnd ⊢
    refine seq_shift hnd (fun h => ih.processNodes _ ks h2 h) ?_
    intro r hr hnd1
    have h3 : (Ctl.processNodes ev fuel (bindForVars st v iv item idx) ks).1.scopes ≠ [] :=
      ((allInv ev fuel).processNodes _ ks h2).2.2.1
    generalize (Ctl.processNodes ev fuel (bindForVars st v iv item idx) ks).1 = s1 at h3 hnd1 ⊢
    simp only [up_cfg] at hnd1 ⊢
    by_cases hlim : idx + 1 > s1.cfg.loopLimit
    · simp only [hlim, if_true]; rfl
    · simp only [hlim, if_false] at hnd1 ⊢
      exact ih.forIter _ _ _ _ _ _ _ _ h3 hnd1

theorem genNode_sstep (st : St ρ) n (hs : st.scopes ≠ [])
    (hnd : ND (Ctl.genNode ev (fuel + 1) (up st) n)) :
    Ctl.genNode ev (fuel + 1) (up st) n = upR (Ctl.genNode ev (fuel + 1) st n) := by
  cases n with
  | elem e kids tail =>
    unfold Ctl.genNode at hnd ⊢
    rw [up_leafDefaults] at hnd ⊢
    exact seq_shift hnd (fun h => ih.genElem st _ kids hs h) (fun _ _ _ => rfl)
  | comment c tail => unfold Ctl.genNode; rfl
  | text t => unfold Ctl.genNode; rfl
  | cdata c => unfold Ctl.genNode; rfl

theorem onePass_sstep (st : St ρ) ts outs bb rem (hs : st.scopes ≠ [])
    (hnd : ND (Ctl.onePass ev (fuel + 1) (up st) ts outs bb rem)) :
    Ctl.onePass ev (fuel + 1) (up st) ts outs bb rem = upR (Ctl.onePass ev (fuel + 1) st ts outs bb rem) := by
  cases ts with
  | nil => unfold Ctl.onePass; rfl
  | cons t ts =>
    unfold Ctl.onePass at hnd ⊢
    dsimp only at hnd ⊢
    rw [up_registerEarly] at hnd ⊢
    have h1 : (registerEarly ev st t.node).scopes ≠ [] := (inv_registerEarly ev st t.node hs).2.2.1
    have hsub : Ctl.genNode ev fuel (up (registerEarly ev st t.node)) t.node =
        upR (Ctl.genNode ev fuel (registerEarly ev st t.node) t.node) := by
      refine ih.genNode _ t.node h1 ?_
      intro er h
      by_cases hde : isDepthErr er = true
      · have hl := isLimit_of_isDepthErr hde
        have := hnd er (by rw [h]; simp [hl])
        exact this
      · simpa using hde
    rw [hsub] at hnd ⊢
    have h2 : (Ctl.genNode ev fuel (registerEarly ev st t.node) t.node).1.scopes ≠ [] :=
      ((allInv ev fuel).genNode _ t.node h1).2.2.1
    generalize Ctl.genNode ev fuel (registerEarly ev st t.node) t.node = r at h2 hnd ⊢
    obtain ⟨s1, res⟩ := r
    simp only [upR_fst, upR_snd, up_inSpecs, up_gen] at hnd ⊢
    cases res with
    | ok a =>
      obtain ⟨evs, b⟩ := a
      dsimp only at hnd ⊢
      by_cases hsp : s1.inSpecs = true
      · simp only [hsp, if_true] at hnd ⊢
        exact ih.onePass _ _ _ _ _ h2 hnd
      · simp only [hsp, if_false, Bool.false_eq_true] at hnd ⊢
        exact ih.onePass _ _ _ _ _ h2 hnd
    | error er =>
      dsimp only at hnd ⊢
      by_cases her : (er.isLimit || er == .fuel) = true
      · simp only [her, if_true]; rfl
      · simp only [her, if_false, Bool.false_eq_true] at hnd ⊢
        by_cases hsp : s1.inSpecs = true
        · simp only [hsp, if_true] at hnd ⊢
          exact ih.onePass _ _ _ _ _ h2 hnd
        · simp only [hsp, if_false, Bool.false_eq_true] at hnd ⊢
          exact ih.onePass _ _ _ _ _ h2 hnd

theorem retry_sstep (st : St ρ) ts outs bb (hs : st.scopes ≠ [])
    (hnd : ND (Ctl.retry ev (fuel + 1) (up st) ts outs bb)) :
    Ctl.retry ev (fuel + 1) (up st) ts outs bb = upR (Ctl.retry ev (fuel + 1) st ts outs bb) := by
  cases ts with
  | nil => unfold Ctl.retry; rfl
  | cons t ts =>
    unfold Ctl.retry at hnd ⊢
    refine seq_shift hnd (fun h => ih.onePass st _ _ _ _ hs h) ?_
    intro r hr hnd1
    have h2 : (Ctl.onePass ev fuel st (t :: ts) outs bb []).1.scopes ≠ [] :=
      ((allInv ev fuel).onePass _ _ _ _ _ hs).2.2.1
    generalize (Ctl.onePass ev fuel st (t :: ts) outs bb []).1 = s1 at h2 hnd1 ⊢
    simp only [up_gen, up_geo, up_cfg, show (up s1).idlePasses = s1.idlePasses from rfl] at hnd1 ⊢
    split
    · rfl
    rename_i hgen
    simp only [hgen] at hnd1
    split
    · rename_i hlen
      simp only [hlen, if_true] at hnd1
      split
      · rfl
      · rename_i hel
        simp only [hel] at hnd1
        split
        · rfl
        · rename_i hidle
          simp only [hidle, if_false] at hnd1
          exact ih.retry { s1 with idlePasses := s1.idlePasses + 1 } _ _ _ h2 hnd1
    · rename_i hlen
      simp only [hlen] at hnd1
      exact ih.retry _ _ _ _ h2 hnd1

theorem processNodes_sstep (st : St ρ) ks (hs : st.scopes ≠ [])
    (hnd : ND (Ctl.processNodes ev (fuel + 1) (up st) ks)) :
    Ctl.processNodes ev (fuel + 1) (up st) ks = upR (Ctl.processNodes ev (fuel + 1) st ks) := by
  unfold Ctl.processNodes at hnd ⊢
  exact seq_shift hnd (fun h => ih.retry st _ _ _ hs h) (fun _ _ _ => rfl)

end shift

theorem allShift_zero (ev : Evalr ρ) : AllShift ev 0 := by
  constructor <;> intros <;>
    simp only [Ctl.genElem, Ctl.dispatch, Ctl.genSpecs, Ctl.genReuse, Ctl.genIf, Ctl.genContainer,
      Ctl.genGroup, Ctl.genLoop, Ctl.loopIter, Ctl.genFor, Ctl.forIter, Ctl.genNode, Ctl.onePass, Ctl.retry,
      Ctl.processNodes] <;> rfl

/-- **the depth shift, all 15 functions** -/
theorem allShift (ev : Evalr ρ) : ∀ fuel, AllShift ev fuel
  | 0 => allShift_zero ev
  | fuel + 1 =>
    let ih := allShift ev fuel
    { genElem := genElem_sstep ev fuel ih
      dispatch := dispatch_sstep ev fuel ih
      genSpecs := genSpecs_sstep ev fuel ih
      genReuse := genReuse_sstep ev fuel ih
      genIf := genIf_sstep ev fuel ih
      genContainer := genContainer_sstep ev fuel ih
      genGroup := genGroup_sstep ev fuel ih
      genLoop := genLoop_sstep ev fuel ih
      loopIter := loopIter_sstep ev fuel ih
      genFor := genFor_sstep ev fuel ih
      forIter := forIter_sstep ev fuel ih
      genNode := genNode_sstep ev fuel ih
      onePass := onePass_sstep ev fuel ih
      retry := retry_sstep ev fuel ih
      processNodes := processNodes_sstep ev fuel ih }

/-- the depth shift for the entry point, in plain form: a sibling list processed one level deeper without hitting the
    depth limit is processed exactly as at the level itself -/
theorem processNodes_depth_shift (ev : Evalr ρ) (f : Nat) (st : St ρ) (ks : Nodes) (hs : st.scopes ≠ [])
    (hnd : ND (processNodes ev f (up st) ks)) :
    processNodes ev f (up st) ks = upR (processNodes ev f st ks) :=
  (allShift ev f).processNodes st ks hs hnd

end Svgdx.Ctl

#print axioms Svgdx.Ctl.allShift
#print axioms Svgdx.Ctl.processNodes_depth_shift
