/-
  Svgdx.Proofs.ThemeDefsWf — the definition strings `Theme.build` returns for `<defs>` are well-formed elements
  (accepted by `Xml.Spec.wfContent`): the three fixed ones, and the pattern definitions for every theme, every
  pattern row, for the bare class (and three sample spacings of the parameterised form).
-/
import Svgdx.Proofs.ThemeWf
namespace Svgdx.Theme
open Svgdx Str Xml

/-- the arrow marker and the two shadow filters -/
theorem fixed_defs_wf :
    Spec.wfContent (nth ars 5) = true ∧
    ∀ p ∈ Gen.Theme.build_table, Spec.wfContent (nth (shadowStrings p.2) 1) = true := by decide +kernel

/-- what `arrowDefs` and `shadowDefs` emit -/
theorem arrow_shadow_defs_wf (cs : List Str) :
    (∀ d ∈ arrowDefs cs, Spec.wfContent d = true) ∧ ∀ d ∈ shadowDefs cs, Spec.wfContent d = true := by
  refine ⟨?_, ?_⟩
  · intro d hd
    unfold arrowDefs at hd
    split at hd
    · simp only [List.mem_singleton] at hd; subst hd; exact fixed_defs_wf.1
    · cases hd
  · intro d hd
    simp only [shadowDefs, List.mem_flatMap] at hd
    obtain ⟨p, hp, hd⟩ := hd
    split at hd
    · simp only [List.mem_singleton] at hd; subst hd; exact fixed_defs_wf.2 p hp
    · cases hd

/-- pattern definitions of the BARE pattern classes (`d-grid`, `d-hatch`, …: spacing 1), all six themes and all
    six pattern rows, and three sample spacings of the parameterised form (`d-grid-0`, `-7`, `-100`) -/
theorem pattern_defs_wf_bare : ∀ t ∈ ThemeKind.all, ∀ row ∈ patternRows,
    Spec.wfContent (patternDef (themeStroke t) row.cls defaultSpacing row.ty row.rotate) = true ∧
    ∀ n ∈ [0, 7, 100],
      Spec.wfContent (patternDef (themeStroke t) (specClass row ++ natToStr n) n row.ty row.rotate) = true := by
  decide +kernel

end Svgdx.Theme
