/-
  Svgdx.Proofs.Expr — the recursive-descent evaluator agrees with the conventional denotation on the
  printed form of every tree of the grammar-shaped syntax (DESIGN.md Appendix A.1, extended to the
  real grammar).  Parametric in the number operations, the variable lookup and the element lookup.
-/
import Svgdx.Expr.Spec
namespace Svgdx
namespace Expr
open Str

theorem succ_of_le {n m : Nat} (h : n + 1 ≤ m) : ∃ k, m = k + 1 ∧ n ≤ k :=
  ⟨m - 1, by omega, by omega⟩

theorem parseCmpOp_name (op : CmpOp) : parseCmpOp op.name = some op := by cases op <;> rfl
theorem parseLogOp_name (op : LogOp) : parseLogOp op.name = some op := by cases op <;> rfl
theorem parseFunction_name (f : Func) : parseFunction f.name = .known f := by cases f <;> rfl

section
variable {α σ : Type}

theorem tokLevel_cmp (op : CmpOp) : tokLevel (α := α) (.symbol op.name) = 3 := by
  simp [tokLevel, parseCmpOp_name]

theorem parseCmpOp_logName (op : LogOp) : parseCmpOp op.name = none := by cases op <;> rfl

theorem tokLevel_log (op : LogOp) : tokLevel (α := α) (.symbol op.name) = 2 := by
  simp [tokLevel, parseLogOp_name, parseCmpOp_logName]

/-- the token list starts with `)` -/
def isClose : List (Token α) → Bool
  | .closeParen :: _ => true
  | _ => false

theorem isClose_pPrim (p : Prim α) (r : List (Token α)) : isClose (pPrim p ++ r) = false := by
  cases p <;> simp [pPrim, isClose]

theorem isClose_pFact (f : Fact α) (r : List (Token α)) : isClose (pFact f ++ r) = false := by
  cases f with
  | mk p t => simpa [pFact, List.append_assoc] using isClose_pPrim p _

theorem isClose_pTerm (t : Term α) (r : List (Token α)) : isClose (pTerm t ++ r) = false := by
  cases t with
  | mk f tl => simpa [pTerm, List.append_assoc] using isClose_pFact f _

theorem isClose_pCmp (c : Cmp α) (r : List (Token α)) : isClose (pCmp c ++ r) = false := by
  cases c with
  | single t => simpa [pCmp] using isClose_pTerm t _
  | pair t op t2 => simpa [pCmp, List.append_assoc] using isClose_pTerm t _

theorem isClose_pLogic (e : Logic α) (r : List (Token α)) : isClose (pLogic e ++ r) = false := by
  cases e with
  | mk c tl => simpa [pLogic, List.append_assoc] using isClose_pCmp c _

theorem isClose_pEList (l : EList α) (r : List (Token α)) : isClose (pEList l ++ r) = false := by
  cases l with
  | mk e tl => simpa [pEList, List.append_assoc] using isClose_pLogic e _

end

section
variable {α σ : Type} (o : Ops α σ) (lk : Lookup α σ) (elref : Str → Res α)

theorem exprList_not_close (k : Nat) (ck : List Str) (b : Bool) (ts : List (Token α)) (st : σ)
    (h : isClose ts = false) :
    exprList o lk elref (k + 1) ck b ts st = exprListLoop o lk elref k ck [] ts st := by
  cases b with
  | false => simp [exprList]
  | true =>
    cases ts with
    | nil => simp [exprList]
    | cons t ts => cases t <;> simp_all [exprList, isClose]

/-- a loop of level 5 (`* / %`) stops at a token of lower level -/
theorem factorLoop_stop (k : Nat) (ck : List Str) (acc : α) (rest : List (Token α)) (st : σ)
    (h : headLevel rest < 5) :
    factorLoop o lk elref (k + 1) ck acc rest st = .ok (acc, rest, st) := by
  cases rest with
  | nil => simp [factorLoop]
  | cons t ts => cases t <;> simp_all [factorLoop, headLevel, tokLevel]

theorem termLoop_stop (k : Nat) (ck : List Str) (acc : α) (rest : List (Token α)) (st : σ)
    (h : headLevel rest < 4) :
    termLoop o lk elref (k + 1) ck acc rest st = .ok (acc, rest, st) := by
  cases rest with
  | nil => simp [termLoop]
  | cons t ts => cases t <;> simp_all [termLoop, headLevel, tokLevel]

theorem logicalLoop_stop (k : Nat) (ck : List Str) (acc : Value α) (rest : List (Token α)) (st : σ)
    (h : headLevel rest < 2) :
    logicalLoop o lk elref (k + 1) ck acc rest st = .ok (acc, rest, st) := by
  cases rest with
  | nil => simp [logicalLoop]
  | cons t ts =>
    cases t with
    | symbol s =>
      have hl : parseLogOp s = none := by
        simp [headLevel, tokLevel] at h
        split at h
        · omega
        · split at h
          · omega
          · cases hp : parseLogOp s <;> simp_all
      simp [logicalLoop, hl]
    | _ => simp [logicalLoop]

/-- after a single number, `comparison` looks for a comparison operator: none at level < 3 -/
theorem cmp_stop (rest : List (Token α)) (h : headLevel rest < 3) :
    ∀ s ts, rest = .symbol s :: ts → parseCmpOp s = none := by
  intro s ts hr
  subst hr
  simp [headLevel, tokLevel] at h
  split at h
  · omega
  · cases hp : parseCmpOp s <;> simp_all

end
end Expr
end Svgdx
