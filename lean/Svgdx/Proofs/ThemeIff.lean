/-
  Svgdx.Proofs.ThemeIff — the other directions: a used class gets its rule; the builder only looks
  at membership (permutation invariance); without reserved classes only the base rules remain.
-/
import Svgdx.Proofs.ThemeOk
namespace Svgdx.Theme
open Svgdx Str

variable {order : List Str → List Str} {cfg : ThemeCfg} {cs es : List Str}

theorem mem_styles_of_tagged {e : Tagged} (h : e ∈ stylesT order cfg cs es) :
    e.2 ∈ (buildWith order cfg cs es).2 := by
  simp only [buildWith]
  exact List.mem_map.mpr ⟨e, h, rfl⟩

theorem tagged_guarded {k r : Str} {rules : List Str} (hk : k ∈ cs) (hr : r ∈ rules) :
    (some k, r) ∈ guarded cs k rules :=
  mem_guarded.mpr ⟨has_iff.mpr hk, r, hr, rfl⟩

/-! ### segment inclusions -/

theorem sub_surround {e : Tagged} (h : e ∈ surroundStyles cs) : e ∈ stylesT order cfg cs es := by
  simp [stylesT, h]
theorem sub_colour {e : Tagged} (h : e ∈ colourStyles cs) : e ∈ stylesT order cfg cs es := by
  simp [stylesT, h]
theorem sub_strokeWidth {e : Tagged} (h : e ∈ strokeWidthStyles cfg cs) : e ∈ stylesT order cfg cs es := by
  simp [stylesT, h]
theorem sub_text {e : Tagged} (h : e ∈ textStyles cfg cs es) : e ∈ stylesT order cfg cs es := by
  simp [stylesT, h]
theorem sub_arrow {e : Tagged} (h : e ∈ arrowStyles cs) : e ∈ stylesT order cfg cs es := by
  simp [stylesT, h]
theorem sub_dash {e : Tagged} (h : e ∈ dashStyles cs) : e ∈ stylesT order cfg cs es := by
  simp [stylesT, h]
theorem sub_pattern {e : Tagged} (h : e ∈ (patternItems order (themeStroke cfg.theme) cs).map (·.1)) :
    e ∈ stylesT order cfg cs es := by
  simp only [stylesT, List.mem_append]
  exact Or.inl (Or.inl (Or.inl (Or.inr h)))
theorem sub_shadow {e : Tagged} (h : e ∈ shadowStyles cs) : e ∈ stylesT order cfg cs es := by
  simp [stylesT, h]

/-! ### congruence in the class / element lists -/

theorem buildWith_congr {cs' es' : List Str}
    (horder : ∀ l l' : List Str, (∀ x, x ∈ l ↔ x ∈ l') → order l = order l')
    (hm : ∀ x, x ∈ cs ↔ x ∈ cs') (hme : ∀ x, x ∈ es ↔ x ∈ es') :
    buildWith order cfg cs es = buildWith order cfg cs' es' := by
  have hh : ∀ k, has cs k = has cs' k := by
    intro k
    have := hm k
    simp only [← has_iff] at this
    cases h1 : has cs k <;> cases h2 : has cs' k <;> simp_all
  have ht : hasText es = hasText es' := by
    have := hme (nth txs 0)
    simp only [hasText]
    cases h1 : es.contains (nth txs 0) <;> cases h2 : es'.contains (nth txs 0) <;> simp_all
  have hf : ∀ p : Str → Bool, order (cs.filter p) = order (cs'.filter p) := by
    intro p
    apply horder
    intro x
    simp only [List.mem_filter, hm x]
  have hr : ∀ stroke, rowItems order stroke cs = rowItems order stroke cs' := by
    intro stroke
    funext row
    simp only [rowItems, hh, hf]
  have e1 : surroundStyles cs = surroundStyles cs' := by simp only [surroundStyles, guarded, hh]
  have e2 : colourStyles cs = colourStyles cs' := by
    simp only [colourStyles, fillStyles, strokeStyles, textColStyles, textOlColStyles, guarded, hh]
  have e3 : strokeWidthStyles cfg cs = strokeWidthStyles cfg cs' := by simp only [strokeWidthStyles, guarded, hh]
  have e4 : textStyles cfg cs es = textStyles cfg cs' es' := by simp only [textStyles, guarded, hh, ht]
  have e5 : arrowStyles cs = arrowStyles cs' := by simp only [arrowStyles, hasArrow, guarded, hh]; rfl
  have e6 : arrowDefs cs = arrowDefs cs' := by simp only [arrowDefs, hasArrow, hh]; rfl
  have e7 : dashStyles cs = dashStyles cs' := by simp only [dashStyles, hasFlow, guarded, hh]; rfl
  have e8 : ∀ stroke, patternItems order stroke cs = patternItems order stroke cs' := by
    intro stroke; simp only [patternItems, hr]
  have e9 : shadowStyles cs = shadowStyles cs' := by simp only [shadowStyles, guarded, hh]
  have e10 : shadowDefs cs = shadowDefs cs' := by simp only [shadowDefs, hh]
  simp only [buildWith, stylesT, defsOf, e1, e2, e3, e4, e5, e6, e7, e8, e9, e10]

/-! ### nothing reserved, nothing emitted -/

theorem untagged_map_snd (l : List Str) : (untagged l).map (·.2) = l := by
  simp [untagged, Function.comp_def]

theorem guarded_nil {k : Str} {rules : List Str} (h : has cs k = false) : guarded cs k rules = [] := by
  simp [guarded, h]

theorem has_false_of_reserved (hn : ∀ k ∈ cs, isReserved k = false) {k : Str} (hk : isReserved k = true) :
    has cs k = false := by
  cases h : has cs k
  · rfl
  · have := hn k (has_iff.mp h)
    rw [hk] at this
    exact absurd this (by simp)

theorem fixed_reserved {k : Str} (h : k ∈ fixedKeys) : isReserved k = true := by
  simp [isReserved, h]

theorem textKeys_fixed {k : Str} (h : k ∈ textKeys) : k ∈ fixedKeys := by
  simp [fixedKeys, h]

theorem stylesT_base (hord : ∀ l x, x ∈ order l → x ∈ l) (hn : ∀ k ∈ cs, isReserved k = false) :
    buildWith order cfg cs es =
      ([], [backgroundRule cfg] ++ localOpen cfg ++ earlyStyles cfg ++ commonStyles cfg ++ lateStyles cfg ++
        localClose cfg) := by
  have hF := fun {k : Str} (hk : isReserved k = true) => has_false_of_reserved hn hk
  have h_surround : surroundStyles cs = [] := guarded_nil (hF surround_facts.2.2)
  have h_fill : fillStyles cs = [] :=
    List.flatMap_eq_nil_iff.mpr fun c hc => guarded_nil (hF (colour_reserved hc).1)
  have h_stroke : strokeStyles cs = [] :=
    List.flatMap_eq_nil_iff.mpr fun c hc => guarded_nil (hF (colour_reserved hc).2.1)
  have h_textCol : textColStyles cs = [] :=
    List.flatMap_eq_nil_iff.mpr fun c hc => guarded_nil (hF (colour_reserved hc).2.2.1)
  have h_textOlCol : textOlColStyles cs = [] :=
    List.flatMap_eq_nil_iff.mpr fun c hc => guarded_nil (hF (colour_reserved hc).2.2.2)
  have h_sw : strokeWidthStyles cfg cs = [] :=
    List.flatMap_eq_nil_iff.mpr fun p hp => guarded_nil (hF (strokeWidth_facts p hp).2.2)
  have h_text : textStyles cfg cs es = [] := by
    unfold textStyles
    split
    · have h0 : (Gen.Theme.append_text_styles_table0.flatMap fun (k, r) => guarded cs k [r]) = [] :=
        List.flatMap_eq_nil_iff.mpr fun p hp => guarded_nil (hF (text0_facts p hp).2)
      have h1 : (Gen.Theme.append_text_styles_table1.flatMap fun (k, e) => guarded cs k [textSizeRule cfg k e]) = [] :=
        List.flatMap_eq_nil_iff.mpr fun p hp => guarded_nil (hF (text1_facts p hp).2)
      have h2 : (Gen.Theme.append_text_styles_table2.flatMap fun (k, e) => guarded cs k [textOlWidthRule k e]) = [] :=
        List.flatMap_eq_nil_iff.mpr fun p hp => guarded_nil (hF (text2_facts p hp).2)
      rw [h0, h1, h2]; rfl
    · rfl
  have h_ha : hasArrow cs = false := by
    simp [hasArrow, hF arrow_facts.2.2.2.2.2.1, hF arrow_facts.2.2.2.2.2.2]
  have h_arrow : arrowStyles cs = [] := by
    simp [arrowStyles, h_ha, guarded_nil (hF arrow_facts.2.2.2.2.2.1), guarded_nil (hF arrow_facts.2.2.2.2.2.2)]
  have h_arrowD : arrowDefs cs = [] := by simp [arrowDefs, h_ha]
  have h_hf : hasFlow cs = false := by
    unfold hasFlow
    apply Bool.eq_false_iff.mpr
    intro h
    obtain ⟨p, hp, hh⟩ := List.any_eq_true.mp h
    rw [hF (flow_facts p hp).2.2] at hh
    exact absurd hh (by simp)
  have h_dash : dashStyles cs = [] := by
    have hd := dash_facts
    have h0 : (flowTable.flatMap fun (k, speed) => guarded cs k [flowRule k speed]) = [] :=
      List.flatMap_eq_nil_iff.mpr fun p hp => guarded_nil (hF (flow_facts p hp).2.2)
    unfold dashStyles
    rw [h0, h_hf, guarded_nil (hF hd.2.2.2.2.2.2.2.2.2.1), guarded_nil (hF hd.2.2.2.2.2.2.2.2.2.2.1),
      guarded_nil (hF hd.2.2.2.2.2.2.2.2.2.2.2.1), guarded_nil (hF hd.2.2.2.2.2.2.2.2.2.2.2.2)]
    rfl
  have h_pat : ∀ stroke, patternItems order stroke cs = [] := by
    intro stroke
    apply List.eq_nil_iff_forall_not_mem.mpr
    intro it hit
    obtain ⟨row, hrow, h⟩ := mem_patternItems.mp hit
    rcases h with ⟨hh, _⟩ | ⟨c, n, hc, hg, _⟩
    · have : isReserved row.cls = true :=
        isReserved_of_pattern (List.any_eq_true.mpr ⟨row, hrow, by simp⟩)
      rw [hF this] at hh
      exact absurd hh (by simp)
    · have hmem := (List.mem_filter.mp (hord _ _ hc)).1
      have : isReserved c = true :=
        isReserved_of_pattern (List.any_eq_true.mpr ⟨row, hrow, by simp [hg]⟩)
      rw [hn c hmem] at this
      exact absurd this (by simp)
  have h_shadow : shadowStyles cs = [] :=
    List.flatMap_eq_nil_iff.mpr fun p hp => guarded_nil (hF (shadow_facts p hp).2.2)
  have h_shadowD : shadowDefs cs = [] := by
    apply List.flatMap_eq_nil_iff.mpr
    intro p hp
    simp [hF (shadow_facts p hp).2.2]
  simp only [buildWith, defsOf, stylesT, colourStyles, h_surround, h_fill, h_stroke, h_textCol, h_textOlCol, h_sw,
    h_text, h_arrow, h_arrowD, h_dash, h_pat, h_shadow, h_shadowD, List.map_nil, List.append_nil, List.map_append,
    untagged_map_snd]

/-! ### a used class gets its rules -/

theorem hasText_iff {es : List Str} : hasText es = true ↔ cs!"text" ∈ es := by
  have : nth txs 0 = cs!"text" := by decide +kernel
  simp [hasText, this]

theorem mem_single {α : Type} (a : α) : a ∈ [a] := List.mem_cons_self

theorem present_fill {c : Str} (hc : c ∈ Gen.COLOUR_LIST) (h : fillClass c ∈ cs) :
    fillRule c ∈ (buildWith order cfg cs es).2 ∧ fillTextRule c ∈ (buildWith order cfg cs es).2 := by
  have hm : ∀ r ∈ [fillRule c, fillTextRule c], (some (fillClass c), r) ∈ stylesT order cfg cs es := by
    intro r hr
    apply sub_colour
    simp only [colourStyles, List.mem_append]
    exact Or.inl (Or.inl (Or.inl (List.mem_flatMap.mpr ⟨c, hc, tagged_guarded h hr⟩)))
  exact ⟨mem_styles_of_tagged (hm _ List.mem_cons_self), mem_styles_of_tagged (hm _ (List.mem_cons_of_mem _ List.mem_cons_self))⟩

theorem present_stroke {c : Str} (hc : c ∈ Gen.COLOUR_LIST) (h : strokeClass c ∈ cs) :
    strokeRule c ∈ (buildWith order cfg cs es).2 ∧
    (c ≠ cs!"none" → strokeTextRule c ∈ (buildWith order cfg cs es).2) := by
  have hm : ∀ r ∈ (strokeRule c :: (if c != nth cls 9 then [strokeTextRule c] else [])),
      (some (strokeClass c), r) ∈ stylesT order cfg cs es := by
    intro r hr
    apply sub_colour
    simp only [colourStyles, List.mem_append]
    exact Or.inl (Or.inl (Or.inr (List.mem_flatMap.mpr ⟨c, hc, tagged_guarded h hr⟩)))
  refine ⟨mem_styles_of_tagged (hm _ List.mem_cons_self), ?_⟩
  intro hnone
  have h9 : nth cls 9 = cs!"none" := by decide +kernel
  have hne : (c != nth cls 9) = true := by rw [h9]; simpa using hnone
  exact mem_styles_of_tagged (hm _ (List.mem_cons_of_mem _ (by rw [if_pos hne]; exact mem_single _)))

theorem present_textCol {c : Str} (hc : c ∈ Gen.COLOUR_LIST) (h : textColClass c ∈ cs) :
    textColRule c ∈ (buildWith order cfg cs es).2 := by
  apply mem_styles_of_tagged (e := (some (textColClass c), textColRule c))
  apply sub_colour
  simp only [colourStyles, List.mem_append]
  exact Or.inl (Or.inr (List.mem_flatMap.mpr ⟨c, hc, tagged_guarded h (mem_single _)⟩))

theorem present_textOlCol {c : Str} (hc : c ∈ Gen.COLOUR_LIST) (h : textOlColClass c ∈ cs) :
    textOlColRule c ∈ (buildWith order cfg cs es).2 := by
  apply mem_styles_of_tagged (e := (some (textOlColClass c), textOlColRule c))
  apply sub_colour
  simp only [colourStyles, List.mem_append]
  exact Or.inr (List.mem_flatMap.mpr ⟨c, hc, tagged_guarded h (mem_single _)⟩)

theorem present_strokeWidth {p : Str × Str} (hp : p ∈ Gen.Theme.append_stroke_width_styles_table0) (h : p.1 ∈ cs) :
    strokeWidthRule cfg p.1 p.2 ∈ (buildWith order cfg cs es).2 := by
  apply mem_styles_of_tagged (e := (some p.1, strokeWidthRule cfg p.1 p.2))
  apply sub_strokeWidth
  exact List.mem_flatMap.mpr ⟨p, hp, tagged_guarded h (mem_single _)⟩

theorem present_text0 {p : Str × Str} (hp : p ∈ Gen.Theme.append_text_styles_table0) (ht : hasText es = true)
    (h : p.1 ∈ cs) : p.2 ∈ (buildWith order cfg cs es).2 := by
  apply mem_styles_of_tagged (e := (some p.1, p.2))
  apply sub_text
  simp only [textStyles, ht, if_true, List.mem_append]
  exact Or.inl (Or.inl (List.mem_flatMap.mpr ⟨p, hp, tagged_guarded h (mem_single _)⟩))

theorem present_text1 {p : Str × Str} (hp : p ∈ Gen.Theme.append_text_styles_table1) (ht : hasText es = true)
    (h : p.1 ∈ cs) : textSizeRule cfg p.1 p.2 ∈ (buildWith order cfg cs es).2 := by
  apply mem_styles_of_tagged (e := (some p.1, textSizeRule cfg p.1 p.2))
  apply sub_text
  simp only [textStyles, ht, if_true, List.mem_append]
  exact Or.inl (Or.inr (List.mem_flatMap.mpr ⟨p, hp, tagged_guarded h (mem_single _)⟩))

theorem present_text2 {p : Str × Str} (hp : p ∈ Gen.Theme.append_text_styles_table2) (ht : hasText es = true)
    (h : p.1 ∈ cs) : textOlWidthRule p.1 p.2 ∈ (buildWith order cfg cs es).2 := by
  apply mem_styles_of_tagged (e := (some p.1, textOlWidthRule p.1 p.2))
  apply sub_text
  simp only [textStyles, ht, if_true, List.mem_append]
  exact Or.inr (List.mem_flatMap.mpr ⟨p, hp, tagged_guarded h (mem_single _)⟩)

theorem present_surround (h : nth bs 6 ∈ cs) : nth bs 7 ∈ (buildWith order cfg cs es).2 :=
  mem_styles_of_tagged (e := (some (nth bs 6), nth bs 7)) (sub_surround (tagged_guarded h (mem_single _)))

theorem present_arrow :
    (nth ars 0 ∈ cs → nth ars 1 ∈ (buildWith order cfg cs es).2) ∧
    (nth ars 2 ∈ cs → nth ars 3 ∈ (buildWith order cfg cs es).2) ∧
    (hasArrow cs = true → nth ars 4 ∈ (buildWith order cfg cs es).2) := by
  refine ⟨fun h => ?_, fun h => ?_, fun h => ?_⟩
  · apply mem_styles_of_tagged (e := (some (nth ars 0), nth ars 1))
    apply sub_arrow
    simp only [arrowStyles, List.mem_append]
    exact Or.inl (Or.inl (tagged_guarded h (mem_single _)))
  · apply mem_styles_of_tagged (e := (some (nth ars 2), nth ars 3))
    apply sub_arrow
    simp only [arrowStyles, List.mem_append]
    exact Or.inl (Or.inr (tagged_guarded h (mem_single _)))
  · apply mem_styles_of_tagged (e := (none, nth ars 4))
    apply sub_arrow
    simp only [arrowStyles, List.mem_append, h, if_true]
    exact Or.inr (mem_untagged.mpr ⟨_, mem_single _, rfl⟩)

theorem present_flow {p : Str × Str} (hp : p ∈ flowTable) (h : p.1 ∈ cs) :
    flowRule p.1 p.2 ∈ (buildWith order cfg cs es).2 ∧ nth dss (dashBase + 1) ∈ (buildWith order cfg cs es).2 := by
  constructor
  · apply mem_styles_of_tagged (e := (some p.1, flowRule p.1 p.2))
    apply sub_dash
    simp only [dashStyles, List.mem_append]
    exact Or.inl (Or.inl (Or.inl (Or.inl (Or.inl (List.mem_flatMap.mpr ⟨p, hp, tagged_guarded h (mem_single _)⟩)))))
  · have hf : hasFlow cs = true := List.any_eq_true.mpr ⟨p, hp, has_iff.mpr h⟩
    apply mem_styles_of_tagged (e := (none, nth dss (dashBase + 1)))
    apply sub_dash
    simp only [dashStyles, List.mem_append, hf, if_true]
    exact Or.inl (Or.inl (Or.inl (Or.inl (Or.inr (mem_untagged.mpr ⟨_, mem_single _, rfl⟩)))))

theorem present_dash :
    (nth dss (dashBase + 2) ∈ cs → nth dss (dashBase + 3) ∈ (buildWith order cfg cs es).2) ∧
    (nth dss (dashBase + 4) ∈ cs → nth dss (dashBase + 5) ∈ (buildWith order cfg cs es).2) ∧
    (nth dss (dashBase + 6) ∈ cs → nth dss (dashBase + 7) ∈ (buildWith order cfg cs es).2) ∧
    (nth dss (dashBase + 8) ∈ cs → nth dss (dashBase + 9) ∈ (buildWith order cfg cs es).2) := by
  refine ⟨fun h => ?_, fun h => ?_, fun h => ?_, fun h => ?_⟩
  · apply mem_styles_of_tagged (e := (some (nth dss (dashBase + 2)), nth dss (dashBase + 3)))
    apply sub_dash
    simp only [dashStyles, List.mem_append]
    exact Or.inl (Or.inl (Or.inl (Or.inr (tagged_guarded h (mem_single _)))))
  · apply mem_styles_of_tagged (e := (some (nth dss (dashBase + 4)), nth dss (dashBase + 5)))
    apply sub_dash
    simp only [dashStyles, List.mem_append]
    exact Or.inl (Or.inl (Or.inr (tagged_guarded h (mem_single _))))
  · apply mem_styles_of_tagged (e := (some (nth dss (dashBase + 6)), nth dss (dashBase + 7)))
    apply sub_dash
    simp only [dashStyles, List.mem_append]
    exact Or.inl (Or.inr (tagged_guarded h (mem_single _)))
  · apply mem_styles_of_tagged (e := (some (nth dss (dashBase + 8)), nth dss (dashBase + 9)))
    apply sub_dash
    simp only [dashStyles, List.mem_append]
    exact Or.inr (tagged_guarded h (mem_single _))

theorem present_shadow {p : Str × Str} (hp : p ∈ Gen.Theme.build_table) (h : p.1 ∈ cs) :
    nth (shadowStrings p.2) 0 ∈ (buildWith order cfg cs es).2 := by
  apply mem_styles_of_tagged (e := (some p.1, nth (shadowStrings p.2) 0))
  apply sub_shadow
  exact List.mem_flatMap.mpr ⟨p, hp, tagged_guarded h (mem_single _)⟩

/-- a pattern class in the class list gets its rule (when the order function keeps members) -/
theorem present_pattern (hord : ∀ l x, x ∈ l → x ∈ order l) {row : PatternRow} (hrow : row ∈ patternRows)
    {c : Str} (hc : c ∈ cs) (hv : c = row.cls ∨ (getSpacing (specClass row) c).isSome = true) :
    patternRule c ∈ (buildWith order cfg cs es).2 := by
  apply mem_styles_of_tagged (e := (some c, patternRule c))
  apply sub_pattern
  rcases hv with rfl | hv
  · exact List.mem_map.mpr ⟨patternItem (themeStroke cfg.theme) row row.cls defaultSpacing,
      mem_patternItems.mpr ⟨row, hrow, Or.inl ⟨has_iff.mpr hc, rfl⟩⟩, rfl⟩
  · obtain ⟨n, hn⟩ := Option.isSome_iff_exists.mp hv
    obtain ⟨suf, hsuf, _, _⟩ := getSpacing_some hn
    have hst : startsWith (specClass row) c = true := by rw [hsuf]; exact startsWith_append _ _
    exact List.mem_map.mpr ⟨patternItem (themeStroke cfg.theme) row c n,
      mem_patternItems.mpr ⟨row, hrow, Or.inr ⟨c, n, hord _ _ (List.mem_filter.mpr ⟨hc, hst⟩), hn, rfl⟩⟩, rfl⟩

/-! ### the rule texts, written out -/

theorem fillClass_eq (c : Str) : fillClass c = cs!"d-fill-" ++ c := by
  have h : fillClass c = cs!"d-fill-" ++ (c ++ []) := rfl
  rw [h, List.append_nil]
theorem strokeClass_eq (c : Str) : strokeClass c = cs!"d-" ++ c := by
  have h : strokeClass c = cs!"d-" ++ (c ++ []) := rfl
  rw [h, List.append_nil]
theorem textColClass_eq (c : Str) : textColClass c = cs!"d-text-" ++ c := by
  have h : textColClass c = cs!"d-text-" ++ (c ++ []) := rfl
  rw [h, List.append_nil]
theorem textOlColClass_eq (c : Str) : textOlColClass c = cs!"d-text-ol-" ++ c := by
  have h : textOlColClass c = cs!"d-text-ol-" ++ (c ++ []) := rfl
  rw [h, List.append_nil]
theorem fillRule_eq (c : Str) : fillRule c = cs!".d-fill-" ++ (c ++ (cs!" { fill: " ++ (c ++ cs!"; }"))) := by rfl
theorem strokeRule_eq (c : Str) : strokeRule c = cs!".d-" ++ (c ++ (cs!" { stroke: " ++ (c ++ cs!"; }"))) := by rfl
set_option maxRecDepth 4000 in
theorem textOlColRule_eq (c : Str) :
    textOlColRule c = cs!"text.d-text-ol-" ++ (c ++ (cs!", text.d-text-ol-" ++ (c ++ (cs!" * { stroke: " ++
      (c ++ cs!"; stroke-width: 0.5; }"))))) := by rfl
theorem patternRule_eq' (c : Str) :
    patternRule c = '.' :: (c ++ (cs!" {fill: url(#" ++ (ptnId c ++ cs!")}"))) := by rfl

end Svgdx.Theme
