/-
  Svgdx.Proofs.ExprRat — facts about the exact-rational number operations.
-/
import Svgdx.Expr.RatOps
import Mathlib.Tactic.Ring
import Mathlib.Tactic.Linarith
import Mathlib.Tactic.FieldSimp
namespace Svgdx
namespace Expr

theorem ratTrunc_bounds (q : Rat) : q - 1 < ratTrunc q ∧ ratTrunc q < q + 1 := by
  unfold ratTrunc
  split
  · have h1 := Rat.floor_le (-q)
    have h2 := Rat.lt_floor_add_one (-q)
    rw [Rat.ceil_eq_neg_floor_neg]
    push_cast at h2 ⊢
    constructor <;> linarith
  · have h1 := Rat.floor_le q
    have h2 := Rat.lt_floor_add_one q
    push_cast at h2
    constructor <;> linarith

/-- the remainder computed by `%` is never negative (for a non-zero divisor) -/
theorem ratRemEuclid_nonneg (a b : Rat) (hb : b ≠ 0) : 0 ≤ ratRemEuclid a b := by
  obtain ⟨h1, h2⟩ := ratTrunc_bounds (a / b)
  have ha : a = b * (a / b) := by field_simp
  unfold ratRemEuclid
  simp only
  split
  · unfold ratRem Rq.abs
    generalize ratTrunc (a / b) = t at h1 h2
    generalize a / b = q at ha h1 h2
    subst ha
    split
    · have : 0 < -b := by linarith
      nlinarith
    · have : 0 < b := lt_of_le_of_ne (not_lt.mp ‹_›) (Ne.symm hb)
      nlinarith
  · exact not_lt.mp ‹_›

/-- … and smaller than the magnitude of the divisor -/
theorem ratRemEuclid_lt (a b : Rat) (hb : b ≠ 0) : ratRemEuclid a b < Rq.abs b := by
  obtain ⟨h1, h2⟩ := ratTrunc_bounds (a / b)
  have ha : a = b * (a / b) := by field_simp
  unfold ratRemEuclid
  simp only
  unfold ratRem Rq.abs
  generalize ratTrunc (a / b) = t at h1 h2
  generalize a / b = q at ha h1 h2
  subst ha
  rcases lt_or_gt_of_ne hb with hneg | hpos
  · have : 0 < -b := by linarith
    simp only [hneg, if_true]
    split <;> nlinarith
  · have hn : ¬ b < 0 := not_lt.mpr hpos.le
    simp only [hn, if_false]
    split <;> nlinarith

end Expr
end Svgdx
