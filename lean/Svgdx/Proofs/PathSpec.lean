/-
  Svgdx.Proofs.PathSpec — the path-data scanner of `Svgdx.Path.Scan` against the grammar of
  `Svgdx.Path.Spec`: every legal spelling of a path (all commands `M L H V Z C S Q T A`, absolute and relative) is accepted, and
  the box returned is the hull of the end points (closepath returning to the start of its subpath).
-/
import Svgdx.Path.Spec
import Svgdx.Path.Scan
import Svgdx.Proofs.NumSpec
namespace Svgdx.PathSpec
open Svgdx Str Num NumSpec Path Gen

/-! ### separators -/

/-- whitespace or comma: what `skip_wsp_comma` may consume -/
def isSepChar (c : Char) : Bool := isAsciiWs c || c == ','

theorem skipWs_run (w t : Str) (hw : isWspRun w = true) (ht : headSat isAsciiWs t = false) :
    skipWs (w ++ t) = t := (takeWhile_run isAsciiWs w t hw ht).2

theorem skipWspComma_of_head (t : Str) (ht : headSat isSepChar t = false) : skipWspComma t = t := by
  cases t with
  | nil => rfl
  | cons c u =>
    simp only [headSat_cons, isSepChar, Bool.or_eq_false_iff, beq_eq_false_iff_ne] at ht
    have h1 : skipWs (c :: u) = c :: u := by
      simp [skipWs, ht.1]
    unfold skipWspComma
    rw [h1]
    split
    · rename_i r heq
      cases heq
      exact absurd rfl ht.2
    · rfl

theorem headSat_ws_of_sep {t : Str} (ht : headSat isSepChar t = false) : headSat isAsciiWs t = false := by
  cases t with
  | nil => rfl
  | cons c u =>
    simp only [headSat_cons, isSepChar, Bool.or_eq_false_iff] at ht
    exact ht.1

/-- `skip_wsp_comma` consumes exactly a `comma-wsp?` when what follows is neither whitespace nor a comma -/
theorem skipWspComma_sep (sep t : Str) (hs : isCommaWsp sep = true) (ht : headSat isSepChar t = false) :
    skipWspComma (sep ++ t) = t := by
  have hsplit : sep = sep.takeWhile isAsciiWs ++ sep.dropWhile isAsciiWs :=
    List.takeWhile_append_dropWhile.symm
  have hw : isWspRun (sep.takeWhile isAsciiWs) = true := List.all_takeWhile
  unfold isCommaWsp at hs
  rw [hsplit, List.append_assoc]
  cases hd : sep.dropWhile isAsciiWs with
  | nil =>
    have h1 : skipWs (sep.takeWhile isAsciiWs ++ ([] ++ t)) = t :=
      skipWs_run _ _ hw (headSat_ws_of_sep ht)
    have h2 := skipWspComma_of_head t ht
    unfold skipWspComma at h2 ⊢
    rw [h1]
    have h3 : skipWs t = t := by
      have := skipWs_run [] t rfl (headSat_ws_of_sep ht)
      simpa using this
    rw [h3] at h2
    exact h2
  | cons c r =>
    rw [hd] at hs
    simp only [Bool.and_eq_true, beq_iff_eq] at hs
    obtain ⟨rfl, hr⟩ := hs
    have h1 : skipWs (sep.takeWhile isAsciiWs ++ (',' :: r ++ t)) = ',' :: (r ++ t) :=
      skipWs_run _ _ hw (by rfl)
    unfold skipWspComma
    rw [h1]
    exact skipWs_run r t hr (headSat_ws_of_sep ht)

/-! ### numbers and coordinate pairs -/

theorem digit_not_asciiWs {c : Char} (h : isDigit c = true) : isAsciiWs c = false := by
  have h1 := digit_ne h (d := ' ') (by decide)
  have h2 := digit_ne h (d := '\t') (by decide)
  have h3 := digit_ne h (d := '\n') (by decide)
  have h4 := digit_ne h (d := '\x0c') (by decide)
  have h5 := digit_ne h (d := '\r') (by decide)
  simp [isAsciiWs, h1, h2, h3, h4, h5]

theorem numberChar_not_sepChar {c : Char} (h : isNumberChar c = true) : isSepChar c = false := by
  simp only [isNumberChar, Bool.or_eq_true, beq_iff_eq] at h
  rcases h with ((((h | rfl) | rfl) | rfl) | rfl) | rfl
  · have := digit_ne h (d := ',') (by decide)
    simp [isSepChar, digit_not_asciiWs h, this]
  all_goals decide

theorem argsLegal_cons {next : Str} {n : SvgNumber} {sep : Str} {r : List PItem}
    (h : argsLegal next ((.num n, sep) :: r) = true) :
    n.wf = true ∧ isCommaWsp sep = true ∧ n.continuedBy (sep ++ (renderArgs r ++ next)) = false ∧
    argsLegal next r = true := by
  simp only [argsLegal, Bool.and_eq_true, Bool.not_eq_true'] at h
  exact ⟨h.1.1.1, h.1.1.2, h.1.2, h.2⟩

theorem argsLegal_flag {next : Str} {b : Bool} {sep : Str} {r : List PItem}
    (h : argsLegal next ((.flag b, sep) :: r) = true) :
    isCommaWsp sep = true ∧ argsLegal next r = true := by
  simp only [argsLegal, Bool.and_eq_true] at h
  exact h

theorem argsLegal_tail {T : Str} {a : PItem} {r : List PItem} (h : argsLegal T (a :: r) = true) :
    argsLegal T r = true := by
  obtain ⟨t, sep⟩ := a
  cases t with
  | num n => exact (argsLegal_cons h).2.2.2
  | flag b => exact (argsLegal_flag h).2

/-- an argument starts with a character numbers are written with (a flag is a digit) -/
theorem tok_head {next : Str} {t : Tok} {sep : Str} {r : List PItem}
    (h : argsLegal next ((t, sep) :: r) = true) (x : Str) : headSat isNumberChar (t.render ++ x) = true := by
  cases t with
  | num n => exact render_head n (argsLegal_cons h).1 x
  | flag b => cases b <;> rfl

theorem items_head {next : Str} {r : List PItem} (h : argsLegal next r = true)
    (hn : headSat isSepChar next = false) : headSat isSepChar (renderArgs r ++ next) = false := by
  cases r with
  | nil => exact hn
  | cons a r =>
    obtain ⟨t, sep⟩ := a
    have := tok_head h ((sep ++ renderArgs r) ++ next)
    simp only [renderArgs, List.append_assoc] at this ⊢
    exact headSat_mono (fun _ => numberChar_not_sepChar) this

/-- `read_number` on a legal argument list reads the first number and stops at the next token -/
theorem readNumber_items {next : Str} {n : SvgNumber} {sep : Str} {r : List PItem}
    (h : argsLegal next ((.num n, sep) :: r) = true) (hn : headSat isSepChar next = false) :
    readNumber (renderArgs ((.num n, sep) :: r) ++ next) = some (n.denote, renderArgs r ++ next) := by
  obtain ⟨hwf, hsep, hcont, hr⟩ := argsLegal_cons h
  have hin : renderArgs ((.num n, sep) :: r) ++ next = n.render ++ (sep ++ (renderArgs r ++ next)) := by
    simp only [renderArgs, Tok.render, List.append_assoc]
  have hne : (n.render ++ (sep ++ (renderArgs r ++ next))).isEmpty = false := by
    cases hx : n.render ++ (sep ++ (renderArgs r ++ next)) with
    | nil => exact absurd (List.append_eq_nil_iff.mp hx).1 (render_ne_nil n hwf)
    | cons _ _ => rfl
  rw [hin]
  unfold readNumber
  simp only [hne, scanNumber_render n hwf _ hcont, parseF32_render n hwf, Bool.false_eq_true, if_false,
    skipWspComma_sep sep _ hsep (items_head hr hn)]

/-- `read_flag` reads one flag: a single character, whatever follows -/
theorem readFlag_items {next : Str} {b : Bool} {sep : Str} {r : List PItem}
    (h : argsLegal next ((.flag b, sep) :: r) = true) (hn : headSat isSepChar next = false) :
    readFlag (renderArgs ((.flag b, sep) :: r) ++ next) = some (renderArgs r ++ next) := by
  obtain ⟨hsep, hr⟩ := argsLegal_flag h
  have hs := skipWspComma_sep sep _ hsep (items_head hr hn)
  cases b
  · show readFlag ('0' :: ((sep ++ renderArgs r) ++ next)) = _
    rw [List.append_assoc]
    simp only [readFlag, hs]
  · show readFlag ('1' :: ((sep ++ renderArgs r) ++ next)) = _
    rw [List.append_assoc]
    simp only [readFlag, hs]

/-- `read_coord` reads two numbers -/
theorem readCoord_items {next : Str} {n n' : SvgNumber} {sep sep' : Str} {r : List PItem}
    (h : argsLegal next ((.num n, sep) :: (.num n', sep') :: r) = true) (hn : headSat isSepChar next = false) :
    readCoord (renderArgs ((.num n, sep) :: (.num n', sep') :: r) ++ next) =
      some ((n.denote, n'.denote), renderArgs r ++ next) := by
  obtain ⟨_, _, _, hr⟩ := argsLegal_cons h
  obtain ⟨_, _, _, hr'⟩ := argsLegal_cons hr
  unfold readCoord
  rw [readNumber_items h hn]
  simp only
  rw [skipWspComma_of_head _ (items_head hr hn), readNumber_items hr hn]
  simp only
  rw [skipWspComma_of_head _ (items_head hr' hn)]

/-! ### one instruction -/

/-- the state after a segment: position and box as `update` leaves them, the command as given, and the
    start of the subpath moved to the new position if `sub` (a written moveto) -/
def advance (st : PState) (cmd : Option Char) (p : Pt) (t : Str) (sub : Bool) : PState :=
  { (if sub then { (st.update p t) with startPos := some p } else st.update p t) with command := cmd }

theorem update_with (st : PState) (c : Option Char) (r : Str) (p : Pt) (t : Str) :
    ({ st with command := c, rest := r } : PState).update p t = advance st c p t false := by
  unfold advance PState.update
  cases st.position <;> rfl

/-- `mark` of `step`, applied to an updated state -/
theorem mark_with (b : Bool) (st : PState) (c : Option Char) (p : Pt) (t : Str) :
    (if b = true then { (advance st c p t false) with startPos := (advance st c p t false).position }
     else advance st c p t false) = advance st c p t b := by
  cases b
  · rfl
  · unfold advance PState.update
    cases st.position <;> rfl

/-- the remembered command `k` does what the command of the segment does -/
def actsAs (k : Char) (c : Cmd) (rel : Bool) : Prop := k = c.letter rel ∨ (c = .L ∧ k = Cmd.letter .M rel)

theorem foldl_range1 {α : Type} (f : α → Nat → α) (a : α) : (List.range 1).foldl f a = f a 0 := rfl
theorem foldl_range2 {α : Type} (f : α → Nat → α) (a : α) : (List.range 2).foldl f a = f (f a 0) 1 := rfl

theorem isNum_spec {t : Tok} (h : t.isNum = true) : ∃ n, t = .num n := by
  cases t with
  | num n => exact ⟨n, rfl⟩
  | flag b => cases h

theorem shapeOk_notA {c : Cmd} {args : List PItem} (hc : c ≠ .A) (h : shapeOk c args = true) :
    args.length = c.arity ∧ args.all (·.1.isNum) = true := by
  unfold shapeOk at h
  have : (c == Cmd.A) = false := by cases c <;> first | exact absurd rfl hc | rfl
  simpa [this] using h

theorem shapeOk_A {args : List PItem} (h : shapeOk .A args = true) :
    ∃ n1 s1 n2 s2 n3 s3 b4 s4 b5 s5 n6 s6 n7 s7,
      args = [(.num n1, s1), (.num n2, s2), (.num n3, s3), (.flag b4, s4), (.flag b5, s5), (.num n6, s6),
        (.num n7, s7)] := by
  unfold shapeOk at h
  simp only [beq_self_eq_true, if_true] at h
  split at h
  · exact ⟨_, _, _, _, _, _, _, _, _, _, _, _, _, _, rfl⟩
  · cases h

theorem args1 {T : Str} {args : List PItem} (hlen : args.length = 1) (hnum : args.all (·.1.isNum) = true)
    (hargs : argsLegal T args = true) (hT : headSat isSepChar T = false) :
    ∃ a sa, args = [(.num a, sa)] ∧ readNumber (renderArgs args ++ T) = some (a.denote, T) := by
  match args, hlen with
  | [(ta, sa)], _ =>
    simp only [List.all_cons, List.all_nil, Bool.and_true] at hnum
    obtain ⟨a, rfl⟩ := isNum_spec hnum
    exact ⟨a, sa, rfl, readNumber_items (r := []) hargs hT⟩

theorem args2 {T : Str} {args : List PItem} (hlen : args.length = 2) (hnum : args.all (·.1.isNum) = true)
    (hargs : argsLegal T args = true) (hT : headSat isSepChar T = false) :
    ∃ a sa b sb, args = [(.num a, sa), (.num b, sb)] ∧
      readCoord (renderArgs args ++ T) = some ((a.denote, b.denote), T) := by
  match args, hlen with
  | [(ta, sa), (tb, sb)], _ =>
    simp only [List.all_cons, List.all_nil, Bool.and_true, Bool.and_eq_true] at hnum
    obtain ⟨a, rfl⟩ := isNum_spec hnum.1
    obtain ⟨b, rfl⟩ := isNum_spec hnum.2
    exact ⟨a, sa, b, sb, rfl, readCoord_items (r := []) hargs hT⟩

theorem args4 {T : Str} {args : List PItem} (hlen : args.length = 4) (hnum : args.all (·.1.isNum) = true)
    (hargs : argsLegal T args = true) (hT : headSat isSepChar T = false) :
    ∃ a sa b sb c sc d sd p X, args = [(.num a, sa), (.num b, sb), (.num c, sc), (.num d, sd)] ∧
      readCoord (renderArgs args ++ T) = some (p, X) ∧ readCoord X = some ((c.denote, d.denote), T) := by
  match args, hlen with
  | [(ta, sa), (tb, sb), (tc, sc), (td, sd)], _ =>
    simp only [List.all_cons, List.all_nil, Bool.and_true, Bool.and_eq_true] at hnum
    obtain ⟨h1, h2, h3, h4⟩ := hnum
    obtain ⟨a, rfl⟩ := isNum_spec h1
    obtain ⟨b, rfl⟩ := isNum_spec h2
    obtain ⟨c, rfl⟩ := isNum_spec h3
    obtain ⟨d, rfl⟩ := isNum_spec h4
    exact ⟨a, sa, b, sb, c, sc, d, sd, _, _, rfl, readCoord_items hargs hT,
      readCoord_items (r := []) (argsLegal_tail (argsLegal_tail hargs)) hT⟩

theorem args6 {T : Str} {args : List PItem} (hlen : args.length = 6) (hnum : args.all (·.1.isNum) = true)
    (hargs : argsLegal T args = true) (hT : headSat isSepChar T = false) :
    ∃ a sa b sb c sc d sd e se f sf p X q Y,
      args = [(.num a, sa), (.num b, sb), (.num c, sc), (.num d, sd), (.num e, se), (.num f, sf)] ∧
      readCoord (renderArgs args ++ T) = some (p, X) ∧
      readCoord X = some (q, Y) ∧ readCoord Y = some ((e.denote, f.denote), T) := by
  match args, hlen with
  | [(ta, sa), (tb, sb), (tc, sc), (td, sd), (te, se), (tf, sf)], _ =>
    simp only [List.all_cons, List.all_nil, Bool.and_true, Bool.and_eq_true] at hnum
    obtain ⟨h1, h2, h3, h4, h5, h6⟩ := hnum
    obtain ⟨a, rfl⟩ := isNum_spec h1
    obtain ⟨b, rfl⟩ := isNum_spec h2
    obtain ⟨c, rfl⟩ := isNum_spec h3
    obtain ⟨d, rfl⟩ := isNum_spec h4
    obtain ⟨e, rfl⟩ := isNum_spec h5
    obtain ⟨f, rfl⟩ := isNum_spec h6
    have h2 := argsLegal_tail (argsLegal_tail hargs)
    exact ⟨a, sa, b, sb, c, sc, d, sd, e, se, f, sf, _, _, _, _, rfl, readCoord_items hargs hT,
      readCoord_items h2 hT, readCoord_items (r := []) (argsLegal_tail (argsLegal_tail h2)) hT⟩

/-- the seven arguments of an arc are read as: pair, number, flag, flag, pair -/
theorem args7 {T : Str} {n1 n2 n3 n6 n7 : SvgNumber} {b4 b5 : Bool} {s1 s2 s3 s4 s5 s6 s7 : Str}
    (hargs : argsLegal T [(.num n1, s1), (.num n2, s2), (.num n3, s3), (.flag b4, s4), (.flag b5, s5),
      (.num n6, s6), (.num n7, s7)] = true) (hT : headSat isSepChar T = false) :
    ∃ p X q Y Z W,
      readCoord (renderArgs [(.num n1, s1), (.num n2, s2), (.num n3, s3), (.flag b4, s4), (.flag b5, s5),
        (.num n6, s6), (.num n7, s7)] ++ T) = some (p, X) ∧
      readNumber X = some (q, Y) ∧ readFlag Y = some Z ∧ readFlag Z = some W ∧
      readCoord W = some ((n6.denote, n7.denote), T) := by
  have h3 := argsLegal_tail (argsLegal_tail hargs)
  have h4 := argsLegal_tail h3
  have h5 := argsLegal_tail h4
  have h6 := argsLegal_tail h5
  exact ⟨_, _, _, _, _, _, readCoord_items hargs hT, readNumber_items h3 hT, readFlag_items h4 hT,
    readFlag_items h5 hT, readCoord_items (r := []) h6 hT⟩

theorem step_fetched (st : PState) (c : Cmd) (rel : Bool) (k : Char) (args : List PItem) (T : Str)
    (cur start : Pt)
    (c0 : Char) (t0 : Str) (w : Bool)
    (hhead : st.rest = c0 :: t0) (hw : commandChars.contains c0 = w)
    (hf : fetchCommand st = some (k, renderArgs args ++ T))
    (hk : actsAs k c rel)
    (hshape : shapeOk c args = true)
    (hargs : argsLegal T args = true)
    (hT : headSat isSepChar T = false)
    (hcur : st.cur = cur)
    (hstart : c = .Z → st.startPos = some start) :
    step st = some (advance st (if c = .Z then none else some k)
      (endPoint c rel cur start (argValues args)) T ((k == 'M' || k == 'm') && w)) := by
  subst hcur
  have hw' : (c0 ∈ commandChars) = (w = true) := by rw [← hw]; simp
  have hk' : k = c.letter rel ∨ (c = .L ∧ k = Cmd.letter .M rel) := hk
  cases c <;> cases rel <;> rcases hk' with rfl | ⟨hc, rfl⟩ <;> (try cases hc)
  case M.false.inl | M.true.inl | L.false.inl | L.true.inl | T.false.inl | T.true.inl |
       L.false.inr | L.true.inr =>
    obtain ⟨hlen, hnum⟩ := shapeOk_notA (by decide) hshape
    obtain ⟨a, sa, b, sb, rfl, h2⟩ := args2 hlen hnum hargs hT
    simp [step, hf, hhead, hw', Cmd.letter, h2, update_with, mark_with, endPoint, Cmd.arity, PState.cur, argValues]
  case H.false.inl | H.true.inl | V.false.inl | V.true.inl =>
    obtain ⟨hlen, hnum⟩ := shapeOk_notA (by decide) hshape
    obtain ⟨a, sa, rfl, h1⟩ := args1 hlen hnum hargs hT
    simp [step, hf, Cmd.letter, h1, update_with, endPoint, PState.cur, argValues]
  case Z.false.inl | Z.true.inl =>
    obtain ⟨hlen, hnum⟩ := shapeOk_notA (by decide) hshape
    match args, hlen with
    | [], _ =>
      have hf' : fetchCommand st = some (Cmd.letter .Z _, T) := hf
      have hs := hstart rfl
      simp only [step, hf', Cmd.letter, update_with, endPoint]
      simp [hs, advance]
  case C.false.inl | C.true.inl =>
    obtain ⟨hlen, hnum⟩ := shapeOk_notA (by decide) hshape
    obtain ⟨a, sa, b, sb, c, sc, d, sd, e, se, f, sf, p, X, q, Y, rfl, h1, h2, h3⟩ := args6 hlen hnum hargs hT
    simp [step, hf, hhead, hw', Cmd.letter, foldl_range2, h1, h2, h3, update_with, endPoint, Cmd.arity, PState.cur, argValues]
  case S.false.inl | S.true.inl | Q.false.inl | Q.true.inl =>
    obtain ⟨hlen, hnum⟩ := shapeOk_notA (by decide) hshape
    obtain ⟨a, sa, b, sb, c, sc, d, sd, p, X, rfl, h1, h2⟩ := args4 hlen hnum hargs hT
    simp [step, hf, hhead, hw', Cmd.letter, h1, h2, update_with, endPoint, Cmd.arity, PState.cur, argValues]
  case A.false.inl | A.true.inl =>
    obtain ⟨n1, s1, n2, s2, n3, s3, b4, s4, b5, s5, n6, s6, n7, s7, rfl⟩ := shapeOk_A hshape
    obtain ⟨p, X, q, Y, Z, W, h1, h2, h3, h4, h5⟩ := args7 hargs hT
    simp [step, hf, hhead, hw', Cmd.letter, h1, h2, h3, h4, h5, update_with, endPoint, Cmd.arity, PState.cur, argValues]

theorem letter_isCommand (c : Cmd) (rel : Bool) : commandChars.contains (c.letter rel) = true := by
  cases c <;> cases rel <;> decide

theorem letter_not_sep (c : Cmd) (rel : Bool) : isSepChar (c.letter rel) = false := by
  cases c <;> cases rel <;> decide

theorem command_not_number {c : Char} (h : commandChars.contains c = true) : isNumberChar c = false := by
  have hm : c ∈ commandChars := List.contains_iff_mem.mp h
  simp only [commandChars, List.mem_cons, List.not_mem_nil, or_false] at hm
  rcases hm with rfl|rfl|rfl|rfl|rfl|rfl|rfl|rfl|rfl|rfl|rfl|rfl|rfl|rfl|rfl|rfl|rfl|rfl|rfl|rfl <;> decide

theorem fetch_written (st : PState) (c : Cmd) (rel : Bool) (w X : Str)
    (hrest : st.rest = c.letter rel :: (w ++ X)) (hw : isCommaWsp w = true)
    (hX : headSat isSepChar X = false) : fetchCommand st = some (c.letter rel, X) := by
  unfold fetchCommand
  rw [hrest]
  simp only [letter_isCommand, if_true, skipWspComma_sep w X hw hX]

theorem fetch_remembered (st : PState) (k : Char)
    (hX : headSat isNumberChar st.rest = true) (hk : st.command = some k) :
    fetchCommand st = some (k, st.rest) := by
  unfold fetchCommand
  cases hr : st.rest with
  | nil => rw [hr] at hX; cases hX
  | cons c t =>
    rw [hr] at hX
    simp only [headSat_cons] at hX
    have : commandChars.contains c = false := by
      cases hc : commandChars.contains c with
      | false => rfl
      | true => rw [command_not_number hc] at hX; cases hX
    simp only [this, hk]
    rfl

/-! ### segments -/

theorem segsLegal_cons {prev : Option (Cmd × Bool)} {s : Seg} {r : List Seg}
    (h : segsLegal prev (s :: r) = true) :
    shapeOk s.cmd s.args = true ∧
    (match s.written with
     | some w => isCommaWsp w = true
     | none => implicitOk prev (s.cmd, s.rel) = true) ∧
    argsLegal (renderSegs r) s.args = true ∧ segsLegal (some (s.cmd, s.rel)) r = true := by
  simp only [segsLegal, Bool.and_eq_true] at h
  refine ⟨h.1.1.1, ?_, h.1.2, h.2⟩
  have := h.1.1.2
  cases hw : s.written <;> simpa [hw] using this

theorem implicitOk_spec {prev : Option (Cmd × Bool)} {c : Cmd} {rel : Bool}
    (h : implicitOk prev (c, rel) = true) :
    ∃ pc, prev = some (pc, rel) ∧ c ≠ .Z ∧ ((pc = c ∧ c ≠ .M) ∨ (pc = .M ∧ c = .L)) := by
  unfold implicitOk at h
  cases prev with
  | none => cases h
  | some p =>
    obtain ⟨pc, prel⟩ := p
    simp only [Bool.and_eq_true, Bool.or_eq_true, beq_iff_eq, bne_iff_ne, ne_eq] at h
    obtain ⟨rfl, h⟩ := h
    refine ⟨pc, rfl, ?_, ?_⟩
    · rcases h with h | h
      · exact h.1.2
      · rw [h.2]; decide
    · rcases h with h | h
      · exact Or.inl ⟨h.1.1, h.2⟩
      · exact Or.inr h

theorem arity_pos {c : Cmd} (h : c ≠ .Z) : 0 < c.arity := by
  cases c <;> first | exact absurd rfl h | decide

/-- a legal list of segments starts with a command letter or a number, never with a separator -/
theorem segs_head : ∀ (segs : List Seg) (prev : Option (Cmd × Bool)), segsLegal prev segs = true →
    headSat isSepChar (renderSegs segs) = false := by
  intro segs
  induction segs with
  | nil => intro _ _; rfl
  | cons s r ih =>
    intro prev h
    obtain ⟨hshape, hw, hargs, hr⟩ := segsLegal_cons h
    have hnext := ih _ hr
    unfold renderSegs Seg.render
    cases hwr : s.written with
    | some w => exact letter_not_sep _ _
    | none =>
      simp only [List.nil_append]
      exact items_head hargs hnext

theorem shape_ne_nil {c : Cmd} {args : List PItem} (hz : c ≠ .Z) (h : shapeOk c args = true) : args ≠ [] := by
  by_cases hA : c = .A
  · subst hA
    obtain ⟨_, _, _, _, _, _, _, _, _, _, _, _, _, _, rfl⟩ := shapeOk_A h
    exact List.cons_ne_nil _ _
  · obtain ⟨hlen, _⟩ := shapeOk_notA hA h
    have := arity_pos hz
    intro he; rw [he] at hlen; simp at hlen; omega

/-- an omitted letter is followed by a number -/
theorem implicit_head {s : Seg} {T : Str} (hshape : shapeOk s.cmd s.args = true) (hz : s.cmd ≠ .Z)
    (hargs : argsLegal T s.args = true) : headSat isNumberChar (renderArgs s.args ++ T) = true := by
  cases ha : s.args with
  | nil => exact absurd ha (shape_ne_nil hz hshape)
  | cons a r =>
    obtain ⟨t, sep⟩ := a
    rw [ha] at hargs
    have := tok_head hargs ((sep ++ renderArgs r) ++ T)
    simpa only [renderArgs, List.append_assoc] using this

/-- what the scanner must remember for the letter of the next segment to be omitted -/
def CmdInv (command : Option Char) (prev : Option (Cmd × Bool)) : Prop :=
  ∀ c rel, implicitOk prev (c, rel) = true → ∃ k, command = some k ∧ actsAs k c rel

theorem cmdInv_after {k : Char} {c : Cmd} {rel : Bool} (hk : actsAs k c rel) (hz : c ≠ .Z) :
    CmdInv (some k) (some (c, rel)) := by
  intro c' rel' h
  obtain ⟨pc, hp, _, hcase⟩ := implicitOk_spec h
  simp only [Option.some.injEq, Prod.mk.injEq] at hp
  obtain ⟨rfl, rfl⟩ := hp
  refine ⟨k, rfl, ?_⟩
  rcases hcase with ⟨rfl, _⟩ | ⟨rfl, rfl⟩
  · exact hk
  · rcases hk with hk | ⟨hc, _⟩
    · exact Or.inr ⟨rfl, hk⟩
    · cases hc

theorem cmdInv_after_close (rel : Bool) : CmdInv none (some (.Z, rel)) := by
  intro c' rel' h
  obtain ⟨pc, hp, hz, hcase⟩ := implicitOk_spec h
  simp only [Option.some.injEq, Prod.mk.injEq] at hp
  obtain ⟨rfl, rfl⟩ := hp
  rcases hcase with ⟨rfl, _⟩ | ⟨h1, _⟩
  · exact absurd rfl hz
  · cases h1

theorem letter_isM (c : Cmd) (rel : Bool) : (c.letter rel == 'M' || c.letter rel == 'm') = (c == .M) := by
  cases c <;> cases rel <;> decide

theorem not_sub_of_implicit {k : Char} {c : Cmd} {w : Bool} (hM : c ≠ .M) (hw : w = false) :
    ((k == 'M' || k == 'm') && w) = (c == .M) := by
  subst hw
  have : (c == Cmd.M) = false := by simpa using hM
  simp [this]

/-- **one segment, one instruction**: the scanner consumes exactly the spelling of the segment and moves
    to its end point; a moveto (always written) starts a new subpath there -/
theorem step_seg (st : PState) (s : Seg) (r : List Seg) (prev : Option (Cmd × Bool)) (cur start : Pt)
    (hrest : st.rest = renderSegs (s :: r))
    (hlegal : segsLegal prev (s :: r) = true)
    (hinv : CmdInv st.command prev)
    (hcur : st.cur = cur)
    (hstart : s.cmd = .Z → st.startPos = some start) :
    ∃ k', step st = some (advance st k' (endPoint s.cmd s.rel cur start s.values) (renderSegs r)
        (s.cmd == .M)) ∧
      CmdInv k' (some (s.cmd, s.rel)) := by
  obtain ⟨hshape, hw, hargs, hr⟩ := segsLegal_cons hlegal
  have hT := segs_head r _ hr
  have hX := items_head hargs hT
  have hfetch : ∃ k c0 t0 w, st.rest = c0 :: t0 ∧ commandChars.contains c0 = w ∧
      fetchCommand st = some (k, renderArgs s.args ++ renderSegs r) ∧ actsAs k s.cmd s.rel ∧
      ((k == 'M' || k == 'm') && w) = (s.cmd == .M) := by
    cases hwr : s.written with
    | some w =>
      rw [hwr] at hw
      have hr' : st.rest = s.cmd.letter s.rel :: (w ++ (renderArgs s.args ++ renderSegs r)) := by
        rw [hrest]; simp only [renderSegs, Seg.render, hwr, List.cons_append, List.append_assoc]
      refine ⟨s.cmd.letter s.rel, s.cmd.letter s.rel, _, true, hr', letter_isCommand _ _,
        fetch_written st s.cmd s.rel w _ hr' hw hX, Or.inl rfl, ?_⟩
      rw [Bool.and_true]; exact letter_isM _ _
    | none =>
      rw [hwr] at hw
      obtain ⟨k, hk, hact⟩ := hinv _ _ hw
      obtain ⟨_, _, hz, hcase⟩ := implicitOk_spec hw
      have hM : s.cmd ≠ .M := by
        rcases hcase with ⟨_, h⟩ | ⟨_, h⟩
        · exact h
        · rw [h]; decide
      have hr' : st.rest = renderArgs s.args ++ renderSegs r := by
        rw [hrest]; simp only [renderSegs, Seg.render, hwr, List.nil_append]
      have hnum : headSat isNumberChar st.rest = true := by
        rw [hr']; exact implicit_head hshape hz hargs
      have hfr := fetch_remembered st k hnum hk
      cases hst : st.rest with
      | nil => rw [hst] at hnum; cases hnum
      | cons c0 t0 =>
        rw [hst] at hnum
        have hc0 : commandChars.contains c0 = false := by
          cases hc : commandChars.contains c0 with
          | false => rfl
          | true => rw [headSat_cons, command_not_number hc] at hnum; cases hnum
        refine ⟨k, c0, t0, false, rfl, hc0, ?_, hact, not_sub_of_implicit hM rfl⟩
        rw [hfr, hst, ← hr', hst]
  obtain ⟨k, c0, t0, w, hhead, hc0, hf, hact, hsub⟩ := hfetch
  refine ⟨if s.cmd = .Z then none else some k, ?_, ?_⟩
  · rw [← hsub]
    exact step_fetched st s.cmd s.rel k s.args _ cur start c0 t0 w hhead hc0 hf hact hshape hargs hT hcur hstart
  · by_cases hz : s.cmd = .Z
    · rw [if_pos hz, hz]; exact cmdInv_after_close _
    · rw [if_neg hz]; exact cmdInv_after hact hz

/-! ### the whole path -/

/-- the box the scanner has accumulated -/
def box (st : PState) : BoundingBox := ⟨st.minX, st.minY, st.maxX, st.maxY⟩

theorem advance_rest (st : PState) (k : Option Char) (p : Pt) (t : Str) (b : Bool) :
    (advance st k p t b).rest = t := by
  unfold advance PState.update; cases b <;> cases st.position <;> rfl

theorem advance_command (st : PState) (k : Option Char) (p : Pt) (t : Str) (b : Bool) :
    (advance st k p t b).command = k := by
  unfold advance PState.update; cases b <;> cases st.position <;> rfl

theorem advance_position (st : PState) (k : Option Char) (p : Pt) (t : Str) (b : Bool) :
    (advance st k p t b).position = some p := by
  unfold advance PState.update; cases b <;> cases st.position <;> rfl

/-- the start of the subpath: the new point after a moveto, else what it was -/
theorem advance_start_some (st : PState) (k : Option Char) (p : Pt) (t : Str) (b : Bool) (s : Pt)
    (h : st.startPos = some s) : (advance st k p t b).startPos = some (if b then p else s) := by
  unfold advance PState.update; cases b <;> cases st.position <;> simp [h]

theorem advance_start_none (st : PState) (k : Option Char) (p : Pt) (t : Str) (b : Bool)
    (h : st.startPos = none) : (advance st k p t b).startPos = some p := by
  unfold advance PState.update; cases b <;> cases st.position <;> simp [h]

theorem advance_box_some (st : PState) (k : Option Char) (p : Pt) (t : Str) (b : Bool) (q : Pt)
    (h : st.position = some q) : box (advance st k p t b) = extend (box st) p := by
  unfold advance PState.update box extend; cases b <;> simp [h]

theorem advance_box_none (st : PState) (k : Option Char) (p : Pt) (t : Str) (b : Bool)
    (h : st.position = none) : box (advance st k p t b) = ⟨p.1, p.2, p.1, p.2⟩ := by
  unfold advance PState.update box; cases b <;> simp [h]

theorem seg_render_ne_nil {prev : Option (Cmd × Bool)} {s : Seg} {r : List Seg}
    (h : segsLegal prev (s :: r) = true) : (renderSegs (s :: r)).isEmpty = false := by
  obtain ⟨hshape, hw, hargs, hr⟩ := segsLegal_cons h
  cases hwr : s.written with
  | some w => simp [renderSegs, Seg.render, hwr]
  | none =>
    rw [hwr] at hw
    obtain ⟨_, _, hz, _⟩ := implicitOk_spec hw
    have hh := implicit_head hshape hz hargs
    simp only [renderSegs, Seg.render, hwr, List.nil_append]
    cases hx : renderArgs s.args ++ renderSegs r with
    | nil => rw [hx] at hh; cases hh
    | cons _ _ => rfl

/-- **the scanner follows the segments** (once a first point exists): it ends in `.ok`, still has a start
    point, and has extended its box by every end point, in order -/
theorem run_segs : ∀ (segs : List Seg) (prev : Option (Cmd × Bool)) (st : PState) (fuel : Nat)
    (cur start : Pt),
    st.rest = renderSegs segs → segsLegal prev segs = true → CmdInv st.command prev →
    st.position = some cur → st.startPos = some start → segs.length < fuel →
    ∃ st', run fuel st = .ok st' ∧ (∃ s', st'.startPos = some s') ∧
      box st' = (visitedFrom cur start segs).foldl extend (box st) := by
  intro segs
  induction segs with
  | nil =>
    intro prev st fuel cur start hrest _ _ _ hstart hfuel
    obtain ⟨f, rfl⟩ : ∃ f, fuel = f + 1 := ⟨fuel - 1, by simp at hfuel; omega⟩
    refine ⟨st, ?_, ⟨start, hstart⟩, rfl⟩
    rw [run, hrest]; rfl
  | cons s r ih =>
    intro prev st fuel cur start hrest hlegal hinv hpos hstart hfuel
    obtain ⟨f, rfl⟩ : ∃ f, fuel = f + 1 := ⟨fuel - 1, by simp at hfuel; omega⟩
    have hcur : st.cur = cur := by unfold PState.cur; rw [hpos]; rfl
    obtain ⟨k', hstep, hinv'⟩ := step_seg st s r prev cur start hrest hlegal hinv hcur (fun _ => hstart)
    obtain ⟨_, _, _, hr⟩ := segsLegal_cons hlegal
    have hne : st.rest.isEmpty = false := by rw [hrest]; exact seg_render_ne_nil hlegal
    obtain ⟨st', hrun, hs', hbox⟩ := ih (some (s.cmd, s.rel))
      (advance st k' (endPoint s.cmd s.rel cur start s.values) (renderSegs r) (s.cmd == .M)) f
      (endPoint s.cmd s.rel cur start s.values)
      (if (s.cmd == .M) = true then endPoint s.cmd s.rel cur start s.values else start)
      (advance_rest ..) hr (by rw [advance_command]; exact hinv') (advance_position ..)
      (advance_start_some _ _ _ _ _ _ hstart) (by simp at hfuel; omega)
    refine ⟨st', ?_, hs', ?_⟩
    · rw [run, hne]
      simp only [Bool.false_eq_true, if_false, hstep]
      exact hrun
    · rw [hbox, advance_box_some _ _ _ _ _ _ hpos]
      simp [visitedFrom]

theorem tok_render_pos {next : Str} {t : Tok} {sep : Str} {r : List PItem}
    (h : argsLegal next ((t, sep) :: r) = true) : 0 < t.render.length := by
  cases t with
  | num n => exact List.length_pos_iff.mpr (render_ne_nil n (argsLegal_cons h).1)
  | flag b => simp [Tok.render]

theorem seg_render_pos {prev : Option (Cmd × Bool)} {s : Seg} {r : List Seg}
    (h : segsLegal prev (s :: r) = true) : 0 < s.render.length := by
  obtain ⟨hshape, hw, hargs, hr⟩ := segsLegal_cons h
  cases hwr : s.written with
  | some w => simp [Seg.render, hwr]
  | none =>
    rw [hwr] at hw
    obtain ⟨_, _, hz, _⟩ := implicitOk_spec hw
    cases ha : s.args with
    | nil => exact absurd ha (shape_ne_nil hz hshape)
    | cons a t =>
      obtain ⟨tk, sep⟩ := a
      rw [ha] at hargs
      have := tok_render_pos hargs
      simp only [Seg.render, hwr, ha, renderArgs, List.nil_append, List.length_append]
      omega

theorem segs_length_le : ∀ (segs : List Seg) (prev : Option (Cmd × Bool)), segsLegal prev segs = true →
    segs.length ≤ (renderSegs segs).length := by
  intro segs
  induction segs with
  | nil => intro _ _; exact Nat.le_refl _
  | cons s r ih =>
    intro prev h
    have h1 := seg_render_pos h
    have h2 := ih _ (segsLegal_cons h).2.2.2
    simp only [renderSegs, List.length_append, List.length_cons]
    omega

theorem cmdInv_init : CmdInv none none := by
  intro c rel h; cases h

/-- **legal path data is accepted, and the box is the hull of the end points** — for every path made of
    `M L H V Z C S Q T A` commands (absolute or relative, letters repeated or omitted, any legal choice of
    separators, arc flags with or without separators), with `closepath` returning to the first point of its
    own subpath, as SVG defines it -/
theorem path_accepted (lead : Str) (segs : List Seg) (h : pathLegal lead segs = true) :
    pathBBox (renderPath lead segs) = .ok (hull (visited segs)) := by
  simp only [pathLegal, Bool.and_eq_true] at h
  obtain ⟨⟨hlead, hfirst⟩, hlegal⟩ := h
  have hskip : skipWs (lead ++ renderSegs segs) = renderSegs segs :=
    skipWs_run lead _ hlead (headSat_ws_of_sep (segs_head segs none hlegal))
  unfold pathBBox renderPath
  rw [hskip]
  cases segs with
  | nil =>
    simp only [renderSegs, List.append_nil]
    rw [run]
    rfl
  | cons s r =>
    simp only [beq_iff_eq] at hfirst
    have hlen := segs_length_le _ _ hlegal
    obtain ⟨k', hstep, hinv'⟩ := step_seg { rest := renderSegs (s :: r) } s r none (0, 0) (0, 0) rfl hlegal
      cmdInv_init rfl (fun hz => by rw [hfirst] at hz; cases hz)
    obtain ⟨_, _, _, hr⟩ := segsLegal_cons hlegal
    have hne : (renderSegs (s :: r)).isEmpty = false := seg_render_ne_nil hlegal
    obtain ⟨st', hrun, hs', hbox⟩ := run_segs r (some (s.cmd, s.rel))
      (advance { rest := renderSegs (s :: r) } k' (endPoint s.cmd s.rel (0, 0) (0, 0) s.values) (renderSegs r)
        (s.cmd == .M))
      ((lead ++ renderSegs (s :: r)).length + 1)
      (endPoint s.cmd s.rel (0, 0) (0, 0) s.values) (endPoint s.cmd s.rel (0, 0) (0, 0) s.values)
      (advance_rest ..) hr (by rw [advance_command]; exact hinv') (advance_position ..)
      (advance_start_none _ _ _ _ _ rfl)
      (by simp only [List.length_append, List.length_cons] at hlen ⊢; omega)
    rw [run]
    simp only [hne, Bool.false_eq_true, if_false, hstep, hrun]
    obtain ⟨s', hs'⟩ := hs'
    unfold PState.bbox
    rw [hs']
    simp only [visited, hull]
    have : box st' = ⟨st'.minX, st'.minY, st'.maxX, st'.maxY⟩ := rfl
    rw [← this, hbox, advance_box_none _ _ _ _ _ rfl]


/-- acceptance alone, for every legal path -/
theorem path_never_rejected (lead : Str) (segs : List Seg) (h : pathLegal lead segs = true) :
    pathBBox (renderPath lead segs) ≠ .err := by
  rw [path_accepted lead segs h]; intro h'; cases h'

/-! ### instances -/

/-- a plain number -/
def plain (ds : Str) : SvgNumber := { int := ds }
/-- a number argument followed by a separator -/
def arg (n : SvgNumber) (sep : Str := []) : PItem := (.num n, sep)

/-- `M1 1 2 2zl1 1` : an implicit lineto after the moveto, a closepath, a relative lineto -/
def implicitThenClose : List Seg := [
  { cmd := .M, args := [arg (plain cs!"1") cs!" ", arg (plain cs!"1") cs!" "] },
  { cmd := .L, written := none, args := [arg (plain cs!"2") cs!" ", arg (plain cs!"2")] },
  { cmd := .Z, rel := true, args := [] },
  { cmd := .L, rel := true, args := [arg (plain cs!"1") cs!" ", arg (plain cs!"1")] }]

/-- `M0 0zm10 10h1zm1 1h1` : three subpaths, the last two started relative to a closed one -/
def threeSubpaths : List Seg := [
  { cmd := .M, args := [arg (plain cs!"0") cs!" ", arg (plain cs!"0")] },
  { cmd := .Z, rel := true, args := [] },
  { cmd := .M, rel := true, args := [arg (plain cs!"10") cs!" ", arg (plain cs!"10")] },
  { cmd := .H, rel := true, args := [arg (plain cs!"1")] },
  { cmd := .Z, rel := true, args := [] },
  { cmd := .M, rel := true, args := [arg (plain cs!"1") cs!" ", arg (plain cs!"1")] },
  { cmd := .H, rel := true, args := [arg (plain cs!"1")] }]

/-- **closepath returns to the first point of its own subpath** (kernel-checked instances; the pinned
    code returned to the first point of the path and gave 11 x 10 for the first one - fix 94b2be8):
    the box of `M0 0zm10 10h1zm1 1h1` is 12 x 11; and the pairs that follow a moveto without a letter are
    linetos, they do not move the start: `M1 1 2 2zl1 1` closes to (1, 1) and ends at (2, 2) -/
theorem closepath_returns_to_subpath_start :
    renderPath [] threeSubpaths = cs!"M0 0zm10 10h1zm1 1h1" ∧
    pathLegal [] threeSubpaths = true ∧
    pathBBox cs!"M0 0zm10 10h1zm1 1h1" = .ok (some ⟨0, 0, 12, 11⟩) ∧
    hull (visited threeSubpaths) = some ⟨0, 0, 12, 11⟩ ∧
    renderPath [] implicitThenClose = cs!"M1 1 2 2zl1 1" ∧
    pathLegal [] implicitThenClose = true ∧
    visited implicitThenClose = [(1, 1), (2, 2), (1, 1), (2, 2)] ∧
    pathBBox cs!"M1 1 2 2zl1 1" = .ok (some ⟨1, 1, 2, 2⟩) := by decide +kernel


/-- the spellings that the pinned code rejected (the `accepts_*` instances of C04), as legal paths -/
def ex1 : List Seg := [
  { cmd := .M, args := [arg (plain cs!"10"), arg { sign := .minus, int := cs!"20" }] },
  { cmd := .L, args := [arg (plain cs!"30") [','], arg (plain cs!"40")] }]
def ex2 : List Seg := [
  { cmd := .M, args := [arg { int := [], frac := some ['5'] }, arg { int := [], frac := some ['5'] } [' ']] },
  { cmd := .L, rel := true, args := [arg (plain ['1']) [' '], arg (plain ['1'])] }]
def ex3 : List Seg := [
  { cmd := .M, args := [arg { int := ['1'], exp := some { digits := ['1'] } } [' '], arg (plain ['2']) [' ']] },
  { cmd := .L, written := some [' '], args := [arg { sign := .plus, int := ['3'] } [' '], arg (plain ['4'])] }]
def ex4 : List Seg := [
  { cmd := .M, written := some [' '], args := [arg (plain ['0']) [' '], arg (plain ['0']) [' ']] },
  { cmd := .A, rel := true, args := [arg (plain ['1']) [' '], arg (plain ['1']) [' '], arg (plain ['0']) [' '],
      (.flag false, []), (.flag true, [' ']), arg (plain ['5']) [' '], arg (plain ['5'])] }]
/-- a path using every command, omitted letters, and separators of every kind -/
def ex5 : List Seg := [
  { cmd := .M, rel := true, args := [arg { int := cs!"1", frac := some [] }, arg { int := [], frac := some cs!"5" } cs!" , "] },
  { cmd := .L, rel := true, written := none, args := [arg { sign := .minus, int := cs!"1" }, arg { sign := .minus, int := cs!"2", exp := some { upper := true, sign := .minus, digits := cs!"1" } }] },
  { cmd := .H, written := some cs!"\t", args := [arg (plain cs!"7")] },
  { cmd := .V, rel := true, args := [arg (plain cs!"3") cs!" "] },
  { cmd := .V, rel := true, written := none, args := [arg (plain cs!"4")] },
  { cmd := .C, args := [arg (plain ['1']) [','], arg (plain ['2']) [' '], arg (plain ['3']) [','], arg (plain ['4']) [' '], arg (plain ['5']) [','], arg (plain ['6'])] },
  { cmd := .S, rel := true, args := [arg (plain ['1']) [','], arg (plain ['2']) [' '], arg (plain ['3']) [','], arg (plain ['4'])] },
  { cmd := .Q, args := [arg (plain ['1']) [','], arg (plain ['2']) [' '], arg (plain ['3']) [','], arg (plain ['4'])] },
  { cmd := .T, rel := true, args := [arg (plain ['1']) [','], arg (plain ['2'])] },
  { cmd := .A, args := [arg (plain ['1']) [' '], arg (plain ['1']) [' '], arg (plain ['0']) [','], (.flag true, []), (.flag false, []), arg { int := [], frac := some ['5'] }, arg { int := [], frac := some ['5'] }] },
  { cmd := .Z, args := [] },
  { cmd := .Z, rel := true, written := some cs!"  ", args := [] }]

/-- the hypotheses of `path_accepted` hold on these (kernel-checked) -/
theorem instances_legal :
    (renderPath [] ex1 = cs!"M10-20L30,40" ∧ pathLegal [] ex1 = true) ∧
    (renderPath [] ex2 = cs!"M.5.5 l1 1" ∧ pathLegal [] ex2 = true) ∧
    (renderPath [] ex3 = cs!"M1e1 2 L +3 4" ∧ pathLegal [] ex3 = true) ∧
    (renderPath [] ex4 = cs!"M 0 0 a1 1 0 01 5 5" ∧ pathLegal [] ex4 = true) ∧
    (renderPath [' '] ex5 = cs!" m1..5 , -1-2E-1H\t7v3 4C1,2 3,4 5,6s1,2 3,4Q1,2 3,4t1,2A1 1 0,10.5.5Zz  " ∧
      pathLegal [' '] ex5 = true) := by decide +kernel

/-- so, for instance, the first `accepts_*` instance of C04 is a corollary of `path_accepted` -/
example : pathBBox cs!"M10-20L30,40" = .ok (hull (visited ex1)) := by
  have h := path_accepted [] ex1 (by decide +kernel)
  have hr : renderPath [] ex1 = cs!"M10-20L30,40" := by decide +kernel
  rw [hr] at h; exact h

end Svgdx.PathSpec

#print axioms Svgdx.PathSpec.step_seg
#print axioms Svgdx.PathSpec.path_accepted
#print axioms Svgdx.PathSpec.path_never_rejected
#print axioms Svgdx.PathSpec.closepath_returns_to_subpath_start
