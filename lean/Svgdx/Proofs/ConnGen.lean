/-
  Svgdx.Proofs.ConnGen — the hand model of connector.rs (`Svgdx.Conn`, Svgdx/Geom/Connector.lean) equals
  the code REGENERATED from connector.rs on every run (`Svgdx.Gen.Connector`, Svgdx/Gen/Connector.lean),
  for all inputs.  A change to an arm, an operator, an argument order or a constant of the routing logic
  in connector.rs changes the generated definitions and breaks one of these equations.
-/
import Svgdx.Geom.Connector
import Svgdx.Gen.Connector
import Mathlib.Tactic.NormNum

namespace Svgdx.Props.C13x
open Svgdx Gen

/-! ### the correspondence between the hand-written and the generated enumerations -/

def dirOf : Dir → Gen.Connector.Direction
  | .up => .Up | .right => .Right | .down => .Down | .left => .Left

def ctOf : ConnType → Gen.Connector.ConnectionType
  | .horizontal => .Horizontal | .vertical => .Vertical | .corner => .Corner | .straight => .Straight

/-- the error classes of the hand model (`SvgdxError` variants carrying one string) -/
def errOf : Gen.Connector.SvgdxError → Err
  | .ParseError _ => .parse
  | .InvalidData _ => .invalidData
  | .CircularRefError _ => .circular
  | .MissingAttribute _ => .missingAttr
  | .MissingBoundingBox _ => .missingBBox
  | .DocumentError _ | .MessageError _ | .InternalLogicError _ => .other

theorem dirOf_bijective : (∀ a b, dirOf a = dirOf b → a = b) ∧ ∀ d, ∃ a, dirOf a = d := by
  constructor
  · intro a b; cases a <;> cases b <;> simp [dirOf]
  · intro d; cases d
    exacts [⟨.up, rfl⟩, ⟨.right, rfl⟩, ⟨.down, rfl⟩, ⟨.left, rfl⟩]

theorem ctOf_bijective : (∀ a b, ctOf a = ctOf b → a = b) ∧ ∀ d, ∃ a, ctOf a = d := by
  constructor
  · intro a b; cases a <;> cases b <;> simp [ctOf]
  · intro d; cases d
    exacts [⟨.horizontal, rfl⟩, ⟨.vertical, rfl⟩, ⟨.corner, rfl⟩, ⟨.straight, rfl⟩]

/-- the generated view of a hand-model connector's value fields -/
def pureOf (s e : Rat × Rat) (sd ed : Option Dir) (ct : ConnType) (off : Option Length) :
    Gen.Connector.ConnectorPure :=
  { start := { origin := s, dir := sd.map dirOf }, end_ := { origin := e, dir := ed.map dirOf },
    conn_type := ctOf ct, offset := off }

/-! ### `Connector::loc_to_dir`, `edge_locations` -/

theorem locToDir_eq_gen (l : LocSpec) : (Conn.locToDir l).map dirOf = Gen.Connector.loc_to_dir l := by
  cases l <;> rfl

theorem edgeLocations_eq_gen (ct : ConnType) :
    Conn.edgeLocations ct = Gen.Connector.edge_locations (ctOf ct) := by
  cases ct <;> rfl

/-! ### the corner routing of `Connector::render` -/

theorem half_lit : ((5 : Rat) / 10) = (1 : Rat) / 2 := by norm_num

theorem cornerPoints_eq_gen (s e : Rat × Rat) (sd ed : Option Dir) (ct : ConnType) (off : Option Length) :
    Conn.cornerPoints s e sd ed off
      = (Gen.Connector.corner_points (pureOf s e sd ed ct off)).mapError errOf := by
  obtain ⟨x1, y1⟩ := s
  obtain ⟨x2, y2⟩ := e
  unfold Gen.Connector.corner_points pureOf Conn.cornerPoints
  simp only [half_lit]
  rcases sd with _ | sd <;> rcases ed with _ | ed
  · rfl
  · rfl
  · rfl
  · cases sd <;> cases ed <;> (try rfl) <;> (rcases off with _ | (a | r) <;> rfl)

/-! ### the mid-point of the overlap (Horizontal / Vertical arms of `Connector::render`) -/

theorem overlapMid_eq_gen_horizontal (sb eb : BoundingBox) :
    Conn.overlapMid (sb.scalarspec .Miny) (sb.scalarspec .Maxy) (eb.scalarspec .Miny) (eb.scalarspec .Maxy)
      = Gen.Connector.horizontal_midpoint sb eb := rfl

theorem overlapMid_eq_gen_vertical (sb eb : BoundingBox) :
    Conn.overlapMid (sb.scalarspec .Minx) (sb.scalarspec .Maxx) (eb.scalarspec .Minx) (eb.scalarspec .Maxx)
      = Gen.Connector.vertical_midpoint sb eb := rfl

/-- without two elements the horizontal line stays at the start's `y`, the vertical one at its `x`
    (the `| _, _ => pure y1` / `pure x1` branches of `Conn.render`) -/
theorem midpoint_default_eq_gen (s e : Rat × Rat) (sd ed : Option Dir) (ct : ConnType) (off : Option Length) :
    Gen.Connector.horizontal_midpoint_default (pureOf s e sd ed ct off) = s.2
    ∧ Gen.Connector.vertical_midpoint_default (pureOf s e sd ed ct off) = s.1 := ⟨rfl, rfl⟩

/-! ### `closest_loc`, `shortest_link`: the loops as folds, `f32::MAX` as `none` -/

/-- the step of `Conn.argminFirst` -/
def stepH {α : Type} (f : α → Rat) (acc : α × Option Rat) (x : α) : α × Option Rat :=
  match acc.2 with
  | none => (x, some (f x))
  | some m => if f x < m then (x, some (f x)) else acc

theorem argminFirst_eq {α : Type} (f : α → Rat) (init : α) (xs : List α) :
    Conn.argminFirst f init xs = (xs.foldl (stepH f) (init, none)).1 := rfl

/-- the generated loops keep `(min_dist_sq, locations)`, the hand model `(locations, min_dist_sq)` -/
def swapSt {α : Type} (acc : α × Option Rat) : Option Rat × α := (acc.2, acc.1)

theorem fold_swap {α β : Type} (H : α × Option Rat → β → α × Option Rat) (G : Option Rat × α → β → Option Rat × α)
    (hstep : ∀ a m x, G (m, a) x = swapSt (H (a, m) x)) :
    ∀ (xs : List β) (a : α) (m : Option Rat), List.foldl G (m, a) xs = swapSt (List.foldl H (a, m) xs)
  | [], _, _ => rfl
  | x :: xs, a, m => by
    rw [List.foldl_cons, List.foldl_cons, hstep]
    exact fold_swap H G hstep xs _ _

/-- one iteration of the generated loop body is one step of `argminFirst` over `g y` -/
theorem step_swap {α β : Type} (f : α → Rat) (g : β → α) (a : α) (m : Option Rat) (y : β) :
    (if (match m with | none => true | some m' => decide (f (g y) < m')) then (some (f (g y)), g y) else (m, a))
      = swapSt (stepH f (a, m) (g y)) := by
  cases m with
  | none => rfl
  | some v =>
    by_cases h : f (g y) < v <;> simp [stepH, swapSt, h]

theorem closestLoc_eq_gen (bb : BoundingBox) (p : Rat × Rat) (ct : ConnType) :
    Gen.Connector.closest_loc bb p (ctOf ct) = .ok (Conn.closestLoc bb p ct) := by
  unfold Gen.Connector.closest_loc Conn.closestLoc
  rw [argminFirst_eq, ← edgeLocations_eq_gen]
  simp only []
  rw [fold_swap (stepH fun loc => Conn.distSq (bb.locspec loc) p) _
    (fun a m x => step_swap (fun loc => Conn.distSq (bb.locspec loc) p) id a m x)]
  rfl

/-- a generated inner loop over `ys` is the hand fold over the mapped list -/
theorem fold_swap_map {α β : Type} (f : α → Rat) (g : β → α) (G : Option Rat × α → β → Option Rat × α)
    (hG : ∀ a m y, G (m, a) y = swapSt (stepH f (a, m) (g y))) (ys : List β) (a : α) (m : Option Rat) :
    List.foldl G (m, a) ys = swapSt (List.foldl (stepH f) (a, m) (ys.map g)) := by
  rw [List.foldl_map]
  exact fold_swap (fun acc y => stepH f acc (g y)) G hG ys a m

theorem shortestLink_eq_gen (a b : BoundingBox) (ct : ConnType) :
    Gen.Connector.shortest_link a b (ctOf ct) = .ok (Conn.shortestLink a b ct) := by
  unfold Gen.Connector.shortest_link Conn.shortestLink
  rw [← edgeLocations_eq_gen]
  simp only [argminFirst_eq, List.foldl_flatMap]
  rw [fold_swap
    (fun acc l1 => List.foldl (stepH fun p : LocSpec × LocSpec => Conn.distSq (a.locspec p.1) (b.locspec p.2)) acc
      ((Conn.edgeLocations ct).map fun l2 => (l1, l2))) _ ?_]
  · rfl
  · intro st m l1
    show List.foldl _ (m, st) (Conn.edgeLocations ct) = _
    exact fold_swap_map (fun p : LocSpec × LocSpec => Conn.distSq (a.locspec p.1) (b.locspec p.2))
      (fun l2 => (l1, l2)) _
      (fun st m l2 => step_swap (fun p : LocSpec × LocSpec => Conn.distSq (a.locspec p.1) (b.locspec p.2))
        (fun l2 => (l1, l2)) st m l2) _ st m

end Svgdx.Props.C13x
