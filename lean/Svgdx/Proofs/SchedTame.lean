/-
  Svgdx.Proofs.SchedTame — discharging the side condition `Tame` of `Svgdx.Proofs.SchedRefine` from the
  SYNTAX of the element, as far as it goes.

  `tameB e` (decidable, on the input): rect / circle / ellipse / box; unique attribute keys; no classes; a
  literal `id`; no `clip-path`, `text`, `surround`, `inside`, `start`; no `^` in any attribute value.
  `plainB ks`: leaf elements satisfying `tameB`, pairwise distinct ids.

  DERIVED from `tameB` (`tame_of_syn_res`, `plain_of_plainB`): the four syntactic fields of `Tame`, and the
  field `result` except the existence of a box - through `pipe_frame` (the frame of the whole leaf pipeline,
  composed from `idAttrs_frame` and the frame theorems of Proofs/PassThrough.lean): the id is kept, the result
  is no use / reuse and has no clip-path (`Shape0`), `Ctx.bb e' = e'.bbox` in every context (`bb_shape`), the
  shape events are produced (`shapeEvents_noText`).
  NOT derived (`TameRes`): `prevFree`, `noDepthErr` (true of `tameB` elements, proofs not done: they need an
  invariant "no `^` in any attribute value" resp. a no-depth-error lemma through every stage of
  `resolve_position`; `NDe`, `num_nd`, `splitRelspec_nd` are the start of the second), and `boxOk`, which does
  NOT follow from `tameB` (`Example.boxOk_not_from_tameB`, kernel-checked).
-/
import Svgdx.Proofs.SchedRefine
import Svgdx.Proofs.PassThrough
import Svgdx.Proofs.SmallGaps
namespace Svgdx.SchedRefine
open Svgdx Ctl Gen Str Attrs PassThrough

/-! ## `idAttrs` keeps every attribute -/

theorem idAttrs_inv (e : Elem) :
    ∀ (l : List (Str × Str)) (acc : Elem), (∀ kv ∈ l, e.getAttr kv.1 = some kv.2) →
      NodupKeys acc.attrs → (∀ k, acc.getAttr k = e.getAttr k) →
      acc.name = e.name → acc.classes = e.classes → acc.contentBBox = e.contentBBox → acc.isEmpty = e.isEmpty →
      let r := l.foldl (fun (acc : Elem) (kv : Str × Str) => if kv.1 == cs!"__" then acc else acc.setAttr kv.1 kv.2) acc
      NodupKeys r.attrs ∧ (∀ k, r.getAttr k = e.getAttr k) ∧ r.name = e.name ∧ r.classes = e.classes ∧
        r.contentBBox = e.contentBBox ∧ r.isEmpty = e.isEmpty := by
  intro l
  induction l with
  | nil => intro acc _ h1 h2 h3 h4 h5 h6; exact ⟨h1, h2, h3, h4, h5, h6⟩
  | cons x xs ih =>
    intro acc hl h1 h2 h3 h4 h5 h6
    simp only [List.foldl_cons]
    apply ih
    · exact fun kv hkv => hl kv (List.mem_cons_of_mem _ hkv)
    · split
      · exact h1
      · exact insert_nodup h1 _ _
    · intro k
      split
      · exact h2 k
      · by_cases hk : k = x.1
        · subst hk
          show get (insert acc.attrs x.1 x.2) x.1 = _
          rw [get_insert_self h1]
          exact (hl x List.mem_cons_self).symm
        · show get (insert acc.attrs x.1 x.2) k = _
          rw [get_insert_other h1 _ _ _ hk]
          exact h2 k
    · split <;> exact h3
    · split <;> exact h4
    · split <;> exact h5
    · split <;> exact h6

theorem idAttrs_spec (e : Elem) (hn : NodupKeys e.attrs) (hcl : e.classes = []) :
    NodupKeys (idAttrs e).attrs ∧ (∀ k, (idAttrs e).getAttr k = e.getAttr k) ∧ (idAttrs e).name = e.name ∧
    (idAttrs e).classes = [] ∧ (idAttrs e).contentBBox = e.contentBBox ∧ (idAttrs e).isEmpty = e.isEmpty := by
  have h := idAttrs_inv e e.attrs e (fun kv hkv => (lookup_iff_mem hn kv.1 kv.2).2 hkv) hn (fun _ => rfl)
    rfl rfl rfl rfl
  simp only [] at h
  obtain ⟨h1, h2, h3, h4, h5, h6⟩ := h
  unfold idAttrs
  simp only []
  refine ⟨h1, h2, h3, ?_, h5, h6⟩
  rw [h4, hcl]
  rfl

theorem idAttrs_frame (K : List Str) (e : Elem) (hn : NodupKeys e.attrs) (hcl : e.classes = []) :
    Frame K e (idAttrs e) := by
  obtain ⟨h1, h2, h3, h4, h5, h6⟩ := idAttrs_spec e hn hcl
  exact ⟨h1, h3, h4.trans hcl.symm, h5, h6, fun k _ => h2 k⟩

/-- the frame of the whole leaf pipeline -/
theorem pipe_frame (c : Ctx) {e e' : Elem} (hn : NodupKeys e.attrs) (hcl : e.classes = [])
    (hs : e.getAttr cs!"surround" = none) (hi : e.getAttr cs!"inside" = none)
    (hst : e.getAttr cs!"start" = none) (h : pipe c e = .ok e') : Frame touchedKeys e e' := by
  unfold pipe at h
  obtain ⟨e2, h1, ha⟩ := bind_ok h
  obtain ⟨e3, h2, hb⟩ := bind_ok ha
  obtain ⟨e4, h3, h4⟩ := bind_ok hb
  clear h ha hb
  obtain ⟨n0, g0, _, c0, _, _⟩ := idAttrs_spec e hn hcl
  have F0 : Frame touchedKeys e (idAttrs e) := idAttrs_frame _ e hn hcl
  have F1 := resolvePosition_frame c n0 h1
  have hcc : containmentClasses (idAttrs e) = (idAttrs e).classes := by
    simp only [containmentClasses, g0, hs, hi]
  rw [hcc] at F1
  have F01 : Frame touchedKeys e e2 := F0.trans F1
  have P1 := resolvePosition_post c n0 h1
  have hconn : Conn.isConnector e2 = false := by
    have : e2.getAttr cs!"start" = none := (F01.get _ (by decide)).trans hst
    simp only [Conn.isConnector, Elem.hasAttr, Attrs.contains]
    simp only [Elem.getAttr] at this
    simp [this]
  simp only [Conn.transmuteConnector, hconn, Bool.false_eq_true, if_false] at h2
  have he23 : e2 = e3 := Except.ok.inj h2
  subst he23
  have G3 : Frame dxdyKeys e2 e4 := transmuteDxDy_frame (fun _ h => h) (Frame.refl F01.nodup) h3
  have F04 : Frame touchedKeys e e4 := F01.trans (G3.mono dxdyKeys_sub)
  have hcl4 : e4.classes = [] := F04.classes.trans hcl
  obtain ⟨n4, g4, _, c4, _, _⟩ := idAttrs_spec e4 F04.nodup hcl4
  have F45 : Frame touchedKeys e4 (idAttrs e4) := idAttrs_frame _ e4 F04.nodup hcl4
  have F5 := resolvePosition_frame c n4 h4
  have hcc4 : containmentClasses (idAttrs e4) = (idAttrs e4).classes := by
    have a : e4.getAttr cs!"surround" = none := (G3.get _ (by decide)).trans P1.1
    have b : e4.getAttr cs!"inside" = none := (G3.get _ (by decide)).trans P1.2
    simp only [containmentClasses, g4, a, b]
  rw [hcc4] at F5
  exact (F04.trans F45).trans F5

/-! ## the shape of resolved elements -/

/-- resolved elements of the documents considered: not `use` / `reuse` (so `get_target_element` stops at
    once) and without `clip-path` - their box does not depend on the context -/
def Shape0 (el : Elem) : Prop :=
  (el.name == cs!"use" || el.name == cs!"reuse") = false ∧ el.getAttr cs!"clip-path" = none

/-- **the box of such an element does not depend on the context** -/
theorem bb_shape (c : Ctx) {el : Elem} (h : Shape0 el) : c.bb el = el.bbox := by
  obtain ⟨hn, hc⟩ := h
  have hn' := hn
  simp only [Bool.or_eq_false_iff] at hn'
  unfold Ctx.bb
  rw [Ctx.bboxOf, Ctx.target]
  simp only [hn'.1, hn'.2, Bool.or_self, Bool.false_eq_true, if_false, hc, bind, Except.bind, pure, Except.pure]
  cases el.bbox <;> rfl

theorem shapeEvents_noText (e : Elem) (h : e.getAttr cs!"text" = none) : ∃ evs, shapeEvents e = .ok evs := by
  unfold shapeEvents
  have : e.hasAttr cs!"text" = false := by
    simp only [Elem.getAttr] at h
    simp [Elem.hasAttr, Attrs.contains, h]
  simp only [this, Bool.false_eq_true, if_false]
  exact ⟨_, rfl⟩


/-! ## the decidable side condition -/

def noHat (v : Str) : Bool := !v.contains '^'

def tameName (n : Str) : Bool := n == cs!"rect" || n == cs!"circle" || n == cs!"ellipse" || n == cs!"box"

def absentKeys : List Str := [cs!"clip-path", cs!"text", cs!"surround", cs!"inside", cs!"start"]

/-- **the decidable side condition on one leaf element** (on the INPUT only): one of the four basic shapes;
    unique attribute keys; no classes; a literal `id`; no `clip-path`, `text`, `surround`, `inside`, `start`
    attribute; no `^` in any attribute value -/
def tameB (e : Elem) : Bool :=
  tameName e.name && decide ((e.attrs.map Prod.fst).Nodup) && e.classes.isEmpty && (e.getAttr cs!"id").isSome &&
    absentKeys.all (fun k => (e.getAttr k).isNone) && e.attrs.all (fun kv => noHat kv.2)

structure TameSyn (e : Elem) : Prop where
  name : e.name = cs!"rect" ∨ e.name = cs!"circle" ∨ e.name = cs!"ellipse" ∨ e.name = cs!"box"
  nodup : NodupKeys e.attrs
  classes : e.classes = []
  hasId : ∃ i, e.getAttr cs!"id" = some i
  noClip : e.getAttr cs!"clip-path" = none
  noText : e.getAttr cs!"text" = none
  noSurround : e.getAttr cs!"surround" = none
  noInside : e.getAttr cs!"inside" = none
  noStart : e.getAttr cs!"start" = none
  noHat : ∀ kv ∈ e.attrs, noHat kv.2 = true

theorem tameSyn_of_tameB {e : Elem} (h : tameB e = true) : TameSyn e := by
  simp only [tameB, Bool.and_eq_true, decide_eq_true_eq, List.isEmpty_iff, List.all_eq_true] at h
  obtain ⟨⟨⟨⟨⟨h1, h2⟩, h3⟩, h4⟩, h5⟩, h6⟩ := h
  have hk : ∀ k ∈ absentKeys, e.getAttr k = none := fun k hk => by simpa using h5 k hk
  refine ⟨?_, h2, h3, Option.isSome_iff_exists.1 h4, hk _ (by decide), hk _ (by decide), hk _ (by decide),
    hk _ (by decide), hk _ (by decide), fun kv hkv => h6 kv hkv⟩
  simp only [tameName, Bool.or_eq_true, beq_iff_eq] at h1
  rcases h1 with ((h | h) | h) | h
  · exact Or.inl h
  · exact Or.inr (Or.inl h)
  · exact Or.inr (Or.inr (Or.inl h))
  · exact Or.inr (Or.inr (Or.inr h))

theorem TameSyn.ctlName {e : Elem} (h : TameSyn e) : ctlName e.name = false := by
  rcases h.name with h | h | h | h <;> rw [h] <;> decide

theorem TameSyn.noRelspec {e : Elem} (h : TameSyn e) : Monotone.NoRelspecName e := by
  unfold Monotone.NoRelspecName
  rcases h.name with h | h | h | h <;> rw [h] <;> decide

theorem TameSyn.notUse {e : Elem} (h : TameSyn e) : (e.name == cs!"use" || e.name == cs!"reuse") = false := by
  rcases h.name with h | h | h | h <;> rw [h] <;> decide

/-- what is NOT derived from the syntax (see the end of the file for what has been discharged) -/
structure TameRes (e : Elem) : Prop where
  prevFree : ∀ (env : List (Str × Elem)) (p : Option Elem), (∀ kv ∈ env, Shape0 kv.2) →
    okOf (pipe { elems := env, prev := p } e) = okOf (pipe { elems := env, prev := none } e)
  noDepthErr : ∀ c, pipe c e ≠ .error .exprDepth
  boxOk : ∀ c e', pipe c e = .ok e' → ∃ b, e'.bbox = .ok b

theorem tame_of_syn_res {e : Elem} (h : TameSyn e) (r : TameRes e) : Tame Shape0 e where
  name := h.ctlName
  noRelspec := h.noRelspec
  noClip := h.noClip
  hasId := h.hasId
  prevFree := r.prevFree
  noDepthErr := r.noDepthErr
  result := by
    intro c e' hp
    have F := pipe_frame c h.nodup h.classes h.noSurround h.noInside h.noStart hp
    have hsh : Shape0 e' := ⟨by rw [F.name]; exact h.notUse, (F.get _ (by decide)).trans h.noClip⟩
    obtain ⟨b, hb⟩ := r.boxOk c e' hp
    exact ⟨hsh, F.get _ (by decide), ⟨b, fun c' => (bb_shape c' hsh).trans hb⟩,
      shapeEvents_noText e' ((F.get _ (by decide)).trans h.noText)⟩


/-! ## the geometry pipeline never raises the expression evaluator's depth error -/

/-- "not the expression-depth error" -/
inductive NDe {α : Type} : Except Err α → Prop
  | ok (a : α) : NDe (.ok a)
  | err (er : Err) (h : er ≠ .exprDepth) : NDe (.error er)

theorem NDe.bind {α β : Type} {x : Except Err α} {f : α → Except Err β} (hx : NDe x) (hf : ∀ a, NDe (f a)) :
    NDe (x >>= f) := by
  cases hx with
  | ok a => exact hf a
  | err er h => exact NDe.err er h

theorem NDe.map {α β : Type} {x : Except Err α} (f : α → β) (hx : NDe x) : NDe (x.map f) := by
  cases hx with
  | ok a => exact NDe.ok _
  | err er h => exact NDe.err er h

theorem NDe.foldlM {α β : Type} {f : β → α → Except Err β} (hf : ∀ b a, NDe (f b a)) :
    ∀ (l : List α) (b : β), NDe (l.foldlM f b) := by
  intro l
  induction l with
  | nil => intro b; exact NDe.ok b
  | cons a l ih => intro b; simp only [List.foldlM_cons]; exact NDe.bind (hf b a) (fun b' => ih b')

theorem NDe.ne {α : Type} {x : Except Err α} (h : NDe x) : x ≠ .error .exprDepth := by
  cases h with
  | ok a => intro h; cases h
  | err er h => intro h'; cases h'; exact h rfl

theorem NDe.pure {α : Type} (a : α) : NDe (pure a : Except Err α) := NDe.ok a
theorem NDe.throw {α : Type} (er : Err) (h : er ≠ .exprDepth) : NDe (throw er : Except Err α) := NDe.err er h

macro "nde" : tactic => `(tactic| repeat' first
  | with_reducible exact NDe.ok _ | with_reducible exact NDe.pure _
  | with_reducible exact NDe.err _ (by decide) | with_reducible exact NDe.throw _ (by decide)
  | with_reducible apply NDe.bind | with_reducible apply NDe.map
  | intro _ | with_reducible apply_assumption | split)

theorem num_nd (v : Str) : NDe (Elem.num v) := by unfold Elem.num; nde

theorem splitRelspec_nd (c : Ctx) (v : Str) : NDe (Elem.splitRelspec c v) := by unfold Elem.splitRelspec; nde





/-! ## documents -/

def leafTame : Node → Bool
  | .elem e none none => tameB e
  | _ => false

/-- **the decidable side condition on a document**: leaf elements (`<name …/>`, no tail text) each satisfying
    `tameB`, with pairwise distinct literal ids -/
def plainB (ks : Nodes) : Bool := ks.toList.all leafTame && decide (docIds ks).Nodup

theorem leafTame_elem {n : Node} (h : leafTame n = true) : ∃ e, n = .elem e none none ∧ tameB e = true := by
  cases n with
  | elem e kids tail =>
    cases kids with
    | some k => simp [leafTame] at h
    | none =>
      cases tail with
      | some t => simp [leafTame] at h
      | none => exact ⟨e, rfl, h⟩
  | comment c t => simp [leafTame] at h
  | text t => simp [leafTame] at h
  | cdata t => simp [leafTame] at h

/-- from the decidable condition and the residue to the class of documents of `SchedRefine` -/
theorem plain_of_plainB {ks : Nodes} (h : plainB ks = true) (hr : ∀ n ∈ ks.toList, TameRes (nodeElem n)) :
    Plain Shape0 ks := by
  simp only [plainB, Bool.and_eq_true, List.all_eq_true, decide_eq_true_eq] at h
  refine ⟨fun n hn => ?_, h.2⟩
  obtain ⟨e, rfl, he⟩ := leafTame_elem (h.1 n hn)
  exact ⟨e, rfl, tame_of_syn_res (tameSyn_of_tameB he) (hr _ hn)⟩

namespace Example
example : tameB rA = true := by decide
example : tameB rB = true := by decide
example : tameB rC = true := by decide
example : plainB doc1 = true ∧ plainB doc2 = true := by decide

/-- `<rect id="a" x="#5" wh="10"/>`: `#5` is not a reference for `extract_elref`, and not a number -/
def rX : Elem := { name := cs!"rect", attrs := [(cs!"id", ['a']), (['x'], cs!"#5"), (cs!"wh", cs!"10")] }

def isErr {α : Type} : Except Err α → Bool
  | .error _ => true
  | .ok _ => false

set_option maxRecDepth 100000 in
/-- **`boxOk` does not follow from `tameB`**: the element satisfies `tameB`, its pipeline succeeds, the box of
    the result is an error - and the run, a single element, ends in MultiError WITH the element registered
    (`genOther` registers before it asks for the box): a failing tag that leaves a registration behind -/
theorem boxOk_not_from_tameB :
    tameB rX = true ∧ (okOf (pipe {} rX)).map (fun e' => isErr e'.bbox) = some true ∧
    errOf (processNodes simpleEvalr 30 st0 (Nodes.ofList [leaf rX])) = some (.multi [0]) ∧
    (processNodes simpleEvalr 30 st0 (Nodes.ofList [leaf rX])).1.geo.elems.map (·.1) = [['a']] := by
  decide +kernel
end Example

end Svgdx.SchedRefine

#print axioms Svgdx.SchedRefine.pipe_frame
#print axioms Svgdx.SchedRefine.bb_shape
#print axioms Svgdx.SchedRefine.tame_of_syn_res
#print axioms Svgdx.SchedRefine.plain_of_plainB
#print axioms Svgdx.SchedRefine.Example.boxOk_not_from_tameB
