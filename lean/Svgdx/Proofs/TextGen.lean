/-
  Svgdx.Proofs.TextGen — the hand model of text.rs (`Svgdx.Text`, Svgdx/Geom/Text.lean) equals the code
  REGENERATED from text.rs on every run (`Svgdx.Gen.Text`, Svgdx/Gen/Text.lean), for all inputs.  A change
  to an arm, a class name, a sign, a guard or a constant of the placement logic in text.rs changes the
  generated definitions and breaks one of these equations.
-/
import Svgdx.Geom.Text
import Svgdx.Gen.Text
import Mathlib.Tactic.NormNum

namespace Svgdx.Props.C19g
open Svgdx Gen

/-! ### `get_text_position`: the `match text_anchor` statements -/

/-- the state (t_dx, t_dy, text_classes) after the `match text_anchor` statements is the state before
    them moved by `offsetDelta` and extended by `anchorClasses` -/
theorem anchorAdjust_eq_gen (tdx tdy : Rat) (tc : List Str) (loc : LocSpec) (off : Rat) (v o : Bool) :
    Gen.Text.anchor_adjust tdx tdy tc loc off v o
      = (tdx + (Text.offsetDelta loc o off).1, tdy + (Text.offsetDelta loc o off).2,
          tc ++ Text.anchorClasses loc o v) := by
  unfold Gen.Text.anchor_adjust Text.offsetDelta Text.anchorClasses
  cases h1 : LocSpec.is_top loc <;> cases h2 : LocSpec.is_bottom loc <;>
    cases h3 : LocSpec.is_left loc <;> cases h4 : LocSpec.is_right loc <;>
    cases o <;> cases v <;> simp [h1, h2, h3, h4]

/-- alignment classes: what the statements push, in the code's order (for every offset) -/
theorem anchorClasses_eq_gen (loc : LocSpec) (o v : Bool) (off : Rat) :
    Text.anchorClasses loc o v
      = (Gen.Text.anchor_adjust Gen.Text.t_dx_init Gen.Text.t_dy_init [] loc off v o).2.2 := by
  rw [anchorAdjust_eq_gen]; rfl

/-- the class list of the text element starts from the code's initial `text_classes` -/
theorem textClasses_eq_gen (loc : LocSpec) (o v : Bool) (off : Rat) :
    [cs!"d-text"] ++ Text.anchorClasses loc o v
      = (Gen.Text.anchor_adjust Gen.Text.t_dx_init Gen.Text.t_dy_init Gen.Text.text_classes_init loc off v o).2.2 := by
  rw [anchorAdjust_eq_gen]; rfl

/-- how `text-offset` moves the anchor: what the statements add to t_dx / t_dy (starting from the code's
    initial values, for every class list and `vertical`) -/
theorem offsetDelta_eq_gen (loc : LocSpec) (o v : Bool) (off : Rat) (tc : List Str) :
    Text.offsetDelta loc o off
      = ((Gen.Text.anchor_adjust Gen.Text.t_dx_init Gen.Text.t_dy_init tc loc off v o).1,
         (Gen.Text.anchor_adjust Gen.Text.t_dx_init Gen.Text.t_dy_init tc loc off v o).2.1) := by
  rw [anchorAdjust_eq_gen]
  simp [Gen.Text.t_dx_init, Gen.Text.t_dy_init]

/-! ### `process_text_attr`: line offsets -/

/-- the offset of the first line (in line spacings) is `first_line_offset(line_count, line_spacing)` -/
theorem firstLineOffset_eq_gen (o v : Bool) (loc : LocSpec) (n : Nat) (sp : Rat) :
    Text.firstLineOffset o v loc n sp = Gen.Text.line_offset o loc n v sp 0 := by
  unfold Gen.Text.line_offset Text.firstLineOffset Gen.Text.WRAP_DOWN Gen.Text.WRAP_UP Gen.Text.WRAP_MID
  cases h1 : LocSpec.is_top loc <;> cases h2 : LocSpec.is_bottom loc <;>
    cases h3 : LocSpec.is_left loc <;> cases h4 : LocSpec.is_right loc <;>
    cases o <;> cases v <;> simp [h1, h2, h3, h4]

/-- every later line is one line spacing further -/
theorem laterLineOffset_eq_gen (o v : Bool) (loc : LocSpec) (n : Nat) (sp : Rat) (idx : Nat) :
    Gen.Text.line_offset o loc n v sp (idx + 1) = sp := by
  unfold Gen.Text.line_offset
  simp

/-- the `off` of `Text.processTextAttr` for the tspan of index `idx` -/
theorem lineOffset_eq_gen (o v : Bool) (loc : LocSpec) (n : Nat) (sp : Rat) (idx : Nat) :
    (if idx == 0 then Text.firstLineOffset o v loc n sp else sp) = Gen.Text.line_offset o loc n v sp idx := by
  cases idx with
  | zero => simpa using firstLineOffset_eq_gen o v loc n sp
  | succ k => simpa using (laterLineOffset_eq_gen o v loc n sp k).symm

/-- the tspan attribute that carries the offset, and the two character constants -/
theorem tspanOffsetAttr_eq_gen (v : Bool) :
    (if v then cs!"dx" else cs!"dy") = Gen.Text.tspan_offset_attr v := by
  cases v <;> rfl

theorem zwsp_nbsp_eq_gen : Text.zwsp = Gen.Text.ZWSP ∧ [Text.nbsp] = Gen.Text.NBSP := ⟨rfl, rfl⟩

end Svgdx.Props.C19g
