/-
  Svgdx.Proofs.KeysIn — where the attribute NAMES of a derived element come from: `KeysIn K e0 e` says that `e` has
  unique attribute names, each of which is an attribute name of `e0` or one of the constants `K`. Every `Frame`
  of `Svgdx.Proofs.PassThrough` is such a relation; attribute evaluation, the reuse instance and `adapt` are too.
-/
import Svgdx.Proofs.PassThrough
import Svgdx.Proofs.XmlWrite
import Svgdx.Proofs.Balanced
namespace Svgdx
open Str Attrs

structure KeysIn (K : List Str) (e0 e : Elem) : Prop where
  nodup : NodupKeys e.attrs
  keys : ∀ k ∈ Attrs.keys e.attrs, k ∈ Attrs.keys e0.attrs ∨ k ∈ K

namespace KeysIn
variable {K : List Str} {e0 e e' : Elem}

theorem refl (h : NodupKeys e.attrs) : KeysIn K e e := ⟨h, fun _ hk => Or.inl hk⟩

theorem trans (F : KeysIn K e0 e) (G : KeysIn K e e') : KeysIn K e0 e' :=
  ⟨G.nodup, fun k hk => by
    rcases G.keys k hk with h | h
    · exact F.keys k h
    · exact Or.inr h⟩

theorem mono {K' : List Str} (F : KeysIn K e0 e) (hs : ∀ k ∈ K, k ∈ K') : KeysIn K' e0 e :=
  ⟨F.nodup, fun k hk => (F.keys k hk).imp id (hs k)⟩

theorem of_frame (F : PassThrough.Frame K e0 e) : KeysIn K e0 e := by
  refine ⟨F.nodup, fun k hk => ?_⟩
  by_cases hK : k ∈ K
  · exact Or.inr hK
  · left
    have h1 : Attrs.contains e.attrs k = true := (contains_iff_mem_keys _ _).mpr hk
    have h2 := F.get k hK
    simp only [Elem.getAttr] at h2
    have h3 : Attrs.contains e0.attrs k = true := by
      simp only [Attrs.contains] at h1 ⊢
      rw [← h2]; exact h1
    exact (contains_iff_mem_keys _ _).mp h3

theorem set (F : KeysIn K e0 e) {k : Str} (hk : k ∈ Attrs.keys e0.attrs ∨ k ∈ K) (v : Str) :
    KeysIn K e0 (e.setAttr k v) :=
  ⟨insert_nodup F.nodup k v, fun x hx => by
    rcases Attrs.keys_insert_subset e.attrs k v x hx with rfl | h
    · exact hk
    · exact F.keys x h⟩

/-- replacing the value of an attribute the element already has -/
theorem set_own (F : KeysIn K e0 e) {k : Str} (hk : k ∈ Attrs.keys e.attrs) (v : Str) :
    KeysIn K e0 (e.setAttr k v) := F.set (F.keys k hk) v

theorem pop (F : KeysIn K e0 e) (k : Str) : KeysIn K e0 (e.popAttr k).1 :=
  ⟨remove_nodup F.nodup k, fun x hx => F.keys x (keys_remove_subset e.attrs k x hx)⟩

/-- only fields other than the attribute map differ -/
theorem of_attrs_eq (F : KeysIn K e0 e) (h : e'.attrs = e.attrs) : KeysIn K e0 e' :=
  ⟨by rw [h]; exact F.nodup, fun k hk => F.keys k (by rw [← h]; exact hk)⟩

theorem foldl {β : Type} (f : Elem → β → Elem) (l : List β) (hf : ∀ a b, b ∈ l → KeysIn K e0 a → KeysIn K e0 (f a b))
    (F : KeysIn K e0 e) : KeysIn K e0 (l.foldl f e) := by
  induction l generalizing e with
  | nil => exact F
  | cons x xs ih =>
    rw [List.foldl_cons]
    exact ih (fun a b hb => hf a b (by simp [hb])) (hf e x (by simp) F)

end KeysIn

/-- invariant rule for `foldlM` in `Except`, with the element's membership at hand -/
theorem foldlM_except_inv_mem {ε α β : Type} (P : α → Prop) (f : α → β → Except ε α) :
    ∀ (l : List β), (∀ a b a', b ∈ l → P a → f a b = .ok a' → P a') →
      ∀ (a a' : α), P a → l.foldlM f a = .ok a' → P a' := by
  intro l
  induction l with
  | nil => intro _ a a' ha h; simp [List.foldlM, pure, Except.pure] at h; subst h; exact ha
  | cons x xs ih =>
    intro hf a a' ha h
    simp only [List.foldlM, bind, Except.bind] at h
    split at h
    · cases h
    · rename_i v hv
      exact ih (fun a b a' hb => hf a b a' (by simp [hb])) v a' (hf a x v (by simp) ha hv) h

namespace Ctl
variable {ρ : Type}

/-- attribute evaluation replaces values only -/
theorem evalAttributes_keysIn (ev : Evalr ρ) (st : St ρ) (e e' : Elem) (rng : ρ) (hn : NodupKeys e.attrs)
    (h : evalAttributes ev st e = .ok (e', rng)) : KeysIn [] e e' := by
  unfold evalAttributes at h
  simp only [bind, Except.bind] at h
  split at h
  · cases h
  · rename_i p1 hp1
    have h1 : KeysIn [] e p1.1 := by
      refine foldlM_except_inv_mem (fun (a : Elem × ρ) => KeysIn [] e a.1) _ e.attrs ?_ _ _ (KeysIn.refl hn) hp1
      intro a b a' hb ha hab
      split at hab
      · cases hab; exact ha
      · split at hab
        · cases hab
        · cases hab
          exact ha.set (Or.inl (List.mem_map.mpr ⟨b, hb, rfl⟩)) _
    split at h
    · cases h
    · simp only [pure, Except.pure] at h
      cases h
      exact h1.of_attrs_eq rfl

theorem addClass_attrs (e : Elem) (c : Str) : (e.addClass c).attrs = e.attrs := rfl

theorem reuseOverride_keysIn (re inst : Elem) (hn : NodupKeys inst.attrs) :
    KeysIn [cs!"transform"] inst (reuseOverride re inst) := by
  unfold reuseOverride
  apply KeysIn.foldl _ _ _ (KeysIn.refl hn)
  intro a b _ ha
  split
  · exact ha
  · split
    · exact ha.set (Or.inr (by simp)) _
    · split
      · rename_i hh
        exact ha.set_own ((contains_iff_mem_keys _ _).mp hh) _
      · exact ha

theorem reuseDress_keysIn (re inst : Elem) (hn : NodupKeys inst.attrs) :
    KeysIn [cs!"id", cs!"style"] inst (reuseDress re inst) := by
  unfold reuseDress
  dsimp only
  have h0 : KeysIn [cs!"id", cs!"style"] inst (inst.popAttr cs!"id").1 := (KeysIn.refl hn).pop _
  have hid : ∀ x, KeysIn [cs!"id", cs!"style"] inst x → KeysIn [cs!"id", cs!"style"] inst
      (match re.getAttr cs!"id" with
        | some i => x.setAttr cs!"id" i
        | none => x) := by
    intro x hx
    split
    · exact hx.set (Or.inr (by simp)) _
    · exact hx
  have hstyle : ∀ x, KeysIn [cs!"id", cs!"style"] inst x → KeysIn [cs!"id", cs!"style"] inst
      (match re.getAttr cs!"style" with
        | some s => x.setAttr cs!"style" s
        | none => x) := by
    intro x hx
    split
    · exact hx.set (Or.inr (by simp)) _
    · exact hx
  have hfold : ∀ x, KeysIn [cs!"id", cs!"style"] inst x → KeysIn [cs!"id", cs!"style"] inst
      (re.classes.foldl (fun (a : Elem) c => a.addClass c) x) :=
    fun x hx => KeysIn.foldl _ _ (fun a b _ ha => ha.of_attrs_eq (addClass_attrs a b)) hx
  split
  · exact (hfold _ (hstyle _ (hid _ h0))).of_attrs_eq (addClass_attrs _ _)
  · exact hfold _ (hstyle _ (hid _ h0))

theorem withAttrsFrom_new_keysIn (n : Str) (other : Elem) :
    KeysIn [] other ((Elem.new n []).withAttrsFrom other) := by
  unfold Elem.withAttrsFrom
  have hnil : (Elem.new n []).attrs = [] := (Elem.new_nil n).1
  rw [hnil]
  -- a fold of inserts over the other element's own attributes
  have key : ∀ (l : List (Str × Str)) (acc : Attrs), NodupKeys acc →
      (∀ k ∈ Attrs.keys acc, k ∈ Attrs.keys other.attrs) → (∀ kv ∈ l, kv.1 ∈ Attrs.keys other.attrs) →
      NodupKeys (l.foldl (fun a kv => Attrs.insert a kv.1 kv.2) acc) ∧
      ∀ k ∈ Attrs.keys (l.foldl (fun a kv => Attrs.insert a kv.1 kv.2) acc), k ∈ Attrs.keys other.attrs := by
    intro l
    induction l with
    | nil => intro acc h1 h2 _; exact ⟨h1, h2⟩
    | cons kv l ih =>
      intro acc h1 h2 h3
      rw [List.foldl_cons]
      apply ih _ (insert_nodup h1 _ _)
      · intro k hk
        rcases Attrs.keys_insert_subset acc kv.1 kv.2 k hk with rfl | h
        · exact h3 kv (by simp)
        · exact h2 k h
      · exact fun x hx => h3 x (by simp [hx])
  obtain ⟨k1, k2⟩ := key other.attrs [] (by simp [NodupKeys, Attrs.keys]) (by simp [Attrs.keys])
    (fun kv hkv => List.mem_map.mpr ⟨kv, hkv, rfl⟩)
  exact ⟨k1, fun k hk => Or.inl (k2 k hk)⟩

def reuseKeys : List Str := [cs!"transform", cs!"id", cs!"style"]

theorem reuseInstance_keysIn (re inst : Elem) (hn : NodupKeys inst.attrs) :
    KeysIn reuseKeys inst (reuseInstance re inst) := by
  unfold reuseInstance
  dsimp only
  have h1 := (reuseOverride_keysIn re inst hn).mono (K' := reuseKeys) (by decide)
  have h2 := (reuseDress_keysIn re (reuseOverride re inst) h1.nodup).mono (K' := reuseKeys) (by decide)
  have h3 := h1.trans h2
  split
  · exact h3.trans ((withAttrsFrom_new_keysIn ['g'] _).mono (by simp))
  · exact h3

/-- names the reuse instance may acquire: the reuse element's own id / style / transform and whatever positioning
    touches -/
def instKeys : List Str := reuseKeys ++ PassThrough.touchedKeys

/-- **the element `reusePrepare` hands on** has unique attribute names, each from the template or from `instKeys` -/
theorem reuse_chain_keysIn (ev : Evalr ρ) (st : St ρ) (re orig inst1 : Elem) (rng : ρ) (pos : Gen.Position)
    (hn : NodupKeys orig.attrs) (h : evalAttributes ev st orig.expandCompoundSize = .ok (inst1, rng)) :
    KeysIn instKeys orig (Elem.setPositionAttrs pos (reuseInstance re inst1)) ∧
    KeysIn instKeys orig (Elem.setPositionAttrs pos (reuseInstance re inst1).expandCompoundPos) := by
  have hK : ∀ k ∈ PassThrough.touchedKeys, k ∈ instKeys := by
    intro k hk; exact List.mem_append_right _ hk
  have f1 : KeysIn instKeys orig orig.expandCompoundSize :=
    (KeysIn.of_frame (PassThrough.expandCompoundSize_frame PassThrough.compoundSizeKeys_sub
      (PassThrough.Frame.refl hn))).mono hK
  have f2 : KeysIn instKeys orig inst1 :=
    f1.trans ((evalAttributes_keysIn ev st _ inst1 rng f1.nodup h).mono (by simp))
  have f3 : KeysIn instKeys orig (reuseInstance re inst1) :=
    f2.trans ((reuseInstance_keysIn re inst1 f2.nodup).mono (fun k hk => List.mem_append_left _ hk))
  have f4 : KeysIn instKeys orig (reuseInstance re inst1).expandCompoundPos :=
    f3.trans ((KeysIn.of_frame (PassThrough.expandCompoundPos_frame PassThrough.compoundPosKeys_sub
      (PassThrough.Frame.refl f3.nodup))).mono hK)
  exact ⟨f3.trans ((KeysIn.of_frame (PassThrough.setPositionAttrs_frame PassThrough.setPosKeys_sub pos
      (PassThrough.Frame.refl f3.nodup))).mono hK),
    f4.trans ((KeysIn.of_frame (PassThrough.setPositionAttrs_frame PassThrough.setPosKeys_sub pos
      (PassThrough.Frame.refl f4.nodup))).mono hK)⟩

end Ctl
end Svgdx
