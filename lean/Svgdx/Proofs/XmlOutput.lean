/-
  Svgdx.Proofs.XmlOutput — the hypotheses of `write_wellformed` about the transformer's OUTPUT reduced to hypotheses
  about its INPUT: attribute maps of emitted elements have unique keys (and no `class` key beside a class list)
  whenever those of the input tree do, which is what `Elem.new` — the only way the reader builds an element —
  guarantees.
-/
import Svgdx.Proofs.Emit
import Svgdx.Proofs.KeysIn
import Svgdx.Proofs.XmlCompose
namespace Svgdx.Xml
open Svgdx Str Ctl Ctl.Emit

variable {ρ : Type}

/-- an element as the reader builds it: unique attribute names, `class` never among them (it lives in the class
    list) -/
def UStrong (e : Elem) : Prop := Attrs.NodupKeys e.attrs ∧ cs!"class" ∉ Attrs.keys e.attrs

theorem UStrong.unique {e : Elem} (h : UStrong e) : ElemUnique e := ⟨h.1, fun _ => h.2⟩

theorem ustrong_of_keysIn {K : List Str} {e0 e : Elem} (F : KeysIn K e0 e) (hK : cs!"class" ∉ K) (h : UStrong e0) :
    UStrong e :=
  ⟨F.nodup, fun hc => by
    rcases F.keys _ hc with h1 | h1
    · exact h.2 h1
    · exact hK h1⟩

/-- `SvgElement::new` (the reader's constructor) yields such an element, whatever the attribute list -/
theorem elem_new_ustrong (name : Str) (attrs : List (Str × Str)) : UStrong (Elem.new name attrs) := by
  unfold Elem.new
  have key : ∀ (l : List (Str × Str)) (acc : Attrs × List Str),
      Attrs.NodupKeys acc.1 → cs!"class" ∉ Attrs.keys acc.1 →
      let r := l.foldl (fun (acc : Attrs × List Str) (kv : Str × Str) =>
        if kv.1 == cs!"class" then (acc.1, (splitBy (· == ' ') kv.2).foldl classInsert acc.2)
        else (Attrs.insert acc.1 kv.1 kv.2, acc.2)) acc
      Attrs.NodupKeys r.1 ∧ cs!"class" ∉ Attrs.keys r.1 := by
    intro l
    induction l with
    | nil => intro acc h1 h2; exact ⟨h1, h2⟩
    | cons kv rest ih =>
      intro acc h1 h2
      simp only [List.foldl_cons]
      split
      · exact ih _ h1 h2
      · rename_i hc
        apply ih _ (Attrs.insert_nodup h1 _ _)
        intro hmem
        rcases Attrs.keys_insert_subset acc.1 kv.1 kv.2 _ hmem with h | h
        · apply hc; simp [← h]
        · exact h2 h
  have := key attrs ([], []) (by simp [Attrs.NodupKeys, Attrs.keys]) (by simp [Attrs.keys])
  dsimp only at this ⊢
  exact this

theorem class_not_instKeys : cs!"class" ∉ Ctl.instKeys := by decide

/-- the closure conditions of `Svgdx.Proofs.Emit` for attribute-name uniqueness: tree elements are `UStrong`,
    nothing is asked of the intermediate elements (`adapt` makes every one of them unique) -/
theorem closed_unique (ev : Evalr ρ) : Closed UStrong (fun _ => True) ElemUnique ev where
  tD := fun _ _ => trivial
  adapt := fun e _ => ⟨(adapt_attrs_unique e).1, fun _ => (adapt_attrs_unique e).2⟩
  evalAttrs := fun _ _ _ _ _ _ => trivial
  pipeline := fun _ _ _ _ _ _ => trivial
  textAttr := fun _ _ _ _ _ => ⟨trivial, fun _ _ => trivial⟩
  setText := fun _ _ _ => trivial
  withBB := fun _ _ _ => trivial
  resolvePos := fun _ _ _ _ _ => trivial
  reuseD := fun _ _ _ _ _ _ _ _ _ => ⟨trivial, trivial⟩
  reuseT := fun st re orig inst1 rng pos _ ht h => by
    obtain ⟨f1, f2⟩ := Ctl.reuse_chain_keysIn ev st re orig inst1 rng pos ht.1 h
    exact ⟨ustrong_of_keysIn f1 class_not_instKeys ht, ustrong_of_keysIn f2 class_not_instKeys ht⟩
  storeD := fun _ _ => trivial
  applyD := fun _ _ _ _ => trivial

/-- the input condition: every element of the document tree is as the reader builds it -/
def DocUnique (ks : Nodes) : Prop := NodesT UStrong ks

/-- … and so is every reuse template already registered (none in the initial state) -/
def StateUnique (st : St ρ) : Prop := SInv UStrong (fun _ => True) st

theorem stateUnique_of_nil (st : St ρ) (h : st.originals = []) : StateUnique st := by
  unfold StateUnique SInv OrigOK
  rw [h]
  refine ⟨?_, fun _ _ _ _ => trivial⟩
  intro p hp
  cases hp

/-- **emitted elements never carry an attribute twice**, for every document whose elements are as the reader
    builds them: an emitted element is either copied from the tree / a reuse instance (unique because the source
    is) or the `adapt` of some element (unique whatever the element) -/
theorem transformDoc_attrsUnique (ev : Evalr ρ) (fuel : Nat) (st : St ρ) (ks : Nodes) (evs : List Ev)
    (bb : Option Gen.BoundingBox) (hst : StateUnique st) (hks : DocUnique ks)
    (h : (transformDoc ev fuel st ks).2.2 = .ok (evs, bb)) : AttrsUnique evs := by
  have := transformDoc_emits (closed_unique ev) fuel st ks hst hks evs bb h
  intro x hx
  have hx' := this x hx
  cases x with
  | start e => exact hx'.elim UStrong.unique id
  | empty e => exact hx'.elim UStrong.unique id
  | _ => trivial

/-- **C02 / C05 for the transformer's own output, hypotheses on the input plus names**: what `transformDoc`
    generates is written as well-formed content and is reproduced byte for byte by read-then-write.
    `hn` (element and attribute names of the generated events are XML Names) is the one hypothesis left on the
    output; see `transformDoc_namesOk` for its reduction to the input. -/
theorem transformDoc_output_wellformed_fixed (ev : Evalr ρ) (fuel : Nat) (st : St ρ) (ks : Nodes) (evs : List Ev)
    (bb : Option Gen.BoundingBox) (hst : StateUnique st) (hks : DocUnique ks)
    (h : (transformDoc ev fuel st ks).2.2 = .ok (evs, bb)) (hn : NamesOk evs) :
    Spec.wfContent (write evs) = true ∧ passThroughW (write evs) = some (write evs) :=
  transformDoc_wellformed_fixed ev fuel st ks evs bb h hn
    (transformDoc_attrsUnique ev fuel st ks evs bb hst hks h)

end Svgdx.Xml
