/-
  Svgdx.Proofs.RefCheck — the reader's reference check (`Svgdx.Xml.RefCheck`, mirroring `invalid_reference` /
  `is_entity_name` of `src/events.rs`) against the productions of XML 1.0 (fifth edition):

    [66] CharRef   ::= '&#' [0-9]+ ';' | '&#x' [0-9a-fA-F]+ ';'      WFC: Legal Character (the value matches Char)
    [67] Reference ::= EntityRef | CharRef
    [68] EntityRef ::= '&' Name ';'                                    WFC: Entity Declared
    [2]  Char      ::= #x9 | #xA | #xD | [#x20-#xD7FF] | [#xE000-#xFFFD] | [#x10000-#x10FFFF]
    [4]  NameStartChar, [4a] NameChar, [5] Name

  The specification side (`LegalChar`, `IsDec`, `IsHex`, `numValue`, `Name`, `CharRef`, `EntityRef`, `Reference`,
  `RefsOkWith`) is written from these productions; the checker is shown to accept EXACTLY the strings in which
  every `&` begins a Reference (`check_iff`, `check_iff_doctype`), and its acceptance is carried over to the
  reference condition of the independent recogniser `Svgdx.Xml.Spec` (`spec_refsOk_of_check` and the two
  corollaries in the shape the composition lemmas of `Svgdx.Proofs.XmlSpec` take).
-/
import Svgdx.Xml.RefCheck
import Svgdx.Xml.Spec
import Svgdx.Proofs.XmlSpec

namespace Svgdx.Props.C02Ref
open Svgdx Str Xml Xml.RefCheck

/-! ## the productions -/

/-- [2] Char, as a code point -/
def LegalChar (n : Nat) : Prop :=
  n = 0x9 ∨ n = 0xA ∨ n = 0xD ∨ (0x20 ≤ n ∧ n ≤ 0xD7FF) ∨ (0xE000 ≤ n ∧ n ≤ 0xFFFD) ∨ (0x10000 ≤ n ∧ n ≤ 0x10FFFF)

/-- `[0-9]` -/
def IsDec (c : Char) : Prop := 48 ≤ c.toNat ∧ c.toNat ≤ 57

/-- `[0-9a-fA-F]` -/
def IsHex (c : Char) : Prop := IsDec c ∨ (97 ≤ c.toNat ∧ c.toNat ≤ 102) ∨ (65 ≤ c.toNat ∧ c.toNat ≤ 70)

instance : DecidablePred IsDec := fun c => by unfold IsDec; infer_instance
instance : DecidablePred IsHex := fun c => by unfold IsHex; infer_instance

/-- the value of one digit: `0`‥`9` ↦ 0‥9, `a`‥`f` ↦ 10‥15, `A`‥`F` ↦ 10‥15 -/
def digitValue (c : Char) : Nat :=
  if IsDec c then c.toNat - 48 else if 97 ≤ c.toNat ∧ c.toNat ≤ 102 then c.toNat - 97 + 10 else c.toNat - 65 + 10

/-- the number a digit string denotes in the given radix (most significant digit first, leading zeros allowed) -/
def numValue (radix : Nat) (ds : Str) : Nat := ds.foldl (fun a c => a * radix + digitValue c) 0

/-- [4] NameStartChar, as a code point -/
def NameStartCode (n : Nat) : Prop :=
  n = 0x3A ∨ (0x41 ≤ n ∧ n ≤ 0x5A) ∨ n = 0x5F ∨ (0x61 ≤ n ∧ n ≤ 0x7A) ∨
  (0xC0 ≤ n ∧ n ≤ 0xD6) ∨ (0xD8 ≤ n ∧ n ≤ 0xF6) ∨ (0xF8 ≤ n ∧ n ≤ 0x2FF) ∨
  (0x370 ≤ n ∧ n ≤ 0x37D) ∨ (0x37F ≤ n ∧ n ≤ 0x1FFF) ∨ (0x200C ≤ n ∧ n ≤ 0x200D) ∨
  (0x2070 ≤ n ∧ n ≤ 0x218F) ∨ (0x2C00 ≤ n ∧ n ≤ 0x2FEF) ∨ (0x3001 ≤ n ∧ n ≤ 0xD7FF) ∨
  (0xF900 ≤ n ∧ n ≤ 0xFDCF) ∨ (0xFDF0 ≤ n ∧ n ≤ 0xFFFD) ∨ (0x10000 ≤ n ∧ n ≤ 0xEFFFF)

/-- [4a] NameChar, as a code point -/
def NameCode (n : Nat) : Prop :=
  NameStartCode n ∨ n = 0x2D ∨ n = 0x2E ∨ (0x30 ≤ n ∧ n ≤ 0x39) ∨ n = 0xB7 ∨ (0x300 ≤ n ∧ n ≤ 0x36F) ∨
    (0x203F ≤ n ∧ n ≤ 0x2040)

instance : DecidablePred NameStartCode := fun n => by unfold NameStartCode; infer_instance
instance : DecidablePred NameCode := fun n => by unfold NameCode; infer_instance

/-- [5] Name ::= NameStartChar (NameChar)* -/
inductive Name : Str → Prop
  | mk (c : Char) (r : Str) : NameStartCode c.toNat → (∀ d ∈ r, NameCode d.toNat) → Name (c :: r)

/-- [66] CharRef with WFC Legal Character -/
inductive CharRef : Str → Prop
  | dec (ds : Str) : ds ≠ [] → (∀ c ∈ ds, IsDec c) → LegalChar (numValue 10 ds) →
      CharRef (cs!"&#" ++ ds ++ [';'])
  | hex (hs : Str) : hs ≠ [] → (∀ c ∈ hs, IsHex c) → LegalChar (numValue 16 hs) →
      CharRef (cs!"&#x" ++ hs ++ [';'])

/-- [68] EntityRef with WFC Entity Declared; `declared` says which names count as declared -/
inductive EntityRef (declared : Str → Prop) : Str → Prop
  | mk (name : Str) : Name name → declared name → EntityRef declared ('&' :: name ++ [';'])

/-- [67] Reference -/
inductive Reference (declared : Str → Prop) : Str → Prop
  | entity (r : Str) : EntityRef declared r → Reference declared r
  | char (r : Str) : CharRef r → Reference declared r

/-- the text is a sequence of References and of characters other than `&`: every `&` begins a Reference -/
inductive RefsOkWith (declared : Str → Prop) : Str → Prop
  | nil : RefsOkWith declared []
  | char (c : Char) (s : Str) : c ≠ '&' → RefsOkWith declared s → RefsOkWith declared (c :: s)
  | ref (r s : Str) : Reference declared r → RefsOkWith declared s → RefsOkWith declared (r ++ s)

/-- without a DTD exactly `lt`, `gt`, `amp`, `apos`, `quot` are declared (XML 1.0 section 4.6) -/
def Predefined (name : Str) : Prop :=
  name = cs!"lt" ∨ name = cs!"gt" ∨ name = cs!"amp" ∨ name = cs!"apos" ∨ name = cs!"quot"

/-- **every `&` of the text begins a Reference that XML 1.0 allows in a document without a DTD** -/
abbrev RefsOk : Str → Prop := RefsOkWith Predefined

/-- with a DOCTYPE any Name may have been declared there -/
abbrev RefsOkDoctype : Str → Prop := RefsOkWith fun _ => True

/-! ## character classes of the checker -/

theorem isAsciiDigit_iff (c : Char) : isAsciiDigit c = true ↔ IsDec c := by
  simp [isAsciiDigit, IsDec]

theorem isAsciiHexDigit_iff (c : Char) : isAsciiHexDigit c = true ↔ IsHex c := by
  simp [isAsciiHexDigit, IsHex, isAsciiDigit, IsDec, or_assoc]

theorem all_dec_iff (s : Str) : s.all isAsciiDigit = true ↔ ∀ c ∈ s, IsDec c := by
  simp [List.all_eq_true, isAsciiDigit_iff]

theorem all_hex_iff (s : Str) : s.all isAsciiHexDigit = true ↔ ∀ c ∈ s, IsHex c := by
  simp [List.all_eq_true, isAsciiHexDigit_iff]

theorem digitVal_eq (c : Char) : digitVal c = digitValue c := by
  unfold digitVal digitValue
  by_cases h : IsDec c
  · simp [(isAsciiDigit_iff c).mpr h, h]
  · have h' : isAsciiDigit c = false := by
      cases hd : isAsciiDigit c with
      | false => rfl
      | true => exact absurd ((isAsciiDigit_iff c).mp hd) h
    simp only [h', h, if_false, Bool.false_eq_true]
    by_cases h2 : 97 ≤ c.toNat ∧ c.toNat ≤ 102
    · simp [h2]
    · have : ((0x61 ≤ c.toNat && c.toNat ≤ 0x66) = true) ↔ False := by
        simp only [Bool.and_eq_true, decide_eq_true_eq, iff_false]; exact h2
      simp only [this, h2, if_false]

theorem isXmlCharCode_iff (n : Nat) : isXmlCharCode n = true ↔ LegalChar n := by
  simp [isXmlCharCode, LegalChar, or_assoc]

theorem nameStart_iff (c : Char) : nameStart c = true ↔ NameStartCode c.toNat := by
  simp [nameStart, NameStartCode, or_assoc]

theorem nameChar_iff (c : Char) : nameChar c = true ↔ NameCode c.toNat := by
  simp [nameChar, NameCode, nameStart_iff, or_assoc]

/-- `is_entity_name` is the production [5] Name -/
theorem isEntityName_iff (s : Str) : isEntityName s = true ↔ Name s := by
  constructor
  · intro h
    cases s with
    | nil => simp [isEntityName] at h
    | cons c r =>
      simp only [isEntityName, Bool.and_eq_true, List.all_eq_true] at h
      exact .mk c r ((nameStart_iff c).mp h.1) fun d hd => (nameChar_iff d).mp (h.2 d hd)
  · rintro ⟨c, r, h1, h2⟩
    simp only [isEntityName, Bool.and_eq_true, List.all_eq_true]
    exact ⟨(nameStart_iff c).mpr h1, fun d hd => (nameChar_iff d).mpr (h2 d hd)⟩

theorem isPredefined_iff (s : Str) : isPredefined s = true ↔ Predefined s := by
  simp [isPredefined, Predefined, or_assoc]

theorem nameCode_ne (c : Char) (h : NameCode c.toNat) : c ≠ '&' ∧ c ≠ ';' ∧ c ≠ '#' := by
  refine ⟨?_, ?_, ?_⟩ <;> (rintro rfl; revert h; decide)

theorem name_chars {s : Str} (h : Name s) : ∀ c ∈ s, c ≠ '&' ∧ c ≠ ';' := by
  obtain ⟨c, r, h1, h2⟩ := h
  intro d hd
  have hn : NameCode d.toNat := by
    rcases List.mem_cons.mp hd with rfl | hd
    · exact Or.inl h1
    · exact h2 d hd
  exact ⟨(nameCode_ne d hn).1, (nameCode_ne d hn).2.1⟩

theorem name_head {c : Char} {r : Str} (h : Name (c :: r)) : c ≠ '#' := by
  cases h with
  | mk _ _ h1 _ => exact (nameCode_ne c (Or.inl h1)).2.2

theorem predefined_name {s : Str} (h : Predefined s) : Name s := by
  rcases h with rfl | rfl | rfl | rfl | rfl <;> exact .mk _ _ (by decide) (by decide)

theorem isHex_ne {c : Char} (h : IsHex c) : c ≠ '&' ∧ c ≠ ';' := by
  refine ⟨?_, ?_⟩ <;> (rintro rfl; revert h; decide)

theorem isDec_hex {c : Char} (h : IsDec c) : IsHex c := Or.inl h

/-! ## `u32::from_str_radix` -/

theorem legal_lt {n : Nat} (h : LegalChar n) : n < 0x100000000 := by
  unfold LegalChar at h; omega

theorem le_foldl (radix : Nat) (hr : 0 < radix) (s : Str) :
    ∀ acc, acc ≤ s.foldl (fun a c => a * radix + digitValue c) acc := by
  induction s with
  | nil => intro acc; exact Nat.le_refl _
  | cons c r ih =>
    intro acc
    simp only [List.foldl_cons]
    exact Nat.le_trans (Nat.le_trans (Nat.le_mul_of_pos_right acc hr) (Nat.le_add_right _ _)) (ih _)

theorem parseAcc_eq (radix : Nat) (hr : 0 < radix) (s : Str) :
    ∀ acc, acc < 0x100000000 →
      parseAcc radix acc s =
        if s.foldl (fun a c => a * radix + digitValue c) acc < 0x100000000
        then some (s.foldl (fun a c => a * radix + digitValue c) acc) else none := by
  induction s with
  | nil => intro acc h; simp [parseAcc, h]
  | cons c r ih =>
    intro acc _
    simp only [parseAcc, List.foldl_cons, digitVal_eq]
    by_cases hn : acc * radix + digitValue c < 0x100000000
    · simp only [hn, if_true]; exact ih _ hn
    · have := le_foldl radix hr r (acc * radix + digitValue c)
      have h2 : ¬ List.foldl (fun a c => a * radix + digitValue c) (acc * radix + digitValue c) r < 0x100000000 := by
        omega
      simp only [hn, h2, if_false]

/-- the model's `parseU32` is: non-empty, and the denoted number fits `u32` -/
theorem parseU32_eq (radix : Nat) (hr : 0 < radix) (s : Str) :
    parseU32 radix s =
      if s = [] then none else if numValue radix s < 0x100000000 then some (numValue radix s) else none := by
  unfold parseU32 numValue
  cases s with
  | nil => rfl
  | cons c r =>
    simp only [List.isEmpty_cons, Bool.false_eq_true, if_false, reduceCtorEq]
    exact parseAcc_eq radix hr _ 0 (by decide)

theorem parseU32_legal (radix : Nat) (hr : 0 < radix) (s : Str) :
    (∃ n, parseU32 radix s = some n ∧ LegalChar n) ↔ s ≠ [] ∧ LegalChar (numValue radix s) := by
  rw [parseU32_eq radix hr]
  constructor
  · rintro ⟨n, h, hl⟩
    by_cases he : s = []
    · simp [he] at h
    · simp only [he, if_false] at h
      by_cases hv : numValue radix s < 0x100000000
      · simp only [hv, if_true, Option.some.injEq] at h
        exact ⟨he, h ▸ hl⟩
      · simp [hv] at h
  · rintro ⟨he, hl⟩
    exact ⟨_, by simp [he, legal_lt hl], hl⟩

/-! ## one reference -/

/-- what may stand between `&` and `;` -/
def RefBody (declared : Str → Prop) (body : Str) : Prop :=
  (∃ ds, body = '#' :: ds ∧ ds ≠ [] ∧ (∀ c ∈ ds, IsDec c) ∧ LegalChar (numValue 10 ds)) ∨
  (∃ hs, body = '#' :: 'x' :: hs ∧ hs ≠ [] ∧ (∀ c ∈ hs, IsHex c) ∧ LegalChar (numValue 16 hs)) ∨
  (Name body ∧ declared body)

theorem reference_iff_body (declared : Str → Prop) (r : Str) :
    Reference declared r ↔ ∃ body, r = '&' :: (body ++ [';']) ∧ RefBody declared body := by
  constructor
  · intro h
    cases h with
    | entity h =>
      cases h with
      | mk name hn hd => exact ⟨name, rfl, Or.inr (Or.inr ⟨hn, hd⟩)⟩
    | char h =>
      cases h with
      | dec ds h1 h2 h3 => exact ⟨'#' :: ds, rfl, Or.inl ⟨ds, rfl, h1, h2, h3⟩⟩
      | hex hs h1 h2 h3 => exact ⟨'#' :: 'x' :: hs, rfl, Or.inr (Or.inl ⟨hs, rfl, h1, h2, h3⟩)⟩
  · rintro ⟨body, rfl, h⟩
    rcases h with ⟨ds, rfl, h1, h2, h3⟩ | ⟨hs, rfl, h1, h2, h3⟩ | ⟨hn, hd⟩
    · exact .char _ (.dec ds h1 h2 h3)
    · exact .char _ (.hex hs h1 h2 h3)
    · exact .entity _ (.mk body hn hd)

/-- no `&` and no `;` inside a reference body -/
theorem refBody_chars {declared : Str → Prop} {body : Str} (h : RefBody declared body) :
    ∀ c ∈ body, c ≠ '&' ∧ c ≠ ';' := by
  rcases h with ⟨ds, rfl, _, h2, _⟩ | ⟨hs, rfl, _, h2, _⟩ | ⟨hn, _⟩
  · intro c hc
    rcases List.mem_cons.mp hc with rfl | hc
    · decide
    · exact isHex_ne (isDec_hex (h2 c hc))
  · intro c hc
    rcases List.mem_cons.mp hc with rfl | hc
    · decide
    rcases List.mem_cons.mp hc with rfl | hc
    · decide
    · exact isHex_ne (h2 c hc)
  · exact name_chars hn

/-- the agreement asked of `declared`: on Names it is "predefined, or a DOCTYPE was seen" -/
def Agrees (declared : Str → Prop) (hd : Bool) : Prop :=
  ∀ name, Name name → (declared name ↔ (Predefined name ∨ hd = true))

theorem charRefCode_legal (num : Str) :
    (∃ n, charRefCode num = some n ∧ LegalChar n) ↔
      (num ≠ [] ∧ (∀ c ∈ num, IsDec c) ∧ LegalChar (numValue 10 num)) ∨
      (∃ hs, num = 'x' :: hs ∧ hs ≠ [] ∧ (∀ c ∈ hs, IsHex c) ∧ LegalChar (numValue 16 hs)) := by
  by_cases hx : ∃ hs, num = 'x' :: hs
  · obtain ⟨hs, rfl⟩ := hx
    have hnd : ¬ ∀ c ∈ 'x' :: hs, IsDec c := fun h => absurd (h 'x' (by simp)) (by decide)
    simp only [charRefCode]
    by_cases hh : hs.all isAsciiHexDigit = true
    · simp only [hh, if_true, parseU32_legal 16 (by decide)]
      constructor
      · intro h; exact Or.inr ⟨hs, rfl, h.1, (all_hex_iff hs).mp hh, h.2⟩
      · rintro (⟨_, h, _⟩ | ⟨hs', he, h1, _, h3⟩)
        · exact absurd h hnd
        · cases he; exact ⟨h1, h3⟩
    · simp only [hh, if_false, Bool.false_eq_true]
      constructor
      · rintro ⟨_, h, _⟩; cases h
      · rintro (⟨_, h, _⟩ | ⟨hs', he, _, h2, _⟩)
        · exact absurd h hnd
        · cases he; exact absurd ((all_hex_iff hs).mpr h2) hh
  · have hc : charRefCode num = if num.all isAsciiDigit then parseU32 10 num else none := by
      unfold charRefCode
      split
      · exact absurd ⟨_, rfl⟩ hx
      · rfl
    rw [hc]
    by_cases hh : num.all isAsciiDigit = true
    · simp only [hh, if_true, parseU32_legal 10 (by decide)]
      constructor
      · intro h; exact Or.inl ⟨h.1, (all_dec_iff num).mp hh, h.2⟩
      · rintro (⟨h1, _, h3⟩ | ⟨hs, he, _⟩)
        · exact ⟨h1, h3⟩
        · exact absurd ⟨hs, he⟩ hx
    · simp only [hh, if_false, Bool.false_eq_true]
      constructor
      · rintro ⟨_, h, _⟩; cases h
      · rintro (⟨_, h2, _⟩ | ⟨hs, he, _⟩)
        · exact absurd ((all_dec_iff num).mpr h2) hh
        · exact absurd ⟨hs, he⟩ hx

/-- **the value `well_formed` of the code is the production [67]** (between the delimiters) -/
theorem wellFormed_iff {declared : Str → Prop} {hd : Bool} (ha : Agrees declared hd) (body : Str) :
    wellFormed body hd = true ↔ RefBody declared body := by
  by_cases hb : ∃ num, body = '#' :: num
  · obtain ⟨num, rfl⟩ := hb
    have hw : wellFormed ('#' :: num) hd = true ↔ ∃ n, charRefCode num = some n ∧ LegalChar n := by
      simp only [wellFormed]
      cases charRefCode num with
      | none => simp
      | some n => simp [isXmlCharCode_iff]
    rw [hw, charRefCode_legal]
    unfold RefBody
    constructor
    · rintro (⟨h1, h2, h3⟩ | ⟨hs, rfl, h1, h2, h3⟩)
      · exact Or.inl ⟨num, rfl, h1, h2, h3⟩
      · exact Or.inr (Or.inl ⟨hs, rfl, h1, h2, h3⟩)
    · rintro (⟨ds, he, h1, h2, h3⟩ | ⟨hs, he, h1, h2, h3⟩ | ⟨hn, _⟩)
      · cases he; exact Or.inl ⟨h1, h2, h3⟩
      · cases he; exact Or.inr ⟨hs, rfl, h1, h2, h3⟩
      · exact absurd rfl (name_head hn)
  · have hw : wellFormed body hd = (isPredefined body || (hd && isEntityName body)) := by
      unfold wellFormed
      split
      · exact absurd ⟨_, rfl⟩ hb
      · rfl
    rw [hw]
    simp only [Bool.or_eq_true, Bool.and_eq_true, isPredefined_iff, isEntityName_iff]
    unfold RefBody
    constructor
    · rintro (hp | ⟨hd', hn⟩)
      · exact Or.inr (Or.inr ⟨predefined_name hp, (ha body (predefined_name hp)).mpr (Or.inl hp)⟩)
      · exact Or.inr (Or.inr ⟨hn, (ha body hn).mpr (Or.inr hd')⟩)
    · rintro (⟨ds, he, _⟩ | ⟨hs, he, _⟩ | ⟨hn, hdcl⟩)
      · exact absurd ⟨_, he⟩ hb
      · exact absurd ⟨_, he⟩ hb
      · rcases (ha body hn).mp hdcl with hp | hd'
        · exact Or.inl hp
        · exact Or.inr ⟨hd', hn⟩

/-! ## scanning -/

theorem bodyUpToSemi_some {rest body : Str} (h : bodyUpToSemi rest = some body) :
    ∃ tail, rest = body ++ ';' :: tail ∧ ∀ c ∈ body, c ≠ ';' := by
  induction rest generalizing body with
  | nil => simp [bodyUpToSemi] at h
  | cons c r ih =>
    simp only [bodyUpToSemi] at h
    by_cases hc : c = ';'
    · subst hc
      simp only [beq_self_eq_true, if_true, Option.some.injEq] at h
      subst h
      exact ⟨r, rfl, by simp⟩
    · have hb : (c == ';') = false := by simpa using hc
      simp only [hb, Bool.false_eq_true, if_false, Option.map_eq_some_iff] at h
      obtain ⟨b, hb', rfl⟩ := h
      obtain ⟨tail, rfl, hns⟩ := ih hb'
      refine ⟨tail, rfl, ?_⟩
      intro d hd
      rcases List.mem_cons.mp hd with rfl | hd
      · exact hc
      · exact hns d hd

theorem bodyUpToSemi_none {rest : Str} (h : bodyUpToSemi rest = none) : ∀ c ∈ rest, c ≠ ';' := by
  induction rest with
  | nil => simp
  | cons c r ih =>
    simp only [bodyUpToSemi] at h
    by_cases hc : c = ';'
    · subst hc; simp at h
    · have hb : (c == ';') = false := by simpa using hc
      simp only [hb, Bool.false_eq_true, if_false, Option.map_eq_none_iff] at h
      intro d hd
      rcases List.mem_cons.mp hd with rfl | hd
      · exact hc
      · exact ih h d hd

theorem bodyUpToSemi_append (body tail : Str) (h : ∀ c ∈ body, c ≠ ';') :
    bodyUpToSemi (body ++ ';' :: tail) = some body := by
  induction body with
  | nil => simp [bodyUpToSemi]
  | cons c r ih =>
    have hb : (c == ';') = false := by simpa using h c (by simp)
    simp [bodyUpToSemi, hb, ih (fun d hd => h d (by simp [hd]))]

/-- characters other than `&` are passed over -/
theorem skip_no_amp (pre s : Str) (hd : Bool) (h : ∀ c ∈ pre, c ≠ '&') :
    invalidReference (pre ++ s) hd = invalidReference s hd := by
  induction pre with
  | nil => rfl
  | cons c r ih =>
    have hb : (c == '&') = false := by simpa using h c (by simp)
    simp only [List.cons_append, invalidReference, hb, Bool.false_eq_true, if_false]
    exact ih (fun d hd => h d (by simp [hd]))

/-- the step at an `&` that begins a reference -/
theorem step_ref {declared : Str → Prop} {hd : Bool} (ha : Agrees declared hd) (body tail : Str)
    (hb : RefBody declared body) :
    invalidReference ('&' :: (body ++ ';' :: tail)) hd = invalidReference tail hd := by
  have hch := refBody_chars hb
  have h1 := bodyUpToSemi_append body tail (fun c hc => (hch c hc).2)
  have h2 := (wellFormed_iff ha body).mpr hb
  simp only [invalidReference, beq_self_eq_true, if_true, h1, h2]
  have : body ++ ';' :: tail = (body ++ [';']) ++ tail := by simp
  rw [this]
  apply skip_no_amp
  intro c hc
  rcases List.mem_append.mp hc with hc | hc
  · exact (hch c hc).1
  · simp only [List.mem_singleton] at hc; subst hc; decide

/-! ## soundness and completeness -/

theorem sound_with {declared : Str → Prop} {hd : Bool} (ha : Agrees declared hd) :
    ∀ n (s : Str), s.length ≤ n → invalidReference s hd = none → RefsOkWith declared s := by
  intro n
  induction n with
  | zero =>
    intro s hl _
    cases s with
    | nil => exact .nil
    | cons c r => simp at hl
  | succ n ih =>
    intro s hl h
    cases s with
    | nil => exact .nil
    | cons c rest =>
      simp only [List.length_cons] at hl
      by_cases hc : c = '&'
      · subst hc
        simp only [invalidReference, beq_self_eq_true, if_true] at h
        cases hb : bodyUpToSemi rest with
        | none => simp [hb] at h
        | some body =>
          simp only [hb] at h
          by_cases hw : wellFormed body hd = true
          · obtain ⟨tail, rfl, _⟩ := bodyUpToSemi_some hb
            have hrb := (wellFormed_iff ha body).mp hw
            have ht : invalidReference tail hd = none := by
              rw [← step_ref ha body tail hrb]
              simp only [invalidReference, beq_self_eq_true, if_true, hb, hw]
              simpa [hw] using h
            have hr : Reference declared ('&' :: (body ++ [';'])) :=
              (reference_iff_body declared _).mpr ⟨body, rfl, hrb⟩
            have := RefsOkWith.ref _ tail hr (ih tail (by simp at hl; omega) ht)
            simpa using this
          · simp [hw] at h
      · have hb : (c == '&') = false := by simpa using hc
        simp only [invalidReference, hb, Bool.false_eq_true, if_false] at h
        exact .char c rest hc (ih rest (by omega) h)

theorem complete_with {declared : Str → Prop} {hd : Bool} (ha : Agrees declared hd) {s : Str}
    (h : RefsOkWith declared s) : invalidReference s hd = none := by
  induction h with
  | nil => rfl
  | char c s hc _ ih =>
    have hb : (c == '&') = false := by simpa using hc
    simp only [invalidReference, hb, Bool.false_eq_true, if_false]
    exact ih
  | ref r s hr _ ih =>
    obtain ⟨body, rfl, hb⟩ := (reference_iff_body declared r).mp hr
    have : '&' :: (body ++ [';']) ++ s = '&' :: (body ++ ';' :: s) := by simp
    rw [this, step_ref ha body s hb]
    exact ih

theorem agrees_predefined : Agrees Predefined false := by
  intro name _; simp

theorem agrees_doctype : Agrees (fun _ => True) true := by
  intro name _; simp

/-- the checker decides `RefsOkWith` whenever `declared` agrees with its entity test -/
theorem check_iff_with {declared : Str → Prop} {hd : Bool} (ha : Agrees declared hd) (s : Str) :
    invalidReference s hd = none ↔ RefsOkWith declared s :=
  ⟨sound_with ha s.length s (Nat.le_refl _), complete_with ha⟩

/-- (a) **soundness**: text the reader lets through has only references XML 1.0 allows without a DTD -/
theorem check_sound (s : Str) (h : invalidReference s false = none) : RefsOk s :=
  (check_iff_with agrees_predefined s).mp h

/-- (b) **completeness**: no text whose references are all allowed is refused -/
theorem check_complete (s : Str) (h : RefsOk s) : invalidReference s false = none :=
  (check_iff_with agrees_predefined s).mpr h

theorem check_iff (s : Str) : invalidReference s false = none ↔ RefsOk s :=
  check_iff_with agrees_predefined s

/-- (a), (b) after a DOCTYPE: exactly the texts in which every `&` begins a character reference or `&Name;` -/
theorem check_iff_doctype (s : Str) : invalidReference s true = none ↔ RefsOkDoctype s :=
  check_iff_with agrees_doctype s

/-- with a DOCTYPE, `&name;` is allowed for every `name` that `is_entity_name` accepts -/
theorem doctype_allows_name (name s : Str) (hn : isEntityName name = true)
    (hs : invalidReference s true = none) :
    invalidReference ('&' :: (name ++ ';' :: s)) true = none := by
  rw [step_ref agrees_doctype name s (Or.inr (Or.inr ⟨(isEntityName_iff name).mp hn, trivial⟩))]
  exact hs

/-- what passes without a DOCTYPE passes with one -/
theorem doctype_weaker (s : Str) (h : invalidReference s false = none) : invalidReference s true = none := by
  have h1 := check_sound s h
  apply (check_iff_doctype s).mpr
  clear h
  induction h1 with
  | nil => exact .nil
  | char c s hc _ ih => exact .char c s hc ih
  | ref r s hr _ ih =>
    refine .ref r s ?_ ih
    cases hr with
    | entity h =>
      cases h with
      | mk name hn _ => exact .entity _ (.mk name hn trivial)
    | char h => exact .char _ h

/-! ## position by position, and cutting at a delimiter -/

theorem reference_chars {declared : Str → Prop} {r : Str} (h : Reference declared r) :
    ∃ body, r = '&' :: (body ++ [';']) ∧ ∀ c ∈ body, c ≠ '&' ∧ c ≠ ';' := by
  obtain ⟨body, rfl, hb⟩ := (reference_iff_body declared r).mp h
  exact ⟨body, rfl, refBody_chars hb⟩

/-- **every `&` of an accepted text is the first character of a Reference**: whatever stands before it -/
theorem every_amp {declared : Str → Prop} {s : Str} (h : RefsOkWith declared s) :
    ∀ pre post, s = pre ++ '&' :: post → ∃ r tail, Reference declared r ∧ '&' :: post = r ++ tail := by
  induction h with
  | nil => intro pre post h; simp at h
  | char c s hc _ ih =>
    intro pre post h
    cases pre with
    | nil => simp only [List.nil_append, List.cons.injEq] at h; exact absurd h.1 hc
    | cons p pre' =>
      simp only [List.cons_append, List.cons.injEq] at h
      exact ih pre' post h.2
  | ref r s hr _ ih =>
    intro pre post h
    cases pre with
    | nil => exact ⟨r, s, hr, by simpa using h.symm⟩
    | cons p pre' =>
      obtain ⟨body, rfl, hch⟩ := reference_chars hr
      simp only [List.cons_append, List.cons.injEq] at h
      obtain ⟨_, h⟩ := h
      rcases List.append_eq_append_iff.mp h with ⟨a', rfl, hs⟩ | ⟨c', hbc, hp⟩
      · exact ih a' post hs
      · cases c' with
        | nil =>
          simp only [List.nil_append] at hp
          exact ih [] post (by simpa using hp.symm)
        | cons x c'' =>
          simp only [List.cons_append, List.cons.injEq] at hp
          have hmem : '&' ∈ body ++ [';'] := by rw [hbc, ← hp.1]; simp
          rcases List.mem_append.mp hmem with hm | hm
          · exact absurd rfl (hch '&' hm).1
          · simp at hm

theorem check_every_amp (s pre post : Str) (h : invalidReference s false = none) (hs : s = pre ++ '&' :: post) :
    ∃ r tail, Reference Predefined r ∧ '&' :: post = r ++ tail :=
  every_amp (check_sound s h) pre post hs

/-- a character that cannot stand inside a Reference (not `&`, `;`, `#`, not a name character - so in
    particular the quotes, `<`, `>`, `=`, `/` and white space) -/
def Outside (q : Char) : Prop := q ≠ '&' ∧ q ≠ ';' ∧ q ≠ '#' ∧ ¬ NameCode q.toNat

theorem refBody_not_outside {declared : Str → Prop} {body : Str} (h : RefBody declared body) {q : Char}
    (hq : Outside q) : q ∉ body := by
  have hex_name : ∀ c, IsHex c → NameCode c.toNat := by
    intro c hc; unfold IsHex IsDec at hc; unfold NameCode NameStartCode; omega
  have hx : NameCode 'x'.toNat := by decide
  intro hm
  rcases h with ⟨ds, rfl, _, h2, _⟩ | ⟨hs, rfl, _, h2, _⟩ | ⟨hn, _⟩
  · rcases List.mem_cons.mp hm with rfl | hm
    · exact hq.2.2.1 rfl
    · exact hq.2.2.2 (hex_name q (isDec_hex (h2 q hm)))
  · rcases List.mem_cons.mp hm with rfl | hm
    · exact hq.2.2.1 rfl
    rcases List.mem_cons.mp hm with rfl | hm
    · exact hq.2.2.2 hx
    · exact hq.2.2.2 (hex_name q (h2 q hm))
  · obtain ⟨c, r, h1, h2⟩ := hn
    rcases List.mem_cons.mp hm with rfl | hm
    · exact hq.2.2.2 (Or.inl h1)
    · exact hq.2.2.2 (h2 q hm)

/-- **cutting at a delimiter**: an accepted text cut at a character that cannot stand inside a Reference gives
    two accepted texts - so the value of an attribute, cut out between its quotes from a start tag that passed
    the check as a whole, passes on its own -/
theorem refsOk_split {declared : Str → Prop} {s : Str} (h : RefsOkWith declared s) :
    ∀ (a b : Str) (q : Char), Outside q → s = a ++ q :: b → RefsOkWith declared a ∧ RefsOkWith declared b := by
  induction h with
  | nil => intro a b q _ h; simp at h
  | char c s hc hs ih =>
    intro a b q hq h
    cases a with
    | nil =>
      simp only [List.nil_append, List.cons.injEq] at h
      exact ⟨.nil, h.2 ▸ hs⟩
    | cons p a' =>
      simp only [List.cons_append, List.cons.injEq] at h
      obtain ⟨h1, h2⟩ := ih a' b q hq h.2
      exact ⟨h.1 ▸ .char c a' hc h1, h2⟩
  | ref r s hr hs ih =>
    intro a b q hq h
    rcases List.append_eq_append_iff.mp h with ⟨a', rfl, hs'⟩ | ⟨c', hbc, hp⟩
    · obtain ⟨h1, h2⟩ := ih a' b q hq hs'
      exact ⟨.ref r a' hr h1, h2⟩
    · cases c' with
      | nil =>
        simp only [List.nil_append] at hp
        simp only [List.append_nil] at hbc
        obtain ⟨_, h2⟩ := ih [] b q hq (by simpa using hp.symm)
        exact ⟨hbc ▸ (by simpa using RefsOkWith.ref r [] hr .nil), h2⟩
      | cons x c'' =>
        simp only [List.cons_append, List.cons.injEq] at hp
        obtain ⟨body, rfl, hb⟩ := (reference_iff_body declared r).mp hr
        have hmem : q ∈ '&' :: (body ++ [';']) := by rw [hbc, hp.1]; simp
        rcases List.mem_cons.mp hmem with hm | hm
        · exact absurd hm hq.1
        rcases List.mem_append.mp hm with hm | hm
        · exact absurd hm (refBody_not_outside hb hq)
        · simp only [List.mem_singleton] at hm; exact absurd hm hq.2.1

/-- the attribute value between quotes `q`, cut out of checked text, passes the check -/
theorem check_between (a v b : Str) (q : Char) (hq : Outside q)
    (h : invalidReference (a ++ q :: (v ++ q :: b)) false = none) : invalidReference v false = none := by
  have h1 := (refsOk_split (check_sound _ h) a (v ++ q :: b) q hq rfl).2
  exact check_complete v (refsOk_split h1 v b q hq rfl).1

theorem outside_quotes : Outside '"' ∧ Outside '\'' ∧ Outside '<' ∧ Outside ' ' := by
  refine ⟨?_, ?_, ?_, ?_⟩ <;> exact ⟨by decide, by decide, by decide, by decide⟩

/-! ## the offending text -/

/-- (c) **what is reported**: the input is `pre ++ '&' :: rest`, and the text reported is either `&body;` for
    the text `body` up to the first `;` of `rest` (which is then not a reference), or - no `;` following - the
    `&` and the first 12 characters of `rest` -/
theorem offending_shape (s : Str) (hd : Bool) (r : Str) (h : invalidReference s hd = some r) :
    ∃ pre rest, s = pre ++ '&' :: rest ∧
      ((∃ body tail, rest = body ++ ';' :: tail ∧ (∀ c ∈ body, c ≠ ';') ∧ wellFormed body hd = false ∧
          r = '&' :: (body ++ [';'])) ∨
       ((∀ c ∈ rest, c ≠ ';') ∧ r = '&' :: rest.take 12)) := by
  induction s with
  | nil => simp [invalidReference] at h
  | cons c rest ih =>
    by_cases hc : c = '&'
    · subst hc
      simp only [invalidReference, beq_self_eq_true, if_true] at h
      cases hb : bodyUpToSemi rest with
      | none =>
        simp only [hb, Option.some.injEq] at h
        exact ⟨[], rest, rfl, Or.inr ⟨bodyUpToSemi_none hb, h.symm⟩⟩
      | some body =>
        simp only [hb] at h
        cases hw : wellFormed body hd with
        | true =>
          simp only [hw, if_true] at h
          obtain ⟨pre, rest', rfl, hcase⟩ := ih h
          exact ⟨'&' :: pre, rest', rfl, hcase⟩
        | false =>
          simp only [hw, Bool.false_eq_true, if_false, Option.some.injEq] at h
          obtain ⟨tail, rfl, hns⟩ := bodyUpToSemi_some hb
          exact ⟨[], _, rfl, Or.inl ⟨body, tail, rfl, hns, hw, h.symm⟩⟩
    · have hb : (c == '&') = false := by simpa using hc
      simp only [invalidReference, hb, Bool.false_eq_true, if_false] at h
      obtain ⟨pre, rest', rfl, hcase⟩ := ih h
      exact ⟨c :: pre, rest', rfl, hcase⟩

/-- (c) the reported text is a contiguous part of the input, begins with `&`, and ends with the first `;` after
    that `&` or is at most 13 characters long -/
theorem offending_infix (s : Str) (hd : Bool) (r : Str) (h : invalidReference s hd = some r) :
    r <:+: s ∧ r.head? = some '&' ∧ (r.getLast? = some ';' ∨ r.length ≤ 13) := by
  obtain ⟨pre, rest, rfl, ⟨body, tail, rfl, _, _, rfl⟩ | ⟨_, rfl⟩⟩ := offending_shape s hd r h
  · refine ⟨⟨pre, tail, by simp⟩, rfl, Or.inl ?_⟩
    rw [show '&' :: (body ++ [';']) = ('&' :: body) ++ [';'] from rfl, List.getLast?_concat]
  · refine ⟨⟨pre, rest.drop 12, ?_⟩, rfl, Or.inr ?_⟩
    · have := List.take_append_drop 12 rest
      simp only [List.append_assoc, List.cons_append, this]
    · simp only [List.length_cons, List.length_take]; omega

/-! ## the bridge to the independent recogniser `Svgdx.Xml.Spec` -/

theorem char_le_iff {a b : Char} : a ≤ b ↔ a.toNat ≤ b.toNat := by
  rw [Char.le_def, UInt32.le_iff_toNat_le]; rfl

theorem spec_isDigit_iff (c : Char) : Str.isDigit c = true ↔ IsDec c := by
  simp only [Str.isDigit, Bool.and_eq_true, decide_eq_true_eq, char_le_iff, IsDec]
  rfl

theorem spec_isHexDigit_iff (c : Char) : Spec.isHexDigit c = true ↔ IsHex c := by
  simp only [Spec.isHexDigit, Bool.or_eq_true, Bool.and_eq_true, decide_eq_true_eq, char_le_iff, IsHex,
    spec_isDigit_iff, or_assoc]
  rfl

theorem digitsSemi_run (p : Char → Bool) (ds tail : Str) (hne : ds ≠ []) (hall : ds.all p = true)
    (hsemi : p ';' = false) : Spec.digitsSemi p (ds ++ ';' :: tail) = true := by
  obtain ⟨h1, h2⟩ := takeWhile_stop p ds (';' :: tail) hall
    (by intro c r h; injection h with h _; subst h; exact hsemi)
  cases ds with
  | nil => exact absurd rfl hne
  | cons d ds' =>
    simp only [List.cons_append] at h1 h2 ⊢
    simp [Spec.digitsSemi, h1, h2, startsWith, stripPrefix]

/-- a reference the checker accepts completes a Reference for the recogniser -/
theorem startsRef_of_body (body tail : Str) (h : RefBody Predefined body) :
    Spec.startsRef (body ++ ';' :: tail) = true := by
  rcases h with ⟨ds, rfl, h1, h2, _⟩ | ⟨hs, rfl, h1, h2, _⟩ | ⟨_, hp⟩
  · have hd := digitsSemi_run Str.isDigit ds tail h1
      (by simp only [List.all_eq_true]; exact fun c hc => (spec_isDigit_iff c).mpr (h2 c hc)) (by decide)
    cases ds with
    | nil => exact absurd rfl h1
    | cons d ds' =>
      have hx : ('x' == d) = false := by
        have : d ≠ 'x' := by rintro rfl; exact absurd (h2 'x' (by simp)) (by decide)
        simpa using fun h => this h.symm
      simp only [List.cons_append] at hd ⊢
      simp [Spec.startsRef, stripPrefix, startsWith, hx, hd]
  · have hd := digitsSemi_run Spec.isHexDigit hs tail h1
      (by simp only [List.all_eq_true]; exact fun c hc => (spec_isHexDigit_iff c).mpr (h2 c hc)) (by decide)
    simp [Spec.startsRef, stripPrefix, startsWith, hd]
  · rcases hp with rfl | rfl | rfl | rfl | rfl <;> simp [Spec.startsRef, stripPrefix, startsWith]

/-- **bridge**: text that passes the reader's check (without DOCTYPE) satisfies the reference condition
    `Spec.refsOk` of the independent recogniser, the one `Spec.charDataOk` and `Spec.attValue` use -/
theorem spec_refsOk_of_check (s : Str) (h : invalidReference s false = none) : Spec.refsOk s = true := by
  induction s with
  | nil => rfl
  | cons c rest ih =>
    by_cases hc : c = '&'
    · subst hc
      simp only [invalidReference, beq_self_eq_true, if_true] at h
      cases hb : bodyUpToSemi rest with
      | none => simp [hb] at h
      | some body =>
        simp only [hb] at h
        cases hw : wellFormed body false with
        | false => simp [hw] at h
        | true =>
          simp only [hw, if_true] at h
          obtain ⟨tail, rfl, _⟩ := bodyUpToSemi_some hb
          have hs := startsRef_of_body body tail ((wellFormed_iff agrees_predefined body).mp hw)
          simp [Spec.refsOk, hs, ih h]
    · have hb : (c == '&') = false := by simpa using hc
      simp only [invalidReference, hb, Bool.false_eq_true, if_false] at h
      have hb' : (c != '&') = true := by simpa using hc
      simp [Spec.refsOk, hb', ih h]

/-- [14] CharData as the recogniser asks it of a run of text: the reader's check gives the reference part; that
    `]]>` does not occur is NOT checked by `invalid_reference` and stays a hypothesis -/
theorem charDataOk_of_check (t : Str) (h : invalidReference t false = none) (hcd : Spec.noCDEnd t = true) :
    Spec.charDataOk t = true := by
  simp [Spec.charDataOk, spec_refsOk_of_check t h, hcd]

/-- in the shape of `Svgdx.Xml.acc_text`: a run of raw text that passed the check may stand before accepted
    content -/
theorem acc_raw_text (stk : List Str) (t rest : Str) (hne : t ≠ []) (ht : ∀ c ∈ t, c ≠ '<')
    (h : invalidReference t false = none) (hcd : Spec.noCDEnd t = true)
    (hr : Xml.StartsLt rest) (hacc : Xml.Acc stk rest) : Xml.Acc stk (t ++ rest) :=
  Xml.acc_text stk t rest hne ht (charDataOk_of_check t h hcd) hr hacc

/-- [10] AttValue: a raw attribute value that passed the check, without its quote character and without `<`,
    is accepted between the quotes -/
theorem attValue_of_check (q : Char) (v rest : Str) (hq : ∀ c ∈ v, c ≠ q) (hlt : ∀ c ∈ v, c ≠ '<')
    (h : invalidReference v false = none) : Spec.attValue q (v ++ q :: rest) = some rest := by
  have hq' : v.all (· != q) = true := by
    simp only [List.all_eq_true, bne_iff_ne, ne_eq]; exact hq
  obtain ⟨h1, h2⟩ := takeWhile_stop (· != q) v (q :: rest) hq'
    (by intro c r h; injection h with h _; subst h; simp)
  have hl : v.all (· != '<') = true := by
    simp only [List.all_eq_true, bne_iff_ne, ne_eq]; exact hlt
  simp only [Spec.attValue, h1, h2, hl, spec_refsOk_of_check v h, Bool.and_self, if_true]

/-- the converse of the bridge fails, because the recogniser (as its header says) does not look at the VALUE
    of a character reference: instance -/
theorem spec_weaker_instance :
    Spec.refsOk cs!"&#0;" = true ∧ invalidReference cs!"&#0;" false = some cs!"&#0;" := by
  decide +kernel

/-! ## the whole per-event check of the reader (`readerAccepts`) -/

theorem containsSub_cdend (s : Str) : containsSub cs!"]]>" s = false ↔ Spec.noCDEnd s = true := by
  induction s with
  | nil => simp [containsSub, Spec.noCDEnd]
  | cons c r ih =>
    simp only [containsSub, Spec.noCDEnd, Bool.or_eq_false_iff, Bool.and_eq_true, Bool.not_eq_true', ih]

theorem containsSub_lt (s : Str) : containsSub cs!"<" s = false ↔ ∀ c ∈ s, c ≠ '<' := by
  induction s with
  | nil => simp [containsSub]
  | cons c r ih =>
    have hs : startsWith cs!"<" (c :: r) = ('<' == c) := by
      by_cases h : '<' = c
      · subst h; simp [startsWith, stripPrefix]
      · have : ('<' == c) = false := by simpa using h
        simp [startsWith, stripPrefix, this]
    simp only [containsSub, hs, Bool.or_eq_false_iff, ih, List.mem_cons, forall_eq_or_imp, beq_eq_false_iff_ne,
      ne_eq]
    constructor
    · rintro ⟨h1, h2⟩; exact ⟨fun h => h1 h.symm, h2⟩
    · rintro ⟨h1, h2⟩; exact ⟨fun h => h1 h.symm, h2⟩

theorem readerAccepts_iff (isText : Bool) (s : Str) (hd : Bool) :
    readerAccepts isText s hd = true ↔
      invalidReference s hd = none ∧ containsSub (if isText then cs!"]]>" else cs!"<") s = false := by
  unfold readerAccepts
  cases invalidReference s hd with
  | none => simp
  | some r => simp

/-- **a Text event the reader accepts (no DOCTYPE) is exactly**: every `&` begins a Reference XML allows
    without a DTD, and `]]>` does not occur -/
theorem reader_text_iff (s : Str) :
    readerAccepts true s false = true ↔ RefsOk s ∧ Spec.noCDEnd s = true := by
  rw [readerAccepts_iff]; simp only [if_true, check_iff, containsSub_cdend]

/-- **a Start / Empty event the reader accepts (no DOCTYPE) is exactly**: every `&` begins a Reference XML
    allows without a DTD, and `<` does not occur -/
theorem reader_tag_iff (s : Str) :
    readerAccepts false s false = true ↔ RefsOk s ∧ ∀ c ∈ s, c ≠ '<' := by
  rw [readerAccepts_iff]; simp only [Bool.false_eq_true, if_false, check_iff, containsSub_lt]

/-- the same after a DOCTYPE, with every Name allowed as an entity name -/
theorem reader_text_iff_doctype (s : Str) :
    readerAccepts true s true = true ↔ RefsOkDoctype s ∧ Spec.noCDEnd s = true := by
  rw [readerAccepts_iff]; simp only [if_true, check_iff_doctype, containsSub_cdend]

theorem reader_tag_iff_doctype (s : Str) :
    readerAccepts false s true = true ↔ RefsOkDoctype s ∧ ∀ c ∈ s, c ≠ '<' := by
  rw [readerAccepts_iff]; simp only [Bool.false_eq_true, if_false, check_iff_doctype, containsSub_lt]

/-- **bridge, no hypothesis left**: the text of a Text event the reader accepted satisfies the recogniser's
    condition on a run of character data and references ([14] + [67]: `Spec.charDataOk`) -/
theorem charData_of_reader (s : Str) (h : readerAccepts true s false = true) : Spec.charDataOk s = true := by
  obtain ⟨h1, h2⟩ := (readerAccepts_iff true s false).mp h
  exact charDataOk_of_check s h1 ((containsSub_cdend s).mp (by simpa using h2))

/-- in the shape of `Svgdx.Xml.acc_text`. The text of a Text event has no `<` because quick-xml ends the event
    there; `from_reader` does not test it again, so it is a hypothesis here -/
theorem acc_reader_text (stk : List Str) (t rest : Str) (hne : t ≠ []) (ht : ∀ c ∈ t, c ≠ '<')
    (h : readerAccepts true t false = true) (hr : Xml.StartsLt rest) (hacc : Xml.Acc stk rest) :
    Xml.Acc stk (t ++ rest) :=
  Xml.acc_text stk t rest hne ht (charData_of_reader t h) hr hacc

/-- **attribute values of an accepted tag**: `tag` is the content of a Start / Empty event the reader accepted,
    `q` is `"` or `'`, and `v` stands in it between two `q`. What remains as a hypothesis is only that `v` is THE
    value those quotes delimit, i.e. holds no `q` itself (quick-xml's attribute scanner ends the value at the
    first `q`; it is also what `Spec.attValue` means by the closing quote). Then [10] AttValue holds: the
    recogniser reads `v`, then the closing quote, and goes on with what follows -/
theorem attValue_of_reader (a v b : Str) (q : Char) (hq : q = '"' ∨ q = '\'') (hv : ∀ c ∈ v, c ≠ q)
    (h : readerAccepts false (a ++ q :: (v ++ q :: b)) false = true) :
    Spec.attValue q (v ++ q :: b) = some b := by
  obtain ⟨h1, h2⟩ := (readerAccepts_iff false _ false).mp h
  have hlt := (containsSub_lt _).mp (by simpa using h2)
  have hout : Outside q := by
    rcases hq with rfl | rfl
    · exact outside_quotes.1
    · exact outside_quotes.2.1
  exact attValue_of_check q v b hv (fun c hc => hlt c (by simp [hc])) (check_between a v b q hout h1)

/-- the value on its own would pass the reader's test for a tag -/
theorem value_of_reader (a v b : Str) (q : Char) (hq : q = '"' ∨ q = '\'')
    (h : readerAccepts false (a ++ q :: (v ++ q :: b)) false = true) : readerAccepts false v false = true := by
  obtain ⟨h1, h2⟩ := (reader_tag_iff _).mp h
  have hout : Outside q := by
    rcases hq with rfl | rfl
    · exact outside_quotes.1
    · exact outside_quotes.2.1
  exact (reader_tag_iff v).mpr
    ⟨(refsOk_split (refsOk_split h1 a _ q hout rfl).2 v b q hout rfl).1, fun c hc => h2 c (by simp [hc])⟩

/-- **completeness for [14] CharData proper** (no `&`, no `<` asked, no `]]>`): never refused, DOCTYPE or not -/
theorem reader_accepts_charData (s : Str) (hd : Bool) (hamp : ∀ c ∈ s, c ≠ '&') (hcd : Spec.noCDEnd s = true) :
    readerAccepts true s hd = true := by
  apply (readerAccepts_iff true s hd).mpr
  refine ⟨?_, by simpa using (containsSub_cdend s).mpr hcd⟩
  have := skip_no_amp s [] hd hamp
  simpa [invalidReference] using this

/-- **completeness with references**: text made of References XML allows and of other characters, without
    `]]>`, is accepted (this is `reader_text_iff`, right to left) -/
theorem reader_accepts_refs (s : Str) (h : RefsOk s) (hcd : Spec.noCDEnd s = true) :
    readerAccepts true s false = true := (reader_text_iff s).mpr ⟨h, hcd⟩

/-- completeness CANNOT be stated from `Spec.charDataOk` alone: the recogniser (see its header) does not apply
    WFC Legal Character to the value of a character reference, the reader does. Instances: `&#0;`, a surrogate -/
theorem charDataOk_not_enough_instance :
    Spec.charDataOk cs!"&#0;" = true ∧ readerAccepts true cs!"&#0;" false = false ∧
    Spec.charDataOk cs!"&#xD800;" = true ∧ readerAccepts true cs!"&#xD800;" false = false := by
  decide +kernel

/-- instances of the two stray tests (the two inputs that were copied as written before the repair) -/
theorem inst_text_cdend : readerAccepts true cs!"a ]]> b" false = false := by decide +kernel
theorem inst_tag_lt :
    readerAccepts false cs!"rect x=\"<\" y=\"1\" width=\"1\" height=\"1\"" false = false := by decide +kernel
theorem inst_tag_ok :
    readerAccepts false cs!"rect x=\"&lt;\" y=\"]]>\"" false = true := by decide +kernel
theorem inst_text_gt_ok : readerAccepts true cs!"a ]] > b &gt; ]]" false = true := by decide +kernel

/-! ## worked instances (each is ONE input, not a general statement) -/

/-- instances: refused, with the text that is reported -/
theorem inst_bare_amp : invalidReference cs!"a & b" false = some cs!"& b" := by decide +kernel
theorem inst_no_semicolon : invalidReference cs!"&amp" false = some cs!"&amp" := by decide +kernel
theorem inst_twelve :
    invalidReference cs!"x & no semicolon here at all" false = some cs!"& no semicolo" := by decide +kernel
theorem inst_dec_plus : invalidReference cs!"&#+65;" false = some cs!"&#+65;" := by decide +kernel
theorem inst_hex_plus : invalidReference cs!"&#x+41;" false = some cs!"&#x+41;" := by decide +kernel
theorem inst_hex_empty : invalidReference cs!"&#x;" false = some cs!"&#x;" := by decide +kernel
theorem inst_dec_empty : invalidReference cs!"&#;" false = some cs!"&#;" := by decide +kernel
theorem inst_surrogate : invalidReference cs!"&#xD800;" false = some cs!"&#xD800;" := by decide +kernel
theorem inst_above_range : invalidReference cs!"&#x110000;" false = some cs!"&#x110000;" := by decide +kernel
/-- 4294967361 = 2^32 + 65: a wrapping parse would have read `A` -/
theorem inst_u32_overflow : invalidReference cs!"&#4294967361;" false = some cs!"&#4294967361;" := by
  decide +kernel
theorem inst_upper_x : invalidReference cs!"&#X41;" false = some cs!"&#X41;" := by decide +kernel

/-- instances: accepted -/
theorem inst_leading_zeros : invalidReference cs!"&#0065;" false = none := by decide +kernel
theorem inst_last_char : invalidReference cs!"&#x10FFFF;" false = none := by decide +kernel
theorem inst_three_refs : invalidReference cs!"&lt;&#x41;&quot;" false = none := by decide +kernel

/-- instances: an entity only a DTD could declare -/
theorem inst_foo_no_doctype : invalidReference cs!"&foo;" false = some cs!"&foo;" := by decide +kernel
theorem inst_foo_doctype : invalidReference cs!"&foo;" true = none := by decide +kernel
/-- instance: a DOCTYPE does not excuse what is not a Name -/
theorem inst_not_name_doctype : invalidReference cs!"&1a;" true = some cs!"&1a;" := by decide +kernel

end Svgdx.Props.C02Ref
