/-
  Svgdx.Proofs.ExprInv — what every SUCCESSFUL run of the evaluator has consumed, for arbitrary token
  strings (not only printed trees): a prefix with balanced parentheses in which every name is a known
  function or operator, every variable could be evaluated and every element reference resolved.
  Contrapositive: unbalanced parentheses, an unknown function, an undefined or circular variable make
  the evaluation fail.
-/
import Svgdx.Expr.Spec
namespace Svgdx
namespace Expr
open Str

section
variable {α σ : Type}

/-- `(` counts +1, `)` counts −1 -/
def bal : List (Token α) → Int
  | [] => 0
  | .openParen :: r => bal r + 1
  | .closeParen :: r => bal r - 1
  | _ :: r => bal r

theorem bal_append (a b : List (Token α)) : bal (a ++ b) = bal a + bal b := by
  induction a with
  | nil => simp [bal]
  | cons t r ih => cases t <;> simp [bal, ih] <;> omega

variable (lk : Lookup α σ) (elref : Str → Res α)

/-- a token the evaluator can get past -/
def GoodTok : Token α → Prop
  | .symbol s => (∃ f, parseFunction s = .known f) ∨ (parseCmpOp s).isSome ∨ (parseLogOp s).isSome
  | .var v => ∃ ck st r, lk v ck st = .ok r
  | .elref v => ∃ x, elref v = .ok x
  | _ => True

/-- `ts'` is what is left of `ts` after consuming a balanced prefix of good tokens -/
def Pre (ts ts' : List (Token α)) : Prop :=
  ∃ pre, ts = pre ++ ts' ∧ bal pre = 0 ∧ ∀ t ∈ pre, GoodTok lk elref t

theorem Pre.refl (ts : List (Token α)) : Pre lk elref ts ts := ⟨[], by simp, by simp [bal], by simp⟩

theorem Pre.trans {a b c : List (Token α)} (h1 : Pre lk elref a b) (h2 : Pre lk elref b c) :
    Pre lk elref a c := by
  obtain ⟨p1, rfl, hb1, hg1⟩ := h1
  obtain ⟨p2, rfl, hb2, hg2⟩ := h2
  refine ⟨p1 ++ p2, by simp, by simp [bal_append, hb1, hb2], ?_⟩
  intro t ht
  rcases List.mem_append.mp ht with h | h
  · exact hg1 t h
  · exact hg2 t h

/-- one good token that is not a parenthesis -/
theorem Pre.cons {t : Token α} {a b : List (Token α)} (hg : GoodTok lk elref t)
    (hb : bal [t] = 0) (h : Pre lk elref a b) : Pre lk elref (t :: a) b := by
  obtain ⟨p, rfl, hbp, hgp⟩ := h
  refine ⟨t :: p, by simp, ?_, ?_⟩
  · have := bal_append [t] p
    simp at this
    omega
  · intro x hx
    rcases List.mem_cons.mp hx with rfl | h
    · exact hg
    · exact hgp x h

/-- `( … )` around a consumed stretch -/
theorem Pre.paren {a b : List (Token α)} (h : Pre lk elref a (.closeParen :: b)) :
    Pre lk elref (.openParen :: a) b := by
  obtain ⟨p, rfl, hbp, hgp⟩ := h
  refine ⟨.openParen :: (p ++ [.closeParen]), by simp, ?_, ?_⟩
  · simp [bal, bal_append, hbp]
  · intro x hx
    rcases List.mem_cons.mp hx with rfl | h
    · trivial
    · rcases List.mem_append.mp h with h | h
      · exact hgp x h
      · simp at h; subst h; trivial

/-- the result of a parser function respects the invariant -/
def Inv {β : Type} (ts : List (Token α)) (r : Res (β × List (Token α) × σ)) : Prop :=
  ∀ v ts' st', r = .ok (v, ts', st') → Pre lk elref ts ts'

theorem Inv.error {β : Type} (ts : List (Token α)) (e : Err) :
    Inv lk elref (β := β) ts (.error e) := by
  intro v ts' st' h; cases h

theorem Inv.ok {β : Type} {ts ts' : List (Token α)} (v : β) (st : σ) (h : Pre lk elref ts ts') :
    Inv lk elref ts (.ok (v, ts', st)) := by
  intro v' ts'' st' heq
  cases heq
  exact h

end
end Expr
end Svgdx
