/-
  Svgdx.Proofs.ElemName — the geometry layer never turns an element into one called `config`:
  almost every function that transforms an `Elem` preserves `.name`; the two exceptions are the connector
  (`line` / `polyline`, the name of the freshly built element) and `reuseInstance` (a `symbol` becomes `g`).
-/
import Svgdx.Proofs.Balanced
namespace Svgdx.Ctl
open Svgdx

variable {ρ : Type}

/-! ### Attrs.lean -/

@[simp] theorem popAttr_name (e : Elem) (k : Str) : (e.popAttr k).1.name = e.name := rfl

@[simp] theorem removeAttrs_name (e : Elem) (ks : List Str) : (e.removeAttrs ks).name = e.name := rfl

@[simp] theorem addClass_name (e : Elem) (c : Str) : (e.addClass c).name = e.name := rfl

@[simp] theorem setDefaultAttr_name (e : Elem) (k v : Str) : (e.setDefaultAttr k v).name = e.name := by
  unfold Elem.setDefaultAttr
  split <;> rfl

@[simp] theorem withoutAttr_name (e : Elem) (k : Str) : (e.withoutAttr k).name = e.name := rfl

@[simp] theorem withAttrsFrom_name (a b : Elem) : (a.withAttrsFrom b).name = a.name := rfl

/-- `popAttr` in the destructured form the definitions use -/
theorem popAttr_eq_name {e e' : Elem} {k : Str} {o : Option Str} (h : e.popAttr k = (e', o)) : e'.name = e.name := by
  have := popAttr_name e k
  rw [h] at this
  exact this

/-! ### Resolve.lean: the pure steps -/

@[simp] theorem positionFromBBox_name (e : Elem) (b : Gen.BoundingBox) (i : Bool) :
    (e.positionFromBBox b i).name = e.name := by
  unfold Elem.positionFromBBox
  dsimp only
  (repeat' split) <;> simp only [setAttr_name]

@[simp] theorem expandPair_name (e : Elem) (k k1 k2 : Str) : (e.expandPair k k1 k2).name = e.name := by
  unfold Elem.expandPair
  split
  · rename_i e' v h
    have := popAttr_eq_name h
    exact this
  · rfl

@[simp] theorem expandCompoundSize_name (e : Elem) : e.expandCompoundSize.name = e.name := by
  unfold Elem.expandCompoundSize
  dsimp only
  simp only [expandPair_name]

@[simp] theorem expandCompoundPos_name (e : Elem) : e.expandCompoundPos.name = e.name := by
  unfold Elem.expandCompoundPos
  dsimp only
  rw [popAttr_name]
  simp only [expandPair_name]
  split
  · rename_i e' v h
    have := popAttr_eq_name h
    exact this
  · rfl

@[simp] theorem resolveSizeDelta_name (e : Elem) : e.resolveSizeDelta.name = e.name := by
  unfold Elem.resolveSizeDelta
  dsimp only
  split
  · rename_i e' dh h
    have h2 := popAttr_eq_name h
    have h3 : e'.name = e.name := by
      rw [h2]
      split
      · rename_i e'' dw h'
        have := popAttr_eq_name h'
        split <;> simp only [setAttr_name, this]
      · rfl
    split <;> simp only [setAttr_name, h3]
  · split
    · rename_i e'' dw h'
      have := popAttr_eq_name h'
      split <;> simp only [setAttr_name, this]
    · rfl

@[simp] theorem positionViaTransform_name (p : Gen.Position) (e : Elem) :
    (Elem.positionViaTransform p e).name = e.name := by
  unfold Elem.positionViaTransform
  dsimp only
  split <;> simp only [removeAttrs_name, setAttr_name]

@[simp] theorem lineCoord_name (e : Elem) (k : Str) (v : Rat) (d : Option Rat) :
    (e.lineCoord k v d).name = e.name := by
  unfold Elem.lineCoord
  (repeat' split) <;> simp only [setAttr_name]

@[simp] theorem setPositionAttrs_name (p : Gen.Position) (e : Elem) : (Elem.setPositionAttrs p e).name = e.name := by
  unfold Elem.setPositionAttrs
  dsimp only
  (repeat' split) <;> simp only [removeAttrs_name, setAttr_name, lineCoord_name, positionViaTransform_name]

/-! ### Resolve.lean: the `Except` steps -/

theorem handleContainment_name (c : Ctx) (e e' : Elem) (h : e.handleContainment c = .ok e') : e'.name = e.name := by
  unfold Elem.handleContainment at h
  split at h
  · cases h
  · cases h; rfl
  · simp only [bind, Except.bind, pure, Except.pure] at h
    split at h
    · cases h
    · split at h
      · cases h
      · cases h
        simp only [removeAttrs_name, addClass_name]
        split <;> simp only [positionFromBBox_name]

theorem evalRelAttributes_name (c : Ctx) (e e' : Elem) (h : e.evalRelAttributes c = .ok e') : e'.name = e.name := by
  unfold Elem.evalRelAttributes at h
  refine foldlM_except_inv (fun (a : Elem) => a.name = e.name) _ ?_ _ _ _ rfl h
  intro a b a' ha hab
  simp only [bind, Except.bind, pure, Except.pure] at hab
  split at hab
  · split at hab
    · cases hab
    · cases hab
      split <;> simp only [setAttr_name, ha]
  · split at hab
    · split at hab
      · cases hab
      · cases hab
        split <;> simp only [setAttr_name, ha]
    · cases hab; exact ha

theorem evalTextAnchor_name (c : Ctx) (e e' : Elem) (h : e.evalTextAnchor c = .ok e') : e'.name = e.name := by
  unfold Elem.evalTextAnchor at h
  split at h
  · cases h; rfl
  · simp only [bind, Except.bind, pure, Except.pure] at h
    split at h
    · cases h
    · simp only [throw, throwThe, MonadExceptOf.throw] at h
      (repeat' split at h) <;> cases h <;> simp only [setDefaultAttr_name]

theorem placeAt_name (c : Ctx) (e e' : Elem) (x y : Rat) (h : e.placeAt c x y = .ok e') : e'.name = e.name := by
  unfold Elem.placeAt at h
  simp only [bind, Except.bind, pure, Except.pure] at h
  (repeat' split at h) <;> cases h <;> simp only [setAttr_name]

theorem evalRelPosition_name (c : Ctx) (e e' : Elem) (h : e.evalRelPosition c = .ok e') : e'.name = e.name := by
  unfold Elem.evalRelPosition at h
  split at h
  · cases h; rfl
  · simp only [bind, Except.bind, pure, Except.pure, throw, throwThe, MonadExceptOf.throw] at h
    split at h
    · cases h
    · split at h
      · cases h; rfl
      · split at h
        · cases h
        · split at h
          · split at h
            · cases h
            · split at h
              · cases h
              · split at h
                · cases h
                · exact (placeAt_name _ _ _ _ _ h).trans (popAttr_name _ _)
          · cases h; rfl

theorem useWriteBack_name (e e' : Elem) (o : Option (Rat × Rat)) (h : Elem.useWriteBack e o = .ok e') :
    e'.name = e.name := by
  unfold Elem.useWriteBack at h
  split at h
  · cases h; rfl
  · simp only [bind, Except.bind, pure, Except.pure] at h
    split at h
    · cases h
    · rename_i e1 h1
      have hn : e1.name = e.name := by
        split at h1
        · split at h1
          · cases h1
          · cases h1; rfl
        · cases h1; rfl
      split at h
      · split at h
        · cases h
        · cases h; exact hn
      · cases h; exact hn

/-- the `points` step of `resolve_position` (named so that the `do` block can be unfolded without inlining it) -/
def ptsStep (c : Ctx) (e : Elem) : Elem :=
  if e.name == cs!"polyline" || e.name == cs!"polygon" then
    match e.getAttr cs!"points" with
    | some pts => e.setAttr cs!"points" (Elem.expandRelspec c pts)
    | none => e
  else e

/-- the `d` step of `resolve_position` -/
def pathStep (c : Ctx) (e : Elem) : Elem :=
  if e.name == cs!"path" then
    match e.getAttr ['d'] with
    | some d => e.setAttr ['d'] (Elem.expandRelspec c d)
    | none => e
  else e

@[simp] theorem ptsStep_name (c : Ctx) (e : Elem) : (ptsStep c e).name = e.name := by
  unfold ptsStep
  (repeat' split) <;> simp only [setAttr_name]

@[simp] theorem pathStep_name (c : Ctx) (e : Elem) : (pathStep c e).name = e.name := by
  unfold pathStep
  (repeat' split) <;> simp only [setAttr_name]

theorem resolvePosition_eq (c : Ctx) (e : Elem) : e.resolvePosition c =
    (e.handleContainment c >>= fun e1 =>
     e1.expandCompoundSize.evalRelAttributes c >>= fun e2 =>
     (if e2.resolveSizeDelta.name == cs!"text" && e2.resolveSizeDelta.hasAttr cs!"text"
        then e2.resolveSizeDelta.evalTextAnchor c else pure e2.resolveSizeDelta) >>= fun e3 =>
     e3.evalRelPosition c >>= fun e4 =>
     e4.expandCompoundPos.evalRelAttributes c >>= fun e5 =>
     Elem.usePosition c (pathStep c (ptsStep c e5)) (pathStep c (ptsStep c e5)).toPosition >>= fun po =>
     Elem.useWriteBack (Elem.setPositionAttrs po.1 (pathStep c (ptsStep c e5))) po.2) := rfl

theorem resolvePosition_name (c : Ctx) (e e' : Elem) (h : e.resolvePosition c = .ok e') : e'.name = e.name := by
  rw [resolvePosition_eq] at h
  simp only [bind, Except.bind, pure, Except.pure] at h
  split at h
  · cases h
  · rename_i e1 h1
    split at h
    · cases h
    · rename_i e2 h2
      split at h
      · cases h
      · rename_i e3 h3
        split at h
        · cases h
        · rename_i e4 h4
          split at h
          · cases h
          · rename_i e5 h5
            split at h
            · cases h
            · rename_i po hpo
              have n1 := handleContainment_name _ _ _ h1
              have n2 := evalRelAttributes_name _ _ _ h2
              have n3 : e3.name = e2.name := by
                split at h3
                · exact (evalTextAnchor_name _ _ _ h3).trans (resolveSizeDelta_name _)
                · cases h3; exact resolveSizeDelta_name _
              have n4 := evalRelPosition_name _ _ _ h4
              have n5 := evalRelAttributes_name _ _ _ h5
              have n6 := useWriteBack_name _ _ _ h
              simp only [setPositionAttrs_name, pathStep_name, ptsStep_name, expandCompoundPos_name,
                expandCompoundSize_name] at n6 n5 n2
              rw [n6, n5, n4, n3, n2, n1]

/-! ### transmute -/

theorem translated_name (e e' : Elem) (dx dy : Rat) (h : e.translated dx dy = .ok e') : e'.name = e.name := by
  unfold Elem.translated at h
  refine foldlM_except_inv (fun (a : Elem) => a.name = e.name) _ ?_ _ _ _ rfl h
  intro a b a' ha hab
  simp only [bind, Except.bind, pure, Except.pure] at hab
  (repeat' split at hab) <;> cases hab <;> simp only [setAttr_name, ha]

theorem transmuteDxDy_name (e e' : Elem) (h : e.transmuteDxDy = .ok e') : e'.name = e.name := by
  unfold Elem.transmuteDxDy at h
  split at h
  · cases h; rfl
  · simp only [bind, Except.bind, pure, Except.pure] at h
    split at h
    · cases h
    · split at h
      · cases h
      · split at h
        · exact translated_name _ _ _ _ h |>.trans rfl
        · cases h; rfl

/-! ### Connector.lean -/

theorem fromElement_source (c : Ctx) (e : Elem) (ct : ConnType) (k : Conn.Connector)
    (h : Conn.fromElement c e ct = .ok k) : k.source.name = e.name := by
  unfold Conn.fromElement at h
  simp only [bind, Except.bind, pure, Except.pure, throw, throwThe, MonadExceptOf.throw] at h
  (repeat' split at h) <;> cases h <;> rfl

@[simp] theorem lineElem_name (x1 y1 x2 y2 : Rat) (src : Elem) : (Conn.lineElem x1 y1 x2 y2 src).name = cs!"line" := by
  unfold Conn.lineElem
  rw [withAttrsFrom_name, new_name]

/-- a rendered connector is a NEW element called `line` or `polyline` (the source only lends its attributes) -/
theorem render_name (c : Ctx) (k : Conn.Connector) (r : Elem) (h : Conn.render c k = .ok r) :
    r.name = cs!"line" ∨ r.name = cs!"polyline" := by
  unfold Conn.render at h
  simp only [bind, Except.bind, pure, Except.pure] at h
  split at h
  · split at h
    · cases h
    · cases h; exact Or.inl (lineElem_name _ _ _ _ _)
  · split at h
    · cases h
    · cases h; exact Or.inl (lineElem_name _ _ _ _ _)
  · cases h; exact Or.inl (lineElem_name _ _ _ _ _)
  · split at h
    · cases h
    · split at h
      · cases h; exact Or.inl (lineElem_name _ _ _ _ _)
      · cases h; exact Or.inr (by rw [withAttrsFrom_name, new_name])

theorem connBody_name (c : Ctx) (e e' : Elem) (ct : ConnType)
    (h : (match Conn.fromElement c e ct with
      | .ok k => (Conn.render c k).map fun r => r.withoutAttr cs!"edge-type"
      | .error _ => .error .invalidData) = Except.ok e') :
    e'.name = cs!"line" ∨ e'.name = cs!"polyline" := by
  split at h
  · rename_i k hk
    simp only [Except.map] at h
    split at h
    · cases h
    · rename_i r hr
      cases h
      rw [withoutAttr_name]
      exact render_name _ _ _ hr
  · cases h

theorem transmuteConnector_name (c : Ctx) (e e' : Elem) (h : Conn.transmuteConnector c e = .ok e') :
    e'.name = e.name ∨ e'.name = cs!"line" ∨ e'.name = cs!"polyline" := by
  unfold Conn.transmuteConnector at h
  split at h
  · exact Or.inr (connBody_name c e e' _ h)
  · cases h; exact Or.inl rfl

theorem transmuteConnector_nc (c : Ctx) (e e' : Elem) (h : Conn.transmuteConnector c e = .ok e')
    (hn : e.name ≠ cs!"config") : e'.name ≠ cs!"config" := by
  rcases transmuteConnector_name c e e' h with h1 | h1 | h1 <;> rw [h1]
  · exact hn
  · decide
  · decide

/-! ### Ctl.Gen: the pipeline of `OtherElement` -/

theorem otherPipeline_name (ev : Evalr ρ) (st : St ρ) (e e' : Elem) (rng : ρ)
    (h : otherPipeline ev st e = .ok (e', rng)) :
    e'.name = e.name ∨ e'.name = cs!"line" ∨ e'.name = cs!"polyline" := by
  unfold otherPipeline at h
  simp only [bind, Except.bind, pure, Except.pure] at h
  split at h
  · cases h
  · rename_i p1 h1
    split at h
    · cases h
    · rename_i e2 h2
      split at h
      · cases h
      · rename_i e3 h3
        split at h
        · cases h
        · rename_i e4 h4
          split at h
          · cases h
          · rename_i p5 h5
            split at h
            · cases h
            · rename_i e6 h6
              cases h
              have n1 := evalAttributes_name ev st e p1.1 p1.2 h1
              have n2 := resolvePosition_name _ _ _ h2
              have n3 := transmuteConnector_name _ _ _ h3
              have n4 := transmuteDxDy_name _ _ h4
              have n5 := evalAttributes_name ev _ e4 p5.1 p5.2 h5
              have n6 := resolvePosition_name _ _ _ h6
              rw [n6, n5, n4]
              rw [n2, n1] at n3
              exact n3

theorem otherPipeline_nc (ev : Evalr ρ) (st : St ρ) (e e' : Elem) (rng : ρ)
    (h : otherPipeline ev st e = .ok (e', rng)) (hn : e.name ≠ cs!"config") : e'.name ≠ cs!"config" := by
  rcases otherPipeline_name ev st e e' rng h with h1 | h1 | h1 <;> rw [h1]
  · exact hn
  · decide
  · decide

/-! ### Ctl.Gen: `reuse` -/

@[simp] theorem reuseOverride_name (re inst : Elem) : (reuseOverride re inst).name = inst.name := by
  unfold reuseOverride
  apply foldl_name
  intro a b
  (repeat' split) <;> simp only [setAttr_name]

theorem foldl_addClass_name (cl : List Str) (e : Elem) :
    (cl.foldl (fun (a : Elem) c => a.addClass c) e).name = e.name :=
  foldl_name (fun (a : Elem) c => a.addClass c) (fun _ _ => rfl) cl e

@[simp] theorem reuseDress_name (re inst : Elem) : (reuseDress re inst).name = inst.name := by
  unfold reuseDress
  dsimp only
  split <;> simp only [addClass_name, foldl_addClass_name] <;> split <;> split <;>
    simp only [setAttr_name, popAttr_name]

theorem reuseInstance_name (re inst : Elem) :
    (reuseInstance re inst).name = inst.name ∨ (reuseInstance re inst).name = ['g'] := by
  unfold reuseInstance
  dsimp only
  split
  · exact Or.inr (by rw [withAttrsFrom_name, new_name])
  · exact Or.inl (by rw [reuseDress_name, reuseOverride_name])

theorem reuseInstance_nc (re inst : Elem) (hn : inst.name ≠ cs!"config") :
    (reuseInstance re inst).name ≠ cs!"config" := by
  rcases reuseInstance_name re inst with h1 | h1 <;> rw [h1]
  · exact hn
  · decide

#print axioms resolvePosition_name
#print axioms otherPipeline_nc
#print axioms reuseInstance_nc

end Svgdx.Ctl
