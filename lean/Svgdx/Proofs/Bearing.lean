/-
  Svgdx.Proofs.Bearing — the bearing-command rewriting of path data (`Svgdx.Bearing`, bearing.rs)
  always makes progress, so the input-linear fuel of `processPathBearing` is never exhausted
  (no hang on any `d` string, for any number operations `o`); and what it does to path data without
  bearing commands.
-/
import Svgdx.Path.Bearing
import Svgdx.Expr.RatOps
import Svgdx.Proofs.PathScan
namespace Svgdx.Bearing
open Svgdx Str Num Expr
open Svgdx.Path (skipWs skipWspComma)

variable {α σ : Type}

/-! ### the scanner pieces consume input -/

theorem readNumber_lt {o : Ops α σ} {s : Str} {x : α} {r : Str} (h : readNumber o s = some (x, r)) :
    r.length < s.length := by
  unfold readNumber readNumberText at h
  by_cases hs : s.isEmpty = true
  · simp [hs] at h
  · simp only [hs, Bool.false_eq_true, if_false] at h
    by_cases ht : (scanNumber s).1.isEmpty = true
    · simp [ht] at h
    · simp only [ht, Bool.false_eq_true, if_false] at h
      split at h
      · simp only [Option.some.injEq, Prod.mk.injEq] at h
        have hlen := Path.scanNumber_len s
        have hpos : 0 < (scanNumber s).1.length := by
          cases hq : (scanNumber s).1 with
          | nil => rw [hq] at ht; simp at ht
          | cons _ _ => simp
        have := Path.skipWspComma_le (scanNumber s).2
        rw [← h.2]
        omega
      · cases h

theorem readCoord_lt {o : Ops α σ} {s : Str} {xy : α × α} {r : Str}
    (h : readCoord o s = some (xy, r)) : r.length < s.length := by
  unfold readCoord at h
  split at h
  · cases h
  · rename_i x r1 h1
    split at h
    · cases h
    · rename_i y r2 h2
      simp only [Option.some.injEq, Prod.mk.injEq] at h
      have a := readNumber_lt h1
      have b := readNumber_lt h2
      have c := Path.skipWspComma_le r1
      have d := Path.skipWspComma_le r2
      rw [← h.2]
      omega

theorem dropWhile_le (p : Char → Bool) (s : Str) : (s.dropWhile p).length ≤ s.length :=
  (List.dropWhile_sublist p).length_le

/-- the command in force: either a command letter was consumed, or the command was remembered and the
    input starts with a character that is not a command letter -/
theorem fetchCommand_spec {st : BState α} {cmd : Char} {r : Str} (h : fetchCommand st = .ok (cmd, r)) :
    r.length < st.rest.length ∨
      (r = st.rest ∧ st.command = some cmd ∧ ∃ c t, st.rest = c :: t ∧ notCommand c = true) := by
  unfold fetchCommand at h
  split at h
  · cases h
  · rename_i c r0 heq
    split at h
    · simp only [Except.ok.injEq, Prod.mk.injEq] at h
      left
      have := Path.skipWspComma_le r0
      rw [← h.2, heq]
      simp only [List.length_cons]
      omega
    · rename_i hc
      split at h
      · rename_i k hk
        simp only [Except.ok.injEq, Prod.mk.injEq] at h
        right
        refine ⟨h.2.symm, by rw [hk, h.1], c, r0, heq, ?_⟩
        simp [notCommand, hc]
      · cases h

/-- **every instruction consumes input** — whatever the state: no invariant is needed, because the only
    arm that reads no argument (the copying default arm) either follows a consumed command letter or
    starts at a character that is not a command letter, which it copies. -/
theorem step_lt {o : Ops α σ} {st st' : BState α} (h : step o st = .ok st') :
    st'.rest.length < st.rest.length := by
  unfold step at h
  split at h
  · cases h
  · rename_i cmd r hf
    have hfs := fetchCommand_spec hf
    have hle : r.length ≤ st.rest.length := by
      rcases hfs with h1 | ⟨h1, _⟩
      · omega
      · rw [h1]; exact Nat.le_refl _
    dsimp only at h
    have hnum : ∀ (f : α × Str → BState α), (∀ p, (f p).rest = p.2) →
        (match readNumber o r with
          | none => (Except.error Fail.parse : Except Fail (BState α))
          | some p => .ok (f p)) = .ok st' → st'.rest.length < st.rest.length := by
      intro f hf' hx
      cases hc : readNumber o r with
      | none => rw [hc] at hx; cases hx
      | some v =>
        rw [hc] at hx
        simp only [Except.ok.injEq] at hx
        have := readNumber_lt (x := v.1) (r := v.2) (by rw [hc])
        rw [← hx, hf']
        omega
    split at h
    · -- B
      exact hnum (fun p => { st with command := some cmd, bearing := p.1, rest := p.2 }) (fun _ => rfl)
        (by cases hc : readNumber o r <;> simp only [hc] at h ⊢ <;> exact h)
    · split at h
      · -- b
        exact hnum (fun p => { st with command := some cmd, bearing := o.add st.bearing p.1, rest := p.2 })
          (fun _ => rfl)
          (by cases hc : readNumber o r <;> simp only [hc] at h ⊢ <;> exact h)
      · split at h
        · -- m / l with a bearing
          cases hc : readCoord o r with
          | none => rw [hc] at h; cases h
          | some v =>
            rw [hc] at h
            simp only [Except.ok.injEq] at h
            have := readCoord_lt (xy := v.1) (r := v.2) (by rw [hc])
            rw [← h]
            show v.2.length < _
            omega
        · split at h
          · -- h / v with a bearing
            cases hc : readNumber o r with
            | none => rw [hc] at h; cases h
            | some v =>
              rw [hc] at h
              simp only [Except.ok.injEq] at h
              have := readNumber_lt (x := v.1) (r := v.2) (by rw [hc])
              rw [← h]
              show v.2.length < _
              omega
          · -- copy
            simp only [Except.ok.injEq] at h
            rw [← h]
            show (r.dropWhile notCommand).length < _
            rcases hfs with h1 | ⟨h1, _, c, t, hct, hnc⟩
            · have := dropWhile_le notCommand r
              omega
            · rw [h1, hct, List.dropWhile_cons_of_pos hnc]
              have := dropWhile_le notCommand t
              simp only [List.length_cons]
              omega

/-- **the loop never runs out of its input-linear fuel** -/
theorem run_total (o : Ops α σ) : ∀ (fuel : Nat) (st : BState α), st.rest.length < fuel →
    run o fuel st ≠ .outOfFuel := by
  intro fuel
  induction fuel with
  | zero => intro st h; omega
  | succ fuel ih =>
    intro st hl
    rw [run]
    split
    · intro h; cases h
    · split
      · intro h; cases h
      · intro h; cases h
      · rename_i st' hs
        exact ih st' (by have := step_lt hs; omega)

/-- **`process_path_bearing` terminates on every `d` string** with the rewritten data or an error —
    never by exhausting the fuel, i.e. the loop of `PathBearing::evaluate` cannot spin -/
theorem processPathBearing_total (o : Ops α σ) (d : Str) : processPathBearing o d ≠ .outOfFuel := by
  unfold processPathBearing
  apply run_total
  have := Path.skipWs_le d
  show (skipWs d).length < d.length + 1
  omega

/-! ### path data without bearing commands

  `process_path_bearing` does NOT copy such data verbatim: `read_command` swallows the separators after
  every command letter (`"M 0 0 L 1,2"` ↦ `"M0 0 L1,2"`). The precise statement is
  `processPathBearing_noBearing`: the output is `normalize .copy` of the data without its leading
  whitespace; it is the data itself exactly when no command letter is followed by a separator
  (`processPathBearing_verbatim`). -/

theorem isCommand_of_ws {c : Char} (h : isAsciiWs c = true) : isCommand c = false := by
  simp only [isAsciiWs, Bool.or_eq_true, beq_iff_eq] at h
  rcases h with (((h | h) | h) | h) | h <;> subst h <;> decide

theorem isCommand_comma : isCommand ',' = false := by decide

theorem skipWs_cons_ws {c : Char} {r : Str} (h : isAsciiWs c = true) : skipWs (c :: r) = skipWs r := by
  simp [skipWs, h]

theorem skipWs_cons_not {c : Char} {r : Str} (h : isAsciiWs c = false) : skipWs (c :: r) = c :: r := by
  simp [skipWs, h]

theorem skipWspComma_cons_ws {c : Char} {r : Str} (h : isAsciiWs c = true) :
    skipWspComma (c :: r) = skipWspComma r := by
  simp only [skipWspComma, skipWs_cons_ws h]

theorem skipWspComma_cons_comma {r : Str} : skipWspComma (',' :: r) = skipWs r := by
  have : isAsciiWs ',' = false := by decide
  simp only [skipWspComma, skipWs_cons_not this]

theorem skipWspComma_cons_other {c : Char} {r : Str} (h : isAsciiWs c = false) (hc : c ≠ ',') :
    skipWspComma (c :: r) = c :: r := by
  simp only [skipWspComma, skipWs_cons_not h]
  split
  · rename_i heq
    simp only [List.cons.injEq] at heq
    exact absurd heq.1 hc
  · rfl

theorem normalize_sep2 (r : Str) : normalize .sep2 r = normalize .copy (skipWs r) := by
  induction r with
  | nil => rfl
  | cons c r ih =>
    by_cases hw : isAsciiWs c = true
    · rw [skipWs_cons_ws hw, ← ih]
      simp [normalize, isCommand_of_ws hw, hw]
    · have hw' : isAsciiWs c = false := by simpa using hw
      rw [skipWs_cons_not hw']
      by_cases hc : isCommand c = true
      · simp [normalize, hc]
      · simp [normalize, hc, hw']

/-- `read_command`'s `skip_wsp_comma` after the command letter -/
theorem normalize_sep1 (r : Str) : normalize .sep1 r = normalize .copy (skipWspComma r) := by
  induction r with
  | nil => rfl
  | cons c r ih =>
    by_cases hw : isAsciiWs c = true
    · rw [skipWspComma_cons_ws hw, ← ih]
      simp [normalize, isCommand_of_ws hw, hw]
    · have hw' : isAsciiWs c = false := by simpa using hw
      by_cases hcomma : c = ','
      · subst hcomma
        rw [skipWspComma_cons_comma, ← normalize_sep2]
        simp [normalize, isCommand_comma, hw']
      · rw [skipWspComma_cons_other hw' hcomma]
        by_cases hc : isCommand c = true
        · simp [normalize, hc]
        · simp [normalize, hc, hw', hcomma]

/-- the copying loop of the default arm -/
theorem normalize_copy_split (s : Str) :
    normalize .copy s = s.takeWhile notCommand ++ normalize .copy (s.dropWhile notCommand) := by
  induction s with
  | nil => rfl
  | cons c r ih =>
    by_cases hc : isCommand c = true
    · simp [notCommand, hc]
    · have hc' : isCommand c = false := by simpa using hc
      simp only [List.takeWhile_cons, List.dropWhile_cons, notCommand, hc', Bool.not_false, if_true,
        List.cons_append]
      rw [show normalize .copy (c :: r) = c :: normalize .copy r by simp [normalize, hc']]
      rw [ih]

theorem dropWhile_notCommand_head (s : Str) :
    s.dropWhile notCommand = [] ∨ ∃ c t, s.dropWhile notCommand = c :: t ∧ isCommand c = true := by
  induction s with
  | nil => left; rfl
  | cons c r ih =>
    by_cases hc : isCommand c = true
    · right
      exact ⟨c, r, by simp [notCommand, hc], hc⟩
    · have hc' : isCommand c = false := by simpa using hc
      simpa [List.dropWhile_cons, notCommand, hc'] using ih

/-- no `B` / `b` letter -/
def NoB (s : Str) : Prop := ∀ c ∈ s, c ≠ 'B' ∧ c ≠ 'b'

theorem NoB.sublist {s t : Str} (h : NoB t) (hs : s.Sublist t) : NoB s :=
  fun c hc => h c (hs.subset hc)

theorem skipWs_sublist (s : Str) : (skipWs s).Sublist s := List.dropWhile_sublist _

theorem skipWspComma_sublist (s : Str) : (skipWspComma s).Sublist s := by
  unfold skipWspComma
  split
  · rename_i r heq
    have h1 := skipWs_sublist s
    rw [heq] at h1
    exact ((skipWs_sublist r).trans (List.sublist_cons_self _ _)).trans h1
  · exact skipWs_sublist s

/-- an explicit command other than `B` / `b`, with a zero bearing: the copying arm -/
theorem step_copy {o : Ops α σ} {st : BState α} {c : Char} {t : Str} (hr : st.rest = c :: t)
    (hc : isCommand c = true) (hB : c ≠ 'B') (hb : c ≠ 'b') (hz : o.eq st.bearing o.zero = true) :
    step o st = .ok { st with command := some c,
                              rest := (skipWspComma t).dropWhile notCommand,
                              outRev := emit st.outRev (c :: (skipWspComma t).takeWhile notCommand) } := by
  have hf : fetchCommand st = .ok (c, skipWspComma t) := by
    simp [fetchCommand, hr, hc]
  simp [step, hf, hB, hb, nonZero, hz]

theorem run_succ_of_step {o : Ops α σ} {fuel : Nat} {st st' : BState α} (hne : st.rest ≠ [])
    (hs : step o st = .ok st') : run o (fuel + 1) st = run o fuel st' := by
  rw [run, hs]
  simp [hne]

theorem run_noBearing (o : Ops α σ) : ∀ (fuel : Nat) (st : BState α), st.rest.length < fuel →
    NoB st.rest → o.eq st.bearing o.zero = true →
    (st.rest = [] ∨ ∃ c t, st.rest = c :: t ∧ isCommand c = true) →
    run o fuel st = .ok (st.outRev.reverse ++ normalize .copy st.rest) := by
  intro fuel
  induction fuel with
  | zero => intro st h; omega
  | succ fuel ih =>
    intro st hl hnb hz hhead
    rcases hhead with hnil | ⟨c, t, hr, hc⟩
    · rw [run]
      simp [hnil, BState.output, normalize]
    · have hB := (hnb c (by rw [hr]; exact List.mem_cons_self)).1
      have hb := (hnb c (by rw [hr]; exact List.mem_cons_self)).2
      have hs := step_copy hr hc hB hb hz
      have hlt := step_lt hs
      have hsub : ((skipWspComma t).dropWhile notCommand).Sublist st.rest := by
        rw [hr]
        exact ((List.dropWhile_sublist _).trans (skipWspComma_sublist t)).trans (List.sublist_cons_self _ _)
      have key := ih { st with command := some c,
                               rest := (skipWspComma t).dropWhile notCommand,
                               outRev := emit st.outRev (c :: (skipWspComma t).takeWhile notCommand) }
        (by dsimp only at hlt ⊢; omega) (hnb.sublist hsub) hz (dropWhile_notCommand_head _)
      rw [run_succ_of_step (by rw [hr]; simp) hs, key]
      dsimp only
      rw [hr]
      rw [show normalize .copy (c :: t) = c :: normalize .sep1 t by simp [normalize, hc]]
      rw [normalize_sep1, normalize_copy_split (skipWspComma t)]
      simp [emit]

/-- **path data without `B` / `b`**: an error if it does not start with a command letter, otherwise the
    data without its leading whitespace and without the separators that directly follow a command letter.
    (`o.eq o.zero o.zero`: `0. != 0.` is false — the only fact about the numbers that is used.) -/
theorem processPathBearing_noBearing (o : Ops α σ) (hz : o.eq o.zero o.zero = true) (d : Str)
    (hd : NoB d) :
    processPathBearing o d =
      match skipWs d with
      | [] => .ok []
      | c :: r => if isCommand c = true then .ok (normalize .copy (c :: r)) else .invalidData := by
  unfold processPathBearing
  have hl : (initial o d).rest.length < d.length + 1 := by
    have := Path.skipWs_le d
    show (skipWs d).length < d.length + 1
    omega
  have hnb : NoB (initial o d).rest := hd.sublist (skipWs_sublist d)
  cases hs : skipWs d with
  | nil =>
    rw [run_noBearing o _ _ hl hnb hz (Or.inl hs)]
    show Outcome.ok ([] ++ normalize .copy (skipWs d)) = _
    rw [hs]; rfl
  | cons c r =>
    by_cases hc : isCommand c = true
    · rw [run_noBearing o _ _ hl hnb hz (Or.inr ⟨c, r, hs, hc⟩)]
      show Outcome.ok ([] ++ normalize .copy (skipWs d)) = _
      rw [hs]; simp [hc]
    · simp [run, step, fetchCommand, initial, hs, hc]

/-- no command letter is directly followed by whitespace or a comma -/
def compact : Str → Bool
  | a :: b :: r => !(isCommand a && (isAsciiWs b || b == ',')) && compact (b :: r)
  | _ => true

theorem normalize_sep1_of_head {c : Char} {r : Str} (hw : isAsciiWs c = false) (hc : c ≠ ',') :
    normalize .sep1 (c :: r) = normalize .copy (c :: r) := by
  by_cases h : isCommand c = true
  · simp [normalize, h]
  · simp [normalize, h, hw, hc]

theorem normalize_of_compact (s : Str) (h : compact s = true) : normalize .copy s = s := by
  induction s with
  | nil => rfl
  | cons a r ih =>
    cases r with
    | nil => by_cases hc : isCommand a = true <;> simp [normalize, hc]
    | cons b r =>
      simp only [compact, Bool.and_eq_true, Bool.not_eq_true', Bool.and_eq_false_imp,
        Bool.or_eq_false_iff] at h
      have ih' := ih h.2
      by_cases hc : isCommand a = true
      · have hb := h.1 hc
        have hne : b ≠ ',' := by simpa using hb.2
        rw [show normalize .copy (a :: b :: r) = a :: normalize .sep1 (b :: r) by simp [normalize, hc]]
        rw [normalize_sep1_of_head hb.1 hne, ih']
      · rw [show normalize .copy (a :: b :: r) = a :: normalize .copy (b :: r) by simp [normalize, hc]]
        rw [ih']

/-- **verbatim copy**: data without `B` / `b` that starts (after whitespace) with a command letter and has no
    separator directly after a command letter is returned character for character, minus the leading
    whitespace -/
theorem processPathBearing_verbatim (o : Ops α σ) (hz : o.eq o.zero o.zero = true) (d : Str)
    (hd : NoB d) (hcmd : ∃ c r, skipWs d = c :: r ∧ isCommand c = true)
    (hcompact : compact (skipWs d) = true) :
    processPathBearing o d = .ok (skipWs d) := by
  rw [processPathBearing_noBearing o hz d hd]
  obtain ⟨c, r, hs, hc⟩ := hcmd
  rw [hs] at hcompact ⊢
  simp [hc, normalize_of_compact _ hcompact]

/-! ### the output contains no bearing commands -/

theorem NoB.emit {outRev chunk : Str} (h1 : NoB outRev) (h2 : NoB chunk) : NoB (emit outRev chunk) := by
  intro c hc
  simp only [Bearing.emit, List.mem_append, List.mem_reverse] at hc
  rcases hc with h | h
  · exact h2 c h
  · exact h1 c h

theorem NoB.cons {c : Char} {s : Str} (hB : c ≠ 'B') (hb : c ≠ 'b') (h : NoB s) : NoB (c :: s) := by
  intro x hx
  rcases List.mem_cons.mp hx with rfl | hx
  · exact ⟨hB, hb⟩
  · exact h x hx

theorem NoB.append {s t : Str} (h1 : NoB s) (h2 : NoB t) : NoB (s ++ t) := by
  intro x hx
  rcases List.mem_append.mp hx with hx | hx
  · exact h1 x hx
  · exact h2 x hx

theorem noB_takeWhile_notCommand (s : Str) : NoB (s.takeWhile notCommand) := by
  induction s with
  | nil => intro c hc; cases hc
  | cons a r ih =>
    by_cases ha : isCommand a = true
    · simp [notCommand, ha, NoB]
    · have ha' : isCommand a = false := by simpa using ha
      simp only [List.takeWhile_cons, notCommand, ha', Bool.not_false, if_true]
      refine NoB.cons ?_ ?_ ih <;> (rintro rfl; revert ha'; decide)

theorem step_noB {o : Ops α σ} (hf : ∀ x, NoB (o.fstr x)) {st st' : BState α}
    (hs : step o st = .ok st') (h : NoB st.outRev) : NoB st'.outRev := by
  unfold step at hs
  split at hs
  · cases hs
  · rename_i cmd r hfc
    dsimp only at hs
    have hsp : NoB [' '] := by intro c hc; simp only [List.mem_singleton] at hc; subst hc; decide
    split at hs
    · cases hc : readNumber o r with
      | none => rw [hc] at hs; cases hs
      | some v => rw [hc] at hs; simp only [Except.ok.injEq] at hs; rw [← hs]; exact h
    · rename_i hnB
      split at hs
      · cases hc : readNumber o r with
        | none => rw [hc] at hs; cases hs
        | some v => rw [hc] at hs; simp only [Except.ok.injEq] at hs; rw [← hs]; exact h
      · rename_i hnb
        have hB : cmd ≠ 'B' := by simpa using hnB
        have hb : cmd ≠ 'b' := by simpa using hnb
        split at hs
        · cases hc : readCoord o r with
          | none => rw [hc] at hs; cases hs
          | some v =>
            rw [hc] at hs
            simp only [Except.ok.injEq] at hs
            rw [← hs]
            exact h.emit (NoB.cons hB hb ((hf _).append (NoB.cons (by decide) (by decide) (hf _))))
        · split at hs
          · cases hc : readNumber o r with
            | none => rw [hc] at hs; cases hs
            | some v =>
              rw [hc] at hs
              simp only [Except.ok.injEq] at hs
              rw [← hs]
              refine h.emit (NoB.cons (by decide) (by decide) ?_)
              split
              · exact (hf _).append (NoB.cons (by decide) (by decide) (hf _))
              · exact (hf _).append (NoB.cons (by decide) (by decide) (hf _))
          · simp only [Except.ok.injEq] at hs
            rw [← hs]
            exact h.emit (NoB.cons hB hb (noB_takeWhile_notCommand r))

theorem run_noB {o : Ops α σ} (hf : ∀ x, NoB (o.fstr x)) : ∀ (fuel : Nat) (st : BState α) (out : Str),
    NoB st.outRev → run o fuel st = .ok out → NoB out := by
  intro fuel
  induction fuel with
  | zero => intro st out _ h; cases h
  | succ fuel ih =>
    intro st out hst h
    rw [run] at h
    split at h
    · simp only [Outcome.ok.injEq] at h
      rw [← h]
      intro c hc
      exact hst c (by simpa [BState.output] using hc)
    · split at h
      · cases h
      · cases h
      · rename_i st' hs
        exact ih st' out (step_noB hf hs hst) h

/-- **the rewriting eliminates every bearing command**: when it succeeds the output has no `B` / `b`,
    provided number formatting produces none (`fstr` gives digits, `-`, `.`, or `NaN` / `inf` / `-inf`) -/
theorem processPathBearing_noB_out (o : Ops α σ) (hf : ∀ x, NoB (o.fstr x)) (d out : Str)
    (h : processPathBearing o d = .ok out) : NoB out :=
  run_noB hf _ _ out (by intro c hc; cases hc) h

/-! ### the copying arm never runs on a remembered command

  The source's default arm pushes `cmd` also when the command was only remembered (no command letter at
  the current position). That cannot happen: after a copying arm the data is at a command letter or at
  the end, `B` / `b` never copy, and `m l h v` copy only with a zero bearing — which stays zero (and hence
  the arm stays the copying one, ending at a command letter) until the next `B` / `b`. -/

def Inv (o : Ops α σ) (st : BState α) : Prop :=
  st.rest = [] ∨ (∃ c t, st.rest = c :: t ∧ isCommand c = true) ∨ st.command = none ∨
    st.command = some 'B' ∨ st.command = some 'b' ∨
    ((st.command = some 'm' ∨ st.command = some 'l' ∨ st.command = some 'h' ∨ st.command = some 'v') ∧
      nonZero o st.bearing = true)

/-- the copying arm is about to run with a remembered command -/
def CopiesRemembered (o : Ops α σ) (st : BState α) : Prop :=
  ∃ c t k, st.rest = c :: t ∧ isCommand c = false ∧ st.command = some k ∧ k ≠ 'B' ∧ k ≠ 'b' ∧
    ¬ ((k = 'm' ∨ k = 'l') ∧ nonZero o st.bearing = true) ∧
    ¬ ((k = 'h' ∨ k = 'v') ∧ nonZero o st.bearing = true)

theorem initial_inv (o : Ops α σ) (d : Str) : Inv o (initial o d) := Or.inr (Or.inr (Or.inl rfl))

theorem step_inv {o : Ops α σ} {st st' : BState α} (hs : step o st = .ok st') : Inv o st' := by
  unfold step at hs
  split at hs
  · cases hs
  · rename_i cmd r hfc
    dsimp only at hs
    split at hs
    · rename_i hB
      have hB : cmd = 'B' := by simpa using hB
      cases hc : readNumber o r with
      | none => rw [hc] at hs; cases hs
      | some v =>
        rw [hc] at hs; simp only [Except.ok.injEq] at hs; rw [← hs]
        exact Or.inr (Or.inr (Or.inr (Or.inl (by rw [hB]))))
    · split at hs
      · rename_i _ hb
        have hb : cmd = 'b' := by simpa using hb
        cases hc : readNumber o r with
        | none => rw [hc] at hs; cases hs
        | some v =>
          rw [hc] at hs; simp only [Except.ok.injEq] at hs; rw [← hs]
          exact Or.inr (Or.inr (Or.inr (Or.inr (Or.inl (by rw [hb])))))
      · split at hs
        · rename_i hml
          simp only [Bool.and_eq_true, Bool.or_eq_true, beq_iff_eq] at hml
          cases hc : readCoord o r with
          | none => rw [hc] at hs; cases hs
          | some v =>
            rw [hc] at hs; simp only [Except.ok.injEq] at hs; rw [← hs]
            refine Or.inr (Or.inr (Or.inr (Or.inr (Or.inr ⟨?_, hml.2⟩))))
            rcases hml.1 with h | h
            · exact Or.inl (by rw [h])
            · exact Or.inr (Or.inl (by rw [h]))
        · split at hs
          · rename_i hhv
            simp only [Bool.and_eq_true, Bool.or_eq_true, beq_iff_eq] at hhv
            cases hc : readNumber o r with
            | none => rw [hc] at hs; cases hs
            | some v =>
              rw [hc] at hs; simp only [Except.ok.injEq] at hs; rw [← hs]
              refine Or.inr (Or.inr (Or.inr (Or.inr (Or.inr ⟨?_, hhv.2⟩))))
              rcases hhv.1 with h | h
              · exact Or.inr (Or.inr (Or.inl (by rw [h])))
              · exact Or.inr (Or.inr (Or.inr (by rw [h])))
          · simp only [Except.ok.injEq] at hs
            rw [← hs]
            rcases dropWhile_notCommand_head r with h | h
            · exact Or.inl h
            · exact Or.inr (Or.inl h)

/-- the states `evaluate` goes through -/
inductive Reachable (o : Ops α σ) (d : Str) : BState α → Prop where
  | init : Reachable o d (initial o d)
  | step {st st' : BState α} : Reachable o d st → step o st = .ok st' → Reachable o d st'

theorem Reachable.inv {o : Ops α σ} {d : Str} {st : BState α} (h : Reachable o d st) : Inv o st := by
  cases h with
  | init => exact initial_inv o d
  | step _ hs => exact step_inv hs

/-- **the copying arm always starts from a command letter it has just read** -/
theorem not_copiesRemembered {o : Ops α σ} {d : Str} {st : BState α} (h : Reachable o d st) :
    ¬ CopiesRemembered o st := by
  rintro ⟨c, t, k, hr, hc, hk, hB, hb, hml, hhv⟩
  rcases h.inv with h | ⟨c', t', h, hc'⟩ | h | h | h | ⟨h, hnz⟩
  · rw [hr] at h; cases h
  · rw [hr] at h
    simp only [List.cons.injEq] at h
    rw [← h.1, hc] at hc'
    cases hc'
  · rw [hk] at h; cases h
  · rw [hk] at h; exact hB (Option.some.inj h)
  · rw [hk] at h; exact hb (Option.some.inj h)
  · rw [hk] at h
    rcases h with h | h | h | h
    · exact hml ⟨Or.inl (Option.some.inj h), hnz⟩
    · exact hml ⟨Or.inr (Option.some.inj h), hnz⟩
    · exact hhv ⟨Or.inl (Option.some.inj h), hnz⟩
    · exact hhv ⟨Or.inr (Option.some.inj h), hnz⟩

/-! ### the unit tests of bearing.rs

  In the implementation the numbers are `f32` and `cos 90°` is `-4.37e-8`, which `fstr` writes as `0`; no
  instance available to the kernel has those operations, so the `f32` run of these tests is part of the
  driver test (`path_bearing` op on `Driver.f32Ops`; transcript, identical to what the Rust tests expect):

      path_bearing  M0 0B90h10                          ↦  ok  M0 0l0 10
      path_bearing  M0 0 h10 b90 h10 b90 h10 b90 h10    ↦  ok  M0 0 h10 l0 10l-10 0l0 -10
      path_bearing  M0 0B90l10 0                        ↦  ok  M0 0l0 10
      path_bearing  M0 0 B45 l 10 0                     ↦  ok  M0 0 l7.071 7.071
      path_bearing_final  M0 0 / M0 0b-90 / M0 0b60b30 / M0 0B123   ↦  0 / -90 / 90 / 123

  What the kernel can check is the same tests on exact rationals with the exact values of sin / cos at
  the multiples of 90° (and √2/2 to seven digits at the odd multiples of 45°): this pins the control
  structure — arms, separators, formulas — independently of floating point. -/

/-- degrees as "radians" (π := 180); exact at multiples of 90°, 7 digits at odd multiples of 45° -/
def quadCos (x : Rat) : Rat :=
  let r := ratRemEuclid x 360
  if r == 0 then 1 else if r == 180 then -1
  else if r == 45 || r == 315 then 7071068 / 10000000
  else if r == 135 || r == 225 then -7071068 / 10000000
  else 0

def quadSin (x : Rat) : Rat := quadCos (x - 90)

def quadLibm : Libm Rat :=
  { pi := 180, sqrt := id, ln := id, exp := id, pow := fun a _ => a, sin := quadSin, cos := quadCos,
    tan := id, asin := id, acos := id, atan := id, atan2 := fun a _ => a, hypot := fun a _ => a }

def quadOps : Ops Rat Unit := ratOps quadLibm (fun u => (0, u)) (fun _ _ u => (0, u))

-- test_path_bearing_hv
theorem test_hv_1 : processPathBearing quadOps cs!"M0 0B90h10" = .ok cs!"M0 0l0 10" := by
  decide +kernel

theorem test_hv_2 : processPathBearing quadOps cs!"M0 0 h10 b90 h10 b90 h10 b90 h10" =
    .ok cs!"M0 0 h10 l0 10l-10 0l0 -10" := by
  decide +kernel

-- test_path_bearing_line
theorem test_line_1 : processPathBearing quadOps cs!"M0 0B90l10 0" = .ok cs!"M0 0l0 10" := by
  decide +kernel

theorem test_line_2 : processPathBearing quadOps cs!"M0 0 B45 l 10 0" = .ok cs!"M0 0 l7.071 7.071" := by
  decide +kernel

-- test_path_bearing
theorem test_bearing : finalBearing quadOps cs!"M0 0" = some 0 ∧
    finalBearing quadOps cs!"M0 0b-90" = some (-90) ∧
    finalBearing quadOps cs!"M0 0b60b30" = some 90 ∧
    finalBearing quadOps cs!"M0 0B123" = some 123 := by
  decide +kernel

-- the separators after a command letter are not copied; errors
theorem test_misc : processPathBearing quadOps cs!"  M 0 0 L 1,2" = .ok cs!"M0 0 L1,2" ∧
    processPathBearing quadOps cs!"" = .ok [] ∧
    processPathBearing quadOps cs!" 5" = .invalidData ∧
    processPathBearing quadOps cs!"M0 0B" = .parseError ∧
    processPathBearing quadOps cs!"B1,,2" = .parseError ∧
    processPathBearing quadOps cs!"B90m1 2 3 4" = .ok cs!"m2 1m4 3" := by
  decide +kernel

end Svgdx.Bearing

#print axioms Svgdx.Bearing.step_lt
#print axioms Svgdx.Bearing.run_total
#print axioms Svgdx.Bearing.processPathBearing_total
#print axioms Svgdx.Bearing.processPathBearing_noBearing
#print axioms Svgdx.Bearing.processPathBearing_verbatim
#print axioms Svgdx.Bearing.processPathBearing_noB_out
#print axioms Svgdx.Bearing.not_copiesRemembered
#print axioms Svgdx.Bearing.test_hv_1
#print axioms Svgdx.Bearing.test_hv_2
#print axioms Svgdx.Bearing.test_line_1
#print axioms Svgdx.Bearing.test_line_2
#print axioms Svgdx.Bearing.test_bearing
#print axioms Svgdx.Bearing.test_misc
