/-
  Svgdx.Proofs.ConnWhole — whole-function theorems about the element-level part of the connector model
  (Svgdx/Geom/Connector.lean: `parseEnd`, `needBB`, `fromElement`, `lineElem`, `pointsStr`, `render`,
  `isConnector`, `transmuteConnector`).  Summary and axiom audit: Svgdx/Props/C13w.lean.
-/
import Svgdx.Geom.Connector
import Svgdx.Proofs.Attrs
import Svgdx.Props.C13

namespace Svgdx.Props.C13w
open Svgdx Gen Conn Str Num Attrs

/-! ## Part 0: the priority-sorted attribute list -/

/-- the invariant of `AttrMap` (every `insert` ends with `reorder`): non-decreasing priority -/
def Sorted (a : Attrs) : Prop := a.Pairwise (fun x y => priority x.1 ≤ priority y.1)

instance (a : Attrs) : Decidable (Sorted a) := by unfold Sorted; infer_instance

theorem mem_insertSorted (e : Str × Str) (l : Attrs) (y : Str × Str) :
    y ∈ insertSorted e l ↔ y = e ∨ y ∈ l := by
  rw [(insertSorted_perm e l).mem_iff]; simp

theorem insertSorted_sorted (e : Str × Str) {l : Attrs} (h : Sorted l) : Sorted (insertSorted e l) := by
  induction l with
  | nil => simp [insertSorted, Sorted]
  | cons x xs ih =>
    unfold Sorted at h
    rw [List.pairwise_cons] at h
    unfold insertSorted
    split
    · rename_i hlt
      unfold Sorted
      rw [List.pairwise_cons, List.pairwise_cons]
      refine ⟨?_, h.1, h.2⟩
      intro y hy
      rcases List.mem_cons.mp hy with rfl | hy
      · exact Nat.le_of_lt hlt
      · exact Nat.le_trans (Nat.le_of_lt hlt) (h.1 y hy)
    · rename_i hlt
      unfold Sorted
      rw [List.pairwise_cons]
      refine ⟨?_, ih h.2⟩
      intro y hy
      rcases (mem_insertSorted e xs y).mp hy with rfl | hy
      · exact Nat.le_of_not_lt hlt
      · exact h.1 y hy

theorem insertSorted_of_le (e : Str × Str) (l : Attrs) (h : ∀ y ∈ l, priority y.1 ≤ priority e.1) :
    insertSorted e l = l ++ [e] := by
  induction l with
  | nil => rfl
  | cons x xs ih =>
    unfold insertSorted
    have hx := h x (by simp)
    rw [if_neg (Nat.not_lt.mpr hx), ih (fun y hy => h y (by simp [hy]))]
    rfl

theorem foldl_insertSorted_sorted (a acc : Attrs) (h : Sorted (acc ++ a)) :
    a.foldl (fun acc e => insertSorted e acc) acc = acc ++ a := by
  induction a generalizing acc with
  | nil => simp
  | cons x xs ih =>
    rw [List.foldl_cons]
    have hle : ∀ y ∈ acc, priority y.1 ≤ priority x.1 := by
      intro y hy
      unfold Sorted at h
      rw [List.pairwise_append] at h
      exact h.2.2 y hy x (by simp)
    rw [insertSorted_of_le x acc hle, ih (acc ++ [x]) (by simpa [List.append_assoc] using h)]
    simp [List.append_assoc]

/-- `reorder` leaves a sorted list alone -/
theorem reorder_sorted_eq {a : Attrs} (h : Sorted a) : reorder a = a := by
  have := foldl_insertSorted_sorted a [] (by simpa using h)
  simpa [reorder] using this

theorem reorder_snoc (a : Attrs) (x : Str × Str) : reorder (a ++ [x]) = insertSorted x (reorder a) := by
  simp [reorder, List.foldl_append]

theorem sorted_iff_keys (a : Attrs) : Sorted a ↔ (keys a).Pairwise (fun x y => priority x ≤ priority y) := by
  unfold Sorted keys
  rw [List.pairwise_map]

theorem updateInPlace_sorted (k v : Str) {a : Attrs} (h : Sorted a) : Sorted (updateInPlace k v a) := by
  rw [sorted_iff_keys, keys_updateInPlace]; exact (sorted_iff_keys a).mp h

/-- `AttrMap::insert` on a sorted map, in closed form -/
theorem insert_sorted_eq {a : Attrs} (h : Sorted a) (k v : Str) :
    Attrs.insert a k v = if contains a k then updateInPlace k v a else insertSorted (k, v) a := by
  unfold Attrs.insert
  split
  · exact reorder_sorted_eq (updateInPlace_sorted k v h)
  · rw [reorder_snoc, reorder_sorted_eq h]

theorem insert_sorted {a : Attrs} (h : Sorted a) (k v : Str) : Sorted (Attrs.insert a k v) := by
  rw [insert_sorted_eq h]
  split
  · exact updateInPlace_sorted k v h
  · exact insertSorted_sorted _ h

theorem mem_keys_insert {a : Attrs} (h : Sorted a) (k v x : Str) (hx : x ∈ keys (Attrs.insert a k v)) :
    x = k ∨ x ∈ keys a := by
  rw [insert_sorted_eq h] at hx
  split at hx
  · rw [keys_updateInPlace] at hx; exact Or.inr hx
  · unfold keys at hx
    obtain ⟨y, hy, rfl⟩ := List.mem_map.mp hx
    rcases (mem_insertSorted _ _ _).mp hy with rfl | hy
    · exact Or.inl rfl
    · exact Or.inr (List.mem_map.mpr ⟨y, hy, rfl⟩)

/-! ### filters by key -/

theorem filter_updateInPlace_of_not (pk : Str → Bool) (k v : Str) (a : Attrs) (hk : pk k = false) :
    (updateInPlace k v a).filter (fun kv => pk kv.1) = a.filter (fun kv => pk kv.1) := by
  induction a with
  | nil => rfl
  | cons x xs ih =>
    obtain ⟨k', v'⟩ := x
    unfold updateInPlace
    by_cases hkk : k' = k
    · subst hkk; simp [hk]
    · rw [if_neg (by simpa using hkk)]
      simp only [List.filter_cons, ih]

theorem filter_insertSorted_of_not (pk : Str → Bool) (e : Str × Str) (a : Attrs) (hk : pk e.1 = false) :
    (insertSorted e a).filter (fun kv => pk kv.1) = a.filter (fun kv => pk kv.1) := by
  induction a with
  | nil => simp [insertSorted, hk]
  | cons x xs ih =>
    unfold insertSorted
    split
    · simp [hk]
    · simp [List.filter_cons, ih]

theorem filter_insertSorted_new (pk : Str → Bool) (e : Str × Str) {a : Attrs} (hs : Sorted a)
    (hk : pk e.1 = true) (hle : ∀ y ∈ a, pk y.1 = true → priority y.1 ≤ priority e.1) :
    (insertSorted e a).filter (fun kv => pk kv.1) = a.filter (fun kv => pk kv.1) ++ [e] := by
  induction a with
  | nil => simp [insertSorted, hk]
  | cons x xs ih =>
    unfold Sorted at hs
    rw [List.pairwise_cons] at hs
    unfold insertSorted
    split
    · rename_i hlt
      have hnone : (x :: xs).filter (fun kv => pk kv.1) = [] := by
        rw [List.filter_eq_nil_iff]
        intro z hz hpz
        have h1 := hle z hz hpz
        rcases List.mem_cons.mp hz with rfl | hz'
        · exact absurd h1 (Nat.not_le.mpr hlt)
        · exact absurd (Nat.le_trans (hs.1 z hz') h1) (Nat.not_le.mpr hlt)
      rw [List.filter_cons_of_pos (by exact hk), hnone]
      rfl
    · have := ih hs.2 (fun y hy => hle y (by simp [hy]))
      by_cases hpx : pk x.1 = true
      · simp [hpx, this]
      · simp [hpx, this]

/-- folding `insert` of a sorted map `S` (distinct keys) into a sorted map `A`, seen through a filter on
    keys: the selected entries of `A` stay first and in place, the selected entries of `S` follow in the
    order and with the values they have in `S` -/
theorem filter_foldl_insert (pk : Str → Bool) (S : Attrs) :
    ∀ (A : Attrs), Sorted A → Sorted S → NodupKeys S →
      (∀ kv ∈ S, pk kv.1 = true → kv.1 ∉ keys A) →
      (∀ k ∈ keys A, pk k = true → ∀ s ∈ S, priority k ≤ priority s.1) →
      (S.foldl (fun a kv => Attrs.insert a kv.1 kv.2) A).filter (fun kv => pk kv.1)
        = A.filter (fun kv => pk kv.1) ++ S.filter (fun kv => pk kv.1) := by
  induction S with
  | nil => intro A _ _ _ _ _; simp
  | cons s S' ih =>
    intro A hA hS hN hnew hle
    rw [List.foldl_cons]
    have hS' : Sorted S' := by unfold Sorted at hS ⊢; exact (List.pairwise_cons.mp hS).2
    have hSle : ∀ t ∈ S', priority s.1 ≤ priority t.1 := by
      unfold Sorted at hS; exact (List.pairwise_cons.mp hS).1
    have hN' : NodupKeys S' := by
      unfold NodupKeys keys at hN ⊢; rw [List.map_cons] at hN; exact (List.nodup_cons.mp hN).2
    have hsnot : ∀ t ∈ S', t.1 ≠ s.1 := by
      intro t ht heq
      unfold NodupKeys keys at hN; rw [List.map_cons] at hN
      exact (List.nodup_cons.mp hN).1 (heq ▸ List.mem_map.mpr ⟨t, ht, rfl⟩)
    have hA' : Sorted (Attrs.insert A s.1 s.2) := insert_sorted hA _ _
    by_cases hp : pk s.1 = true
    · -- a new selected key: lands behind every selected entry already there
      have hnc : contains A s.1 = false := by
        have := hnew s (by simp) hp
        rw [← contains_iff_mem_keys] at this
        simpa using this
      have hins : Attrs.insert A s.1 s.2 = insertSorted s A := by
        rw [insert_sorted_eq hA, hnc]; rfl
      have hf : (Attrs.insert A s.1 s.2).filter (fun kv => pk kv.1) = A.filter (fun kv => pk kv.1) ++ [s] := by
        rw [hins]
        exact filter_insertSorted_new pk s hA hp
          (fun y hy hpy => hle y.1 (List.mem_map.mpr ⟨y, hy, rfl⟩) hpy s (by simp))
      rw [ih _ hA' hS' hN', hf]
      · simp [hp]
      · intro kv hkv hpk hmem
        rcases mem_keys_insert hA _ _ _ hmem with h | h
        · exact hsnot kv hkv h
        · exact hnew kv (by simp [hkv]) hpk h
      · intro k hk hpk t ht
        rcases mem_keys_insert hA _ _ _ hk with rfl | h
        · exact hSle t ht
        · exact hle k h hpk t (by simp [ht])
    · have hp' : pk s.1 = false := by simpa using hp
      have hf : (Attrs.insert A s.1 s.2).filter (fun kv => pk kv.1) = A.filter (fun kv => pk kv.1) := by
        rw [insert_sorted_eq hA]
        split
        · exact filter_updateInPlace_of_not pk _ _ _ hp'
        · exact filter_insertSorted_of_not pk (s.1, s.2) A hp'
      rw [ih _ hA' hS' hN', hf]
      · simp [hp']
      · intro kv hkv hpk hmem
        rcases mem_keys_insert hA _ _ _ hmem with h | h
        · rw [h, hp'] at hpk; cases hpk
        · exact hnew kv (by simp [hkv]) hpk h
      · intro k hk hpk t ht
        rcases mem_keys_insert hA _ _ _ hk with rfl | h
        · rw [hp'] at hpk; cases hpk
        · exact hle k h hpk t (by simp [ht])

theorem foldl_insert_sorted (S : Attrs) : ∀ A : Attrs, Sorted A →
    Sorted (S.foldl (fun a kv => Attrs.insert a kv.1 kv.2) A) := by
  induction S with
  | nil => intro A h; exact h
  | cons s S' ih => intro A h; exact ih _ (insert_sorted h _ _)

theorem foldl_insert_nodup (S : Attrs) : ∀ A : Attrs, NodupKeys A →
    NodupKeys (S.foldl (fun a kv => Attrs.insert a kv.1 kv.2) A) := by
  induction S with
  | nil => intro A h; exact h
  | cons s S' ih => intro A h; exact ih _ (insert_nodup h _ _)

theorem filter_sorted (p : Str × Str → Bool) {a : Attrs} (h : Sorted a) : Sorted (a.filter p) :=
  List.Pairwise.filter p h

theorem filter_nodup (p : Str × Str → Bool) {a : Attrs} (h : NodupKeys a) : NodupKeys (a.filter p) :=
  List.Nodup.sublist (List.Sublist.map _ List.filter_sublist) h

theorem nodup_tail {x : Str × Str} {xs : Attrs} (h : NodupKeys (x :: xs)) : x.1 ∉ keys xs ∧ NodupKeys xs := by
  unfold NodupKeys keys at h
  rw [List.map_cons] at h
  exact List.nodup_cons.mp h

/-- with distinct keys, `pop` is the filter that drops the key -/
theorem pop_fst_eq_filter {a : Attrs} (h : NodupKeys a) (k : Str) :
    (pop a k).1 = a.filter (fun kv => kv.1 != k) := by
  induction a with
  | nil => rfl
  | cons x xs ih =>
    obtain ⟨k', v⟩ := x
    obtain ⟨hnot, hn⟩ := nodup_tail h
    simp only [pop]
    by_cases hk : k' = k
    · subst hk
      simp only [beq_self_eq_true, if_true, List.filter_cons, bne_self_eq_false, Bool.false_eq_true, if_false]
      symm
      rw [List.filter_eq_self]
      intro y hy
      simp only [bne_iff_ne, ne_eq]
      intro heq
      exact hnot (heq ▸ List.mem_map.mpr ⟨y, hy, rfl⟩)
    · have hb : (k' == k) = false := by simpa using hk
      have hb' : (k' != k) = true := by simpa using hk
      simp only [hb, Bool.false_eq_true, if_false, List.filter_cons, hb', if_true]
      rw [ih hn]

theorem get_filter_key (pk : Str → Bool) (a : Attrs) (k : Str) (hk : pk k = true) :
    Attrs.get (a.filter (fun kv => pk kv.1)) k = Attrs.get a k := by
  induction a with
  | nil => rfl
  | cons x xs ih =>
    obtain ⟨k', v⟩ := x
    unfold Attrs.get at ih ⊢
    by_cases hkk : k' = k
    · subst hkk; simp [hk, lookupTable]
    · have hb : (k' == k) = false := by simpa using hkk
      by_cases hp : pk k' = true
      · simp [hp, lookupTable, hb, ih]
      · simp [hp, lookupTable, hb, ih]

theorem get_filter_none (pk : Str → Bool) (a : Attrs) (k : Str) (hk : pk k = false) :
    Attrs.get (a.filter (fun kv => pk kv.1)) k = none := by
  unfold Attrs.get
  rw [lookup_none_iff]
  intro hmem
  obtain ⟨y, hy, rfl⟩ := List.mem_map.mp hmem
  have := (List.mem_filter.mp hy).2
  simp [hk] at this

/-- `with_attrs_from`, one key at a time: the other element's value wins, else the own value stays -/
theorem get_foldl_insert (k : Str) (S : Attrs) : ∀ A : Attrs, NodupKeys A → NodupKeys S →
    Attrs.get (S.foldl (fun a kv => Attrs.insert a kv.1 kv.2) A) k
      = (match Attrs.get S k with | some v => some v | none => Attrs.get A k) := by
  induction S with
  | nil => intro A _ _; rfl
  | cons s S' ih =>
    intro A hA hS
    obtain ⟨hnot, hS'⟩ := nodup_tail hS
    rw [List.foldl_cons, ih _ (insert_nodup hA _ _) hS']
    by_cases hk : s.1 = k
    · subst hk
      have h1 : Attrs.get S' s.1 = none := by unfold Attrs.get; rw [lookup_none_iff]; exact hnot
      have h2 : Attrs.get (s :: S') s.1 = some s.2 := by simp [Attrs.get, lookupTable]
      rw [h1, h2]
      exact get_insert_self hA _ _
    · have hb : (s.1 == k) = false := by simpa using hk
      have h2 : Attrs.get (s :: S') k = Attrs.get S' k := by simp [Attrs.get, lookupTable, hb]
      rw [h2, get_insert_other hA _ _ _ (fun h => hk h.symm)]

/-! ## Part 1: the frame of `transmuteConnector` -/

/-- the attributes a connector consumes -/
def isConnKey (k : Str) : Bool :=
  k == cs!"start" || k == cs!"end" || k == cs!"corner-offset" || k == cs!"edge-type"

/-- the attributes a rendered connector computes -/
def isGeoKey (k : Str) : Bool :=
  k == cs!"x1" || k == cs!"y1" || k == cs!"x2" || k == cs!"y2" || k == cs!"points"

theorem lineNew (a b c d : Str) :
    Elem.new cs!"line" [(cs!"x1", a), (cs!"y1", b), (cs!"x2", c), (cs!"y2", d)]
      = { name := cs!"line", attrs := [(cs!"x1", a), (cs!"y1", b), (cs!"x2", c), (cs!"y2", d)] } := rfl

theorem polyNew (p : Str) :
    Elem.new cs!"polyline" [(cs!"points", p)] = { name := cs!"polyline", attrs := [(cs!"points", p)] } := rfl

/-- `self.with_attrs_from(src)` through a filter on keys that rejects all of `self`'s keys: exactly the
    selected attributes of `src`, in `src`'s order, with `src`'s values -/
theorem withAttrsFrom_filter (self src : Elem) (pk : Str → Bool) (hA : Sorted self.attrs)
    (hS : Sorted src.attrs) (hN : NodupKeys src.attrs) (hpk : ∀ k ∈ keys self.attrs, pk k = false) :
    (self.withAttrsFrom src).attrs.filter (fun kv => pk kv.1) = src.attrs.filter (fun kv => pk kv.1) := by
  unfold Elem.withAttrsFrom
  simp only
  rw [filter_foldl_insert pk src.attrs self.attrs hA hS hN]
  · have : self.attrs.filter (fun kv => pk kv.1) = [] := by
      rw [List.filter_eq_nil_iff]
      intro z hz
      simp [hpk z.1 (List.mem_map.mpr ⟨z, hz, rfl⟩)]
    rw [this]; rfl
  · intro kv _ hp hmem; rw [hpk _ hmem] at hp; cases hp
  · intro k hk hp; rw [hpk k hk] at hp; cases hp

theorem withoutAttr_attrs (e : Elem) (k : Str) (h : Sorted e.attrs) :
    (e.withoutAttr k).attrs = e.attrs.filter (fun kv => kv.1 != k) := by
  unfold Elem.withoutAttr Attrs.ofList
  exact reorder_sorted_eq (filter_sorted _ h)

/-- what `from_element` leaves of the element: `start`, `end`, `corner-offset` popped, in this order -/
def sourceOf (e : Elem) : Elem :=
  (((e.popAttr cs!"start").1.popAttr cs!"end").1.popAttr cs!"corner-offset").1

theorem fromElement_source (c : Ctx) (e : Elem) (ct : ConnType) (k : Connector)
    (h : fromElement c e ct = .ok k) : k.source = sourceOf e ∧ k.connType = ct := by
  unfold fromElement at h
  simp only [bind, Except.bind, pure, Except.pure, throw, throwThe, MonadExceptOf.throw] at h
  (repeat' split at h) <;> cases h <;> exact ⟨rfl, rfl⟩

theorem sourceOf_attrs (e : Elem) (hN : NodupKeys e.attrs) :
    (sourceOf e).attrs = ((e.attrs.filter (fun kv => kv.1 != cs!"start")).filter
      (fun kv => kv.1 != cs!"end")).filter (fun kv => kv.1 != cs!"corner-offset") := by
  unfold sourceOf Elem.popAttr
  simp only
  rw [pop_fst_eq_filter hN, pop_fst_eq_filter (filter_nodup _ hN),
    pop_fst_eq_filter (filter_nodup _ (filter_nodup _ hN))]

theorem sourceOf_rest (e : Elem) :
    (sourceOf e).classes = e.classes ∧ (sourceOf e).contentBBox = e.contentBBox ∧
    (sourceOf e).isEmpty = e.isEmpty ∧ (sourceOf e).name = e.name := ⟨rfl, rfl, rfl, rfl⟩

/-- a rendered connector is a fresh `line` (x1 y1 x2 y2) or `polyline` (points) dressed with the source -/
theorem render_shape (c : Ctx) (k : Connector) (r : Elem) (h : render c k = .ok r) :
    (∃ a b c d : Str, r = (Elem.new cs!"line"
        [(cs!"x1", a), (cs!"y1", b), (cs!"x2", c), (cs!"y2", d)]).withAttrsFrom k.source) ∨
    (∃ p : Str, r = (Elem.new cs!"polyline" [(cs!"points", p)]).withAttrsFrom k.source) := by
  unfold render at h
  simp only [bind, Except.bind, pure, Except.pure] at h
  split at h
  · split at h
    · cases h
    · cases h; exact Or.inl ⟨_, _, _, _, rfl⟩
  · split at h
    · cases h
    · cases h; exact Or.inl ⟨_, _, _, _, rfl⟩
  · cases h; exact Or.inl ⟨_, _, _, _, rfl⟩
  · split at h
    · cases h
    · split at h
      · cases h; exact Or.inl ⟨_, _, _, _, rfl⟩
      · cases h; exact Or.inr ⟨_, rfl⟩

theorem sourceOf_sorted (e : Elem) (hN : NodupKeys e.attrs) (hS : Sorted e.attrs) :
    Sorted (sourceOf e).attrs ∧ NodupKeys (sourceOf e).attrs := by
  rw [sourceOf_attrs e hN]
  exact ⟨filter_sorted _ (filter_sorted _ (filter_sorted _ hS)), filter_nodup _ (filter_nodup _ (filter_nodup _ hN))⟩

theorem keyPred (k : Str) :
    ((!isGeoKey k && k != cs!"edge-type") && (k != cs!"corner-offset" && (k != cs!"end" && k != cs!"start")))
      = (!isConnKey k && !isGeoKey k) := by
  unfold isConnKey
  simp only [bne]
  cases (k == cs!"start") <;> cases (k == cs!"end") <;> cases (k == cs!"corner-offset") <;>
    cases (k == cs!"edge-type") <;> cases (isGeoKey k) <;> rfl

theorem dress_frame (X e : Elem) (hN : NodupKeys e.attrs) (hS : Sorted e.attrs)
    (hXs : Sorted X.attrs) (hXn : NodupKeys X.attrs) (hXg : ∀ k ∈ keys X.attrs, isGeoKey k = true) :
    ((X.withAttrsFrom (sourceOf e)).withoutAttr cs!"edge-type").attrs.filter (fun kv => !isGeoKey kv.1)
        = e.attrs.filter (fun kv => !isConnKey kv.1 && !isGeoKey kv.1) ∧
    Sorted ((X.withAttrsFrom (sourceOf e)).withoutAttr cs!"edge-type").attrs ∧
    NodupKeys ((X.withAttrsFrom (sourceOf e)).withoutAttr cs!"edge-type").attrs := by
  obtain ⟨hsS, hsN⟩ := sourceOf_sorted e hN hS
  have hW : Sorted (X.withAttrsFrom (sourceOf e)).attrs := foldl_insert_sorted _ _ hXs
  have hWn : NodupKeys (X.withAttrsFrom (sourceOf e)).attrs := foldl_insert_nodup _ _ hXn
  rw [withoutAttr_attrs _ _ hW]
  refine ⟨?_, filter_sorted _ hW, filter_nodup _ hWn⟩
  rw [List.filter_filter]
  have h1 := withAttrsFrom_filter X (sourceOf e) (fun k => !isGeoKey k && k != cs!"edge-type") hXs hsS hsN
    (by intro k hk; simp [hXg k hk])
  refine Eq.trans h1 ?_
  rw [sourceOf_attrs e hN]
  simp only [List.filter_filter]
  exact List.filter_congr (fun kv _ => keyPred kv.1)

/-- the connection type `transmute` passes to `from_element` -/
def connTypeOf (e : Elem) : ConnType :=
  match e.getAttr cs!"edge-type" with
  | some t => connTypeOfStr t
  | none => if e.name == cs!"polyline" then .corner else .straight

theorem transmute_unfold (c : Ctx) (e : Elem) (hc : isConnector e = true) :
    transmuteConnector c e = (match fromElement c e (connTypeOf e) with
      | .ok k => (render c k).map fun r => r.withoutAttr cs!"edge-type"
      | .error _ => .error .invalidData) := by
  unfold transmuteConnector connTypeOf
  rw [if_pos hc]
  rfl

/-- **(c), not a connector**: returned unchanged -/
theorem transmute_nonconnector (c : Ctx) (e : Elem) (hc : isConnector e = false) :
    transmuteConnector c e = .ok e := by
  unfold transmuteConnector
  rw [if_neg (by simp [hc])]

theorem transmute_ok_inv (c : Ctx) (e r : Elem) (hc : isConnector e = true)
    (h : transmuteConnector c e = .ok r) :
    ∃ k r0, fromElement c e (connTypeOf e) = .ok k ∧ render c k = .ok r0 ∧
      r = r0.withoutAttr cs!"edge-type" := by
  rw [transmute_unfold c e hc] at h
  split at h
  · rename_i k hk
    simp only [Except.map] at h
    split at h
    · cases h
    · rename_i r0 hr
      cases h
      exact ⟨k, r0, hk, hr, rfl⟩
  · cases h

theorem line_sorted (a b c d : Str) :
    Sorted (Elem.new cs!"line" [(cs!"x1", a), (cs!"y1", b), (cs!"x2", c), (cs!"y2", d)]).attrs ∧
    NodupKeys (Elem.new cs!"line" [(cs!"x1", a), (cs!"y1", b), (cs!"x2", c), (cs!"y2", d)]).attrs ∧
    ∀ k ∈ keys (Elem.new cs!"line" [(cs!"x1", a), (cs!"y1", b), (cs!"x2", c), (cs!"y2", d)]).attrs,
      isGeoKey k = true := by
  rw [lineNew, sorted_iff_keys]
  simp only [NodupKeys, keys, List.map]
  refine ⟨by decide, by decide, by decide⟩

theorem poly_sorted (p : Str) :
    Sorted (Elem.new cs!"polyline" [(cs!"points", p)]).attrs ∧
    NodupKeys (Elem.new cs!"polyline" [(cs!"points", p)]).attrs ∧
    ∀ k ∈ keys (Elem.new cs!"polyline" [(cs!"points", p)]).attrs, isGeoKey k = true := by
  rw [polyNew, sorted_iff_keys]
  simp only [NodupKeys, keys, List.map]
  refine ⟨by decide, by decide, by decide⟩

/-- **(c), frame of a connector**: for an element with distinct keys in priority order (the `AttrMap`
    invariant) that is a connector and is transmuted successfully, the result is called `line` or
    `polyline`; outside the computed geometry keys (x1 y1 x2 y2 points) its attribute list IS the list of
    `e` without start / end / corner-offset / edge-type - same entries, same values, same order; it is again
    sorted with distinct keys; classes, content box and emptiness are those of `e` -/
theorem transmute_frame (c : Ctx) (e r : Elem) (hN : NodupKeys e.attrs) (hS : Sorted e.attrs)
    (hc : isConnector e = true) (h : transmuteConnector c e = .ok r) :
    (r.name = cs!"line" ∨ r.name = cs!"polyline") ∧
    r.attrs.filter (fun kv => !isGeoKey kv.1)
      = e.attrs.filter (fun kv => !isConnKey kv.1 && !isGeoKey kv.1) ∧
    Sorted r.attrs ∧ NodupKeys r.attrs ∧
    r.classes = e.classes ∧ r.contentBBox = e.contentBBox ∧ r.isEmpty = e.isEmpty := by
  obtain ⟨k, r0, hk, hr, rfl⟩ := transmute_ok_inv c e r hc h
  obtain ⟨hsrc, _⟩ := fromElement_source c e _ k hk
  rcases render_shape c k r0 hr with ⟨a, b, c', d, rfl⟩ | ⟨p, rfl⟩
  · rw [hsrc]
    obtain ⟨h1, h2, h3⟩ := line_sorted a b c' d
    obtain ⟨f1, f2, f3⟩ := dress_frame _ e hN hS h1 h2 h3
    exact ⟨Or.inl rfl, f1, f2, f3, rfl, rfl, rfl⟩
  · rw [hsrc]
    obtain ⟨h1, h2, h3⟩ := poly_sorted p
    obtain ⟨f1, f2, f3⟩ := dress_frame _ e hN hS h1 h2 h3
    exact ⟨Or.inr rfl, f1, f2, f3, rfl, rfl, rfl⟩

/-- **(c), consumed**: start, end, corner-offset and edge-type never appear in the output -/
theorem transmute_drops (c : Ctx) (e r : Elem) (hN : NodupKeys e.attrs) (hS : Sorted e.attrs)
    (hc : isConnector e = true) (h : transmuteConnector c e = .ok r) :
    r.getAttr cs!"start" = none ∧ r.getAttr cs!"end" = none ∧
    r.getAttr cs!"corner-offset" = none ∧ r.getAttr cs!"edge-type" = none := by
  obtain ⟨_, hf, _⟩ := transmute_frame c e r hN hS hc h
  have key : ∀ k : Str, isGeoKey k = false → isConnKey k = true → r.getAttr k = none := by
    intro k hg hck
    unfold Elem.getAttr
    rw [← get_filter_key (fun k => !isGeoKey k) r.attrs k (by simp [hg]), hf]
    exact get_filter_none (fun k => !isConnKey k && !isGeoKey k) e.attrs k (by simp [hck])
  exact ⟨key _ (by decide) (by decide), key _ (by decide) (by decide), key _ (by decide) (by decide),
    key _ (by decide) (by decide)⟩

/-- **(c), carried over**: every other attribute (id, style, stroke, ... - anything but the four consumed
    and the computed geometry keys) has in the output the value it has in `e` -/
theorem transmute_keeps (c : Ctx) (e r : Elem) (hN : NodupKeys e.attrs) (hS : Sorted e.attrs)
    (hc : isConnector e = true) (h : transmuteConnector c e = .ok r) (k : Str)
    (h1 : isConnKey k = false) (h2 : isGeoKey k = false) : r.getAttr k = e.getAttr k := by
  obtain ⟨_, hf, _⟩ := transmute_frame c e r hN hS hc h
  unfold Elem.getAttr
  rw [← get_filter_key (fun k => !isGeoKey k) r.attrs k (by simp [h2]), hf]
  exact get_filter_key (fun k => !isConnKey k && !isGeoKey k) e.attrs k (by simp [h1, h2])

/-! ## Part 2: `render`, one theorem per connection type -/

theorem needBB_ok {c : Ctx} {e : Elem} {b : BoundingBox} (h : c.bb e = .ok (some b)) : needBB c e = .ok b := by
  simp [needBB, h, bind, Except.bind, pure, Except.pure]

theorem needBB_none {c : Ctx} {e : Elem} (h : c.bb e = .ok none) : needBB c e = .error .missingBBox := by
  simp [needBB, h, bind, Except.bind, throw, throwThe, MonadExceptOf.throw]

theorem needBB_err {c : Ctx} {e : Elem} {x : Err} (h : c.bb e = .error x) : needBB c e = .error x := by
  simp [needBB, h, bind, Except.bind]

/-- a box is delivered only when the element has one: no default box -/
theorem needBB_ok_iff (c : Ctx) (e : Elem) (b : BoundingBox) : needBB c e = .ok b ↔ c.bb e = .ok (some b) := by
  constructor
  · intro h
    cases hb : c.bb e with
    | error x => rw [needBB_err hb] at h; cases h
    | ok o =>
      cases o with
      | none => rw [needBB_none hb] at h; cases h
      | some b' => rw [needBB_ok hb] at h; cases h; rfl
  · exact needBB_ok

/-- **(b) Straight**: `<line>` from the start point to the end point, dressed with the source -/
theorem render_straight (c : Ctx) (k : Connector) (h : k.connType = .straight) :
    render c k = .ok (lineElem k.start.origin.1 k.start.origin.2 k.end_.origin.1 k.end_.origin.2 k.source) := by
  obtain ⟨src, sEl, eEl, ⟨⟨x1, y1⟩, sd⟩, ⟨⟨x2, y2⟩, ed⟩, ct, off⟩ := k
  simp only at h; subst h
  rfl

/-- **(b) Horizontal, two elements**: both ends at y = middle of the overlap of the two boxes' y-ranges -/
theorem render_horizontal_boxes (c : Ctx) (k : Connector) (se ee : Elem) (sb eb : BoundingBox)
    (h : k.connType = .horizontal) (hs : k.startEl = some se) (he : k.endEl = some ee)
    (hsb : c.bb se = .ok (some sb)) (heb : c.bb ee = .ok (some eb)) :
    render c k = .ok
      (lineElem k.start.origin.1
        (overlapMid (sb.scalarspec .Miny) (sb.scalarspec .Maxy) (eb.scalarspec .Miny) (eb.scalarspec .Maxy))
        k.end_.origin.1
        (overlapMid (sb.scalarspec .Miny) (sb.scalarspec .Maxy) (eb.scalarspec .Miny) (eb.scalarspec .Maxy))
        k.source) := by
  obtain ⟨src, sEl, eEl, ⟨⟨x1, y1⟩, sd⟩, ⟨⟨x2, y2⟩, ed⟩, ct, off⟩ := k
  simp only at h hs he; subst h hs he
  simp [render, needBB_ok hsb, needBB_ok heb, bind, Except.bind, pure, Except.pure]

/-- **(b) Horizontal, a literal end**: both ends at the start point's own y -/
theorem render_horizontal_point (c : Ctx) (k : Connector) (h : k.connType = .horizontal)
    (hp : k.startEl = none ∨ k.endEl = none) :
    render c k = .ok (lineElem k.start.origin.1 k.start.origin.2 k.end_.origin.1 k.start.origin.2 k.source) := by
  obtain ⟨src, sEl, eEl, ⟨⟨x1, y1⟩, sd⟩, ⟨⟨x2, y2⟩, ed⟩, ct, off⟩ := k
  simp only at h hp; subst h
  rcases hp with rfl | rfl
  · simp [render, bind, Except.bind, pure, Except.pure]
  · cases sEl <;> simp [render, bind, Except.bind, pure, Except.pure]

/-- **(b) Vertical, two elements**: both ends at x = middle of the overlap of the two boxes' x-ranges -/
theorem render_vertical_boxes (c : Ctx) (k : Connector) (se ee : Elem) (sb eb : BoundingBox)
    (h : k.connType = .vertical) (hs : k.startEl = some se) (he : k.endEl = some ee)
    (hsb : c.bb se = .ok (some sb)) (heb : c.bb ee = .ok (some eb)) :
    render c k = .ok
      (lineElem
        (overlapMid (sb.scalarspec .Minx) (sb.scalarspec .Maxx) (eb.scalarspec .Minx) (eb.scalarspec .Maxx))
        k.start.origin.2
        (overlapMid (sb.scalarspec .Minx) (sb.scalarspec .Maxx) (eb.scalarspec .Minx) (eb.scalarspec .Maxx))
        k.end_.origin.2 k.source) := by
  obtain ⟨src, sEl, eEl, ⟨⟨x1, y1⟩, sd⟩, ⟨⟨x2, y2⟩, ed⟩, ct, off⟩ := k
  simp only at h hs he; subst h hs he
  simp [render, needBB_ok hsb, needBB_ok heb, bind, Except.bind, pure, Except.pure]

/-- **(b) Vertical, a literal end**: both ends at the start point's own x -/
theorem render_vertical_point (c : Ctx) (k : Connector) (h : k.connType = .vertical)
    (hp : k.startEl = none ∨ k.endEl = none) :
    render c k = .ok (lineElem k.start.origin.1 k.start.origin.2 k.start.origin.1 k.end_.origin.2 k.source) := by
  obtain ⟨src, sEl, eEl, ⟨⟨x1, y1⟩, sd⟩, ⟨⟨x2, y2⟩, ed⟩, ct, off⟩ := k
  simp only at h hp; subst h
  rcases hp with rfl | rfl
  · simp [render, bind, Except.bind, pure, Except.pure]
  · cases sEl <;> simp [render, bind, Except.bind, pure, Except.pure]

/-- **(b) Horizontal / Vertical, a box is missing**: the error of the box lookup, no line -/
theorem render_hv_nobox (c : Ctx) (k : Connector) (se ee : Elem) (x : Err)
    (h : k.connType = .horizontal ∨ k.connType = .vertical) (hs : k.startEl = some se) (he : k.endEl = some ee)
    (hb : needBB c se = .error x ∨ (∃ sb, needBB c se = .ok sb) ∧ needBB c ee = .error x) :
    render c k = .error x := by
  obtain ⟨src, sEl, eEl, ⟨⟨x1, y1⟩, sd⟩, ⟨⟨x2, y2⟩, ed⟩, ct, off⟩ := k
  simp only at h hs he; subst hs he
  rcases h with rfl | rfl <;> rcases hb with hb | ⟨⟨sb, hb1⟩, hb2⟩ <;>
    simp [render, *, bind, Except.bind]

/-- the element a Corner connector produces from its point list -/
def cornerElem (pts : List (Rat × Rat)) (src : Elem) : Elem :=
  match pts with
  | [p, q] => lineElem p.1 p.2 q.1 q.2 src
  | _ => (Elem.new cs!"polyline" [(cs!"points", pointsStr pts)]).withAttrsFrom src

/-- **(b) Corner**: the point list of `cornerPoints` (C13 / C13x), as a `<line>` when it has two points and
    as `<polyline points=...>` otherwise; an error of `cornerPoints` is the error of `render` -/
theorem render_corner (c : Ctx) (k : Connector) (h : k.connType = .corner) :
    render c k = (cornerPoints k.start.origin k.end_.origin k.start.dir k.end_.dir k.offset).map
      (fun pts => cornerElem pts k.source) := by
  obtain ⟨src, sEl, eEl, ⟨⟨x1, y1⟩, sd⟩, ⟨⟨x2, y2⟩, ed⟩, ct, off⟩ := k
  simp only at h; subst h
  simp only [render, bind, Except.bind, pure, Except.pure]
  cases hcp : cornerPoints (x1, y1) (x2, y2) sd ed off with
  | error x => rfl
  | ok pts =>
    simp only [Except.map, cornerElem]
    rcases pts with _ | ⟨p, _ | ⟨q, _ | ⟨r, rest⟩⟩⟩ <;> rfl

theorem corner_len (s e : Rat × Rat) (sd ed : Dir) (off : Option Length) (pts : List (Rat × Rat))
    (h : cornerPoints s e (some sd) (some ed) off = .ok pts) : pts.length = 3 ∨ pts.length = 4 := by
  obtain ⟨x1, y1⟩ := s
  obtain ⟨x2, y2⟩ := e
  cases sd <;> cases ed <;> simp only [cornerPoints] at h
  all_goals first
    | (cases h; simp)
    | (cases hd : off.getD (Length.Absolute 3) with
       | Ratio r => simp [hd, Except.map] at h
       | Absolute a =>
         simp only [hd, Except.map, Except.ok.injEq] at h
         subst h
         simp)

/-- **(b) Corner, both ends on an edge**: a `<polyline>` of three or four points -/
theorem render_corner_polyline (c : Ctx) (k : Connector) (sd ed : Dir) (pts : List (Rat × Rat))
    (h : k.connType = .corner) (hsd : k.start.dir = some sd) (hed : k.end_.dir = some ed)
    (hp : cornerPoints k.start.origin k.end_.origin (some sd) (some ed) k.offset = .ok pts) :
    render c k = .ok ((Elem.new cs!"polyline" [(cs!"points", pointsStr pts)]).withAttrsFrom k.source) ∧
    (pts.length = 3 ∨ pts.length = 4) := by
  have hl := corner_len _ _ _ _ _ _ hp
  refine ⟨?_, hl⟩
  rw [render_corner c k h, hsd, hed, hp]
  simp only [Except.map, cornerElem]
  rcases pts with _ | ⟨p, _ | ⟨q, _ | ⟨r, rest⟩⟩⟩ <;> simp at hl ⊢

/-- **(b) Corner, an end without direction** (literal point, corner or centre location): the `<line>`
    between the two points -/
theorem render_corner_line (c : Ctx) (k : Connector) (h : k.connType = .corner)
    (hd : k.start.dir = none ∨ k.end_.dir = none) :
    render c k = .ok (lineElem k.start.origin.1 k.start.origin.2 k.end_.origin.1 k.end_.origin.2 k.source) := by
  rw [render_corner c k h, C13.corner_without_dir _ _ _ _ _ hd]
  rfl

/-- **(b) Corner, U shape with a ratio offset**: `InvalidData`, no element -/
theorem render_corner_u_ratio (c : Ctx) (k : Connector) (d : Dir) (r : Rat) (h : k.connType = .corner)
    (hsd : k.start.dir = some d) (hed : k.end_.dir = some d) (ho : k.offset = some (Length.Ratio r)) :
    render c k = .error .invalidData := by
  rw [render_corner c k h, hsd, hed, ho, C13.corner_u_needs_absolute]
  rfl

/-! ## Part 3: `fromElement`, the end points -/

theorem pop_snd (a : Attrs) (k : Str) : (Attrs.pop a k).2 = Attrs.get a k := by
  induction a with
  | nil => simp [Attrs.pop, Attrs.get, Attrs.lookupTable]
  | cons x xs ih =>
    obtain ⟨k', v⟩ := x
    simp only [Attrs.pop, Attrs.get, Attrs.lookupTable]
    by_cases h : (k' == k) = true
    · simp [h]
    · simp only [h]; simpa [Attrs.get] using ih

theorem get_pop_other (a : Attrs) (k k2 : Str) (h : k2 ≠ k) :
    Attrs.get (Attrs.pop a k).1 k2 = Attrs.get a k2 := by
  induction a with
  | nil => simp [Attrs.pop]
  | cons x xs ih =>
    obtain ⟨k', v⟩ := x
    unfold Attrs.get at ih ⊢
    rw [Attrs.pop]
    by_cases hk : k' = k
    · subst hk; simp [Attrs.lookupTable, Ne.symm h]
    · simp [hk, Attrs.lookupTable, ih]

/-- the `corner-offset` of the element as `from_element` reads it -/
def offsetOf (e : Elem) : Except Err (Option Length) :=
  match e.getAttr cs!"corner-offset" with
  | some o => (match parseLength o with | some l => .ok (some l) | none => .error .parse)
  | none => .ok none

theorem popStart (e : Elem) (s : Str) (hs : e.getAttr cs!"start" = some s) :
    e.popAttr cs!"start" = ((e.popAttr cs!"start").1, some s) :=
  Prod.ext rfl (by show (Attrs.pop e.attrs _).2 = _; rw [pop_snd]; exact hs)

theorem popEnd (e : Elem) (t : Str) (ht : e.getAttr cs!"end" = some t) :
    (e.popAttr cs!"start").1.popAttr cs!"end" = (((e.popAttr cs!"start").1.popAttr cs!"end").1, some t) :=
  Prod.ext rfl (by
    show (Attrs.pop (Attrs.pop e.attrs _).1 _).2 = _
    rw [pop_snd, get_pop_other _ _ _ (by decide)]; exact ht)

theorem popOff (e : Elem) :
    ((e.popAttr cs!"start").1.popAttr cs!"end").1.popAttr cs!"corner-offset"
      = (sourceOf e, e.getAttr cs!"corner-offset") :=
  Prod.ext rfl (by
    show (Attrs.pop (Attrs.pop (Attrs.pop e.attrs _).1 _).1 _).2 = _
    rw [pop_snd, get_pop_other _ _ _ (by decide), get_pop_other _ _ _ (by decide)]; rfl)


def elOf : EndSpec → Option Elem
  | .elem el _ => el
  | .point _ => none

def mkEnd (p : Rat × Rat) (l : LocSpec) : Endpoint := ⟨p, locToDir l⟩

/-- the case analysis of `from_element` on the two parsed ends, as a function of its own (the text of the
    model's `match s, t with`); `fromElement_eq` proves that `fromElement` is this function behind the
    attribute handling, the per-case theorems below are its arms -/
def ends (c : Ctx) (ct : ConnType) : EndSpec → EndSpec → Except Err (Endpoint × Endpoint)
  | .point sp, .point ep => .ok (⟨sp, none⟩, ⟨ep, none⟩)
  | .point _, .elem none _ => .error .other
  | .point sp, .elem (some eel) eloc =>
    (needBB c eel).bind fun bb =>
      let loc := match eloc with | some l => l | none => closestLoc bb sp ct
      .ok (⟨sp, none⟩, mkEnd (bb.locspec loc) loc)
  | .elem none _, _ => .error .other
  | .elem (some sel) sloc, .point ep =>
    (needBB c sel).bind fun bb =>
      let loc := match sloc with | some l => l | none => closestLoc bb ep ct
      .ok (mkEnd (bb.locspec loc) loc, ⟨ep, none⟩)
  | .elem (some _) _, .elem none _ => .error .other
  | .elem (some sel) none, .elem (some eel) none =>
    (needBB c sel).bind fun sb => (needBB c eel).bind fun eb =>
      .ok (mkEnd (sb.locspec (shortestLink sb eb ct).1) (shortestLink sb eb ct).1,
           mkEnd (eb.locspec (shortestLink sb eb ct).2) (shortestLink sb eb ct).2)
  | .elem (some sel) none, .elem (some eel) (some l2) =>
    (needBB c eel).bind fun eb => (needBB c sel).bind fun sb =>
      .ok (mkEnd (sb.locspec (closestLoc sb (eb.locspec l2) ct)) (closestLoc sb (eb.locspec l2) ct),
           mkEnd (eb.locspec l2) l2)
  | .elem (some sel) (some l1), .elem (some eel) none =>
    (needBB c sel).bind fun sb => (needBB c eel).bind fun eb =>
      .ok (mkEnd (sb.locspec l1) l1,
           mkEnd (eb.locspec (closestLoc eb (sb.locspec l1) ct)) (closestLoc eb (sb.locspec l1) ct))
  | .elem (some sel) (some l1), .elem (some eel) (some l2) =>
    (needBB c sel).bind fun sb => (needBB c eel).bind fun eb =>
      .ok (mkEnd (sb.locspec l1) l1, mkEnd (eb.locspec l2) l2)

/-- **(a), the whole function**: with `start`, `end` present, a readable `corner-offset` and two ends that
    parse, `fromElement` is `ends` on the parsed ends; the connector keeps the element without the three
    attributes, the two looked-up elements, the connection type and the offset -/
theorem fromElement_eq (c : Ctx) (e : Elem) (ct : ConnType) (s t : Str) (off : Option Length) (S T : EndSpec)
    (hs : e.getAttr cs!"start" = some s) (ht : e.getAttr cs!"end" = some t) (ho : offsetOf e = .ok off)
    (hS : parseEnd c s = .ok S) (hT : parseEnd c t = .ok T) :
    fromElement c e ct = (ends c ct S T).map fun p =>
      { source := sourceOf e, startEl := elOf S, endEl := elOf T, start := p.1, end_ := p.2,
        connType := ct, offset := off } := by
  unfold fromElement
  rw [popStart e s hs]
  simp only []
  rw [popEnd e t ht]
  simp only []
  rw [popOff e]
  unfold offsetOf at ho
  generalize e.getAttr cs!"corner-offset" = co at ho ⊢
  rcases co with _ | o
  on_goal 2 =>
    simp only at ho ⊢
    generalize parseLength o = pl at ho ⊢
    rcases pl with _ | l
    · cases ho
  all_goals cases ho
  all_goals simp only [bind, Except.bind, pure, Except.pure, throw, throwThe, MonadExceptOf.throw, hS, hT]
  all_goals
    rcases S with ⟨_ | sel, _ | l1⟩ | sp <;> rcases T with ⟨_ | eel, _ | l2⟩ | ep <;>
    simp only [ends, Except.map, elOf, mkEnd, Option.bind, Except.bind]


/-- the attribute part of `from_element` went through: `start`, `end` present, `corner-offset` absent or a
    length, both ends parse (to `S`, `T`) -/
structure Reads (c : Ctx) (e : Elem) (off : Option Length) (S T : EndSpec) : Prop where
  ex : ∃ s t : Str, e.getAttr cs!"start" = some s ∧ e.getAttr cs!"end" = some t ∧
    parseEnd c s = .ok S ∧ parseEnd c t = .ok T
  off : offsetOf e = .ok off

/-- the connector `from_element` builds from two end points -/
def mkConn (e : Elem) (ct : ConnType) (off : Option Length) (S T : EndSpec) (st en : Endpoint) : Connector :=
  { source := sourceOf e, startEl := elOf S, endEl := elOf T, start := st, end_ := en,
    connType := ct, offset := off }

theorem fromElement_of_ends {c : Ctx} {e : Elem} {off : Option Length} {S T : EndSpec} (R : Reads c e off S T)
    (ct : ConnType) (st en : Endpoint) (h : ends c ct S T = .ok (st, en)) :
    fromElement c e ct = .ok (mkConn e ct off S T st en) := by
  obtain ⟨⟨s, t, hs, ht, hS, hT⟩, ho⟩ := R
  rw [fromElement_eq c e ct s t off S T hs ht ho hS hT, h]; rfl

theorem fromElement_of_ends_err {c : Ctx} {e : Elem} {off : Option Length} {S T : EndSpec}
    (R : Reads c e off S T) (ct : ConnType) (x : Err) (h : ends c ct S T = .error x) :
    fromElement c e ct = .error x := by
  obtain ⟨⟨s, t, hs, ht, hS, hT⟩, ho⟩ := R
  rw [fromElement_eq c e ct s t off S T hs ht ho hS hT, h]; rfl

/-- **(a) literal / literal**: both points verbatim, no direction -/
theorem ends_point_point {c : Ctx} {e : Elem} {off : Option Length} (ct : ConnType) (sp ep : Rat × Rat)
    (R : Reads c e off (.point sp) (.point ep)) :
    fromElement c e ct = .ok (mkConn e ct off (.point sp) (.point ep) ⟨sp, none⟩ ⟨ep, none⟩) :=
  fromElement_of_ends R ct _ _ rfl

/-- **(a) literal / element**: the start point verbatim without direction; the end on the referenced
    element's box at the named location, or (bare reference) at the candidate closest to the start point -
    no candidate of the connection type is closer -/
theorem ends_point_elem {c : Ctx} {e : Elem} {off : Option Length} (ct : ConnType) (sp : Rat × Rat)
    (ee : Elem) (eloc : Option LocSpec) (eb : BoundingBox)
    (R : Reads c e off (.point sp) (.elem (some ee) eloc)) (hb : c.bb ee = .ok (some eb)) :
    fromElement c e ct = .ok (mkConn e ct off (.point sp) (.elem (some ee) eloc) ⟨sp, none⟩
      (mkEnd (eb.locspec (eloc.getD (closestLoc eb sp ct))) (eloc.getD (closestLoc eb sp ct)))) ∧
    (eloc = none → ∀ l ∈ edgeLocations ct,
      distSq (eb.locspec (eloc.getD (closestLoc eb sp ct))) sp ≤ distSq (eb.locspec l) sp) := by
  refine ⟨fromElement_of_ends R ct _ _ ?_, ?_⟩
  · cases eloc <;> simp [ends, needBB_ok hb, Except.bind]
  · rintro rfl; exact (C13.closest_minimal eb sp ct).2

/-- **(a) element / literal**: mirror image -/
theorem ends_elem_point {c : Ctx} {e : Elem} {off : Option Length} (ct : ConnType) (ep : Rat × Rat)
    (se : Elem) (sloc : Option LocSpec) (sb : BoundingBox)
    (R : Reads c e off (.elem (some se) sloc) (.point ep)) (hb : c.bb se = .ok (some sb)) :
    fromElement c e ct = .ok (mkConn e ct off (.elem (some se) sloc) (.point ep)
      (mkEnd (sb.locspec (sloc.getD (closestLoc sb ep ct))) (sloc.getD (closestLoc sb ep ct))) ⟨ep, none⟩) ∧
    (sloc = none → ∀ l ∈ edgeLocations ct,
      distSq (sb.locspec (sloc.getD (closestLoc sb ep ct))) ep ≤ distSq (sb.locspec l) ep) := by
  refine ⟨fromElement_of_ends R ct _ _ ?_, ?_⟩
  · cases sloc <;> simp [ends, needBB_ok hb, Except.bind]
  · rintro rfl; exact (C13.closest_minimal sb ep ct).2

/-- **(a) `#a@l1` / `#b@l2`**: both named locations, directions from the locations -/
theorem ends_named_named {c : Ctx} {e : Elem} {off : Option Length} (ct : ConnType) (se ee : Elem)
    (l1 l2 : LocSpec) (sb eb : BoundingBox)
    (R : Reads c e off (.elem (some se) (some l1)) (.elem (some ee) (some l2)))
    (hsb : c.bb se = .ok (some sb)) (heb : c.bb ee = .ok (some eb)) :
    fromElement c e ct = .ok (mkConn e ct off (.elem (some se) (some l1)) (.elem (some ee) (some l2))
      (mkEnd (sb.locspec l1) l1) (mkEnd (eb.locspec l2) l2)) :=
  fromElement_of_ends R ct _ _ (by simp [ends, needBB_ok hsb, needBB_ok heb, Except.bind])

/-- **(a) `#a` / `#b`**: the pair of candidates chosen by `shortestLink`; no pair of candidates is closer -/
theorem ends_bare_bare {c : Ctx} {e : Elem} {off : Option Length} (ct : ConnType) (se ee : Elem)
    (sb eb : BoundingBox) (R : Reads c e off (.elem (some se) none) (.elem (some ee) none))
    (hsb : c.bb se = .ok (some sb)) (heb : c.bb ee = .ok (some eb)) :
    fromElement c e ct = .ok (mkConn e ct off (.elem (some se) none) (.elem (some ee) none)
      (mkEnd (sb.locspec (shortestLink sb eb ct).1) (shortestLink sb eb ct).1)
      (mkEnd (eb.locspec (shortestLink sb eb ct).2) (shortestLink sb eb ct).2)) ∧
    ∀ l1 ∈ edgeLocations ct, ∀ l2 ∈ edgeLocations ct,
      distSq (sb.locspec (shortestLink sb eb ct).1) (eb.locspec (shortestLink sb eb ct).2)
        ≤ distSq (sb.locspec l1) (eb.locspec l2) :=
  ⟨fromElement_of_ends R ct _ _ (by simp [ends, needBB_ok hsb, needBB_ok heb, Except.bind]),
   (C13.shortest_minimal sb eb ct).2.2⟩

/-- **(a) `#a` / `#b@l2`** (mixed): the end at its named location; the start at the candidate of `a` closest
    to that END POINT (not `shortestLink`) -/
theorem ends_bare_named {c : Ctx} {e : Elem} {off : Option Length} (ct : ConnType) (se ee : Elem)
    (l2 : LocSpec) (sb eb : BoundingBox) (R : Reads c e off (.elem (some se) none) (.elem (some ee) (some l2)))
    (hsb : c.bb se = .ok (some sb)) (heb : c.bb ee = .ok (some eb)) :
    fromElement c e ct = .ok (mkConn e ct off (.elem (some se) none) (.elem (some ee) (some l2))
      (mkEnd (sb.locspec (closestLoc sb (eb.locspec l2) ct)) (closestLoc sb (eb.locspec l2) ct))
      (mkEnd (eb.locspec l2) l2)) ∧
    ∀ l ∈ edgeLocations ct,
      distSq (sb.locspec (closestLoc sb (eb.locspec l2) ct)) (eb.locspec l2)
        ≤ distSq (sb.locspec l) (eb.locspec l2) :=
  ⟨fromElement_of_ends R ct _ _ (by simp [ends, needBB_ok hsb, needBB_ok heb, Except.bind]),
   (C13.closest_minimal sb _ ct).2⟩

/-- **(a) `#a@l1` / `#b`** (mixed): the start at its named location; the end at the candidate of `b` closest
    to that START POINT -/
theorem ends_named_bare {c : Ctx} {e : Elem} {off : Option Length} (ct : ConnType) (se ee : Elem)
    (l1 : LocSpec) (sb eb : BoundingBox) (R : Reads c e off (.elem (some se) (some l1)) (.elem (some ee) none))
    (hsb : c.bb se = .ok (some sb)) (heb : c.bb ee = .ok (some eb)) :
    fromElement c e ct = .ok (mkConn e ct off (.elem (some se) (some l1)) (.elem (some ee) none)
      (mkEnd (sb.locspec l1) l1)
      (mkEnd (eb.locspec (closestLoc eb (sb.locspec l1) ct)) (closestLoc eb (sb.locspec l1) ct))) ∧
    ∀ l ∈ edgeLocations ct,
      distSq (eb.locspec (closestLoc eb (sb.locspec l1) ct)) (sb.locspec l1)
        ≤ distSq (eb.locspec l) (sb.locspec l1) :=
  ⟨fromElement_of_ends R ct _ _ (by simp [ends, needBB_ok hsb, needBB_ok heb, Except.bind]),
   (C13.closest_minimal eb _ ct).2⟩

/-- **(a) a reference that does not resolve**: `Other` ("no start_el" / "no end_el"), never a default point -/
theorem ends_unresolved {c : Ctx} {e : Elem} {off : Option Length} (ct : ConnType) (S T : EndSpec)
    (R : Reads c e off S T)
    (h : (∃ l, S = .elem none l) ∨ (∃ l, T = .elem none l)) : fromElement c e ct = .error .other := by
  refine fromElement_of_ends_err R ct _ ?_
  rcases h with ⟨l, rfl⟩ | ⟨l, rfl⟩
  · cases T <;> rfl
  · rcases S with ⟨_ | sel, sl⟩ | sp <;> rfl

/-- **(a) a referenced element without a box** (or whose box lookup fails): that error, never a default
    point - here for the case that the other end is fine (a literal point, or an element with a box) -/
theorem ends_nobox_start {c : Ctx} {e : Elem} {off : Option Length} (ct : ConnType) (se : Elem)
    (sloc : Option LocSpec) (T : EndSpec) (x : Err) (R : Reads c e off (.elem (some se) sloc) T)
    (hb : needBB c se = .error x)
    (hT : (∃ ep, T = .point ep) ∨ (∃ ee eloc eb, T = .elem (some ee) eloc ∧ needBB c ee = .ok eb)) :
    fromElement c e ct = .error x := by
  refine fromElement_of_ends_err R ct _ ?_
  rcases hT with ⟨ep, rfl⟩ | ⟨ee, eloc, eb, rfl, heb⟩
  · simp [ends, hb, Except.bind]
  · cases sloc <;> cases eloc <;> simp [ends, hb, heb, Except.bind]

theorem ends_nobox_end {c : Ctx} {e : Elem} {off : Option Length} (ct : ConnType) (ee : Elem)
    (eloc : Option LocSpec) (S : EndSpec) (x : Err) (R : Reads c e off S (.elem (some ee) eloc))
    (hb : needBB c ee = .error x)
    (hS : (∃ sp, S = .point sp) ∨ (∃ se sloc sb, S = .elem (some se) sloc ∧ needBB c se = .ok sb)) :
    fromElement c e ct = .error x := by
  refine fromElement_of_ends_err R ct _ ?_
  rcases hS with ⟨sp, rfl⟩ | ⟨se, sloc, sb, rfl, hsb⟩
  · simp [ends, hb, Except.bind]
  · cases sloc <;> cases eloc <;> simp [ends, hb, hsb, Except.bind]

/-- `start` or `end` missing: `MissingAttribute` -/
theorem fromElement_missing (c : Ctx) (e : Elem) (ct : ConnType)
    (h : e.getAttr cs!"start" = none ∨ (∃ s, e.getAttr cs!"start" = some s) ∧ e.getAttr cs!"end" = none) :
    fromElement c e ct = .error .missingAttr := by
  unfold fromElement
  rcases h with h | ⟨⟨s, hs⟩, h⟩
  · have h1 : e.popAttr cs!"start" = ((e.popAttr cs!"start").1, none) :=
      Prod.ext rfl (by show (Attrs.pop e.attrs _).2 = _; rw [pop_snd]; exact h)
    rw [h1]
    simp only []
    generalize (e.popAttr cs!"start").1.popAttr cs!"end" = q
    obtain ⟨q1, q2⟩ := q
    cases q2 <;> rfl
  · have h2 : (e.popAttr cs!"start").1.popAttr cs!"end" = (((e.popAttr cs!"start").1.popAttr cs!"end").1, none) :=
      Prod.ext rfl (by
        show (Attrs.pop (Attrs.pop e.attrs _).1 _).2 = _
        rw [pop_snd, get_pop_other _ _ _ (by decide)]; exact h)
    rw [popStart e s hs]
    simp only []
    rw [h2]
    rfl

/-! ### `parseEnd` -/

/-- `#id`, `#id@loc`, `^`, `^@loc`: the element looked up in the table (possibly none) and the location -/
theorem parseEnd_ref (c : Ctx) (s : Str) (r : ElRef) (loc : Option LocSpec) (h : parseElLoc s = .ok (r, loc)) :
    parseEnd c s = .ok (.elem (c.get r) loc) := by
  simp [parseEnd, h]

/-- a literal: used verbatim - the point IS the first two numbers of the attribute -/
theorem parseEnd_point_iff (c : Ctx) (s : Str) (p : Rat × Rat) :
    parseEnd c s = .ok (.point p) ↔
      (∃ x, parseElLoc s = .error x) ∧ ∃ rest, (attrSplit s).map strp = some p.1 :: some p.2 :: rest := by
  unfold parseEnd
  cases hp : parseElLoc s with
  | ok v => obtain ⟨r, loc⟩ := v; simp
  | error x =>
    simp only [Except.error.injEq, exists_eq', true_and]
    rcases hm : (attrSplit s).map strp with _ | ⟨_ | a, _ | ⟨_ | b, rest⟩⟩ <;> simp [Prod.ext_iff]

/-- geometry attributes of the rendered `<line>`: the printed coordinates, unless the source element itself
    carries an attribute of that name (then `with_attrs_from` lets the source's value win - see the
    deviation note in Props/C13w.lean) -/
theorem lineElem_getAttr (x1 y1 x2 y2 : Rat) (src : Elem) (hN : NodupKeys src.attrs)
    (hg : ∀ k, isGeoKey k = true → src.getAttr k = none) :
    (lineElem x1 y1 x2 y2 src).getAttr cs!"x1" = some (fstr x1) ∧
    (lineElem x1 y1 x2 y2 src).getAttr cs!"y1" = some (fstr y1) ∧
    (lineElem x1 y1 x2 y2 src).getAttr cs!"x2" = some (fstr x2) ∧
    (lineElem x1 y1 x2 y2 src).getAttr cs!"y2" = some (fstr y2) ∧
    (lineElem x1 y1 x2 y2 src).name = cs!"line" := by
  obtain ⟨_, hn, _⟩ := line_sorted (fstr x1) (fstr y1) (fstr x2) (fstr y2)
  have key : ∀ k, isGeoKey k = true → (lineElem x1 y1 x2 y2 src).getAttr k
      = Attrs.get [(cs!"x1", fstr x1), (cs!"y1", fstr y1), (cs!"x2", fstr x2), (cs!"y2", fstr y2)] k := by
    intro k hk
    unfold lineElem Elem.withAttrsFrom Elem.getAttr
    simp only
    rw [get_foldl_insert k src.attrs _ hn hN]
    have := hg k hk
    unfold Elem.getAttr at this
    rw [this, lineNew]
  refine ⟨?_, ?_, ?_, ?_, rfl⟩
  · rw [key _ (by decide)]; rfl
  · rw [key _ (by decide)]; rfl
  · rw [key _ (by decide)]; rfl
  · rw [key _ (by decide)]; rfl

/-- the `points` attribute of the rendered `<polyline>` -/
theorem polyElem_getAttr (pts : List (Rat × Rat)) (src : Elem) (hN : NodupKeys src.attrs)
    (hg : src.getAttr cs!"points" = none) :
    ((Elem.new cs!"polyline" [(cs!"points", pointsStr pts)]).withAttrsFrom src).getAttr cs!"points"
      = some (pointsStr pts) := by
  obtain ⟨_, hn, _⟩ := poly_sorted (pointsStr pts)
  unfold Elem.withAttrsFrom Elem.getAttr
  simp only
  rw [get_foldl_insert _ src.attrs _ hn hN]
  unfold Elem.getAttr at hg
  rw [hg, polyNew]
  rfl

/-- `"x y, x y, ..."` -/
theorem pointsStr_cons2 (p q : Rat × Rat) (rest : List (Rat × Rat)) :
    pointsStr (p :: q :: rest) = fstr p.1 ++ [' '] ++ fstr p.2 ++ cs!", " ++ pointsStr (q :: rest) := by
  simp [pointsStr, Str.intercalate]

/-! ## Worked instances on a concrete element table -/

def exA : Elem := Elem.new cs!"rect"
  [(cs!"id", cs!"a"), (cs!"x", cs!"0"), (cs!"y", cs!"0"), (cs!"width", cs!"10"), (cs!"height", cs!"10")]
def exB : Elem := Elem.new cs!"rect"
  [(cs!"id", cs!"b"), (cs!"x", cs!"30"), (cs!"y", cs!"4"), (cs!"width", cs!"10"), (cs!"height", cs!"10")]
def exG : Elem := Elem.new cs!"g" [(cs!"id", cs!"g")]
/-- a (0,0)-(10,10), b (30,4)-(40,14), g an empty group (no box) -/
def exCtx : Ctx := { elems := [(cs!"a", exA), (cs!"b", exB), (cs!"g", exG)] }

def exE1 : Elem := Elem.new cs!"line"
  [(cs!"id", cs!"k"), (cs!"start", cs!"#a"), (cs!"end", cs!"#b"), (cs!"stroke", cs!"red"), (cs!"class", cs!"c1 c2")]

example : Sorted exE1.attrs ∧ (keys exE1.attrs).Nodup ∧ isConnector exE1 = true := by decide +kernel

example : transmuteConnector exCtx exE1 = .ok
    { name := cs!"line",
      attrs := [(cs!"id", cs!"k"), (cs!"x1", cs!"10"), (cs!"y1", cs!"5"), (cs!"x2", cs!"30"), (cs!"y2", cs!"4"),
                (cs!"stroke", cs!"red")],
      classes := [cs!"c1", cs!"c2"] } := by decide +kernel

/-- (c) not a connector (no `end`): unchanged -/
example : transmuteConnector exCtx (Elem.new cs!"line" [(cs!"start", cs!"#a"), (cs!"x2", cs!"3")])
    = .ok (Elem.new cs!"line" [(cs!"start", cs!"#a"), (cs!"x2", cs!"3")]) := by decide +kernel

/-- end points and directions of a connector, for the instances -/
def view (r : Except Err Connector) : Except Err ((Rat × Rat) × Option Dir × (Rat × Rat) × Option Dir) :=
  r.map fun k => (k.start.origin, k.start.dir, k.end_.origin, k.end_.dir)

def exLine (s t : Str) : Elem := Elem.new cs!"line" [(cs!"start", s), (cs!"end", t)]

/-- (a) named / named: right of a = (10,5), left of b = (30,9) -/
example : view (fromElement exCtx (exLine cs!"#a@r" cs!"#b@l") .corner)
    = .ok ((10, 5), some .right, (30, 9), some .left) := by decide +kernel
/-- (a) bare / bare, straight: right of a and the top-left corner of b (401 < 416 = to the left mid-point) -/
example : view (fromElement exCtx (exLine cs!"#a" cs!"#b") .straight)
    = .ok ((10, 5), some .right, (30, 4), none) := by decide +kernel
/-- (a) bare / named (mixed): top of b = (35,4); the candidate of a closest to it is its right mid-point
    (626 < 641 = from the top-right corner) -/
example : view (fromElement exCtx (exLine cs!"#a" cs!"#b@t") .straight)
    = .ok ((10, 5), some .right, (35, 4), some .up) := by decide +kernel
/-- (a) bare / literal -/
example : view (fromElement exCtx (exLine cs!"#a" cs!"50 -5") .straight)
    = .ok ((10, 0), none, (50, -5), none) := by decide +kernel
/-- (a) literal / literal -/
example : view (fromElement exCtx (exLine cs!"1.5 2" cs!"50 -5") .corner)
    = .ok ((3/2, 2), none, (50, -5), none) := by decide +kernel
/-- (a) unresolved reference, element without box, missing `end` -/
example : view (fromElement exCtx (exLine cs!"#zz" cs!"50 -5") .straight) = .error .other := by decide +kernel
example : view (fromElement exCtx (exLine cs!"#g" cs!"#b") .straight) = .error .missingBBox := by decide +kernel
example : view (fromElement exCtx (Elem.new cs!"line" [(cs!"start", cs!"#a")]) .straight)
    = .error .missingAttr := by decide +kernel
example : transmuteConnector exCtx (exLine cs!"#g" cs!"#b") = .error .invalidData := by decide +kernel

/-- the hypotheses of `ends_named_named` on the concrete table -/
example : Reads exCtx (exLine cs!"#a@r" cs!"#b@l") none
    (.elem (some exA) (some .Right)) (.elem (some exB) (some .Left)) :=
  ⟨⟨cs!"#a@r", cs!"#b@l", by decide +kernel, by decide +kernel, rfl, rfl⟩, rfl⟩

/-- (b) horizontal between two boxes: y = (max 0 4 + min 10 14) / 2 = 7 on both ends -/
example : transmuteConnector exCtx (Elem.new cs!"line" [(cs!"start", cs!"#a"), (cs!"end", cs!"#b"), (cs!"edge-type", cs!"h")])
    = .ok { name := cs!"line", attrs := [(cs!"x1", cs!"10"), (cs!"y1", cs!"7"), (cs!"x2", cs!"30"), (cs!"y2", cs!"7")] } := by
  decide +kernel
/-- (b) vertical with a literal end: x = the start point's x on both ends -/
example : transmuteConnector exCtx (Elem.new cs!"line" [(cs!"start", cs!"#a"), (cs!"end", cs!"7 40"), (cs!"edge-type", cs!"v")])
    = .ok { name := cs!"line", attrs := [(cs!"x1", cs!"5"), (cs!"y1", cs!"10"), (cs!"x2", cs!"5"), (cs!"y2", cs!"40")] } := by
  decide +kernel
/-- (b) corner, Z shape with corner-offset 25%; marker-end carried over, corner-offset gone -/
example : transmuteConnector exCtx (Elem.new cs!"polyline"
      [(cs!"start", cs!"#a@r"), (cs!"end", cs!"#b@l"), (cs!"corner-offset", cs!"25%"), (cs!"marker-end", cs!"x")])
    = .ok { name := cs!"polyline",
            attrs := [(cs!"points", cs!"10 5, 15 5, 15 9, 30 9"), (cs!"marker-end", cs!"x")] } := by
  decide +kernel
/-- (b) corner with a corner location (no direction): two points, a `<line>` -/
example : transmuteConnector exCtx (Elem.new cs!"polyline" [(cs!"start", cs!"#a@tr"), (cs!"end", cs!"#b@l")])
    = .ok { name := cs!"line", attrs := [(cs!"x1", cs!"10"), (cs!"y1", cs!"0"), (cs!"x2", cs!"30"), (cs!"y2", cs!"9")] } := by
  decide +kernel
/-- (b) U shape with a ratio offset: the error of `render`; `transmute` passes it on -/
example : transmuteConnector exCtx (Elem.new cs!"polyline"
      [(cs!"start", cs!"#a@r"), (cs!"end", cs!"#b@r"), (cs!"corner-offset", cs!"25%")])
    = .error .invalidData := by decide +kernel

/-! the two deviations reported in Props/C13w.lean, as the model (= the code, checked with the binary) has them -/

/-- D1: a geometry attribute on the connector itself overrides the computed end point -/
example : transmuteConnector exCtx (Elem.new cs!"line" [(cs!"start", cs!"#a"), (cs!"end", cs!"#b"), (cs!"x1", cs!"99")])
    = .ok { name := cs!"line", attrs := [(cs!"x1", cs!"99"), (cs!"y1", cs!"5"), (cs!"x2", cs!"30"), (cs!"y2", cs!"4")] } := by
  decide +kernel
/-- D2: a named location with edge-type h: the end is NOT at the named location (5,10) / (35,14) but at
    y = 7 inside both boxes -/
example : transmuteConnector exCtx (Elem.new cs!"line" [(cs!"start", cs!"#a@b"), (cs!"end", cs!"#b@b"), (cs!"edge-type", cs!"h")])
    = .ok { name := cs!"line", attrs := [(cs!"x1", cs!"5"), (cs!"y1", cs!"7"), (cs!"x2", cs!"35"), (cs!"y2", cs!"7")] } := by
  decide +kernel

end Svgdx.Props.C13w
