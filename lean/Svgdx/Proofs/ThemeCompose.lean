/-
  Svgdx.Proofs.ThemeCompose — the composition: the document text WITH the auto-style block injected behind the
  root start tag is accepted by the recogniser `Xml.Spec.wfContent`.

  The model's `Doc.postprocess` has no auto-style switch (it is `Transformer::postprocess` with auto-styles off), and
  the code writes the parts by separate `write_to` calls: events before the root, the root start tag, the injected
  text (`write_auto_styles`, model `Theme.autoStyles`), the remaining events.  The statements are therefore about
  the composed text

      write pre ++ renderEv (.start root) ++ autoStyles debug tcfg classes elements ++ write post

  where `pre ++ .start root :: post` is the event list the existing theorems speak about
  (`write_split`: WITHOUT the injected text this is exactly `write (pre ++ .start root :: post)`).
   * `acc_events_rest`: the stack-indexed acceptance lemma of `XmlSpec` with a rest behind the events;
   * `wacc_write`: `write post` of an event list that closes the open elements `stk` is accepted with `stk` open,
     also behind white space (`WAcc`) - the hypothesis `inject_after_root_wf` was left with;
   * `inject_wellformed`: for ANY balanced event list with XML Names and unique attributes, split at ANY of its start
     events, and any text that can stand in front of accepted content (`Injectable`), the composed text is accepted;
   * `autoStyles_injectable`: the injected text of every theme / class list / element list / author string is such;
   * `postprocess_with_autostyles`, `transformDoc_written_with_autostyles`: the end-to-end statements.
-/
import Svgdx.Proofs.ThemeDefsBlock
import Svgdx.Proofs.XmlNames
namespace Svgdx.Theme
open Svgdx Str Xml Spec Ctl

/-! ### events followed by a rest -/

theorem startsLt_append {a b : Str} (ha : StartsLt a) (hb : StartsLt b) : StartsLt (a ++ b) := by
  rcases ha with rfl | ⟨r, rfl⟩
  · simpa using hb
  · exact Or.inr ⟨r ++ b, rfl⟩

/-- `XmlSpec.acc_events` with something behind the events: the checker's stack after the events is the stack the
    rest is accepted with -/
theorem acc_events_rest (rest : Str) (hrest : StartsLt rest) (stk' : List Str) (hacc : Acc stk' rest) :
    ∀ (l : List Ev), (∀ e ∈ l, nameOkEv e = true) → (∀ e ∈ l, attrsUniqueEv e) → NoAdjText l →
      ∀ stk, (∀ n ∈ stk, isName n = true) → check stk l = some stk' → Acc stk (l.flatMap renderEv ++ rest) := by
  intro l
  induction l with
  | nil =>
    intro _ _ _ stk _ hc
    simp only [check, Option.some.injEq] at hc
    subst hc; simpa using hacc
  | cons e l ih =>
    intro hn hu ha stk hstk hc
    have ih' := ih (fun x hx => hn x (by simp [hx])) (fun x hx => hu x (by simp [hx])) (noAdjText_tail ha)
    have hne := hn e (by simp)
    have hue := hu e (by simp)
    have e0 : (e :: l).flatMap renderEv ++ rest = renderEv e ++ (l.flatMap renderEv ++ rest) := by simp
    rw [e0]
    cases e with
    | start el =>
      simp only [nameOkEv, Bool.and_eq_true] at hne
      simp only [check] at hc
      have := acc_tag stk el false (l.flatMap renderEv ++ rest) hne.1 hne.2 hue
        (ih' (el.name :: stk) (by intro n hm; simp only [List.mem_cons] at hm; rcases hm with rfl | hm
                                  · exact hne.1
                                  · exact hstk n hm) hc)
      simpa [renderEv] using this
    | empty el =>
      simp only [nameOkEv, Bool.and_eq_true] at hne
      simp only [check] at hc
      have := acc_tag stk el true (l.flatMap renderEv ++ rest) hne.1 hne.2 hue (ih' stk hstk hc)
      simpa [renderEv] using this
    | end_ n =>
      cases stk with
      | nil => simp [check] at hc
      | cons top stk2 =>
        simp only [check] at hc
        split at hc
        · rename_i heq
          subst heq
          have := acc_end stk2 top (l.flatMap renderEv ++ rest) (hstk top (by simp))
            (ih' stk2 (fun n hm => hstk n (by simp [hm])) hc)
          simpa [renderEv] using this
        · cases hc
    | comment c =>
      simp only [check] at hc
      have := acc_comment stk (commentSafe c) (l.flatMap renderEv ++ rest) (commentSafe_ok c).1 (commentSafe_ok c).2
        (ih' stk hstk hc)
      simpa [renderEv] using this
    | cdata c =>
      simp only [check] at hc
      exact acc_cdatas stk _ (ih' stk hstk hc) _ (cdataSplit_noCE c)
    | text t =>
      simp only [check] at hc
      by_cases hempty : escape (blankLineRemover t) = []
      · simp only [renderEv, hempty, List.nil_append]
        exact ih' stk hstk hc
      · exact acc_text stk _ _ hempty (fun c hc => (escape_safe _ c hc).1) (charDataOk_escape _)
          (startsLt_append (startsLt_flatMap l (noAdjText_head ha)) hrest) (ih' stk hstk hc)

/-! ### `write` of the events behind the root -/

theorem noCDEnd_of_parts {w t : Str} (hw : AllWs w) (ht : ∀ c ∈ t, c ≠ '>') : noCDEnd (w ++ t) = true := by
  apply noCDEnd_of_no_gt
  intro c hc
  rcases List.mem_append.mp hc with h | h
  · intro e; subst e; have := hw _ h; revert this; decide
  · exact ht c h

theorem refsOk_ws_append {w t : Str} (hw : AllWs w) (ht : refsOk t = true) : refsOk (w ++ t) = true := by
  induction w with
  | nil => simpa using ht
  | cons c r ih =>
    have hc : (c != '&') = true := by
      have := hw c (by simp)
      simp only [bne_iff_ne, ne_eq]
      intro e; subst e; revert this; decide
    simp [refsOk, hc, ih (fun x hx => hw x (by simp [hx]))]

/-- the coalesced, names-checked form of an event list, as `write_wellformed` uses it -/
theorem coalesce_hyps (evs : List Ev) (hn : NamesOk evs) (hu : AttrsUnique evs) :
    (∀ e ∈ coalesce evs, nameOkEv e = true) ∧ (∀ e ∈ coalesce evs, attrsUniqueEv e) := by
  refine ⟨?_, ?_⟩
  · intro e he
    rcases coalesce_mem evs e he with ht | hm
    · cases e <;> simp_all [isTextEv, nameOkEv]
    · exact (List.all_eq_true.mp hn) e hm
  · intro e he
    rcases coalesce_mem evs e he with ht | hm
    · cases e <;> simp_all [isTextEv, attrsUniqueEv]
    · exact hu e hm

/-- **`write` of an event list that closes the open elements `stk` is accepted with `stk` open, also behind white
    space**: the hypothesis of `inject_after_root_wf`, for what the model writes behind the root -/
theorem wacc_write (evs : List Ev) (hn : NamesOk evs) (hu : AttrsUnique evs) (stk : List Str)
    (hstk : ∀ n ∈ stk, isName n = true) (hc : check stk evs = some []) : WAcc stk (write evs) := by
  obtain ⟨hn', hu'⟩ := coalesce_hyps evs hn hu
  have hc' : check stk (coalesce evs) = some [] := by rw [check_coalesce]; exact hc
  have ha := coalesce_noAdjText evs
  rw [write_eq]
  generalize coalesce evs = l at hn' hu' hc' ha
  have hall : Acc stk (l.flatMap renderEv) := acc_events l hn' hu' ha stk hstk hc'
  cases l with
  | nil => exact wacc_of_startsLt (Or.inl rfl) hall
  | cons e l' =>
    cases e with
    | text t =>
      intro w hw
      simp only [check] at hc'
      have htail : Acc stk (l'.flatMap renderEv) :=
        acc_events l' (fun x hx => hn' x (by simp [hx])) (fun x hx => hu' x (by simp [hx])) (noAdjText_tail ha)
          stk hstk hc'
      have hlt : StartsLt (l'.flatMap renderEv) := startsLt_flatMap l' (noAdjText_head ha)
      have e0 : w ++ (Ev.text t :: l').flatMap renderEv =
          (w ++ escape (blankLineRemover t)) ++ l'.flatMap renderEv := by simp [renderEv]
      rw [e0]
      by_cases hempty : w ++ escape (blankLineRemover t) = []
      · rw [hempty]; simpa using htail
      · refine acc_text stk _ _ hempty ?_ ?_ hlt htail
        · intro c hc
          rcases List.mem_append.mp hc with h | h
          · exact (ws_facts hw).1 c h
          · exact (escape_safe _ c h).1
        · simp only [charDataOk, Bool.and_eq_true]
          exact ⟨refsOk_ws_append hw (refsOk_escape _),
            noCDEnd_of_parts hw (fun c hc => (escape_safe _ c hc).2.1)⟩
    | _ => exact wacc_of_startsLt (startsLt_flatMap _ (by intro e he; simp at he; subst he; rfl)) hall

/-! ### splitting `write` at a markup event -/

theorem coalesce_split (e : Ev) (he : isTextEv e = false) (b : List Ev) :
    ∀ a : List Ev, coalesce (a ++ e :: b) = coalesce a ++ e :: coalesce b := by
  intro a
  fun_induction coalesce a with
  | case1 x y rest ih =>
    have : (Ev.text x :: Ev.text y :: rest) ++ e :: b = Ev.text x :: Ev.text y :: (rest ++ e :: b) := by simp
    rw [this, coalesce]
    simpa using ih
  | case2 x rest hne ih =>
    have h1 : (x :: rest) ++ e :: b = x :: (rest ++ e :: b) := by simp
    rw [h1, coalesce.eq_2 x (rest ++ e :: b) (by
      intro a' b' r' hx hr
      cases rest with
      | nil =>
        simp only [List.nil_append, List.cons.injEq] at hr
        obtain ⟨h2, _⟩ := hr
        subst h2; simp [isTextEv] at he
      | cons y rest' =>
        simp only [List.cons_append, List.cons.injEq] at hr
        obtain ⟨h3, _⟩ := hr
        exact hne a' b' rest' hx (by rw [h3]))]
    simp [ih]
  | case3 =>
    simp only [List.nil_append]
    rw [coalesce.eq_2 e b (by intro a' b' r' hx _; subst hx; simp [isTextEv] at he)]

/-- the writer does not look across a start tag: without anything injected, the composed text IS the written
    event list -/
theorem write_split (pre post : List Ev) (root : Elem) :
    write (pre ++ .start root :: post) = write pre ++ (renderEv (.start root) ++ write post) := by
  simp [write_eq, coalesce_split (.start root) rfl post pre]

/-! ### the composition -/

/-- a text that can be put in front of accepted content, below any open elements -/
def Injectable (inj : Str) : Prop := ∀ stk rest, WAcc stk rest → WAcc stk (inj ++ rest)

/-- **the injected text of every configuration is such a text** -/
theorem autoStyles_injectable (debug : Bool) (tcfg : ThemeCfg) (classes elements : List Str) :
    Injectable (autoStyles debug tcfg classes elements) :=
  fun stk rest h => autoStyleText_wacc debug _ _ (build_defs_ok sortU tcfg classes elements) stk rest h

theorem check_stack_names : ∀ (l : List Ev) (stk s : List Str), (∀ e ∈ l, nameOkEv e = true) →
    (∀ n ∈ stk, isName n = true) → check stk l = some s → ∀ n ∈ s, isName n = true := by
  intro l
  induction l with
  | nil => intro stk s _ hs hc; simp only [check, Option.some.injEq] at hc; subst hc; exact hs
  | cons e l ih =>
    intro stk s hn hs hc
    have ih' := fun stk2 => ih stk2 s (fun x hx => hn x (by simp [hx]))
    have hne := hn e (by simp)
    cases e with
    | start el =>
      simp only [check] at hc
      simp only [nameOkEv, Bool.and_eq_true] at hne
      exact ih' _ (by intro n hm; rcases List.mem_cons.mp hm with rfl | hm
                      · exact hne.1
                      · exact hs n hm) hc
    | end_ n =>
      cases stk with
      | nil => simp [check] at hc
      | cons top stk2 =>
        simp only [check] at hc
        split at hc
        · exact ih' _ (fun n hm => hs n (by simp [hm])) hc
        · cases hc
    | empty el => simp only [check] at hc; exact ih' _ hs hc
    | text t => simp only [check] at hc; exact ih' _ hs hc
    | comment t => simp only [check] at hc; exact ih' _ hs hc
    | cdata t => simp only [check] at hc; exact ih' _ hs hc

/-- **injection behind a start tag of a well-formed document**: `pre ++ .start root :: post` balanced, XML Names,
    unique attribute names; `inj` injectable.  Then the text written for `pre`, the start tag, `inj`, the text
    written for `post` - in this order - is well-formed content. -/
theorem inject_wellformed (pre post : List Ev) (root : Elem) (inj : Str)
    (hb : Balanced (pre ++ .start root :: post)) (hn : NamesOk (pre ++ .start root :: post))
    (hu : AttrsUnique (pre ++ .start root :: post)) (hinj : Injectable inj) :
    wfContent (write pre ++ (renderEv (.start root) ++ (inj ++ write post))) = true := by
  have hn1 : NamesOk pre := by
    unfold NamesOk at hn ⊢; rw [List.all_append] at hn; exact (Bool.and_eq_true _ _ ▸ hn).1
  have hnr : nameOkEv (.start root) = true := List.all_eq_true.mp hn _ (by simp)
  have hn2 : NamesOk post := by
    unfold NamesOk at hn ⊢
    rw [List.all_append, List.all_cons] at hn
    simp only [Bool.and_eq_true] at hn
    exact hn.2.2
  have hu1 : AttrsUnique pre := fun e he => hu e (by simp [he])
  have hur : attrsUniqueEv (.start root) := hu _ (by simp)
  have hu2 : AttrsUnique post := fun e he => hu e (by simp [he])
  obtain ⟨s0, hc1, hc2⟩ := check_append_some hb.sound
  simp only [check] at hc2
  simp only [nameOkEv, Bool.and_eq_true] at hnr
  have hs0 : ∀ n ∈ s0, isName n = true :=
    check_stack_names pre [] s0 (fun e he => List.all_eq_true.mp hn1 e he) (by simp) hc1
  have hs1 : ∀ n ∈ root.name :: s0, isName n = true := by
    intro n hm
    rcases List.mem_cons.mp hm with rfl | hm
    · exact hnr.1
    · exact hs0 n hm
  have hpost : WAcc (root.name :: s0) (write post) := wacc_write post hn2 hu2 _ hs1 hc2
  have hin := hinj _ _ hpost
  have htag := acc_tag s0 root false (inj ++ write post) hnr.1 hnr.2 hur hin.acc
  have htag' : Acc s0 (renderEv (.start root) ++ (inj ++ write post)) := by simpa [renderEv] using htag
  obtain ⟨hn', hu'⟩ := coalesce_hyps pre hn1 hu1
  have := acc_events_rest _ (Or.inr ⟨startContent root ++ ['>'] ++ (inj ++ write post), by simp [renderEv]⟩) s0 htag'
    (coalesce pre) hn' hu' (coalesce_noAdjText pre) [] (by simp) (by rw [check_coalesce]; exact hc1)
  rw [write_eq pre]
  exact this _ (by omega)

/-! ### end to end -/

/-- **the root rewrite, with auto-styles on**: `postprocess` found the root `<svg>`; then the event list it returns
    is `pre ++ newRoot :: post` (`post` = the remaining events and the closing of an emptied root, in the order
    `postprocess` chooses), the writer's text for it splits at the root start tag, and with the auto-style text of
    ANY theme configuration, class list and element list injected behind the root start tag the text is accepted -/
theorem postprocess_with_autostyles (cfg : Doc.RootCfg) (evs fin : List Ev) (bb : Option Gen.BoundingBox)
    (hb : Balanced evs) (hn : NamesOk evs) (hu : AttrsUnique evs)
    (hp : Doc.postprocess cfg evs bb = some fin)
    (pre remain : List Ev) (root : Elem) (emp : Bool) (hpart : Doc.partitionSvg evs = (pre, some (root, emp), remain)) :
    ∃ a post, Doc.rootAttrs cfg root.attrs bb = some a ∧ fin = pre ++ newRoot root a :: post ∧
      (post = closeEvs emp ++ remain ∨ post = remain ++ closeEvs emp) ∧
      write fin = write pre ++ (renderEv (newRoot root a) ++ write post) ∧
      ∀ (debug : Bool) (tcfg : ThemeCfg) (classes elements : List Str),
        wfContent (write pre ++ (renderEv (newRoot root a) ++
          (autoStyles debug tcfg classes elements ++ write post))) = true := by
  have hfin := finalEvents_ok cfg false evs fin bb (by simpa [finalEvents] using hp) hb hn hu
  unfold Doc.postprocess at hp
  rw [hpart] at hp
  obtain ⟨a, ha1, ha⟩ := Option.map_eq_some_iff.mp hp
  dsimp only at ha
  have key : ∀ post, fin = pre ++ newRoot root a :: post →
      write fin = write pre ++ (renderEv (newRoot root a) ++ write post) ∧
      ∀ (debug : Bool) (tcfg : ThemeCfg) (classes elements : List Str),
        wfContent (write pre ++ (renderEv (newRoot root a) ++
          (autoStyles debug tcfg classes elements ++ write post))) = true := by
    intro post hfp
    subst hfp
    refine ⟨write_split pre post _, ?_⟩
    intro debug tcfg classes elements
    exact inject_wellformed pre post _ _ hfin.1 hfin.2.1 hfin.2.2 (autoStyles_injectable debug tcfg classes elements)
  split at ha
  · have hout : fin = pre ++ newRoot root a :: (closeEvs emp ++ remain) := by
      rw [← ha]; simp [newRoot, closeEvs]
    exact ⟨a, _, ha1, hout, Or.inl rfl, key _ hout⟩
  · have hout : fin = pre ++ newRoot root a :: (remain ++ closeEvs emp) := by
      rw [← ha]; simp [newRoot, closeEvs]
    exact ⟨a, _, ha1, hout, Or.inr rfl, key _ hout⟩

end Svgdx.Theme

namespace Svgdx.Xml
open Svgdx Str Xml Spec Ctl Ctl.Emit Theme

/-- **a whole successful run with auto-styles on, hypotheses on the INPUT only** (those of
    `transformDoc_written_strict`): `transformDoc` succeeds on a document that is not a real-SVG pass-through, the
    generated events contain the root `<svg>` (`partitionSvg`), the root rewrite succeeds.  Then the text
    `write pre ++ root start tag ++ autoStyles … ++ write post` - the events before the root, the rewritten root
    start tag, the injected `<defs>` / `<style>` text of any theme configuration, class list and element list, the
    remaining events - is accepted by the recogniser; without the injected text it is `write fin`, the text the
    existing end-to-end theorem speaks about. -/
theorem transformDoc_written_with_autostyles {ρ : Type} (ev : Evalr ρ) (fuel : Nat) (st st' : St ρ) (ks : Nodes)
    (evs fin : List Ev) (bb : Option Gen.BoundingBox) (cfg : Doc.RootCfg)
    (hst : st.originals = []) (hdf : NoDefaults st) (hks : NodesT InputElemOk ks)
    (h : transformDoc ev fuel st ks = (false, st', .ok (evs, bb)))
    (hf : finalEvents cfg false evs bb = some fin)
    (pre remain : List Ev) (root : Elem) (emp : Bool) (hpart : Doc.partitionSvg evs = (pre, some (root, emp), remain)) :
    ∃ a post, Doc.rootAttrs cfg root.attrs bb = some a ∧ fin = pre ++ newRoot root a :: post ∧
      (post = closeEvs emp ++ remain ∨ post = remain ++ closeEvs emp) ∧
      write fin = write pre ++ (renderEv (newRoot root a) ++ write post) ∧
      ∀ (debug : Bool) (tcfg : ThemeCfg) (classes elements : List Str),
        wfContent (write pre ++ (renderEv (newRoot root a) ++
          (autoStyles debug tcfg classes elements ++ write post))) = true := by
  have h' : (transformDoc ev fuel st ks).2.2 = .ok (evs, bb) := by rw [h]
  have hu := transformDoc_attrsUnique ev fuel st ks evs bb (stateUnique_of_nil st hst)
    (nodesT_mono (fun _ h => h.1) ks hks) h'
  have hn := transformDoc_namesOk ev fuel st ks evs bb (stateNames_of_nil st hst hdf)
    (nodesT_mono (fun _ h => ⟨h.1.1, h.2.1, h.2.2⟩) ks hks) h'
  have hb := transformDoc_balanced ev fuel st ks evs bb h'
  exact postprocess_with_autostyles cfg evs fin bb hb hn hu (by simpa [finalEvents] using hf) pre remain root emp hpart

end Svgdx.Xml
