/-
  C16 (laws) — the steps of the unrolling argument; the property theorems are collected in Svgdx/Props/C16.lean.

  About the control-skeleton model `Svgdx.Ctl` (hand-written from loop_el.rs / transform.rs, tied to the
  code by the doc/loops correspondence stream with the real expression evaluator), parametric in the
  evaluator `ev`, for all fuel. The laws below are the steps of the unrolling argument: what one
  iteration does, that iterations only append, when the tests are made, which values the loop variable
  takes, and that `<var v="value"/>` — what the manual unrolling writes before each copy of the body —
  binds exactly like the loop does.
-/
import Svgdx.Proofs.CtlInv
import Svgdx.Props.C08
import Mathlib.Tactic.Ring

namespace Svgdx.Props.C16
open Svgdx Ctl Gen
variable {ρ : Type} (ev : Evalr ρ)

/-- a result with `acc` / `bb` put in front of what it produced -/
def prepend (acc : List Ev) (bb : Option BoundingBox) (x : St ρ × Res) : St ρ × Res :=
  (x.1, match x.2 with
    | .ok (evs, b) => .ok (acc ++ evs, unionOpt bb b)
    | .error e => .error e)

theorem unionOpt_assoc (a b c : Option BoundingBox) : unionOpt (unionOpt a b) c = unionOpt a (unionOpt b c) := by
  cases a <;> cases b <;> cases c <;> simp [unionOpt, C08.combine_assoc]

theorem unionOpt_none_left (a : Option BoundingBox) : unionOpt none a = a := by
  cases a <;> rfl

/-! ### `<if>` -/

/-- **`<if>` renders its body exactly when its test is non-zero**: a false test renders nothing … -/
theorem if_false_renders_nothing (fuel : Nat) (st : St ρ) (e : Elem) (ks : Nodes) (test : Str) (rng : ρ)
    (ht : e.getAttr cs!"test" = some test)
    (hc : ev.evalCondition st.geo st.env st.rng test = .ok (false, rng)) :
    genIf ev (fuel + 1) st e (some ks) = ({ st with rng := rng }, .ok ([], none)) := by
  simp [genIf, ht, hc, seq, withRng]

/-- … and a true test renders exactly what the body renders where the `<if>` stands -/
theorem if_true_renders_body (fuel : Nat) (st : St ρ) (e : Elem) (ks : Nodes) (test : Str) (rng : ρ)
    (ht : e.getAttr cs!"test" = some test)
    (hc : ev.evalCondition st.geo st.env st.rng test = .ok (true, rng)) :
    genIf ev (fuel + 1) st e (some ks) = processNodes ev fuel { st with rng := rng } ks := by
  simp [genIf, ht, hc, seq, withRng]

/-! ### `<loop>` -/

/-- **one iteration**: when the test before the pass holds, the body is processed with the loop variable
    bound to the current value, its output is appended, and the loop continues with value + step -/
theorem loop_iteration (fuel : Nat) (st s1 s2 s3 : St ρ) (ks : Nodes) (cnt : Option Nat) (w u : Option Str)
    (name : Str) (value step : Rat) (it : Nat) (acc : List Ev) (bb : Option BoundingBox)
    (r : List Ev × Option BoundingBox)
    (hpre : preTest ev st cnt w it = (s1, .ok true))
    (hbody : processNodes ev fuel (bindLoopVar s1 name value) ks = (s2, .ok r))
    (hlim : it + 1 ≤ s2.cfg.loopLimit)
    (hpost : postTest ev s2 u = (s3, .ok false)) :
    loopIter ev (fuel + 1) st ks cnt w u name value step it acc bb =
      loopIter ev fuel s3 ks cnt w u name (value + step) step (it + 1) (acc ++ r.1) (unionOpt bb r.2) := by
  rw [loopIter]
  simp only [seq, hpre, hbody, hpost]
  have : ¬ (it + 1 > s2.cfg.loopLimit) := by omega
  simp [this]

/-- the loop ends, rendering nothing more, as soon as the test before a pass fails (count reached, or the
    `while` condition zero) — **`while` is tested before each pass** -/
theorem loop_stops_before_pass (fuel : Nat) (st s1 : St ρ) (ks : Nodes) (cnt : Option Nat) (w u : Option Str)
    (name : Str) (value step : Rat) (it : Nat) (acc : List Ev) (bb : Option BoundingBox)
    (hpre : preTest ev st cnt w it = (s1, .ok false)) :
    loopIter ev (fuel + 1) st ks cnt w u name value step it acc bb = (s1, .ok (acc, bb)) := by
  rw [loopIter]
  simp [seq, hpre]

/-- **`until` is tested after each pass, so the body is rendered at least once**: with no count and no
    `while`, the first pass is made whatever the condition says -/
theorem until_runs_at_least_once (st : St ρ) (it : Nat) :
    preTest ev st none none it = (st, .ok true) := rfl

/-- … and the loop ends, keeping that pass, when the condition holds after it -/
theorem until_stops_after_pass (fuel : Nat) (st s1 s2 s3 : St ρ) (ks : Nodes) (cnt : Option Nat) (w u : Option Str)
    (name : Str) (value step : Rat) (it : Nat) (acc : List Ev) (bb : Option BoundingBox)
    (r : List Ev × Option BoundingBox)
    (hpre : preTest ev st cnt w it = (s1, .ok true))
    (hbody : processNodes ev fuel (bindLoopVar s1 name value) ks = (s2, .ok r))
    (hlim : it + 1 ≤ s2.cfg.loopLimit)
    (hpost : postTest ev s2 u = (s3, .ok true)) :
    loopIter ev (fuel + 1) st ks cnt w u name value step it acc bb = (s3, .ok (acc ++ r.1, unionOpt bb r.2)) := by
  rw [loopIter]
  simp only [seq, hpre, hbody, hpost]
  have : ¬ (it + 1 > s2.cfg.loopLimit) := by omega
  simp [this]

/-- a count loop's test: pass `it` (0-based) is made iff `it < N`, so exactly N passes -/
theorem count_test (st : St ρ) (n it : Nat) (w : Option Str) :
    preTest ev st (some n) w it = (st, .ok (decide (it < n))) := rfl

/-- `count="0"` renders nothing -/
theorem count_zero_renders_nothing (fuel : Nat) (st : St ρ) (ks : Nodes) (w u : Option Str)
    (name : Str) (value step : Rat) :
    loopIter ev (fuel + 1) st ks (some 0) w u name value step 0 [] none = (st, .ok ([], none)) := by
  rw [loopIter]
  simp [seq, preTest]

/-- **the loop variable takes start, start+step, start+2·step, …**: the value handed to pass `it` and the
    one handed to the next pass -/
theorem loop_var_sequence (start step : Rat) (it : Nat) :
    (start + it * step) + step = start + ((it + 1 : Nat) : Rat) * step := by
  push_cast; ring

/-- **iterations only append**: running a loop from an accumulated output is running it from nothing and
    putting the accumulated output in front — so the loop's output is the concatenation of the outputs of
    its passes, in order, and its box the union of theirs -/
theorem loop_appends (fuel : Nat) : ∀ (st : St ρ) (ks : Nodes) (cnt : Option Nat) (w u : Option Str)
    (name : Str) (value step : Rat) (it : Nat) (acc : List Ev) (bb : Option BoundingBox),
    loopIter ev fuel st ks cnt w u name value step it acc bb =
      prepend acc bb (loopIter ev fuel st ks cnt w u name value step it [] none) := by
  induction fuel with
  | zero => intros; simp [loopIter, prepend]
  | succ fuel ih =>
    intro st ks cnt w u name value step it acc bb
    rw [loopIter, loopIter]
    unfold seq
    cases hp : (preTest ev st cnt w it).2 with
    | error e => simp [prepend]
    | ok go =>
      dsimp only
      cases go with
      | false => simp [prepend, unionOpt]
      | true =>
        simp only [Bool.not_true, Bool.false_eq_true, if_false]
        cases hb : (processNodes ev fuel (bindLoopVar (preTest ev st cnt w it).1 name value) ks).2 with
        | error e => simp [prepend]
        | ok r =>
          dsimp only
          split
          · simp [prepend]
          · cases hq : (postTest ev (processNodes ev fuel (bindLoopVar (preTest ev st cnt w it).1 name value) ks).1 u).2 with
            | error e => simp [prepend]
            | ok stop =>
              dsimp only
              cases stop with
              | true => simp [prepend, unionOpt_none_left]
              | false =>
                simp only [Bool.false_eq_true, if_false, List.nil_append, unionOpt_none_left]
                rw [ih _ _ _ _ _ _ _ _ _ (acc ++ r.1) (unionOpt bb r.2), ih _ _ _ _ _ _ _ _ _ r.1 r.2]
                simp only [prepend]
                congr 1
                split <;> simp [unionOpt_assoc]

/-! ### `<for>` -/

/-- **`<for>` binds each item (and its index) in turn**: one step of the iteration -/
theorem for_iteration (fuel : Nat) (st s2 : St ρ) (ks : Nodes) (v : Str) (iv : Option Str) (item : Str)
    (items : List Str) (idx : Nat) (acc : List Ev) (bb : Option BoundingBox) (r : List Ev × Option BoundingBox)
    (hbody : processNodes ev fuel (bindForVars st v iv item idx) ks = (s2, .ok r))
    (hlim : idx + 1 ≤ s2.cfg.loopLimit) :
    forIter ev (fuel + 1) st ks v iv (item :: items) idx acc bb =
      forIter ev fuel s2 ks v iv items (idx + 1) (acc ++ r.1) (unionOpt bb r.2) := by
  rw [forIter]
  simp only [seq, hbody]
  have : ¬ (idx + 1 > s2.cfg.loopLimit) := by omega
  simp [this]

/-- an exhausted list ends the iteration -/
theorem for_done (fuel : Nat) (st : St ρ) (ks : Nodes) (v : Str) (iv : Option Str) (idx : Nat)
    (acc : List Ev) (bb : Option BoundingBox) :
    forIter ev (fuel + 1) st ks v iv [] idx acc bb = (st, .ok (acc, bb)) := by
  rw [forIter]

/-- the bindings of one `<for>` pass: the item, then the 0-based index when `idx-var` is given -/
theorem for_bindings (st : St ρ) (v i item : Str) (idx : Nat) :
    bindForVars st v (some i) item idx = (st.setVar v item).setVar i (Str.natToStr idx) ∧
    bindForVars st v none item idx = st.setVar v item := ⟨rfl, rfl⟩

/-! ### the unrolling's `<var>` binds like the loop -/

/-- `<var name="value"/>` with a value the evaluator returns unchanged (a literal) puts the state in
    exactly the condition the loop puts it in before a pass: `set_var name value` in the innermost scope -/
theorem var_element_binds_like_loop (st : St ρ) (e : Elem) (name value : Str) (rng : ρ)
    (ha : e.attrs = [(name, value)]) (hn : name ≠ ['_'] ∧ name ≠ cs!"__")
    (hev : ev.evalAttr st.geo st.env st.rng value = .ok (value, rng))
    (hlim : (String.ofList value).utf8ByteSize ≤ st.cfg.varLimit) :
    genVar ev st e = (({ st with rng := rng } : St ρ).setVar name value, .ok ([], none)) := by
  have h3 : ¬ ((String.ofList value).utf8ByteSize > st.cfg.varLimit) := by omega
  simp [genVar, ha, List.foldlM, hn.1, hn.2, hev, h3, bind, Except.bind, pure, Except.pure]

/-- and that is what `bindLoopVar` does with the rendered loop value -/
theorem loop_binding (st : St ρ) (name : Str) (value : Rat) (hn : name ≠ []) :
    bindLoopVar st name value = st.setVar name (loopVarStr value) := by
  cases name with
  | nil => exact absurd rfl hn
  | cons c cs => simp [bindLoopVar]

end Svgdx.Props.C16
