/-
  Svgdx.Proofs.Emit — which ELEMENTS the control skeleton can emit. Every start / empty event of a successful
  `processNodes` / `transformDoc` result carries either
    * an element of the input tree (or of a reuse template) copied through as it is (`T`), or
    * `adapt e` for an element `e` derived by the pipeline (`R`),
  for any predicates `T` (tree elements), `D` (everything that flows towards `adapt`), `R` (adapted output) that
  are closed under the element operations of the skeleton (`Closed`). The statement needs a STATE invariant (the
  reuse templates in `St.originals` carry whole subtrees) that holds after every outcome, errors included, because
  the retry loop carries on after a failed element. Since `<defaults>` is modelled the state also holds the stored
  default elements (`Scope.defaults`): each of them is `D` (`DefsOK`), and `Closed` asks that storing a tree element
  as a default (`storeD`) and applying stored defaults to a `D` element (`applyD`) stay inside `D`. Architecture as in `Svgdx.Proofs.Balanced` / `CtlInv`:
  one structure with a field per function of the mutual block, proved by induction on fuel.
-/
import Svgdx.Proofs.Balanced
import Svgdx.Proofs.DefaultsState
import Svgdx.Proofs.DefaultsApply
namespace Svgdx.Ctl.Emit
open Svgdx

variable {ρ : Type}

section defs
variable (T D R : Elem → Prop)

mutual
/-- every element of the subtree satisfies `T` -/
def NodeT : Node → Prop
  | .elem e none _ => T e
  | .elem e (some ks) _ => T e ∧ NodesT ks
  | .comment _ _ => True
  | .text _ => True
  | .cdata _ => True
def NodesT : Nodes → Prop
  | .nil => True
  | .cons n r => NodeT n ∧ NodesT r
end

def KidsT (kids : Option Nodes) : Prop := ∀ ks, kids = some ks → NodesT T ks

def EvOK : Ev → Prop
  | .start e => T e ∨ R e
  | .empty e => T e ∨ R e
  | _ => True

def EvsOK (evs : List Ev) : Prop := ∀ x ∈ evs, EvOK T R x

def ResOK (p : List Ev × Option Gen.BoundingBox) : Prop := EvsOK T R p.1

def PiecesOK (outs : List (Nat × List Ev)) : Prop := ∀ p ∈ outs, EvsOK T R p.2

def TagsT (ts : List Tag) : Prop := ∀ t ∈ ts, NodeT T t.node

/-- the reuse templates: every registered element is `D`; one registered with its content is a tree element -/
def OrigOK (o : List (Str × Elem × Option Nodes)) : Prop :=
  ∀ p ∈ o, D p.2.1 ∧ ∀ ks, p.2.2 = some ks → T p.2.1 ∧ NodesT T ks

/-- the stored defaults: every one of them is `D` -/
def DefsOK (scopes : List Scope) : Prop := ∀ s ∈ scopes, ∀ d ∈ s.defaults, D d.2

def SInv (st : St ρ) : Prop := OrigOK T D st.originals ∧ DefsOK D st.scopes

/-- invariant on the state whatever the outcome, postcondition on the value of a successful one -/
def Good {α : Type} (Q : α → Prop) (x : St ρ × Except CErr α) : Prop := SInv T D x.1 ∧ OkP Q x.2

/-- what `T`, `D`, `R` must be closed under -/
structure Closed (ev : Evalr ρ) : Prop where
  tD : ∀ e, T e → D e
  adapt : ∀ e, D e → R (adapt e)
  evalAttrs : ∀ (st : St ρ) e e' rng, D e → evalAttributes ev st e = .ok (e', rng) → D e'
  pipeline : ∀ (st : St ρ) e e' rng, D e → otherPipeline ev st e = .ok (e', rng) → D e'
  textAttr : ∀ e orig tes, D e → Text.processTextAttr e = .ok (orig, tes) → D orig ∧ ∀ t ∈ tes, D t.el
  setText : ∀ e t, D e → D (e.setAttr cs!"text" t)
  withBB : ∀ e bb, D e → D { e with contentBBox := bb }
  resolvePos : ∀ (c : Ctx) e e', D e → e.resolvePosition c = .ok e' → D e'
  reuseD : ∀ (st : St ρ) re orig inst1 rng pos, D re → D orig →
    evalAttributes ev st orig.expandCompoundSize = .ok (inst1, rng) →
    D (Elem.setPositionAttrs pos (reuseInstance re inst1)) ∧
    D (Elem.setPositionAttrs pos (reuseInstance re inst1).expandCompoundPos)
  reuseT : ∀ (st : St ρ) re orig inst1 rng pos, D re → T orig →
    evalAttributes ev st orig.expandCompoundSize = .ok (inst1, rng) →
    T (Elem.setPositionAttrs pos (reuseInstance re inst1)) ∧
    T (Elem.setPositionAttrs pos (reuseInstance re inst1).expandCompoundPos)
  /-- `set_element_default`: a tree element inside `<defaults>`, stored without `id` / `match` -/
  storeD : ∀ e, T e → D (storedDefault e)
  /-- `apply_defaults`: stored defaults applied to an element -/
  applyD : ∀ (defs : List (ElementMatch × Elem)) e, D e → (∀ d ∈ defs, D d.2) → D (applyDefaultList defs e)

end defs

variable {T D R : Elem → Prop}

/-! ### event lists -/

theorem evsOK_nil : EvsOK T R [] := by intro x hx; cases hx

theorem evsOK_append {a b : List Ev} (ha : EvsOK T R a) (hb : EvsOK T R b) : EvsOK T R (a ++ b) := by
  intro x hx
  rcases List.mem_append.mp hx with h | h
  · exact ha x h
  · exact hb x h

theorem evsOK_cons {x : Ev} {l : List Ev} (hx : EvOK T R x) (hl : EvsOK T R l) : EvsOK T R (x :: l) := by
  intro y hy
  rcases List.mem_cons.mp hy with rfl | h
  · exact hx
  · exact hl y h

theorem evsOK_flatMap {α : Type} (f : α → List Ev) (l : List α) (h : ∀ a ∈ l, EvsOK T R (f a)) :
    EvsOK T R (l.flatMap f) := by
  intro x hx
  obtain ⟨a, ha, hxa⟩ := List.mem_flatMap.mp hx
  exact h a ha x hxa

theorem evOK_text (t : Str) : EvOK T R (.text t) := trivial
theorem evOK_comment (t : Str) : EvOK T R (.comment t) := trivial
theorem evOK_cdata (t : Str) : EvOK T R (.cdata t) := trivial
theorem evOK_end (t : Str) : EvOK T R (.end_ t) := trivial

theorem evsOK_tailMatch (tail : Option Str) :
    EvsOK T R (match tail with | some t => [Ev.text t] | none => []) := by
  split
  · exact evsOK_cons (evOK_text _) evsOK_nil
  · exact evsOK_nil

theorem evsOK_tailEvs (tail : Option Str) : EvsOK T R (tailEvs tail) := by
  unfold tailEvs; exact evsOK_tailMatch tail

theorem evsOK_withTail (tail : Option Str) (evs : List Ev) (h : EvsOK T R evs) : EvsOK T R (withTail tail evs) := by
  unfold withTail
  split
  · exact evsOK_append h (evsOK_cons (evOK_text _) evsOK_nil)
  · exact h

mutual
theorem rawNode_ok : ∀ n : Node, NodeT T n → EvsOK T R (rawNode n)
  | .elem e none tail => by
    intro h
    unfold NodeT at h
    unfold rawNode
    exact evsOK_append (evsOK_cons (Or.inl h) evsOK_nil) (evsOK_tailMatch tail)
  | .elem e (some kids) tail => by
    intro h
    unfold NodeT at h
    unfold rawNode
    exact evsOK_append (evsOK_append (evsOK_append (evsOK_cons (Or.inl h.1) evsOK_nil) (rawNodes_ok kids h.2))
      (evsOK_cons (evOK_end _) evsOK_nil)) (evsOK_tailMatch tail)
  | .comment c tail => by
    intro _
    unfold rawNode
    exact evsOK_append (evsOK_cons (evOK_comment _) evsOK_nil) (evsOK_tailMatch tail)
  | .text t => by intro _; unfold rawNode; exact evsOK_cons (evOK_text _) evsOK_nil
  | .cdata t => by intro _; unfold rawNode; exact evsOK_cons (evOK_cdata _) evsOK_nil
theorem rawNodes_ok : ∀ ks : Nodes, NodesT T ks → EvsOK T R (rawNodes ks)
  | .nil => by intro _; unfold rawNodes; exact evsOK_nil
  | .cons n r => by
    intro h
    unfold NodesT at h
    unfold rawNodes
    exact evsOK_append (rawNode_ok n h.1) (rawNodes_ok r h.2)
end

mutual
theorem nodeT_mono {P Q : Elem → Prop} (hpq : ∀ e, P e → Q e) : ∀ n : Node, NodeT P n → NodeT Q n
  | .elem e none _ => by intro h; unfold NodeT at h ⊢; exact hpq e h
  | .elem e (some ks) _ => by intro h; unfold NodeT at h ⊢; exact ⟨hpq e h.1, nodesT_mono hpq ks h.2⟩
  | .comment _ _ => by intro _; unfold NodeT; trivial
  | .text _ => by intro _; unfold NodeT; trivial
  | .cdata _ => by intro _; unfold NodeT; trivial
theorem nodesT_mono {P Q : Elem → Prop} (hpq : ∀ e, P e → Q e) : ∀ ks : Nodes, NodesT P ks → NodesT Q ks
  | .nil => by intro _; unfold NodesT; trivial
  | .cons n r => by intro h; unfold NodesT at h ⊢; exact ⟨nodeT_mono hpq n h.1, nodesT_mono hpq r h.2⟩
end

theorem nodesT_toList : ∀ ks : Nodes, NodesT T ks → ∀ n ∈ ks.toList, NodeT T n
  | .nil => by intro _ n hn; simp [Nodes.toList] at hn
  | .cons m r => by
    intro h n hn
    unfold NodesT at h
    simp only [Nodes.toList, List.mem_cons] at hn
    rcases hn with rfl | hn
    · exact h.1
    · exact nodesT_toList r h.2 n hn

/-! ### the state invariant -/

theorem sinv_congr {a b : St ρ} (h : b.originals = a.originals) (h2 : b.scopes = a.scopes) (ha : SInv T D a) :
    SInv T D b := by
  unfold SInv at *; rw [h, h2]; exact ha

@[simp] theorem setVar_originals (st : St ρ) (k v : Str) : (st.setVar k v).originals = st.originals := by
  unfold St.setVar; split <;> rfl

theorem foldl_setVar_originals (vars : List (Str × Str)) (st : St ρ) :
    (vars.foldl (fun s kv => s.setVar kv.1 kv.2) st).originals = st.originals := by
  induction vars generalizing st with
  | nil => rfl
  | cons x xs ih => rw [List.foldl_cons, ih, setVar_originals]

theorem defsOK_setVar (st : St ρ) (k v : Str) (h : DefsOK D st.scopes) : DefsOK D (st.setVar k v).scopes := by
  unfold St.setVar
  cases hs : st.scopes with
  | nil =>
    intro s hs' d hd
    simp only [List.mem_cons, List.not_mem_nil, or_false] at hs'
    subst hs'
    cases hd
  | cons s0 rest =>
    rw [hs] at h
    intro s hs' d hd
    rcases List.mem_cons.mp hs' with rfl | hs'
    · exact h s0 List.mem_cons_self d hd
    · exact h s (List.mem_cons_of_mem _ hs') d hd

theorem sinv_setVar (st : St ρ) (k v : Str) (h : SInv T D st) : SInv T D (st.setVar k v) :=
  ⟨by rw [setVar_originals]; exact h.1, defsOK_setVar st k v h.2⟩

theorem sinv_foldl_setVar (vars : List (Str × Str)) (st : St ρ) (h : SInv T D st) :
    SInv T D (vars.foldl (fun s kv => s.setVar kv.1 kv.2) st) := by
  induction vars generalizing st with
  | nil => exact h
  | cons x xs ih => rw [List.foldl_cons]; exact ih _ (sinv_setVar st x.1 x.2 h)

theorem updateElement_scopes' (ev : Evalr ρ) (st : St ρ) (e : Elem) : (updateElement ev st e).scopes = st.scopes := by
  unfold updateElement; split <;> rfl

theorem registerOriginal_scopes (ev : Evalr ρ) (st : St ρ) (e : Elem) (k : Option Nodes) :
    (registerOriginal ev st e k).scopes = st.scopes := by
  unfold registerOriginal; split <;> rfl

theorem sinv_setElementDefault (st : St ρ) (e : Elem) (h : SInv T D st) (hd : D (storedDefault e)) :
    SInv T D (st.setElementDefault e) := by
  refine ⟨by rw [(defStep_setElementDefault st e).originals]; exact h.1, ?_⟩
  unfold St.setElementDefault
  cases hs : st.scopes with
  | nil =>
    intro s hs' d hd'
    simp only [List.mem_cons, List.not_mem_nil, or_false] at hs'
    subst hs'
    simp only [List.mem_cons, List.not_mem_nil, or_false] at hd'
    subst hd'
    exact hd
  | cons s0 rest =>
    have h2 := h.2
    rw [hs] at h2
    intro s hs' d hd'
    rcases List.mem_cons.mp hs' with rfl | hs'
    · rcases List.mem_append.mp hd' with hd' | hd'
      · exact h2 s0 List.mem_cons_self d hd'
      · simp only [List.mem_cons, List.not_mem_nil, or_false] at hd'
        subst hd'
        exact hd
    · exact h2 s (List.mem_cons_of_mem _ hs') d hd'

mutual
theorem subElemsNode_T : ∀ n : Node, NodeT T n → ∀ e ∈ subElemsNode n, T e
  | .elem e none _ => by
    intro h x hx
    unfold NodeT at h
    simp only [subElemsNode, List.mem_cons, List.not_mem_nil, or_false] at hx
    rw [hx]; exact h
  | .elem e (some ks) _ => by
    intro h x hx
    unfold NodeT at h
    simp only [subElemsNode, List.mem_cons] at hx
    rcases hx with rfl | hx
    · exact h.1
    · exact subElemsNodes_T ks h.2 x hx
  | .comment _ _ => by intro _ x hx; simp [subElemsNode] at hx
  | .text _ => by intro _ x hx; simp [subElemsNode] at hx
  | .cdata _ => by intro _ x hx; simp [subElemsNode] at hx
theorem subElemsNodes_T : ∀ ks : Nodes, NodesT T ks → ∀ e ∈ subElemsNodes ks, T e
  | .nil => by intro _ x hx; simp [subElemsNodes] at hx
  | .cons n r => by
    intro h x hx
    unfold NodesT at h
    simp only [subElemsNodes, List.mem_append] at hx
    rcases hx with hx | hx
    · exact subElemsNode_T n h.1 x hx
    · exact subElemsNodes_T r h.2 x hx
end

theorem sinv_foldl_setElementDefault (es : List Elem) (st : St ρ) (h : SInv T D st)
    (hd : ∀ e ∈ es, D (storedDefault e)) : SInv T D (es.foldl St.setElementDefault st) := by
  induction es generalizing st with
  | nil => exact h
  | cons x xs ih =>
    rw [List.foldl_cons]
    exact ih _ (sinv_setElementDefault st x h (hd x List.mem_cons_self)) (fun e he => hd e (List.mem_cons_of_mem _ he))

theorem origOK_ite {o o' : List (Str × Elem × Option Nodes)} {c : Prop} [Decidable c] (h : OrigOK T D o)
    (h' : OrigOK T D o') : OrigOK T D (if c then o else o') := by
  split <;> assumption

theorem sinv_updateElement (ev : Evalr ρ) (st : St ρ) (e : Elem) (h : SInv T D st) (hd : D e) :
    SInv T D (updateElement ev st e) := by
  refine ⟨?_, by rw [updateElement_scopes']; exact h.2⟩
  have h := h.1
  unfold updateElement
  split
  · exact h
  · rename_i i0 _
    apply origOK_ite h
    intro p hp
    rcases List.mem_cons.mp hp with rfl | hp
    · exact ⟨hd, fun ks hks => by cases hks⟩
    · exact h p hp

theorem sinv_registerOriginal (ev : Evalr ρ) (st : St ρ) (e : Elem) (kids : Option Nodes) (h : SInv T D st)
    (hd : D e) (hk : ∀ ks, kids = some ks → T e ∧ NodesT T ks) : SInv T D (registerOriginal ev st e kids) := by
  refine ⟨?_, by rw [registerOriginal_scopes]; exact h.2⟩
  have h := h.1
  unfold registerOriginal
  split
  · exact h
  · apply origOK_ite h
    intro p hp
    rcases List.mem_cons.mp hp with rfl | hp
    · exact ⟨hd, hk⟩
    · exact h p hp

theorem sinv_setPrev (st : St ρ) (e : Elem) (h : SInv T D st) : SInv T D (setPrev st e) := h
theorem sinv_push (st : St ρ) (e : Elem) (h : SInv T D st) : SInv T D (st.pushElement e) := by
  refine ⟨h.1, ?_⟩
  intro s hs d hd
  simp only [St.pushElement, List.mem_cons] at hs
  rcases hs with rfl | hs
  · cases hd
  · exact h.2 s hs d hd
theorem sinv_pop (st : St ρ) (h : SInv T D st) : SInv T D st.popElement :=
  ⟨h.1, fun s hs d hd => h.2 s (List.mem_of_mem_drop hs) d hd⟩

theorem sinv_withRng {α : Type} (st : St ρ) (r : Except Err (α × ρ)) (h : SInv T D st) :
    SInv T D (withRng st r).1 := by
  unfold withRng
  split
  · exact h
  · exact h

/-! ### combinators -/

theorem good_error {α : Type} {Q : α → Prop} {st : St ρ} (h : SInv T D st) (e : CErr) :
    Good T D Q (st, (.error e : Except CErr α)) := ⟨h, okP_error _ _⟩

theorem good_ok {α : Type} {Q : α → Prop} {st : St ρ} (h : SInv T D st) {a : α} (ha : Q a) :
    Good T D Q (st, (.ok a : Except CErr α)) := ⟨h, okP_ok ha⟩

theorem good_seq {α β : Type} {Q : α → Prop} {Q' : β → Prop} (x : St ρ × Except CErr α)
    (f : St ρ → α → St ρ × Except CErr β) (hx : Good T D Q x)
    (hf : ∀ a, SInv T D x.1 → Q a → Good T D Q' (f x.1 a)) : Good T D Q' (seq x f) := by
  unfold seq
  split
  · exact ⟨hx.1, okP_error _ _⟩
  · rename_i a ha
    exact hf a hx.1 (hx.2.get ha)

theorem good_withRng {α : Type} {Q : α → Prop} (st : St ρ) (r : Except Err (α × ρ)) (h : SInv T D st)
    (hq : ∀ a rng, r = .ok (a, rng) → Q a) : Good T D Q (withRng st r) :=
  ⟨sinv_withRng st r h, okP_withRng st r hq⟩

theorem good_popAfter {α : Type} {Q : α → Prop} (x : St ρ × Except CErr α) (h : Good T D Q x) :
    Good T D Q (popAfter x) := ⟨sinv_pop _ h.1, h.2⟩

theorem good_mono {α : Type} {Q Q' : α → Prop} {x : St ρ × Except CErr α} (h : Good T D Q x)
    (hq : ∀ a, Q a → Q' a) : Good T D Q' x := by
  refine ⟨h.1, ?_⟩
  cases hx : x.2 with
  | error e => exact okP_error _ _
  | ok a => exact okP_ok (hq a (h.2.get hx))

/-! ### the non-recursive generators -/

section gens
variable {ev : Evalr ρ} (cl : Closed T D R ev)
include cl

omit cl in
theorem good_genVar (st : St ρ) (e : Elem) (h : SInv T D st) : Good T D (ResOK T R) (genVar ev st e) := by
  unfold genVar
  dsimp only
  split
  · exact good_error h _
  · refine good_ok ?_ (show ResOK T R ([], none) from evsOK_nil)
    exact sinv_foldl_setVar _ _ (sinv_congr (a := st) rfl rfl h)

theorem good_genDefaults (st : St ρ) (kids : Option Nodes) (h : SInv T D st) (hk : KidsT T kids) :
    Good T D (ResOK T R) (genDefaults st kids) := by
  unfold genDefaults
  refine ⟨?_, okP_ok (show ResOK T R ([], none) from evsOK_nil)⟩
  cases kids with
  | none => exact h
  | some ks =>
    exact sinv_foldl_setElementDefault _ st h (fun e he => cl.storeD e (subElemsNodes_T ks (hk ks rfl) e he))

/-- the element handed to `genElem` by `genNode`: a tree element, with the defaults in force applied if it is a leaf -/
theorem leafDefaults_D (st : St ρ) (e : Elem) (kids : Option Nodes) (h : SInv T D st) (ht : T e) :
    D (leafDefaults st e kids) := by
  unfold leafDefaults
  split
  · unfold applyDefaults
    apply cl.applyD _ _ (cl.tD e ht)
    intro d hd
    obtain ⟨s, hs, hds⟩ := mem_defaultsInForce hd
    exact h.2 s hs d hds
  · exact cl.tD e ht

omit cl in
theorem good_commentEvents (st : St ρ) (e : Elem) (h : SInv T D st) :
    Good T D (EvsOK T R) (commentEvents ev st e) := by
  unfold commentEvents
  split
  · split
    · exact good_ok h (evsOK_cons (evOK_comment _) (evsOK_cons (evOK_text _) evsOK_nil))
    · exact good_error h _
  · exact good_ok h evsOK_nil

theorem okP_shapeEvents (e : Elem) (hd : D e) : OkP (EvsOK T R) (shapeEvents e) := by
  unfold shapeEvents
  dsimp only
  have h2 : EvsOK T R (match e.getAttr cs!"__" with
      | some c => [Ev.comment ([' '] ++ c ++ [' ']), Ev.text ['\n']]
      | none => []) := by
    split
    · exact evsOK_cons (evOK_comment _) (evsOK_cons (evOK_text _) evsOK_nil)
    · exact evsOK_nil
  split
  · split
    · exact okP_error _ _
    · rename_i orig tes htes
      obtain ⟨ho, ht⟩ := cl.textAttr e orig tes hd htes
      apply okP_ok
      refine evsOK_append (evsOK_append h2 ?_) ?_
      · split
        · exact evsOK_cons (Or.inr (cl.adapt _ ho)) (evsOK_cons (evOK_text _) evsOK_nil)
        · exact evsOK_nil
      · split
        · exact evsOK_nil
        · rename_i t
          exact evsOK_cons (Or.inr (cl.adapt _ (ht t (by simp))))
            (evsOK_cons (evOK_text _) (evsOK_cons (evOK_end _) evsOK_nil))
        · rename_i t spans _
          refine evsOK_append (evsOK_append (evsOK_cons (Or.inr (cl.adapt _ (ht t (by simp))))
            (evsOK_cons (evOK_text _) evsOK_nil)) ?_) (evsOK_cons (evOK_text _) (evsOK_cons (evOK_end _) evsOK_nil))
          apply evsOK_flatMap
          intro sp hsp
          exact evsOK_cons (Or.inr (cl.adapt _ (ht sp (by simp [hsp]))))
            (evsOK_cons (evOK_text _) (evsOK_cons (evOK_end _) evsOK_nil))
  · apply okP_ok
    refine evsOK_append h2 ?_
    split
    · exact evsOK_nil
    · exact evsOK_cons (Or.inr (cl.adapt _ hd)) evsOK_nil

theorem good_elementEvents (st : St ρ) (e : Elem) (h : SInv T D st) (hd : D e) :
    Good T D (EvsOK T R) (elementEvents ev st e) := by
  unfold elementEvents
  apply good_seq _ _ (good_commentEvents st e h)
  intro evs1 hs h1
  refine ⟨hs, ?_⟩
  have := okP_shapeEvents cl e hd
  dsimp only
  cases hsh : shapeEvents e with
  | error er => exact okP_error _ _
  | ok evs =>
    rw [hsh] at this
    exact okP_ok (evsOK_append h1 (this.get rfl))

theorem good_genOther (st : St ρ) (e : Elem) (h : SInv T D st) (hd : D e) :
    Good T D (ResOK T R) (genOther ev st e) := by
  unfold genOther
  apply good_seq (Q := D) _ _ (good_withRng st _ h (fun a rng hr => cl.pipeline st e a rng hd hr))
  intro e' hs hd'
  dsimp only
  have hu := sinv_updateElement ev _ e' hs hd'
  split
  · exact good_error hu _
  · apply good_seq _ _ (good_elementEvents cl _ e' (by split <;> exact hu) hd')
    intro evs hs2 hevs
    exact good_ok hs2 hevs

theorem good_groupFinish (st : St ρ) (e : Elem) (r : List Ev × Option Gen.BoundingBox) (h : SInv T D st)
    (hd : D e) (hr : EvsOK T R r.1) : Good T D (ResOK T R) (groupFinish ev st e r) := by
  unfold groupFinish
  dsimp only
  have hu : SInv T D (if r.2.isSome then setPrev (updateElement ev st { e with contentBBox := r.2 })
      { e with contentBBox := r.2 } else updateElement ev st { e with contentBBox := r.2 }) := by
    split <;> exact sinv_updateElement ev st _ h (cl.withBB e _ hd)
  split
  · exact good_ok hu hr
  · split
    · exact good_ok hu hr
    · exact good_error hu _

theorem good_clipPost (e : Elem) (x : St ρ × Res) (hx : Good T D (ResOK T R) x) (hd : D e) :
    Good T D (ResOK T R) (clipPost ev e x) := by
  unfold clipPost
  split
  · rename_i evs bb hxe
    have hb : EvsOK T R evs := hx.2.get hxe
    split
    · split
      · exact good_error hx.1 _
      · split
        · split
          · exact good_error hx.1 _
          · exact good_ok (sinv_updateElement ev _ _ hx.1 (cl.withBB e _ hd)) hb
          · exact hx
        · exact hx
    · exact hx
  · exact hx

theorem sinv_finishContainer (st : St ρ) (ne : Elem) (bb : Option Gen.BoundingBox) (h : SInv T D st) (hd : D ne) :
    SInv T D (finishContainer ev st ne bb) := by
  unfold finishContainer
  dsimp only
  -- whatever decides whether the element is registered (the condition has changed between model versions)
  have h0 : ∀ c : Bool, SInv T D (if c then updateElement ev st { ne with contentBBox := bb } else st) := by
    intro c
    split
    · exact sinv_updateElement ev st _ h (cl.withBB ne _ hd)
    · exact h
  split
  · exact h0 _
  · exact h0 _

theorem sinv_registerEarly (st : St ρ) (n : Node) (h : SInv T D st) (hn : NodeT T n) :
    SInv T D (registerEarly ev st n) := by
  unfold registerEarly
  split
  · rename_i e kids _
    cases kids with
    | none =>
      unfold NodeT at hn
      exact sinv_registerOriginal ev st e none h (cl.tD e hn) (fun ks hks => by cases hks)
    | some ks =>
      unfold NodeT at hn
      exact sinv_registerOriginal ev st e (some ks) h (cl.tD e hn.1)
        (fun ks' hks => by cases hks; exact hn)
  · exact h

omit cl in
theorem lookupTable_mem' {β : Type} (t : List (Str × β)) (k : Str) (v : β)
    (h : Attrs.lookupTable t k = some v) : ∃ k', (k', v) ∈ t := by
  induction t with
  | nil => simp [Attrs.lookupTable] at h
  | cons x xs ih =>
    obtain ⟨k0, v0⟩ := x
    simp only [Attrs.lookupTable] at h
    split at h
    · cases h; exact ⟨k0, by simp⟩
    · obtain ⟨k', hk'⟩ := ih h
      exact ⟨k', by simp [hk']⟩

/-- what `reusePrepare` hands to the generators: a `D` element; with content, a tree element -/
def InstOK (T D : Elem → Prop) (ik : Elem × Option Nodes) : Prop :=
  D ik.1 ∧ ∀ ks, ik.2 = some ks → T ik.1 ∧ NodesT T ks

theorem good_reusePrepare (st : St ρ) (re : Elem) (h : SInv T D st) (hre : D re) :
    Good T D (InstOK T D) (reusePrepare ev st re) := by
  unfold reusePrepare
  split
  · exact good_error h _
  · split
    · exact good_error h _
    · exact good_error (sinv_congr (a := st) rfl rfl h) _
    · rename_i i _
      split
      · exact good_error h _
      · rename_i orig kids hlook
        obtain ⟨k', hmem⟩ := lookupTable_mem' _ _ _ hlook
        obtain ⟨hdo, hko⟩ := h.1 _ hmem
        dsimp only at hdo hko
        apply good_seq (Q := fun inst1 => ∀ pos,
            (D (Elem.setPositionAttrs pos (reuseInstance re inst1)) ∧
             D (Elem.setPositionAttrs pos (reuseInstance re inst1).expandCompoundPos)) ∧
            (∀ ks, kids = some ks →
              T (Elem.setPositionAttrs pos (reuseInstance re inst1)) ∧
              T (Elem.setPositionAttrs pos (reuseInstance re inst1).expandCompoundPos)))
          _ _ (good_withRng st _ h (fun inst1 rng hr pos =>
            ⟨cl.reuseD st re orig inst1 rng pos hre hdo hr,
             fun ks hks => cl.reuseT st re orig inst1 rng pos hre (hko ks hks).1 hr⟩))
        intro inst1 hs hq
        split
        · exact good_error hs _
        · split
          · exact good_error hs _
          · rename_i re2 hre2
            extract_lets inst2 st2 pos0 cbb pos1 pp
            have hs2 : SInv T D st2 := by
              show SInv T D (if _ then _ else _)
              split
              · exact sinv_updateElement ev _ re2 hs (cl.resolvePos _ re re2 hre hre2)
              · exact hs
            have hi2 : inst2 = reuseInstance re inst1 := rfl
            have hpp : pp = (reuseInstance re inst1).expandCompoundPos := rfl
            clear_value pp st2 pos1 inst2
            split
            · rename_i pos i2 hpair
              refine good_ok hs2 ?_
              -- the instance is `reuseInstance re inst1`, possibly with its compound position expanded
              have hcase : i2 = inst2 ∨ i2 = pp := by
                split at hpair
                · split at hpair <;> (injection hpair with _ h2; exact Or.inr h2.symm)
                · injection hpair with _ h2; exact Or.inl h2.symm
              refine ⟨?_, fun ks hks => ⟨?_, (hko ks hks).2⟩⟩
              · rcases hcase with hc | hc
                · rw [hc, hi2]; exact ((hq _).1).1
                · rw [hc, hpp]; exact ((hq _).1).2
              · rcases hcase with hc | hc
                · rw [hc, hi2]; exact ((hq _).2 ks hks).1
                · rw [hc, hpp]; exact ((hq _).2 ks hks).2

end gens

/-! ### the mutual block, by induction on fuel -/

section block
variable (T D R)

/-- state invariant and postcondition for every function of the mutual block at a given fuel -/
structure AllE (ev : Evalr ρ) (fuel : Nat) : Prop where
  genElem : ∀ (st : St ρ) e kids, SInv T D st → D e → (∀ ks, kids = some ks → T e ∧ NodesT T ks) →
    Good T D (ResOK T R) (genElem ev fuel st e kids)
  dispatch : ∀ (st : St ρ) e kids, SInv T D st → D e → (∀ ks, kids = some ks → T e ∧ NodesT T ks) →
    Good T D (ResOK T R) (dispatch ev fuel st e kids)
  genSpecs : ∀ (st : St ρ) kids, SInv T D st → KidsT T kids → Good T D (ResOK T R) (genSpecs ev fuel st kids)
  genReuse : ∀ (st : St ρ) e, SInv T D st → D e → Good T D (ResOK T R) (genReuse ev fuel st e)
  genIf : ∀ (st : St ρ) e kids, SInv T D st → KidsT T kids → Good T D (ResOK T R) (genIf ev fuel st e kids)
  genContainer : ∀ (st : St ρ) e ks, SInv T D st → D e → T e → NodesT T ks →
    Good T D (ResOK T R) (genContainer ev fuel st e ks)
  genGroup : ∀ (st : St ρ) e kids, SInv T D st → D e → KidsT T kids →
    Good T D (ResOK T R) (genGroup ev fuel st e kids)
  genLoop : ∀ (st : St ρ) e kids, SInv T D st → KidsT T kids → Good T D (ResOK T R) (genLoop ev fuel st e kids)
  loopIter : ∀ (st : St ρ) ks c w u n v s i acc bb, SInv T D st → NodesT T ks → EvsOK T R acc →
    Good T D (ResOK T R) (loopIter ev fuel st ks c w u n v s i acc bb)
  genFor : ∀ (st : St ρ) e kids, SInv T D st → KidsT T kids → Good T D (ResOK T R) (genFor ev fuel st e kids)
  forIter : ∀ (st : St ρ) ks v iv items idx acc bb, SInv T D st → NodesT T ks → EvsOK T R acc →
    Good T D (ResOK T R) (forIter ev fuel st ks v iv items idx acc bb)
  genNode : ∀ (st : St ρ) n, SInv T D st → NodeT T n → Good T D (ResOK T R) (genNode ev fuel st n)
  onePass : ∀ (st : St ρ) ts outs bb rem, SInv T D st → TagsT T ts → TagsT T rem → PiecesOK T R outs →
    Good T D (fun r => PiecesOK T R r.1 ∧ TagsT T r.2.2) (onePass ev fuel st ts outs bb rem)
  retry : ∀ (st : St ρ) ts outs bb, SInv T D st → TagsT T ts → PiecesOK T R outs →
    Good T D (fun r => PiecesOK T R r.1) (retry ev fuel st ts outs bb)
  processNodes : ∀ (st : St ρ) ks, SInv T D st → NodesT T ks → Good T D (ResOK T R) (processNodes ev fuel st ks)

end block

theorem allE_zero (ev : Evalr ρ) : AllE T D R ev 0 := by
  constructor <;> intros <;> simp only [Ctl.genElem, Ctl.dispatch, Ctl.genSpecs, Ctl.genReuse, Ctl.genIf,
    Ctl.genContainer, Ctl.genGroup, Ctl.genLoop, Ctl.loopIter, Ctl.genFor, Ctl.forIter, Ctl.genNode, Ctl.onePass,
    Ctl.retry, Ctl.processNodes] <;> exact good_error (by assumption) _

theorem resOK_nil : ResOK T R ([], none) := evsOK_nil

theorem piecesOK_nil : PiecesOK T R [] := by intro p hp; cases hp

theorem piecesOK_snoc {outs : List (Nat × List Ev)} (h : PiecesOK T R outs) (i : Nat) {evs : List Ev}
    (he : EvsOK T R evs) : PiecesOK T R (outs ++ [(i, evs)]) := by
  intro p hp
  simp only [List.mem_append, List.mem_cons, List.not_mem_nil, or_false] at hp
  rcases hp with hp | rfl
  · exact h p hp
  · exact he

theorem piecesOK_sortOuts (outs : List (Nat × List Ev)) (h : PiecesOK T R outs) : PiecesOK T R (sortOuts outs) := by
  intro p hp
  unfold sortOuts at hp
  rcases mem_sortOuts_fold outs [] p hp with h1 | h1
  · cases h1
  · exact h p h1

theorem kidsT_of {e : Elem} {kids : Option Nodes} (h : ∀ ks, kids = some ks → T e ∧ NodesT T ks) : KidsT T kids :=
  fun ks hks => (h ks hks).2

section step
variable {ev : Evalr ρ} (cl : Closed T D R ev) (fuel : Nat) (ih : AllE T D R ev fuel)
include cl ih

theorem genElem_e (st : St ρ) e kids (h : SInv T D st) (hd : D e) (hk : ∀ ks, kids = some ks → T e ∧ NodesT T ks) :
    Good T D (ResOK T R) (Ctl.genElem ev (fuel + 1) st e kids) := by
  unfold Ctl.genElem
  split
  · exact good_error h _
  · dsimp only
    have := ih.dispatch { st with depth := st.depth + 1 } e kids h hd hk
    exact good_clipPost cl e _ ⟨this.1, this.2⟩ hd

theorem dispatch_e (st : St ρ) e kids (h : SInv T D st) (hd : D e) (hk : ∀ ks, kids = some ks → T e ∧ NodesT T ks) :
    Good T D (ResOK T R) (Ctl.dispatch ev (fuel + 1) st e kids) := by
  unfold Ctl.dispatch
  dsimp only
  split; · exact ih.genLoop st e kids h (kidsT_of hk)
  split
  · split
    · exact good_ok (sinv_congr (a := st) rfl rfl h) resOK_nil
    · exact good_error h _
  split; · exact ih.genReuse st e h hd
  split; · exact ih.genSpecs st kids h (kidsT_of hk)
  split; · exact good_genVar st e h
  split; · exact ih.genIf st e kids h (kidsT_of hk)
  split; · exact good_genDefaults cl st kids h (kidsT_of hk)
  split; · exact ih.genFor st e kids h (kidsT_of hk)
  split; · exact ih.genGroup st e kids h hd (kidsT_of hk)
  split
  · rename_i ks
    exact ih.genContainer st e ks h hd (hk ks rfl).1 (hk ks rfl).2
  · exact good_genOther cl st e h hd

omit cl in
theorem genSpecs_e (st : St ρ) kids (h : SInv T D st) (hk : KidsT T kids) :
    Good T D (ResOK T R) (Ctl.genSpecs ev (fuel + 1) st kids) := by
  unfold Ctl.genSpecs
  split
  · exact good_error h _
  · split
    · rename_i ks
      dsimp only
      have := ih.processNodes { st with inSpecs := true } ks h (hk ks rfl)
      refine ⟨this.1, ?_⟩
      split
      · exact okP_ok resOK_nil
      · exact okP_error _ _
    · exact good_ok h resOK_nil

theorem genReuse_e (st : St ρ) e (h : SInv T D st) (hd : D e) :
    Good T D (ResOK T R) (Ctl.genReuse ev (fuel + 1) st e) := by
  unfold Ctl.genReuse
  apply good_seq (Q := D) _ _ (good_withRng st _ h (fun a rng hr => cl.evalAttrs st e a rng hd hr))
  intro re hs hre
  apply good_popAfter
  apply good_seq _ _ (good_reusePrepare cl _ re (sinv_push _ re hs) hre)
  intro ik hs1 hik
  split
  · rename_i ks hks
    apply ih.processNodes _ _ hs1
    unfold NodesT NodeT
    exact ⟨hik.2 ks hks, trivial⟩
  · rename_i hnone
    exact ih.genElem _ _ _ hs1 hik.1 (fun ks hks => by cases hks)

omit cl in
theorem genIf_e (st : St ρ) e kids (h : SInv T D st) (hk : KidsT T kids) :
    Good T D (ResOK T R) (Ctl.genIf ev (fuel + 1) st e kids) := by
  unfold Ctl.genIf
  split
  · exact good_error h _
  · split
    · rename_i ks
      apply good_seq (Q := fun _ => True) _ _ (good_withRng st _ h (fun _ _ _ => trivial))
      intro b hs _
      split
      · exact ih.processNodes _ _ hs (hk ks rfl)
      · exact good_ok hs resOK_nil
    · exact good_ok h resOK_nil

theorem genContainer_e (st : St ρ) e ks (h : SInv T D st) (hd : D e) (ht : T e) (hk : NodesT T ks) :
    Good T D (ResOK T R) (Ctl.genContainer ev (fuel + 1) st e ks) := by
  unfold Ctl.genContainer
  split
  · split
    · exact good_error h _
    · dsimp only
      have := ih.genElem { st with depth := st.depth - 1 } (e.setAttr cs!"text" ‹Str›) none h (cl.setText e _ hd)
        (fun ks hks => by cases hks)
      exact ⟨this.1, this.2⟩
  · split
    · refine good_ok h ?_
      apply rawNode_ok
      unfold NodeT
      exact ⟨ht, hk⟩
    · apply good_seq (Q := D) _ _ (good_withRng st _ h (fun a rng hr => cl.evalAttrs st e a rng hd hr))
      intro ne hs hne
      apply good_seq (Q := ResOK T R)
      · split
        · exact good_ok hs (rawNodes_ok ks hk)
        · exact ih.processNodes _ _ hs hk
      · intro r hs2 hr
        refine good_ok (sinv_finishContainer cl _ ne _ hs2 hne) ?_
        exact evsOK_append (evsOK_append (evsOK_cons (Or.inr (cl.adapt _ hne)) evsOK_nil) hr)
          (evsOK_cons (evOK_end _) evsOK_nil)

theorem genGroup_e (st : St ρ) e kids (h : SInv T D st) (hd : D e) (hk : KidsT T kids) :
    Good T D (ResOK T R) (Ctl.genGroup ev (fuel + 1) st e kids) := by
  unfold Ctl.genGroup
  apply good_seq (Q := D) _ _ (good_withRng st _ h (fun a rng hr => cl.evalAttrs st e a rng hd hr))
  intro ne hs hne
  apply good_seq (Q := ResOK T R)
  · apply good_popAfter
    split
    · exact good_ok (sinv_push _ e hs) (evsOK_cons (Or.inr (cl.adapt _ hne)) evsOK_nil)
    · rename_i ks
      apply good_seq _ _ (ih.processNodes _ _ (sinv_push _ e hs) (hk ks rfl))
      intro r hs2 hr
      exact good_ok hs2 (evsOK_append (evsOK_append (evsOK_cons (Or.inr (cl.adapt _ hne)) evsOK_nil) hr)
          (evsOK_cons (evOK_end _) evsOK_nil))
  · intro r hs2 hr
    exact good_groupFinish cl _ e r hs2 hd hr

omit cl ih in
theorem sinv_preTest (st : St ρ) c w i (h : SInv T D st) : Good T D (fun _ : Bool => True) (preTest ev st c w i) := by
  unfold preTest
  split
  · exact good_ok h trivial
  · exact good_withRng st _ h (fun _ _ _ => trivial)
  · exact good_ok h trivial

omit cl ih in
theorem sinv_postTest (st : St ρ) u (h : SInv T D st) : Good T D (fun _ : Bool => True) (postTest ev st u) := by
  unfold postTest
  split
  · exact good_withRng st _ h (fun _ _ _ => trivial)
  · exact good_ok h trivial

omit cl ih in
theorem sinv_bindLoopVar (st : St ρ) n v (h : SInv T D st) : SInv T D (bindLoopVar st n v) := by
  unfold bindLoopVar
  split
  · exact h
  · exact sinv_setVar _ _ _ h

omit cl ih in
theorem sinv_bindForVars (st : St ρ) v iv item idx (h : SInv T D st) : SInv T D (bindForVars st v iv item idx) := by
  unfold bindForVars
  dsimp only
  split
  · exact sinv_setVar _ _ _ (sinv_setVar _ _ _ h)
  · exact sinv_setVar _ _ _ h

omit cl in
theorem loopIter_e (st : St ρ) ks c w u n v s i acc bb (h : SInv T D st) (hk : NodesT T ks) (hacc : EvsOK T R acc) :
    Good T D (ResOK T R) (Ctl.loopIter ev (fuel + 1) st ks c w u n v s i acc bb) := by
  unfold Ctl.loopIter
  apply good_seq _ _ (sinv_preTest st c w i h)
  intro go hs _
  split
  · exact good_ok hs hacc
  · apply good_seq _ _ (ih.processNodes _ _ (sinv_bindLoopVar _ n v hs) hk)
    intro r hs2 hr
    split
    · exact good_error hs2 _
    · apply good_seq _ _ (sinv_postTest _ u hs2)
      intro stop hs3 _
      split
      · exact good_ok hs3 (evsOK_append hacc hr)
      · exact ih.loopIter _ _ _ _ _ _ _ _ _ _ _ hs3 hk (evsOK_append hacc hr)

omit cl in
theorem genLoop_e (st : St ρ) e kids (h : SInv T D st) (hk : KidsT T kids) :
    Good T D (ResOK T R) (Ctl.genLoop ev (fuel + 1) st e kids) := by
  unfold Ctl.genLoop
  dsimp only
  split
  · rename_i ks _
    split
    · exact good_error h _
    · exact ih.loopIter _ _ _ _ _ _ _ _ _ _ _ (sinv_congr (a := st) rfl rfl h) (hk ks rfl) evsOK_nil
  all_goals exact good_ok h resOK_nil

omit cl in
theorem forIter_e (st : St ρ) ks v iv items idx acc bb (h : SInv T D st) (hk : NodesT T ks) (hacc : EvsOK T R acc) :
    Good T D (ResOK T R) (Ctl.forIter ev (fuel + 1) st ks v iv items idx acc bb) := by
  cases items with
  | nil => unfold Ctl.forIter; exact good_ok h hacc
  | cons item items =>
    unfold Ctl.forIter
    apply good_seq _ _ (ih.processNodes _ _ (sinv_bindForVars _ v iv item idx h) hk)
    intro r hs hr
    split
    · exact good_error hs _
    · exact ih.forIter _ _ _ _ _ _ _ _ hs hk (evsOK_append hacc hr)

omit cl in
theorem genFor_e (st : St ρ) e kids (h : SInv T D st) (hk : KidsT T kids) :
    Good T D (ResOK T R) (Ctl.genFor ev (fuel + 1) st e kids) := by
  unfold Ctl.genFor
  split
  · rename_i v d ks _ _
    apply good_seq (Q := fun _ => True) _ _ (good_withRng st _ h (fun _ _ _ => trivial))
    intro items hs _
    exact ih.forIter _ _ _ _ _ _ _ _ hs (hk ks rfl) evsOK_nil
  all_goals exact good_error h _

theorem genNode_e (st : St ρ) n (h : SInv T D st) (hn : NodeT T n) :
    Good T D (ResOK T R) (Ctl.genNode ev (fuel + 1) st n) := by
  cases n with
  | elem e kids tail =>
    unfold Ctl.genNode
    have hte : T e ∧ (∀ ks, kids = some ks → T e ∧ NodesT T ks) := by
      cases kids with
      | none => unfold NodeT at hn; exact ⟨hn, fun ks hks => by cases hks⟩
      | some ks => unfold NodeT at hn; exact ⟨hn.1, fun ks' hks => by cases hks; exact hn⟩
    have hk' : ∀ ks, kids = some ks → T (leafDefaults st e kids) ∧ NodesT T ks := by
      intro ks hks
      have := hte.2 ks hks
      subst hks
      exact this
    apply good_seq _ _ (ih.genElem st (leafDefaults st e kids) kids h (leafDefaults_D cl st e kids h hte.1) hk')
    intro r hs hr
    exact good_ok hs (evsOK_withTail tail _ hr)
  | comment c tail =>
    unfold Ctl.genNode
    exact good_ok h (evsOK_append (evsOK_cons (evOK_comment _) evsOK_nil) (evsOK_tailEvs tail))
  | text t => unfold Ctl.genNode; exact good_ok h (evsOK_cons (evOK_text _) evsOK_nil)
  | cdata c => unfold Ctl.genNode; exact good_ok h (evsOK_cons (evOK_cdata _) evsOK_nil)

theorem onePass_e (st : St ρ) ts outs bb rem (h : SInv T D st) (hts : TagsT T ts) (hrem : TagsT T rem)
    (ho : PiecesOK T R outs) :
    Good T D (fun r => PiecesOK T R r.1 ∧ TagsT T r.2.2) (Ctl.onePass ev (fuel + 1) st ts outs bb rem) := by
  cases ts with
  | nil =>
    unfold Ctl.onePass
    refine good_ok h ⟨ho, ?_⟩
    intro t ht
    exact hrem t (by simpa using ht)
  | cons t ts =>
    unfold Ctl.onePass
    have hnt : NodeT T t.node := hts t (by simp)
    have hts' : TagsT T ts := fun x hx => hts x (by simp [hx])
    have hg := ih.genNode (registerEarly ev st t.node) t.node (sinv_registerEarly cl st t.node h hnt) hnt
    dsimp only
    split
    · split
      · exact good_error hg.1 _
      · split
        · exact ih.onePass _ _ _ _ _ hg.1 hts' hrem ho
        · apply ih.onePass _ _ _ _ _ hg.1 hts' _ ho
          intro x hx
          rcases List.mem_cons.mp hx with rfl | hx
          · exact hnt
          · exact hrem x hx
    · rename_i evs b hr
      split
      · exact ih.onePass _ _ _ _ _ hg.1 hts' hrem ho
      · apply ih.onePass _ _ _ _ _ hg.1 hts' hrem
        split
        · exact ho
        · exact piecesOK_snoc ho _ (hg.2.get hr)

omit cl in
theorem retry_e (st : St ρ) ts outs bb (h : SInv T D st) (hts : TagsT T ts) (ho : PiecesOK T R outs) :
    Good T D (fun r => PiecesOK T R r.1) (Ctl.retry ev (fuel + 1) st ts outs bb) := by
  cases ts with
  | nil => unfold Ctl.retry; exact good_ok h ho
  | cons t ts =>
    unfold Ctl.retry
    apply good_seq _ _ (ih.onePass st _ _ _ _ h hts (by intro x hx; cases hx) ho)
    intro r hs hr
    split
    · exact good_error hs _
    · split
      · split
        · exact good_error hs _
        · split
          · exact good_error (sinv_congr (a := (Ctl.onePass ev fuel st (t :: ts) outs bb []).1) rfl rfl hs) _
          · exact ih.retry _ _ _ _ (sinv_congr (a := (Ctl.onePass ev fuel st (t :: ts) outs bb []).1) rfl rfl hs) hr.2 hr.1
      · exact ih.retry _ _ _ _ hs hr.2 hr.1

omit cl in
theorem processNodes_e (st : St ρ) ks (h : SInv T D st) (hk : NodesT T ks) :
    Good T D (ResOK T R) (Ctl.processNodes ev (fuel + 1) st ks) := by
  unfold Ctl.processNodes
  have htags : TagsT T (ks.toList.zipIdx.map fun (n, i) => ({ idx := i, node := n } : Tag)) := by
    intro t ht
    simp only [List.mem_map] at ht
    obtain ⟨⟨n, i⟩, hmem, rfl⟩ := ht
    exact nodesT_toList ks hk n (List.fst_mem_of_mem_zipIdx hmem)
  apply good_seq _ _ (ih.retry st _ _ _ h htags piecesOK_nil)
  intro r hs hr
  exact good_ok hs (evsOK_flatMap _ _ (piecesOK_sortOuts _ hr))

end step

/-- **all functions, all fuel** -/
theorem allE {ev : Evalr ρ} (cl : Closed T D R ev) : ∀ fuel, AllE T D R ev fuel
  | 0 => allE_zero ev
  | fuel + 1 =>
    let ih := allE cl fuel
    { genElem := genElem_e cl fuel ih
      dispatch := dispatch_e cl fuel ih
      genSpecs := genSpecs_e fuel ih
      genReuse := genReuse_e cl fuel ih
      genIf := genIf_e fuel ih
      genContainer := genContainer_e cl fuel ih
      genGroup := genGroup_e cl fuel ih
      genLoop := genLoop_e fuel ih
      loopIter := loopIter_e fuel ih
      genFor := genFor_e fuel ih
      forIter := forIter_e fuel ih
      genNode := genNode_e cl fuel ih
      onePass := onePass_e cl fuel ih
      retry := retry_e fuel ih
      processNodes := processNodes_e fuel ih }

/-- **every element event of a successful `processNodes` result is a tree element or an adapted one** -/
theorem processNodes_emits {ev : Evalr ρ} (cl : Closed T D R ev) (fuel : Nat) (st : St ρ) (ks : Nodes)
    (hst : SInv T D st) (hks : NodesT T ks) (evs : List Ev) (bb : Option Gen.BoundingBox)
    (h : (processNodes ev fuel st ks).2 = .ok (evs, bb)) : EvsOK T R evs :=
  (((allE cl fuel).processNodes st ks hst hks).2).get h

/-- the same for `transformDoc` (a real SVG document is copied through: tree elements only) -/
theorem transformDoc_emits {ev : Evalr ρ} (cl : Closed T D R ev) (fuel : Nat) (st : St ρ) (ks : Nodes)
    (hst : SInv T D st) (hks : NodesT T ks) (evs : List Ev) (bb : Option Gen.BoundingBox)
    (h : (transformDoc ev fuel st ks).2.2 = .ok (evs, bb)) : EvsOK T R evs := by
  unfold transformDoc at h
  split at h
  · simp only [Except.ok.injEq, Prod.mk.injEq] at h
    rw [← h.1]
    exact rawNodes_ok ks hks
  · exact processNodes_emits cl fuel st ks hst hks evs bb h

end Svgdx.Ctl.Emit
