/-
  Svgdx.Proofs.ThemeStr — string-scanning lemmas for the theme-builder proofs (C20 / C06):
  `stripPrefix`, `takeWhile` up to a stop character, the occurrence scanner `occs`
  (`urlRefs`, `declIds`), the selector reader `keyOf`, and the sorted-unique order `sortU`.
-/
import Svgdx.Theme.Build
namespace Svgdx.Theme
open Svgdx Str

/-! ### stripPrefix / startsWith -/

theorem stripPrefix_append (p s : Str) : stripPrefix p (p ++ s) = some s := by
  induction p with
  | nil => simp [stripPrefix]
  | cons a p ih => simp [stripPrefix, ih]

theorem stripPrefix_eq_some {p s t : Str} (h : stripPrefix p s = some t) : s = p ++ t := by
  induction p generalizing s with
  | nil => simp [stripPrefix] at h; simp [h]
  | cons a p ih =>
    cases s with
    | nil => simp [stripPrefix] at h
    | cons b s =>
      simp only [stripPrefix] at h
      split at h
      · rename_i hab
        have : a = b := by simpa using hab
        subst this
        simp [ih h]
      · simp at h

theorem startsWith_append (p s : Str) : startsWith p (p ++ s) = true := by
  simp [startsWith, stripPrefix_append]

theorem startsWith_iff {p s : Str} : startsWith p s = true ↔ ∃ t, s = p ++ t := by
  constructor
  · intro h
    unfold startsWith at h
    cases hs : stripPrefix p s with
    | none => simp [hs] at h
    | some t => exact ⟨t, stripPrefix_eq_some hs⟩
  · rintro ⟨t, rfl⟩
    exact startsWith_append p t

/-- the two strings differ at a position both have -/
def mism : Str → Str → Bool
  | a :: p, b :: t => a != b || mism p t
  | _, _ => false

theorem stripPrefix_of_mism {p t : Str} (h : mism p t = true) (r : Str) : stripPrefix p (t ++ r) = none := by
  induction p generalizing t with
  | nil => cases t <;> simp [mism] at h
  | cons a p ih =>
    cases t with
    | nil => simp [mism] at h
    | cons b t =>
      simp only [mism, Bool.or_eq_true, bne_iff_ne, ne_eq] at h
      simp only [List.cons_append, stripPrefix]
      by_cases hab : a = b
      · subst hab
        simp only [BEq.rfl, if_true]
        rcases h with h | h
        · exact absurd rfl h
        · exact ih h
      · simp [hab]

theorem append_ne_of_mism {p q : Str} (h : mism p q = true) (s t : Str) : p ++ s ≠ q ++ t := by
  induction p generalizing q with
  | nil => cases q <;> simp [mism] at h
  | cons a p ih =>
    cases q with
    | nil => simp [mism] at h
    | cons b q =>
      simp only [mism, Bool.or_eq_true, bne_iff_ne, ne_eq] at h
      intro heq
      simp only [List.cons_append, List.cons.injEq] at heq
      rcases h with h | h
      · exact h heq.1
      · exact ih h heq.2

/-! ### takeWhile up to a stop character -/

theorem takeWhile_append_stop (p : Char → Bool) (k : Str) (y : Char) (r : Str)
    (hk : ∀ x ∈ k, p x = true) (hy : p y = false) : (k ++ y :: r).takeWhile p = k := by
  induction k with
  | nil => simp [hy]
  | cons a k ih =>
    have ha : p a = true := hk a (by simp)
    simp only [List.cons_append, List.takeWhile_cons, ha, if_true]
    rw [ih (fun x hx => hk x (by simp [hx]))]

/-! ### keyOf -/

/-- no character of `k` ends a selector token -/
def plain (k : Str) : Bool := k.all (fun c => !selStop c)

theorem plain_iff {k : Str} : plain k = true ↔ ∀ x ∈ k, (!selStop x) = true := by
  simp [plain, List.all_eq_true]

theorem keyOf_dot (k rest : Str) (y : Char) (hk : plain k = true) (hy : selStop y = true) :
    keyOf ('.' :: (k ++ y :: rest)) = some k := by
  simp only [keyOf]
  rw [takeWhile_append_stop _ k y rest (plain_iff.mp hk) (by simp [hy])]

theorem keyOf_text (k rest : Str) (y : Char) (hk : plain k = true) (hy : selStop y = true) :
    keyOf ('t' :: 'e' :: 'x' :: 't' :: '.' :: (k ++ y :: rest)) = some k := by
  simp only [keyOf]
  rw [takeWhile_append_stop _ k y rest (plain_iff.mp hk) (by simp [hy])]

theorem plain_append {a b : Str} (ha : plain a = true) (hb : plain b = true) : plain (a ++ b) = true := by
  simp only [plain, List.all_append, Bool.and_eq_true] at *
  exact ⟨ha, hb⟩

/-! ### the occurrence scanner -/

/-- no occurrence of `pat` starts inside `s`, whatever follows `s` -/
def safe (pat : Str) : Str → Bool
  | [] => true
  | c :: r => mism pat (c :: r) && safe pat r

theorem occs_safe_append {pat : Str} {stop : Char} {s : Str} (h : safe pat s = true) (t : Str) :
    occs pat stop (s ++ t) = occs pat stop t := by
  induction s with
  | nil => rfl
  | cons c r ih =>
    simp only [safe, Bool.and_eq_true] at h
    have h1 := stripPrefix_of_mism h.1 t
    simp only [List.cons_append] at h1 ⊢
    cases t with
    | nil =>
      simp only [List.append_nil] at h1 ⊢
      have := ih h.2
      simp only [List.append_nil] at this
      simp only [occs, h1, this]
    | cons d t =>
      simp only [occs, h1]
      exact ih h.2

theorem occs_safe {pat : Str} {stop : Char} {s : Str} (h : safe pat s = true) : occs pat stop s = [] := by
  have := occs_safe_append (stop := stop) h []
  simpa [occs] using this

/-- a string without the first character of the pattern is safe -/
theorem safe_of_not_mem {pat : Str} {a : Char} {p : Str} (hp : pat = a :: p) {s : Str}
    (h : ∀ x ∈ s, x ≠ a) : safe pat s = true := by
  induction s with
  | nil => rfl
  | cons c r ih =>
    have hc : a ≠ c := fun e => h c (by simp) e.symm
    simp only [safe, hp, mism, Bool.and_eq_true, Bool.or_eq_true, bne_iff_ne, ne_eq]
    refine ⟨Or.inl hc, ?_⟩
    have := ih (fun x hx => h x (by simp [hx]))
    simpa [hp] using this

/-- one occurrence: `pat ++ body ++ stop :: rest` with nothing starting inside `pat.tail` or `body` -/
theorem occs_hit {pat : Str} {a : Char} {p : Str} (hp : pat = a :: p) (hsp : safe pat p = true)
    (stop : Char) (body rest : Str) (hb : ∀ x ∈ body, x ≠ stop) (hsb : safe pat body = true) :
    occs pat stop (pat ++ (body ++ stop :: rest)) = body :: occs pat stop (stop :: rest) := by
  subst hp
  have h1 : stripPrefix (a :: p) (a :: (p ++ (body ++ stop :: rest))) = some (body ++ stop :: rest) := by
    have := stripPrefix_append (a :: p) (body ++ stop :: rest)
    simpa using this
  have h2 : occs (a :: p) stop (p ++ (body ++ stop :: rest)) = occs (a :: p) stop (stop :: rest) := by
    rw [occs_safe_append hsp, occs_safe_append hsb]
  generalize occs (a :: p) stop (stop :: rest) = R at h2 ⊢
  simp only [List.cons_append, occs, h1, h2]
  rw [takeWhile_append_stop _ body stop rest (by simpa using hb) (by simp)]

/-! ### characters of printed numbers -/

/-- digits, sign, point: what `fstr` / `natToStr` print -/
def numChar (c : Char) : Bool := isDigit c || c == '-' || c == '.'

theorem natToStr_numChar (n : Nat) : ∀ x ∈ natToStr n, numChar x = true := by
  intro x hx
  unfold natToStr at hx
  have h : x ∈ Nat.toDigits 10 n := by
    have : (toString n).toList = Nat.toDigits 10 n := by
      show (Nat.repr n).toList = _
      exact Nat.toList_repr
    rwa [this] at hx
  have hd := Nat.isDigit_of_mem_toDigits (by omega) (by omega) h
  simp only [numChar, isDigit, Bool.or_eq_true, Bool.and_eq_true, decide_eq_true_eq, beq_iff_eq]
  simp only [Char.isDigit, Bool.and_eq_true, decide_eq_true_eq] at hd
  left; left
  exact ⟨by simpa [Char.le_def] using hd.1, by simpa [Char.le_def] using hd.2⟩

theorem intToStr_numChar (i : Int) : ∀ x ∈ intToStr i, numChar x = true := by
  intro x hx
  unfold intToStr at hx
  split at hx
  · rcases List.mem_cons.mp hx with rfl | hx
    · decide
    · exact natToStr_numChar _ x hx
  · exact natToStr_numChar _ x hx

theorem mem_trimEndMatches {c x : Char} {s : Str} (h : x ∈ Num.trimEndMatches c s) : x ∈ s := by
  unfold Num.trimEndMatches at h
  have h1 := List.mem_reverse.mp h
  have h2 := (List.dropWhile_sublist _).subset h1
  exact List.mem_reverse.mp h2

theorem fstr_numChar (q : Rat) : ∀ x ∈ Num.fstr q, numChar x = true := by
  intro x hx
  unfold Num.fstr at hx
  split at hx
  · simp at hx; subst hx; decide
  · split at hx
    · exact intToStr_numChar _ x hx
    · have h1 := mem_trimEndMatches (mem_trimEndMatches hx)
      unfold Num.fmt3 at h1
      simp only [List.mem_append] at h1
      rcases h1 with ((h1 | h1) | h1) | h1
      · split at h1
        · simp at h1; subst h1; decide
        · simp at h1
      · exact natToStr_numChar _ x h1
      · simp at h1; subst h1; decide
      · unfold Num.padLeft at h1
        rcases List.mem_append.mp h1 with h1 | h1
        · have := List.eq_of_mem_replicate h1
          subst this; decide
        · exact natToStr_numChar _ x h1

end Svgdx.Theme
