/-
  Svgdx.Proofs.XmlCompose — the two end-to-end statements about the writer (`write_wellformed`,
  `write_passthrough`) brought together and applied to the transformer's own output:
  * XML Names satisfy the (weaker) condition of the round trip, so ONE hypothesis on names serves both;
  * every successful `transformDoc` result is written as well-formed content and is a fixed point of read-then-write;
  * `postprocess` (the root rewrite) keeps a balanced event list balanced and keeps the hypotheses on names and
    attribute keys (an emptied `<svg/>` is closed right behind its start tag inside another element — fix 229d1ae —
    and at the end of the document at the top level — fix 52b6ad7).
-/
import Svgdx.Proofs.XmlSpec
import Svgdx.Proofs.XmlRoundTrip
import Svgdx.Doc.Transform
namespace Svgdx.Xml
open Svgdx Str Spec

/-! ## XML Names are writable names -/

theorem nameChar_facts {c : Char} (h : isNameChar c = true) :
    tagSafe c = true ∧ c ≠ '/' ∧ isAsciiWs c = false := by
  have n1 : c ≠ '>' := by rintro rfl; revert h; decide
  have n2 : c ≠ '"' := by rintro rfl; revert h; decide
  have n3 : c ≠ '\'' := by rintro rfl; revert h; decide
  have n4 : c ≠ '/' := by rintro rfl; revert h; decide
  have n5 : c ≠ ' ' := by rintro rfl; revert h; decide
  have n6 : c ≠ '\t' := by rintro rfl; revert h; decide
  have n7 : c ≠ '\n' := by rintro rfl; revert h; decide
  have n8 : c ≠ '\x0c' := by rintro rfl; revert h; decide
  have n9 : c ≠ '\r' := by rintro rfl; revert h; decide
  refine ⟨by simp [tagSafe, n1, n2, n3], n4, by simp [isAsciiWs, n5, n6, n7, n8, n9]⟩

theorem isName_tagSafe {n : Str} (h : isName n = true) : n.all tagSafe = true := by
  have := isName_all h
  simp only [List.all_eq_true] at this ⊢
  exact fun c hc => (nameChar_facts (this c hc)).1

theorem isName_nameW {n : Str} (h : isName n = true) : nameW n = true := by
  have ha := isName_tagSafe h
  cases n with
  | nil => simp [isName] at h
  | cons c r =>
    simp only [isName, Bool.and_eq_true] at h
    obtain ⟨_, c2, c3, _, _, _⟩ := nameStart_facts h.1
    have c4 : c ≠ '?' := by rintro rfl; exact absurd h.1 (by decide)
    simp only [nameW, ha, Bool.and_true, Bool.and_eq_true, bne_iff_ne, ne_eq]
    exact ⟨⟨c3, c4⟩, c2⟩

theorem isName_last {n : Str} (h : isName n = true) : ∃ c, n.getLast? = some c ∧ isNameChar c = true := by
  have ha := isName_all h
  cases hl : n.getLast? with
  | none =>
    have : n = [] := List.getLast?_eq_none_iff.mp hl
    subst this; simp [isName] at h
  | some c =>
    refine ⟨c, rfl, ?_⟩
    have : c ∈ n := List.mem_of_getLast? hl
    exact (List.all_eq_true.mp ha) c this

theorem isName_keysW {a : Attrs} (h : a.all (fun kv => isName kv.1) = true) : keysW a = true := by
  simp only [keysW, List.all_eq_true] at h ⊢
  exact fun kv hkv => by simpa [List.all_eq_true] using isName_tagSafe (h kv hkv)

/-- an end event of a balanced list repeats the name of one of its start events -/
theorem balanced_end_name {evs : List Ctl.Ev} (h : Ctl.Balanced evs) :
    ∀ n, Ctl.Ev.end_ n ∈ evs → ∃ e, Ctl.Ev.start e ∈ evs ∧ e.name = n := by
  induction h with
  | nil => intro n hn; cases hn
  | leaf x hx =>
    intro n hn
    simp only [List.mem_singleton] at hn
    subst hn; simp [Ctl.Ev.isLeaf] at hx
  | wrap e xs _ ih =>
    intro n hn
    simp only [List.mem_append, List.mem_cons, List.not_mem_nil, or_false] at hn
    rcases hn with (hn | hn) | hn
    · cases hn
    · obtain ⟨e', he', hn'⟩ := ih n hn
      exact ⟨e', by simp [he'], hn'⟩
    · injection hn with hn
      exact ⟨e, by simp, hn.symm⟩
  | append xs ys _ _ ih1 ih2 =>
    intro n hn
    simp only [List.mem_append] at hn
    rcases hn with hn | hn
    · obtain ⟨e', he', hn'⟩ := ih1 n hn
      exact ⟨e', by simp [he'], hn'⟩
    · obtain ⟨e', he', hn'⟩ := ih2 n hn
      exact ⟨e', by simp [he'], hn'⟩

/-- **the hypothesis of well-formedness is also enough for the round trip** -/
theorem namesOk_writable (evs : List Ctl.Ev) (hb : Ctl.Balanced evs) (hn : NamesOk evs) : Writable evs := by
  have hn' := List.all_eq_true.mp hn
  unfold Writable
  rw [List.all_eq_true]
  intro x hx
  cases x with
  | start e =>
    have := hn' _ hx
    simp only [nameOkEv, Bool.and_eq_true] at this
    obtain ⟨c, hc1, hc2⟩ := isName_last this.1
    have hl : (e.name.getLast? != some '/') = true := by
      rw [hc1]; simpa using (nameChar_facts hc2).2.1
    simp [writableEv, isName_nameW this.1, isName_keysW this.2, hl]
  | empty e =>
    have := hn' _ hx
    simp only [nameOkEv, Bool.and_eq_true] at this
    simp [writableEv, isName_nameW this.1, isName_keysW this.2]
  | end_ n =>
    obtain ⟨e, he, hen⟩ := balanced_end_name hb n hx
    have := hn' _ he
    simp only [nameOkEv, Bool.and_eq_true] at this
    rw [hen] at this
    obtain ⟨c, hc1, hc2⟩ := isName_last this.1
    simp [writableEv, isName_tagSafe this.1, noTrailingWs, hc1, (nameChar_facts hc2).2.2]
  | text t => rfl
  | comment t => rfl
  | cdata t => rfl

/-- both conclusions from one set of hypotheses -/
theorem write_wellformed_fixed (evs : List Ctl.Ev) (hb : Ctl.Balanced evs) (hn : NamesOk evs) (hu : AttrsUnique evs) :
    Spec.wfContent (write evs) = true ∧ passThroughW (write evs) = some (write evs) :=
  ⟨write_wellformed evs hb hn hu, write_passthrough evs (namesOk_writable evs hb hn)⟩

/-! ## the transformer's own output -/

theorem transformDoc_balanced {ρ : Type} (ev : Ctl.Evalr ρ) (fuel : Nat) (st : Ctl.St ρ) (ks : Ctl.Nodes)
    (evs : List Ctl.Ev) (bb : Option Gen.BoundingBox)
    (h : (Ctl.transformDoc ev fuel st ks).2.2 = .ok (evs, bb)) : Ctl.Balanced evs := by
  unfold Ctl.transformDoc at h
  split at h
  · simp only [Except.ok.injEq, Prod.mk.injEq] at h
    rw [← h.1]
    exact Ctl.rawNodes_balanced ks
  · exact Ctl.processNodes_balanced ev fuel st ks evs bb h

/-- **what the transformer generates is written as well-formed content and read back unchanged**, for every
    document, evaluator, state and fuel; the hypotheses that remain are about NAMES and attribute-map keys of
    the generated events (see `Svgdx.Proofs.XmlOutput` for their reduction to the input document) -/
theorem transformDoc_wellformed_fixed {ρ : Type} (ev : Ctl.Evalr ρ) (fuel : Nat) (st : Ctl.St ρ) (ks : Ctl.Nodes)
    (evs : List Ctl.Ev) (bb : Option Gen.BoundingBox)
    (h : (Ctl.transformDoc ev fuel st ks).2.2 = .ok (evs, bb)) (hn : NamesOk evs) (hu : AttrsUnique evs) :
    Spec.wfContent (write evs) = true ∧ passThroughW (write evs) = some (write evs) :=
  write_wellformed_fixed evs (transformDoc_balanced ev fuel st ks evs bb h) hn hu

/-! ## the root rewrite -/

open Ctl Doc

def rootEv (root : Elem) (emp : Bool) : Ev := if emp then .empty root else .start root

theorem partitionSvg_spec (evs pre remain : List Ev) (root : Elem) (emp : Bool)
    (h : partitionSvg evs = (pre, some (root, emp), remain)) :
    evs = pre ++ rootEv root emp :: remain ∧ root.name = cs!"svg" := by
  induction evs generalizing pre with
  | nil => simp [partitionSvg] at h
  | cons x rest ih =>
    unfold partitionSvg at h
    dsimp only at h
    split at h
    · rename_i p hp
      simp only [Prod.mk.injEq, Option.some.injEq] at h
      obtain ⟨rfl, rfl, rfl⟩ := h
      cases x with
      | start e =>
        simp only at hp
        split at hp
        · rename_i hname
          simp only [Option.some.injEq, Prod.mk.injEq] at hp
          obtain ⟨rfl, rfl⟩ := hp
          exact ⟨by simp [rootEv], by simpa using hname⟩
        · cases hp
      | empty e =>
        simp only at hp
        split at hp
        · rename_i hname
          simp only [Option.some.injEq, Prod.mk.injEq] at hp
          obtain ⟨rfl, rfl⟩ := hp
          exact ⟨by simp [rootEv], by simpa using hname⟩
        · cases hp
      | _ => simp at hp
    · cases hr : partitionSvg rest with
      | mk a pb =>
        obtain ⟨p, b⟩ := pb
        rw [hr] at h
        simp only [Prod.mk.injEq] at h
        obtain ⟨rfl, rfl, rfl⟩ := h
        obtain ⟨h1, h2⟩ := ih a hr
        exact ⟨by rw [h1]; simp, h2⟩

/-! ### nesting depth -/

def evDelta : Ev → Int
  | .start _ => 1
  | .end_ _ => -1
  | _ => 0

def depthStep (d : Int) (e : Ev) : Int :=
  match e with
  | .start _ => d + 1
  | .end_ _ => d - 1
  | _ => d

theorem openDepth_eq (l : List Ev) : openDepth l = l.foldl depthStep 0 := rfl

theorem depthStep_eq (d : Int) (e : Ev) : depthStep d e = d + evDelta e := by
  cases e <;> simp [depthStep, evDelta]
  omega

theorem foldl_depthStep (l : List Ev) : ∀ d : Int, l.foldl depthStep d = d + l.foldl depthStep 0 := by
  induction l with
  | nil => intro d; simp
  | cons e l ih =>
    intro d
    rw [List.foldl_cons, List.foldl_cons, ih (depthStep d e), ih (depthStep 0 e), depthStep_eq, depthStep_eq]
    omega

theorem openDepth_cons (e : Ev) (l : List Ev) : openDepth (e :: l) = evDelta e + openDepth l := by
  rw [openDepth_eq, openDepth_eq, List.foldl_cons, foldl_depthStep, depthStep_eq]
  omega

/-- **the checker's stack grows by exactly the open depth** of the events it has accepted -/
theorem check_depth (l : List Ev) : ∀ stk s, check stk l = some s → (s.length : Int) = stk.length + openDepth l := by
  induction l with
  | nil => intro stk s h; simp only [check, Option.some.injEq] at h; subst h; simp [openDepth]
  | cons e l ih =>
    intro stk s h
    rw [openDepth_cons]
    cases e with
    | start el =>
      have := ih _ _ (by simpa [check] using h)
      simp only [List.length_cons, evDelta] at this ⊢; omega
    | end_ n =>
      cases stk with
      | nil => simp [check] at h
      | cons top stk' =>
        simp only [check] at h
        split at h
        · have := ih _ _ h
          simp only [List.length_cons, evDelta] at this ⊢; omega
        · cases h
    | empty el => have := ih _ _ (by simpa [check] using h); simp only [evDelta]; omega
    | text t => have := ih _ _ (by simpa [check] using h); simp only [evDelta]; omega
    | comment t => have := ih _ _ (by simpa [check] using h); simp only [evDelta]; omega
    | cdata t => have := ih _ _ (by simpa [check] using h); simp only [evDelta]; omega

/-- more open elements below do not disturb the checker -/
theorem check_extend (l : List Ev) : ∀ s r t, check s l = some r → check (s ++ t) l = some (r ++ t) := by
  induction l with
  | nil => intro s r t h; simp only [check, Option.some.injEq] at h; subst h; rfl
  | cons e l ih =>
    intro s r t h
    cases e with
    | start el => simpa [check] using ih (el.name :: s) r t (by simpa [check] using h)
    | end_ n =>
      cases s with
      | nil => simp [check] at h
      | cons top s' =>
        simp only [check] at h
        split at h
        · rename_i heq
          simp only [List.cons_append, check, heq, if_true]
          exact ih s' r t h
        · cases h
    | empty el => simpa [check] using ih s r t (by simpa [check] using h)
    | text x => simpa [check] using ih s r t (by simpa [check] using h)
    | comment x => simpa [check] using ih s r t (by simpa [check] using h)
    | cdata x => simpa [check] using ih s r t (by simpa [check] using h)

theorem check_append_some {a b : List Ev} {stk r : List Str} (h : check stk (a ++ b) = some r) :
    ∃ s, check stk a = some s ∧ check s b = some r := by
  rw [check_append] at h
  cases hs : check stk a with
  | none => rw [hs] at h; cases h
  | some s => rw [hs] at h; exact ⟨s, rfl, h⟩

/-! ### the root rewrite -/

def newRoot (root : Elem) (a : Attrs) : Ev := Ev.start { name := cs!"svg", attrs := a, classes := root.classes }

def closeEvs (emp : Bool) : List Ev := if emp then [Ev.end_ cs!"svg"] else []

/-- what `postprocess` does, spelt out: nothing without an `<svg>`; otherwise the root is rewritten and — if it was
    an empty-element tag — closed at once when it stands inside another element, at the end of the document when
    it stands at the top level -/
theorem postprocess_shape (cfg : RootCfg) (evs out : List Ev) (bb : Option Gen.BoundingBox)
    (hp : postprocess cfg evs bb = some out) :
    out = evs ∨ ∃ pre root emp remain a, partitionSvg evs = (pre, some (root, emp), remain) ∧
      evs = pre ++ rootEv root emp :: remain ∧ root.name = cs!"svg" ∧
      rootAttrs cfg root.attrs bb = some a ∧
      ((0 < openDepth pre ∧ out = pre ++ (newRoot root a :: (closeEvs emp ++ remain))) ∨
       (openDepth pre ≤ 0 ∧ out = pre ++ (newRoot root a :: (remain ++ closeEvs emp)))) := by
  unfold postprocess at hp
  split at hp
  · rename_i pre root wasEmpty remain hpart
    obtain ⟨hevs, hname⟩ := partitionSvg_spec _ _ _ _ _ hpart
    obtain ⟨a, ha1, ha⟩ := Option.map_eq_some_iff.mp hp
    refine Or.inr ⟨pre, root, wasEmpty, remain, a, hpart, hevs, hname, ha1, ?_⟩
    dsimp only at ha
    split at ha
    · rename_i hd
      exact Or.inl ⟨hd, by rw [← ha]; simp [newRoot, closeEvs]⟩
    · rename_i hd
      exact Or.inr ⟨by omega, by rw [← ha]; simp [newRoot, closeEvs]⟩
  · simp only [Option.some.injEq] at hp
    exact Or.inl hp.symm

/-- the rewritten root and the events it replaces look the same to the checker -/
theorem check_newRoot (root : Elem) (a : Attrs) (emp : Bool) (remain : List Ev) (hname : root.name = cs!"svg") :
    ∀ s, check s (newRoot root a :: (closeEvs emp ++ remain)) = check s (rootEv root emp :: remain) := by
  intro s
  cases emp <;> simp [newRoot, closeEvs, rootEv, check, hname]

/-- **unless the root is an emptied `<svg/>` at the top level, `postprocess` is invisible to the checker**: same
    verdict and same stack, from every stack (no hypothesis on the list: it need not be balanced) -/
theorem postprocess_check_eq (cfg : RootCfg) (evs out : List Ev) (bb : Option Gen.BoundingBox)
    (hp : postprocess cfg evs bb = some out)
    (hcase : ∀ pre root remain, partitionSvg evs = (pre, some (root, true), remain) → 0 < openDepth pre) :
    ∀ stk, check stk out = check stk evs := by
  intro stk
  rcases postprocess_shape cfg evs out bb hp with rfl | ⟨pre, root, emp, remain, a, hpart, hevs, hname, -, hout⟩
  · rfl
  · rcases hout with ⟨-, hout⟩ | ⟨hd, hout⟩
    · rw [hevs, hout, check_append, check_append]
      congr 1; funext s; exact check_newRoot root a emp remain hname s
    · cases emp with
      | false =>
        rw [hevs, hout, check_append, check_append]
        congr 1; funext s
        simpa [closeEvs] using check_newRoot root a false remain hname s
      | true => have := hcase pre root remain hpart; omega

/-- **`postprocess` keeps a balanced list balanced, in every case.** For an emptied `<svg/>` at the top level the
    events before it are closed by themselves (their open depth is not positive and the checker accepted them, so
    its stack is empty: `check_depth`), hence the rest of the document, itself balanced, can move inside the root -/
theorem postprocess_check (cfg : RootCfg) (evs out : List Ev) (bb : Option Gen.BoundingBox)
    (hb : check [] evs = some []) (hp : postprocess cfg evs bb = some out) : check [] out = some [] := by
  rcases postprocess_shape cfg evs out bb hp with rfl | ⟨pre, root, emp, remain, a, hpart, hevs, hname, -, hout⟩
  · exact hb
  · rcases hout with ⟨-, hout⟩ | ⟨hd, hout⟩
    · rw [hout, check_append]
      rw [hevs, check_append] at hb
      rw [show (fun s => check s (newRoot root a :: (closeEvs emp ++ remain))) =
        fun s => check s (rootEv root emp :: remain) from funext (check_newRoot root a emp remain hname)]
      exact hb
    · cases emp with
      | false =>
        rw [hout, check_append]
        rw [hevs, check_append] at hb
        rw [show (fun s => check s (newRoot root a :: (remain ++ closeEvs false))) =
          fun s => check s (rootEv root false :: remain) from
            funext (fun s => by simpa [closeEvs] using check_newRoot root a false remain hname s)]
        exact hb
      | true =>
        rw [hevs] at hb
        obtain ⟨s, hs, hrest⟩ := check_append_some hb
        have hlen := check_depth pre [] s hs
        have hs0 : s = [] := by
          cases s with
          | nil => rfl
          | cons x xs => simp only [List.length_cons, List.length_nil] at hlen; omega
        subst hs0
        have hrem : check [] remain = some [] := by simpa [rootEv, check] using hrest
        have hext := check_extend remain [] [] [cs!"svg"] hrem
        rw [hout, check_append, hs]
        simp only [Option.bind_some, newRoot, check, closeEvs, if_true]
        rw [check_append]
        simp only [List.nil_append] at hext
        rw [hext]
        simp [check]

theorem postprocess_balanced (cfg : RootCfg) (evs out : List Ev) (bb : Option Gen.BoundingBox)
    (hb : Balanced evs) (hp : postprocess cfg evs bb = some out) : Balanced out :=
  (balanced_iff_check out).mpr (postprocess_check cfg evs out bb hb.sound hp)

/-- in that last case the two lists are NOT equivalent for the checker in general: with an element left open the
    document end closes the wrong one (`<svg/><g>` ↦ `<svg …><g></svg>`); this is why `postprocess_check` asks for a
    balanced list and `postprocess_check_eq` excludes the case -/
example : ∃ out, postprocess {} [.empty { name := cs!"svg", attrs := [] }, .start { name := ['g'], attrs := [] }] none
      = some out ∧ check [] out = none ∧
    check [] [.empty { name := cs!"svg", attrs := [] }, .start { name := ['g'], attrs := [] }] = some [['g']] :=
  ⟨_, rfl, by decide +kernel, by decide +kernel⟩

/-- nested: `<g><svg/></g>` ↦ `<g><svg …></svg></g>` (fix 229d1ae) -/
theorem postprocess_nested_empty_root :
    ∃ out, postprocess {} [.start { name := ['g'], attrs := [] }, .empty { name := cs!"svg", attrs := [] }, .end_ ['g']]
        none = some out ∧ check [] out = some [] ∧
      write out = cs!"<g><svg version=\"1.1\" xmlns=\"http://www.w3.org/2000/svg\"></svg></g>" :=
  ⟨_, rfl, by decide +kernel, by decide +kernel⟩

/-- top level, trailing text: `<svg/>⏎` ↦ `<svg …>⏎</svg>` -/
theorem postprocess_empty_root_trailing_text :
    ∃ out, postprocess {} [.empty { name := cs!"svg", attrs := [] }, .text ['\n']] none = some out ∧
      check [] out = some [] ∧
      write out = cs!"<svg version=\"1.1\" xmlns=\"http://www.w3.org/2000/svg\">\n</svg>" :=
  ⟨_, rfl, by decide +kernel, by decide +kernel⟩

/-- top level, unclosed root (the reader turns never-closed elements into empty ones): `[<svg/>, <g/>, <rect/>]` ↦
    `<svg …><g/><rect/></svg>` (fix 52b6ad7) -/
theorem postprocess_unclosed_root :
    ∃ out, postprocess {} [.empty { name := cs!"svg", attrs := [] }, .empty { name := ['g'], attrs := [] },
        .empty { name := cs!"rect", attrs := [] }] none = some out ∧ check [] out = some [] ∧
      write out = cs!"<svg version=\"1.1\" xmlns=\"http://www.w3.org/2000/svg\"><g/><rect/></svg>" :=
  ⟨_, rfl, by decide +kernel, by decide +kernel⟩

/-! ### the root's attribute names -/

/-- attribute names `write_root_svg` may add -/
def rootKeys : List Str :=
  [cs!"version", cs!"xmlns", cs!"id", cs!"style", cs!"width", cs!"height", cs!"viewBox"]

def KeysSub (orig a : Attrs) : Prop := ∀ k ∈ Attrs.keys a, k ∈ Attrs.keys orig ∨ k ∈ rootKeys

theorem keysSub_insert {orig a : Attrs} (h : KeysSub orig a) {k : Str} (hk : k ∈ rootKeys) (v : Str) :
    KeysSub orig (Attrs.insert a k v) := by
  intro x hx
  rcases Attrs.keys_insert_subset a k v x hx with rfl | h'
  · exact Or.inr hk
  · exact h x h'

theorem rootBase_keys (cfg : RootCfg) (orig : Attrs) : KeysSub orig (rootBase cfg orig) := by
  unfold rootBase
  dsimp only
  have s1 : KeysSub orig (if orig.contains cs!"version" then orig else orig.insert cs!"version" cs!"1.1") := by
    split
    · exact fun k hk => Or.inl hk
    · exact keysSub_insert (fun k hk => Or.inl hk) (by decide) _
  generalize (if orig.contains cs!"version" then orig else orig.insert cs!"version" cs!"1.1") = a1 at s1
  have s2 : KeysSub orig (if orig.contains cs!"xmlns" then a1 else a1.insert cs!"xmlns" Doc.svgNs) := by
    split
    · exact s1
    · exact keysSub_insert s1 (by decide) _
  generalize (if orig.contains cs!"xmlns" then a1 else a1.insert cs!"xmlns" Doc.svgNs) = a2 at s2
  have s3 : KeysSub orig (if orig.contains cs!"id" then a2 else
      match cfg.localId with | some i => a2.insert cs!"id" i | none => a2) := by
    split
    · exact s2
    · split
      · exact keysSub_insert s2 (by decide) _
      · exact s2
  generalize (if orig.contains cs!"id" then a2 else
      match cfg.localId with | some i => a2.insert cs!"id" i | none => a2) = a3 at s3
  split
  · exact keysSub_insert s3 (by decide) _
  · exact s3

theorem rootGeom_keys (cfg : RootCfg) (orig : Attrs) (bb : Gen.BoundingBox) (a b : Attrs)
    (ha : KeysSub orig a) (h : rootGeom cfg orig bb a = some b) : KeysSub orig b := by
  unfold rootGeom at h
  dsimp only at h
  obtain ⟨a', h1, h2⟩ := Option.map_eq_some_iff.mp h
  have g1 : KeysSub orig a' := by
    split at h1
    · cases h1; exact keysSub_insert (keysSub_insert ha (by decide) _) (by decide) _
    · split at h1
      · obtain ⟨p, _, hp⟩ := Option.map_eq_some_iff.mp h1
        rw [← hp]; exact keysSub_insert ha (by decide) _
      · cases h1; exact ha
    · split at h1
      · obtain ⟨p, _, hp⟩ := Option.map_eq_some_iff.mp h1
        rw [← hp]; exact keysSub_insert ha (by decide) _
      · cases h1; exact ha
    · cases h1; exact ha
  rw [← h2]
  split
  · exact g1
  · exact keysSub_insert g1 (by decide) _

/-- **the root's attribute names are the author's or one of seven constants** -/
theorem rootAttrs_keys (cfg : RootCfg) (orig a : Attrs) (bb : Option Gen.BoundingBox)
    (h : rootAttrs cfg orig bb = some a) : KeysSub orig a := by
  unfold rootAttrs at h
  split at h
  · cases h; exact rootBase_keys cfg orig
  · exact rootGeom_keys cfg orig _ _ _ (rootBase_keys cfg orig) h

theorem rootKeys_names : ∀ k ∈ rootKeys, isName k = true := by decide +kernel

/-- **`postprocess` keeps the hypotheses of well-formedness**: names stay XML Names, attribute names unique -/
theorem postprocess_preserves (cfg : RootCfg) (evs out : List Ev) (bb : Option Gen.BoundingBox)
    (hp : postprocess cfg evs bb = some out) (hn : NamesOk evs) (hu : AttrsUnique evs) :
    NamesOk out ∧ AttrsUnique out := by
  rcases postprocess_shape cfg evs out bb hp with rfl | ⟨pre, root, emp, remain, a, -, hevs, hname, ha, hout⟩
  · exact ⟨hn, hu⟩
  · have hn' := List.all_eq_true.mp hn
    have hroot_mem : rootEv root emp ∈ evs := by rw [hevs]; simp
    -- what is known about the generated root
    have hrn : root.attrs.all (fun kv => isName kv.1) = true := by
      have := hn' _ hroot_mem
      cases emp
      · have h2 : nameOkEv (.start root) = true := this
        simp only [nameOkEv, Bool.and_eq_true] at h2; exact h2.2
      · have h2 : nameOkEv (.empty root) = true := this
        simp only [nameOkEv, Bool.and_eq_true] at h2; exact h2.2
    have hru : ElemUnique root := by
      have := hu _ hroot_mem
      cases emp
      · exact (this : attrsUniqueEv (.start root))
      · exact (this : attrsUniqueEv (.empty root))
    have hks := rootAttrs_keys cfg root.attrs a bb ha
    have hnd := (Doc.rootAttrs_namespace_version cfg root.attrs a bb hru.1 ha).2.2.2
    have hsub : ∀ x ∈ out, x ∈ evs ∨ x = Ev.start { name := cs!"svg", attrs := a, classes := root.classes } ∨
        x = Ev.end_ cs!"svg" := by
      intro x hx
      have hclose : x ∈ closeEvs emp → x = Ev.end_ cs!"svg" := by
        intro h
        unfold closeEvs at h
        split at h
        · simpa using h
        · cases h
      have hx' : x ∈ pre ∨ x = newRoot root a ∨ x ∈ closeEvs emp ∨ x ∈ remain := by
        rcases hout with ⟨-, hout⟩ | ⟨-, hout⟩ <;>
          (rw [hout] at hx; simp only [List.mem_append, List.mem_cons] at hx; tauto)
      rcases hx' with h | h | h | h
      · exact Or.inl (by rw [hevs]; simp [h])
      · exact Or.inr (Or.inl h)
      · exact Or.inr (Or.inr (hclose h))
      · exact Or.inl (by rw [hevs]; simp [h])
    constructor
    · unfold NamesOk
      rw [List.all_eq_true]
      intro x hx
      rcases hsub x hx with h | rfl | rfl
      · exact hn' x h
      · simp only [nameOkEv, Bool.and_eq_true, List.all_eq_true]
        refine ⟨by decide, fun kv hkv => ?_⟩
        rcases hks kv.1 (List.mem_map.mpr ⟨kv, hkv, rfl⟩) with h | h
        · obtain ⟨kv', hkv', he⟩ := List.mem_map.mp h
          have := (List.all_eq_true.mp hrn) kv' hkv'
          rw [← he]; exact this
        · exact rootKeys_names _ h
      · rfl
    · intro x hx
      rcases hsub x hx with h | rfl | rfl
      · exact hu x h
      · refine ⟨hnd, fun hc hmem => ?_⟩
        rcases hks _ hmem with h | h
        · exact hru.2 hc h
        · revert h; decide
      · trivial

end Svgdx.Xml
