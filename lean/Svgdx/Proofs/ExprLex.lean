/-
  Svgdx.Proofs.ExprLex — the tokenizer reads back a rendered token string: every token followed by a
  non-empty run of blanks/tabs.  Number tokens are rendered by a function `pr` about which only what is
  needed is assumed (`Lexable`): its output is made of ordinary characters and parses back.
  Element-reference tokens are not covered.
-/
import Svgdx.Expr.Spec
namespace Svgdx
namespace Expr
open Str

section
variable {α σ : Type} (o : Ops α σ)

/-- an ordinary character: collected into the atom buffer (outside `#id` mode) -/
def Plain (c : Char) : Prop := (classify false c : CharClass α) = .other

/-- non-empty run of blanks and tabs -/
def IsWs (w : Str) : Prop := w ≠ [] ∧ ∀ c ∈ w, c = ' ' ∨ c = '\t'

/-- how a token is written -/
def renderTok (pr : α → Str) : Token α → Str
  | .number x => pr x
  | .var v => '$' :: v
  | .elref v => v
  | .string s => ['\''] ++ escapeStr s ++ ['\'']
  | .symbol s => s
  | .openParen => ['(']
  | .closeParen => [')']
  | .comma => [',']
  | .add => ['+']
  | .sub => ['-']
  | .mul => ['*']
  | .div => ['/']
  | .mod => ['%']

/-- tokens the round trip covers -/
def Lexable (pr : α → Str) : Token α → Prop
  | .number x => pr x ≠ [] ∧ (∀ c ∈ pr x, Plain (α := α) c) ∧ tokenizeAtom o (pr x) = .ok (.number x)
  | .var v => (∀ c ∈ v, Plain (α := α) c) ∧ tokenizeAtom o ('$' :: v) = (.ok (.var v) : Res (Token α))
  | .symbol s => s ≠ [] ∧ (∀ c ∈ s, Plain (α := α) c) ∧ tokenizeAtom o s = .ok (.symbol s)
  | .elref _ => False
  | _ => True

def render (pr : α → Str) : List (Token α × Str) → Str
  | [] => []
  | (t, w) :: r => renderTok pr t ++ w ++ render pr r

/-- ordinary characters pile up in the buffer -/
theorem tokLoop_plain (s rest : Str) (toks : List (Token α)) (buf : Str)
    (hs : ∀ c ∈ s, Plain (α := α) c) :
    tokLoop o (s ++ rest) toks buf false none false
      = tokLoop o rest toks (s.reverse ++ buf) false none false := by
  induction s generalizing buf with
  | nil => simp
  | cons c s ih =>
    have hc : (classify false c : CharClass α) = .other := hs c (by simp)
    have := ih (c :: buf) (fun d hd => hs d (by simp [hd]))
    simp [tokLoop, hc, this]

/-- blanks after an empty buffer are skipped -/
theorem tokLoop_ws_empty (w rest : Str) (toks : List (Token α))
    (hw : ∀ c ∈ w, c = ' ' ∨ c = '\t') :
    tokLoop o (w ++ rest) toks [] false none false = tokLoop o rest toks [] false none false := by
  induction w with
  | nil => simp
  | cons c w ih =>
    have := ih (fun d hd => hw d (by simp [hd]))
    rcases hw c (by simp) with rfl | rfl <;> simp [tokLoop, classify, flushBuf, this]

/-- a run of blanks flushes the buffered atom -/
theorem tokLoop_ws_flush (w rest : Str) (toks : List (Token α)) (buf : Str) (t : Token α)
    (hw : IsWs w) (hb : buf ≠ []) (ht : tokenizeAtom o buf.reverse = .ok t) :
    tokLoop o (w ++ rest) toks buf false none false
      = tokLoop o rest (t :: toks) [] false none false := by
  obtain ⟨hne, hall⟩ := hw
  cases w with
  | nil => exact absurd rfl hne
  | cons c w =>
    have hrest := tokLoop_ws_empty o w rest (t :: toks) (fun d hd => hall d (by simp [hd]))
    have hf : flushBuf o buf toks = .ok (t :: toks) := by
      cases buf with
      | nil => exact absurd rfl hb
      | cons b bs =>
        simp only [List.reverse_cons] at ht
        simp [flushBuf, ht]
    rcases hall c (by simp) with rfl | rfl <;> simp [tokLoop, classify, hf, hrest]

/-- inside quotes: the escaped text of `s`, then the closing quote -/
theorem tokLoop_quoted (s rest : Str) (toks : List (Token α)) (buf : Str) :
    tokLoop o (escapeStr s ++ '\'' :: rest) toks buf false (some '\'') false
      = tokLoop o rest (.string (buf.reverse ++ s) :: toks) [] false none false := by
  induction s generalizing buf with
  | nil => simp [escapeStr, tokLoop]
  | cons c s ih =>
    by_cases h1 : c = '\\'
    · subst h1
      simpa [escapeStr, tokLoop] using ih ('\\' :: buf)
    · by_cases h2 : c = '\n'
      · subst h2
        simpa [escapeStr, tokLoop] using ih ('\n' :: buf)
      · by_cases h3 : c = '\''
        · subst h3
          simpa [escapeStr, tokLoop] using ih ('\'' :: buf)
        · have he : escapeStr (c :: s) = c :: escapeStr s := by
            simp [escapeStr]
          have := ih (c :: buf)
          simp [he, tokLoop, h1, h3, this]

theorem plain_dollar : Plain (α := α) '$' := by simp [Plain, classify, ELREF_ID_PREFIX]

/-- one rendered token and its blanks are read back as that token -/
theorem tokLoop_token (pr : α → Str) (t : Token α) (w rest : Str) (toks : List (Token α))
    (ht : Lexable o pr t) (hw : IsWs w) :
    tokLoop o (renderTok pr t ++ w ++ rest) toks [] false none false
      = tokLoop o rest (t :: toks) [] false none false := by
  have atom : ∀ (s : Str), s ≠ [] → (∀ c ∈ s, Plain (α := α) c) → tokenizeAtom o s = .ok t →
      tokLoop o (s ++ w ++ rest) toks [] false none false
        = tokLoop o rest (t :: toks) [] false none false := by
    intro s hne hp hat
    rw [List.append_assoc, tokLoop_plain o s (w ++ rest) toks [] hp]
    exact tokLoop_ws_flush o w rest toks (s.reverse ++ []) t hw (by simpa using hne)
      (by simpa using hat)
  have single : ∀ (c : Char), (classify false c : CharClass α) = .tok t →
      tokLoop o ([c] ++ w ++ rest) toks [] false none false
        = tokLoop o rest (t :: toks) [] false none false := by
    intro c hc
    have := tokLoop_ws_empty o w rest (t :: toks) hw.2
    simp [tokLoop, hc, flushBuf, this]
  cases t with
  | number x => exact atom (pr x) ht.1 ht.2.1 ht.2.2
  | var v =>
    exact atom ('$' :: v) (by simp)
      (by intro c hc; rcases List.mem_cons.mp hc with rfl | h
          · exact plain_dollar
          · exact ht.1 c h) ht.2
  | symbol s => exact atom s ht.1 ht.2.1 ht.2.2
  | elref v => exact absurd ht (by simp [Lexable])
  | string s =>
    have h1 := tokLoop_quoted o s (w ++ rest) toks []
    have h2 := tokLoop_ws_empty o w rest (.string s :: toks) hw.2
    simp [renderTok, tokLoop, classify] at h1 ⊢
    rw [h1, h2]
  | openParen => exact single '(' (by simp [classify])
  | closeParen => exact single ')' (by simp [classify])
  | comma => exact single ',' (by simp [classify])
  | add => exact single '+' (by simp [classify])
  | sub => exact single '-' (by simp [classify])
  | mul => exact single '*' (by simp [classify])
  | div => exact single '/' (by simp [classify])
  | mod => exact single '%' (by simp [classify])

theorem tokLoop_render (pr : α → Str) (l : List (Token α × Str)) (toks : List (Token α))
    (h : ∀ p ∈ l, Lexable o pr p.1 ∧ IsWs p.2) :
    tokLoop o (render pr l) toks [] false none false = .ok (toks.reverse ++ l.map (·.1)) := by
  induction l generalizing toks with
  | nil => simp [render, tokLoop]
  | cons p r ih =>
    obtain ⟨t, w⟩ := p
    have hp := h (t, w) (by simp)
    have := ih (t :: toks) (fun q hq => h q (by simp [hq]))
    simp only [render]
    rw [tokLoop_token o pr t w (render pr r) toks hp.1 hp.2, this]
    simp

/-- **lexer round trip**: a rendered token string tokenizes to the tokens it was rendered from -/
theorem tokenize_render' (pr : α → Str) (l : List (Token α × Str))
    (h : ∀ p ∈ l, Lexable o pr p.1 ∧ IsWs p.2) :
    tokenize o (render pr l) = .ok (l.map (·.1)) := by
  simpa [tokenize] using tokLoop_render o pr l [] h

end
end Expr
end Svgdx
