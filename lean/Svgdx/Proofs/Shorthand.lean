/-
  Svgdx.Proofs.Shorthand — the second and third clause of C11 on the hand model of element.rs /
  position.rs (`Svgdx.Geom.Resolve`):
   (a) `split_compound_attr` on one and on two values, blank and / or comma separated;
   (b) a compound attribute is its longhand pair: `expand_compound_size` / `expand_compound_pos` as
       functions on the attribute MAP, and the equality of shorthand and longhand spelling;
   (c) after `set_position_attrs` no name of the removal list is left and the native geometry
       attributes of the shape are there;
   (d) the tail `expand ; Position::from ; set_position_attrs` gives the same map for both spellings.
-/
import Svgdx.Proofs.PassThrough
namespace Svgdx
open Str Attrs Num

namespace Shorthand

/-! ## (a) `split_compound_attr` -/

/-- a value: not empty, no white space, no comma -/
def isWord (a : Str) : Bool := !a.isEmpty && a.all (fun c => !isWs c && c != ',')

/-- does not start an element reference -/
def plainHead (a : Str) : Bool :=
  match a with
  | c :: _ => !(c == '#' || c == '^')
  | [] => true

theorem go_word_end (f : Char → Bool) (w cur : Str) (hw : ∀ c ∈ w, f c = false) :
    splitBy.go f w cur = [cur.reverse ++ w] := by
  induction w generalizing cur with
  | nil => simp [splitBy.go]
  | cons c cs ih =>
    have hc : f c = false := hw c (by simp)
    simp only [splitBy.go, hc, Bool.false_eq_true, if_false]
    rw [ih _ (fun x hx => hw x (by simp [hx]))]
    simp

theorem go_word_sep (f : Char → Bool) (w cur rest : Str) (s : Char) (hw : ∀ c ∈ w, f c = false)
    (hs : f s = true) :
    splitBy.go f (w ++ s :: rest) cur = (cur.reverse ++ w) :: splitBy.go f rest [] := by
  induction w generalizing cur with
  | nil => simp [splitBy.go, hs]
  | cons c cs ih =>
    have hc : f c = false := hw c (by simp)
    simp only [List.cons_append, splitBy.go, hc, Bool.false_eq_true, if_false]
    rw [ih _ (fun x hx => hw x (by simp [hx]))]
    simp

theorem splitBy_word (f : Char → Bool) (w : Str) (hw : ∀ c ∈ w, f c = false) : splitBy f w = [w] := by
  simpa [splitBy] using go_word_end f w [] hw

theorem splitBy_word_sep (f : Char → Bool) (w rest : Str) (s : Char) (hw : ∀ c ∈ w, f c = false)
    (hs : f s = true) : splitBy f (w ++ s :: rest) = w :: splitBy f rest := by
  simpa [splitBy] using go_word_sep f w [] rest s hw hs

theorem isWord_ne {a : Str} (h : isWord a = true) : a ≠ [] := by
  intro e; subst e; simp [isWord] at h

theorem isWord_ws {a : Str} (h : isWord a = true) : ∀ c ∈ a, isWs c = false := by
  intro c hc
  simp only [isWord, Bool.and_eq_true, List.all_eq_true] at h
  have := h.2 c hc
  simp only [Bool.and_eq_true, Bool.not_eq_true'] at this
  exact this.1

theorem isWord_comma {a : Str} (h : isWord a = true) : ∀ c ∈ a, (c == ',') = false := by
  intro c hc
  simp only [isWord, Bool.and_eq_true, List.all_eq_true] at h
  have := h.2 c hc
  simp only [Bool.and_eq_true, bne_iff_ne, ne_eq] at this
  simpa using this.2

theorem isWs_space : isWs ' ' = true := by decide
theorem isWs_comma : isWs ',' = false := by decide

/-- one value -/
theorem attrSplit_one {a : Str} (ha : isWord a = true) : attrSplit a = [a] := by
  have hne := isWord_ne ha
  simp [attrSplit, splitWhitespace, splitBy_word _ a (isWord_ws ha), splitBy_word _ a (isWord_comma ha), hne]

/-- `a b` -/
theorem attrSplit_space {a b : Str} (ha : isWord a = true) (hb : isWord b = true) :
    attrSplit (a ++ ' ' :: b) = [a, b] := by
  have hna := isWord_ne ha
  have hnb := isWord_ne hb
  simp [attrSplit, splitWhitespace, splitBy_word_sep _ a b ' ' (isWord_ws ha) isWs_space,
    splitBy_word _ b (isWord_ws hb), splitBy_word _ a (isWord_comma ha),
    splitBy_word _ b (isWord_comma hb), hna, hnb]

/-- `a,b` -/
theorem attrSplit_comma {a b : Str} (ha : isWord a = true) (hb : isWord b = true) :
    attrSplit (a ++ ',' :: b) = [a, b] := by
  have hna := isWord_ne ha
  have hnb := isWord_ne hb
  have hw : ∀ c ∈ a ++ ',' :: b, isWs c = false := by
    intro c hc
    rcases List.mem_append.mp hc with h | h
    · exact isWord_ws ha c h
    · rcases List.mem_cons.mp h with h | h
      · subst h; exact isWs_comma
      · exact isWord_ws hb c h
  simp [attrSplit, splitWhitespace, splitBy_word _ _ hw,
    splitBy_word_sep (· == ',') a b ',' (isWord_comma ha) (by decide),
    splitBy_word _ b (isWord_comma hb), hna, hnb]

/-- `a, b` -/
theorem attrSplit_comma_space {a b : Str} (ha : isWord a = true) (hb : isWord b = true) :
    attrSplit (a ++ ',' :: ' ' :: b) = [a, b] := by
  have hna := isWord_ne ha
  have hnb := isWord_ne hb
  have hw : ∀ c ∈ a ++ [','], isWs c = false := by
    intro c hc
    rcases List.mem_append.mp hc with h | h
    · exact isWord_ws ha c h
    · simp only [List.mem_singleton] at h; subst h; exact isWs_comma
  have e1 : a ++ ',' :: ' ' :: b = (a ++ [',']) ++ ' ' :: b := by simp
  have e2 : splitBy (· == ',') (a ++ [',']) = [a, []] := by
    rw [splitBy_word_sep (· == ',') a [] ',' (isWord_comma ha) (by decide)]
    simp [splitBy, splitBy.go]
  have e3 : splitBy isWs (a ++ ',' :: ' ' :: b) = [a ++ [','], b] := by
    rw [e1, splitBy_word_sep _ _ b ' ' hw isWs_space, splitBy_word _ b (isWord_ws hb)]
  simp [attrSplit, splitWhitespace, e3, e2, splitBy_word _ b (isWord_comma hb), hna, hnb]

/-- `a ,b` -/
theorem attrSplit_space_comma {a b : Str} (ha : isWord a = true) (hb : isWord b = true) :
    attrSplit (a ++ ' ' :: ',' :: b) = [a, b] := by
  have hna := isWord_ne ha
  have hnb := isWord_ne hb
  have hw : ∀ c ∈ ',' :: b, isWs c = false := by
    intro c hc
    rcases List.mem_cons.mp hc with h | h
    · subst h; exact isWs_comma
    · exact isWord_ws hb c h
  have e2 : splitBy (· == ',') (',' :: b) = [[], b] := by
    have := splitBy_word_sep (· == ',') [] b ',' (by simp) (by decide)
    simpa [splitBy_word _ b (isWord_comma hb)] using this
  simp [attrSplit, splitWhitespace, splitBy_word_sep _ a (',' :: b) ' ' (isWord_ws ha) isWs_space,
    splitBy_word _ _ hw, e2, splitBy_word _ a (isWord_comma ha), hna, hnb]

theorem split_of_attrSplit_two {v a b : Str} (hv : plainHead v = true) (h : attrSplit v = [a, b]) :
    Elem.splitCompoundAttr v = (a, b) := by
  unfold Elem.splitCompoundAttr
  cases v with
  | nil => simp [attrSplit, splitWhitespace, splitBy, splitBy.go] at h
  | cons c cs =>
    simp only [plainHead, Bool.not_eq_true'] at hv
    simp [hv, Elem.cyclePair, h]

theorem plainHead_append {a : Str} (r : Str) (ha : isWord a = true) (hp : plainHead a = true) :
    plainHead (a ++ r) = true := by
  cases a with
  | nil => simp [isWord] at ha
  | cons c cs => simpa [plainHead] using hp

theorem breakOn_word (f : Char → Bool) (w : Str) (hw : ∀ c ∈ w, f c = false) : breakOn f w = (w, none) := by
  induction w with
  | nil => rfl
  | cons c cs ih =>
    have hc : f c = false := hw c (by simp)
    simp [breakOn, hc, ih (fun x hx => hw x (by simp [hx]))]

/-- a single value (also a bare element reference) is repeated -/
theorem split_one {a : Str} (ha : isWord a = true) : Elem.splitCompoundAttr a = (a, a) := by
  have hws := isWord_ws ha
  have hsp := attrSplit_one ha
  unfold Elem.splitCompoundAttr
  split
  · split
    · rw [breakOn_word _ _ hws]
    · simp [Elem.cyclePair, hsp]
  · rfl

/-! ## (b) the compound attributes as functions on the attribute map -/

abbrev AMap := Str → Option Str

/-- drop the keys of `drop`, then `insert_first k1 a`, `insert_first k2 b` -/
def stageMap (m : AMap) (drop : List Str) (k1 k2 a b : Str) : AMap := fun q =>
  if q ∈ drop then none
  else if q = k1 then some ((m k1).getD a)
  else if q = k2 then some ((m k2).getD b)
  else m q

/-- one `if let Some(v) = pop(k) { insert_first(k1, ..); insert_first(k2, ..) }` -/
def pairMap (m : AMap) (k k1 k2 : Str) : AMap := fun q =>
  match m k with
  | none => m q
  | some v => stageMap m [k] k1 k2 (Elem.splitCompoundAttr v).1 (Elem.splitCompoundAttr v).2 q

/-- the `xy` / `xy-loc` block of `expand_compound_pos` -/
def xyMap (m : AMap) : AMap := fun q =>
  match m cs!"xy" with
  | none => m q
  | some v =>
    stageMap m [cs!"xy", cs!"xy-loc"] (Elem.xyLoc (m cs!"xy-loc")).1 (Elem.xyLoc (m cs!"xy-loc")).2
      (Elem.splitCompoundAttr v).1 (Elem.splitCompoundAttr v).2 q

def sizeMap (m : AMap) : AMap :=
  pairMap (pairMap (pairMap m cs!"wh" cs!"width" cs!"height") cs!"rxy" cs!"rx" cs!"ry") cs!"dwh" cs!"dw" cs!"dh"

/-- `pop(k)` with the value thrown away -/
def dropMap (k : Str) (m : AMap) : AMap := fun q => if q = k then none else m q

def posMap (m : AMap) : AMap :=
  dropMap cs!"xy-loc"
    (pairMap (pairMap (pairMap (pairMap (xyMap m) cs!"cxy" cs!"cx" cs!"cy") cs!"xy1" cs!"x1" cs!"y1")
      cs!"xy2" cs!"x2" cs!"y2") cs!"dxy" cs!"dx" cs!"dy")

theorem pop_snd (a : Attrs) (k : Str) : (pop a k).2 = get a k := by
  induction a with
  | nil => rfl
  | cons x xs ih =>
    obtain ⟨k', v'⟩ := x
    simp only [pop, Attrs.get, lookupTable]
    split
    · rfl
    · simpa [Attrs.get] using ih

theorem popAttr_eq (e : Elem) (k : Str) :
    e.popAttr k = ({ e with attrs := e.attrs.remove k }, e.attrs.get k) := by
  unfold Elem.popAttr Attrs.remove
  rw [← pop_snd]

theorem get_remove_self {a : Attrs} (h : NodupKeys a) (k : Str) : get (remove a k) k = none := by
  have := contains_remove_self h k
  unfold contains at this
  cases hg : get (remove a k) k with
  | none => rfl
  | some v => simp [hg] at this

theorem get_removeAll_mem {a : Attrs} (h : NodupKeys a) (ks : List Str) (k : Str) (hk : k ∈ ks) :
    get (removeAll a ks) k = none := by
  have := contains_removeAll h ks k hk
  unfold contains at this
  cases hg : get (removeAll a ks) k with
  | none => rfl
  | some v => simp [hg] at this

theorem get_insertFirst_self {a : Attrs} (h : NodupKeys a) (k v : Str) :
    get (insertFirst a k v) k = some ((get a k).getD v) := by
  unfold insertFirst contains
  cases hg : get a k with
  | none => simpa using get_insert_self h k v
  | some w => simp [hg]

/-- the same on attribute lists -/
def stageAttrs (A : Attrs) (drop : List Str) (k1 k2 a b : Str) : Attrs :=
  ((removeAll A drop).insertFirst k1 a).insertFirst k2 b

def withAttrs (e : Elem) (a : Attrs) : Elem := { e with attrs := a }

theorem get_stage {A : Attrs} (h : NodupKeys A) (drop : List Str) (k1 k2 a b : Str)
    (h1 : k1 ∉ drop) (h2 : k2 ∉ drop) (h12 : k1 ≠ k2) (q : Str) :
    get (stageAttrs A drop k1 k2 a b) q = stageMap (get A) drop k1 k2 a b q := by
  unfold stageAttrs
  have n0 := removeAll_nodup h drop
  have n1 := PassThrough.insertFirst_nodup n0 k1 a
  unfold stageMap
  by_cases hq : q ∈ drop
  · have q1 : q ≠ k1 := fun e => h1 (e ▸ hq)
    have q2 : q ≠ k2 := fun e => h2 (e ▸ hq)
    rw [if_pos hq, PassThrough.get_insertFirst_other n1 k2 b q q2,
      PassThrough.get_insertFirst_other n0 k1 a q q1, get_removeAll_mem h drop q hq]
  · rw [if_neg hq]
    by_cases q1 : q = k1
    · subst q1
      rw [if_pos rfl, PassThrough.get_insertFirst_other n1 k2 b q h12, get_insertFirst_self n0,
        PassThrough.get_removeAll_other A drop q h1]
    · rw [if_neg q1]
      by_cases q2 : q = k2
      · subst q2
        rw [if_pos rfl, get_insertFirst_self n1, PassThrough.get_insertFirst_other n0 k1 a q q1,
          PassThrough.get_removeAll_other A drop q h2]
      · rw [if_neg q2, PassThrough.get_insertFirst_other n1 k2 b q q2,
          PassThrough.get_insertFirst_other n0 k1 a q q1, PassThrough.get_removeAll_other A drop q hq]

theorem expandPair_eq (e : Elem) (k k1 k2 : Str) :
    e.expandPair k k1 k2 = (match e.attrs.get k with
      | some v => withAttrs e (stageAttrs e.attrs [k] k1 k2 (Elem.splitCompoundAttr v).1
          (Elem.splitCompoundAttr v).2)
      | none => e) := by
  unfold Elem.expandPair
  rw [popAttr_eq]
  cases e.attrs.get k <;> rfl

/-- the `xy` block of `expand_compound_pos`, by itself -/
def xyStage (e : Elem) : Elem :=
  match e.popAttr cs!"xy" with
  | (e', some v) =>
    let (x, y) := Elem.splitCompoundAttr v
    let (e'', loc) := e'.popAttr cs!"xy-loc"
    let (xa, ya) := Elem.xyLoc loc
    { e'' with attrs := (e''.attrs.insertFirst xa x).insertFirst ya y }
  | (_, none) => e

theorem expandCompoundPos_eq (e : Elem) :
    e.expandCompoundPos = ((((((xyStage e).expandPair cs!"cxy" cs!"cx" cs!"cy").expandPair cs!"xy1" cs!"x1"
      cs!"y1").expandPair cs!"xy2" cs!"x2" cs!"y2").expandPair cs!"dxy" cs!"dx" cs!"dy").popAttr cs!"xy-loc").1 :=
  rfl

theorem popAttr_getAttr {e : Elem} (h : NodupKeys e.attrs) (k : Str) :
    (e.popAttr k).1.getAttr = dropMap k e.getAttr := by
  funext q
  rw [popAttr_eq]
  unfold dropMap Elem.getAttr
  by_cases hq : q = k
  · subst hq; simp only [if_true]; exact get_remove_self h q
  · simp only [hq, if_false]; exact PassThrough.get_remove_other _ _ _ hq

theorem xyStage_eq (e : Elem) :
    xyStage e = (match e.attrs.get cs!"xy" with
      | some v => withAttrs e (stageAttrs e.attrs [cs!"xy", cs!"xy-loc"]
          (Elem.xyLoc (e.attrs.get cs!"xy-loc")).1 (Elem.xyLoc (e.attrs.get cs!"xy-loc")).2
          (Elem.splitCompoundAttr v).1 (Elem.splitCompoundAttr v).2)
      | none => e) := by
  unfold xyStage
  rw [popAttr_eq]
  cases e.attrs.get cs!"xy" with
  | none => rfl
  | some v =>
    simp only []
    rw [popAttr_eq]
    have : get (remove e.attrs cs!"xy") cs!"xy-loc" = get e.attrs cs!"xy-loc" :=
      PassThrough.get_remove_other _ _ _ (by decide)
    simp only [this]
    rfl

/-- the general block: `if let Some(v) = pop(k) { pop(drop..); insert_first(k1, ..); insert_first(k2, ..) }` -/
def blockMap (k : Str) (drop : List Str) (k1 k2 : Str) (m : AMap) : AMap := fun q =>
  match m k with
  | none => m q
  | some v => stageMap m drop k1 k2 (Elem.splitCompoundAttr v).1 (Elem.splitCompoundAttr v).2 q

theorem pairMap_eq (m : AMap) (k k1 k2 : Str) : pairMap m k k1 k2 = blockMap k [k] k1 k2 m := rfl

theorem xyMap_eq (m : AMap) :
    xyMap m = blockMap cs!"xy" [cs!"xy", cs!"xy-loc"] (Elem.xyLoc (m cs!"xy-loc")).1
      (Elem.xyLoc (m cs!"xy-loc")).2 m := rfl

/-- the nine possible targets of `xy` -/
def xyTargets : List (Str × Str) :=
  [(['x'], ['y']), (cs!"cx", cs!"y1"), (cs!"x2", cs!"y1"), (cs!"x2", cs!"cy"), (cs!"x2", cs!"y2"),
   (cs!"cx", cs!"y2"), (cs!"x1", cs!"y2"), (cs!"x1", cs!"cy"), (cs!"cx", cs!"cy")]

theorem xyLoc_cases (loc : Option Str) : Elem.xyLoc loc ∈ xyTargets := by
  unfold Elem.xyLoc
  split
  · split
    · rename_i l p hp
      simp only [Gen.Element.xyLocTable, List.map, lookupTable] at hp
      repeat' split at hp
      all_goals (cases hp <;> decide)
    · decide
  · decide

def posLonghand : List Str := [['x'], ['y'], cs!"cx", cs!"cy", cs!"x1", cs!"y1", cs!"x2", cs!"y2"]

theorem xyTargets_facts : ∀ p ∈ xyTargets, p.1 ≠ p.2 ∧ p.1 ∈ posLonghand ∧ p.2 ∈ posLonghand := by decide

theorem xyLoc_ne (loc : Option Str) : (Elem.xyLoc loc).1 ≠ (Elem.xyLoc loc).2 :=
  (xyTargets_facts _ (xyLoc_cases loc)).1
theorem xyLoc_fst_mem (loc : Option Str) : (Elem.xyLoc loc).1 ∈ posLonghand :=
  (xyTargets_facts _ (xyLoc_cases loc)).2.1
theorem xyLoc_snd_mem (loc : Option Str) : (Elem.xyLoc loc).2 ∈ posLonghand :=
  (xyTargets_facts _ (xyLoc_cases loc)).2.2

theorem posLonghand_not_xy : ∀ k ∈ posLonghand, k ∉ [cs!"xy", cs!"xy-loc"] := by decide

/-! ### the model functions ARE these maps -/

theorem expandPair_getAttr {e : Elem} (h : NodupKeys e.attrs) {k k1 k2 : Str} (h1 : k1 ≠ k) (h2 : k2 ≠ k)
    (h12 : k1 ≠ k2) : (e.expandPair k k1 k2).getAttr = pairMap e.getAttr k k1 k2 := by
  funext q
  rw [expandPair_eq]
  unfold pairMap Elem.getAttr
  cases hg : e.attrs.get k with
  | none => rfl
  | some v =>
    simp only [withAttrs]
    exact get_stage h [k] k1 k2 _ _ (by simpa using h1) (by simpa using h2) h12 q

theorem expandPair_nodup {e : Elem} (h : NodupKeys e.attrs) (k k1 k2 : Str) :
    NodupKeys (e.expandPair k k1 k2).attrs :=
  (PassThrough.expandPair_frame (K := [k, k1, k2]) (PassThrough.Frame.refl h) (by simp) (by simp)
    (by simp)).nodup

theorem expandPair_name (e : Elem) (k k1 k2 : Str) : (e.expandPair k k1 k2).name = e.name := by
  rw [expandPair_eq]; cases e.attrs.get k <;> rfl

theorem xyStage_getAttr {e : Elem} (h : NodupKeys e.attrs) : (xyStage e).getAttr = xyMap e.getAttr := by
  funext q
  rw [xyStage_eq]
  unfold xyMap Elem.getAttr
  cases hg : e.attrs.get cs!"xy" with
  | none => rfl
  | some v =>
    simp only [withAttrs]
    exact get_stage h _ _ _ _ _ (posLonghand_not_xy _ (xyLoc_fst_mem _)) (posLonghand_not_xy _ (xyLoc_snd_mem _))
      (xyLoc_ne _) q

theorem xyStage_nodup {e : Elem} (h : NodupKeys e.attrs) : NodupKeys (xyStage e).attrs := by
  rw [xyStage_eq]
  cases e.attrs.get cs!"xy" with
  | none => exact h
  | some v =>
    exact PassThrough.insertFirst_nodup (PassThrough.insertFirst_nodup (removeAll_nodup h _) _ _) _ _

theorem xyStage_name (e : Elem) : (xyStage e).name = e.name := by
  rw [xyStage_eq]; cases e.attrs.get cs!"xy" <;> rfl

/-- `expand_compound_size` as a function on the attribute map -/
theorem expandCompoundSize_getAttr {e : Elem} (h : NodupKeys e.attrs) :
    e.expandCompoundSize.getAttr = sizeMap e.getAttr := by
  unfold Elem.expandCompoundSize sizeMap
  have n1 := expandPair_nodup h cs!"wh" cs!"width" cs!"height"
  have n2 := expandPair_nodup n1 cs!"rxy" cs!"rx" cs!"ry"
  rw [expandPair_getAttr n2 (by decide) (by decide) (by decide),
    expandPair_getAttr n1 (by decide) (by decide) (by decide),
    expandPair_getAttr h (by decide) (by decide) (by decide)]

theorem expandCompoundSize_nodup {e : Elem} (h : NodupKeys e.attrs) : NodupKeys e.expandCompoundSize.attrs :=
  (PassThrough.expandCompoundSize_frame (K := PassThrough.compoundSizeKeys) (fun _ hk => hk)
    (PassThrough.Frame.refl h)).nodup

theorem expandCompoundSize_name {e : Elem} (h : NodupKeys e.attrs) : e.expandCompoundSize.name = e.name :=
  (PassThrough.expandCompoundSize_frame (K := PassThrough.compoundSizeKeys) (fun _ hk => hk)
    (PassThrough.Frame.refl h)).name

/-- `expand_compound_pos` as a function on the attribute map -/
theorem expandCompoundPos_getAttr {e : Elem} (h : NodupKeys e.attrs) :
    e.expandCompoundPos.getAttr = posMap e.getAttr := by
  rw [expandCompoundPos_eq]
  unfold posMap
  have n0 := xyStage_nodup h
  have n1 := expandPair_nodup n0 cs!"cxy" cs!"cx" cs!"cy"
  have n2 := expandPair_nodup n1 cs!"xy1" cs!"x1" cs!"y1"
  have n3 := expandPair_nodup n2 cs!"xy2" cs!"x2" cs!"y2"
  have n4 := expandPair_nodup n3 cs!"dxy" cs!"dx" cs!"dy"
  rw [popAttr_getAttr n4, expandPair_getAttr n3 (by decide) (by decide) (by decide),
    expandPair_getAttr n2 (by decide) (by decide) (by decide),
    expandPair_getAttr n1 (by decide) (by decide) (by decide),
    expandPair_getAttr n0 (by decide) (by decide) (by decide), xyStage_getAttr h]

theorem expandCompoundPos_nodup {e : Elem} (h : NodupKeys e.attrs) : NodupKeys e.expandCompoundPos.attrs :=
  (PassThrough.expandCompoundPos_frame (K := PassThrough.compoundPosKeys) (fun _ hk => hk)
    (PassThrough.Frame.refl h)).nodup

theorem expandCompoundPos_name {e : Elem} (h : NodupKeys e.attrs) : e.expandCompoundPos.name = e.name :=
  (PassThrough.expandCompoundPos_frame (K := PassThrough.compoundPosKeys) (fun _ hk => hk)
    (PassThrough.Frame.refl h)).name

/-! ### shorthand = longhand on maps -/

/-- `F` reads and writes the keys in `T` only -/
structure Footprint (F : AMap → AMap) (T : List Str) : Prop where
  frame : ∀ m q, q ∉ T → F m q = m q
  loc : ∀ m m', (∀ t ∈ T, m t = m' t) → ∀ t ∈ T, F m t = F m' t

theorem blockMap_footprint (k : Str) (drop : List Str) (k1 k2 : Str) (hk : k ∈ drop) :
    Footprint (blockMap k drop k1 k2) (drop ++ [k1, k2]) := by
  constructor
  · intro m q hq
    simp only [List.mem_append, List.mem_cons, List.not_mem_nil, or_false, not_or] at hq
    unfold blockMap
    cases m k with
    | none => rfl
    | some v => simp [stageMap, hq.1, hq.2.1, hq.2.2]
  · intro m m' hm t _
    have e0 : m k = m' k := hm k (by simp [hk])
    have e1 : m k1 = m' k1 := hm k1 (by simp)
    have e2 : m k2 = m' k2 := hm k2 (by simp)
    unfold blockMap stageMap
    rw [e0, e1, e2]
    cases m' k with
    | none => exact hm t ‹_›
    | some v => simp only []; rw [hm t ‹_›]

theorem pairMap_footprint (k k1 k2 : Str) : Footprint (fun m => pairMap m k k1 k2) [k, k1, k2] :=
  blockMap_footprint k [k] k1 k2 (by simp)

/-- `mL` carries the longhand pair `k1 = a`, `k2 = b` where `mS` carries the compound `k = v`; neither
    carries the other spelling; otherwise they are the same map -/
structure Spelled (k k1 k2 v a b : Str) (mS mL : AMap) : Prop where
  sp : Elem.splitCompoundAttr v = (a, b)
  short : mS k = some v
  s1 : mS k1 = none
  s2 : mS k2 = none
  l0 : mL k = none
  l1 : mL k1 = some a
  l2 : mL k2 = some b
  rest : ∀ q, q ≠ k → q ≠ k1 → q ≠ k2 → mS q = mL q

namespace Spelled
variable {k k1 k2 v a b : Str} {mS mL : AMap}

/-- a block for other keys keeps the relation -/
theorem through (h : Spelled k k1 k2 v a b mS mL) {F : AMap → AMap} {T : List Str} (fp : Footprint F T)
    (hk : k ∉ T) (hk1 : k1 ∉ T) (hk2 : k2 ∉ T) : Spelled k k1 k2 v a b (F mS) (F mL) := by
  refine ⟨h.sp, ?_, ?_, ?_, ?_, ?_, ?_, ?_⟩
  · rw [fp.frame _ _ hk]; exact h.short
  · rw [fp.frame _ _ hk1]; exact h.s1
  · rw [fp.frame _ _ hk2]; exact h.s2
  · rw [fp.frame _ _ hk]; exact h.l0
  · rw [fp.frame _ _ hk1]; exact h.l1
  · rw [fp.frame _ _ hk2]; exact h.l2
  · intro q q0 q1 q2
    by_cases hq : q ∈ T
    · refine fp.loc mS mL (fun t ht => h.rest t ?_ ?_ ?_) q hq
      · exact fun e => hk (e ▸ ht)
      · exact fun e => hk1 (e ▸ ht)
      · exact fun e => hk2 (e ▸ ht)
    · rw [fp.frame _ _ hq, fp.frame _ _ hq]; exact h.rest q q0 q1 q2

/-- its own block makes the two maps equal -/
theorem own (h : Spelled k k1 k2 v a b mS mL) (h1 : k1 ≠ k) (h2 : k2 ≠ k) (h12 : k1 ≠ k2) :
    pairMap mS k k1 k2 = mL ∧ pairMap mL k k1 k2 = mL := by
  constructor
  · funext q
    unfold pairMap stageMap
    rw [h.short]
    simp only [h.sp, h.s1, h.s2, List.mem_singleton, Option.getD_none]
    by_cases q0 : q = k
    · subst q0; simp [h.l0]
    · by_cases q1 : q = k1
      · subst q1; simp [q0, h.l1]
      · by_cases q2 : q = k2
        · subst q2; simp [q0, q1, h.l2]
        · simp [q0, q1, q2, h.rest q q0 q1 q2]
  · funext q
    unfold pairMap
    rw [h.l0]

/-- the `xy` block keeps the relation unless it writes to `k1` / `k2` itself -/
theorem through_xy (h : Spelled k k1 k2 v a b mS mL)
    (hk : k ∉ [cs!"xy", cs!"xy-loc"]) (hk1 : k1 ∉ [cs!"xy", cs!"xy-loc"]) (hk2 : k2 ∉ [cs!"xy", cs!"xy-loc"])
    (hxy : mS cs!"xy" = none ∨ ((Elem.xyLoc (mS cs!"xy-loc")).1 ∉ [k, k1, k2] ∧
      (Elem.xyLoc (mS cs!"xy-loc")).2 ∉ [k, k1, k2])) :
    Spelled k k1 k2 v a b (xyMap mS) (xyMap mL) := by
  have ne : ∀ {x : Str} {y z : Str}, x ∉ [y, z] → x ≠ y ∧ x ≠ z := by
    intro x y z hx; simpa using hx
  have exy : mS cs!"xy" = mL cs!"xy" := h.rest _ (fun e => (ne hk).1 e.symm) (fun e => (ne hk1).1 e.symm)
    (fun e => (ne hk2).1 e.symm)
  have eloc : mS cs!"xy-loc" = mL cs!"xy-loc" := h.rest _ (fun e => (ne hk).2 e.symm)
    (fun e => (ne hk1).2 e.symm) (fun e => (ne hk2).2 e.symm)
  rcases hxy with hn | ⟨ha, hb⟩
  · have eS : xyMap mS = mS := by funext q; simp [xyMap, hn]
    have eL : xyMap mL = mL := by funext q; simp [xyMap, ← exy, hn]
    rw [eS, eL]; exact h
  · rw [xyMap_eq, xyMap_eq, ← eloc]
    simp only [List.mem_cons, List.not_mem_nil, or_false, not_or] at ha hb
    refine h.through (blockMap_footprint _ _ _ _ (by simp)) ?_ ?_ ?_
    · simp only [List.mem_append, List.mem_cons, List.not_mem_nil, or_false, not_or]
      exact ⟨by simpa using hk, fun e => ha.1 e.symm, fun e => hb.1 e.symm⟩
    · simp only [List.mem_append, List.mem_cons, List.not_mem_nil, or_false, not_or]
      exact ⟨by simpa using hk1, fun e => ha.2.1 e.symm, fun e => hb.2.1 e.symm⟩
    · simp only [List.mem_append, List.mem_cons, List.not_mem_nil, or_false, not_or]
      exact ⟨by simpa using hk2, fun e => ha.2.2 e.symm, fun e => hb.2.2 e.symm⟩

end Spelled

/-- the same for `xy` with the `xy-loc` the short spelling carries (or none) -/
structure SpelledXY (loc : Option Str) (v a b : Str) (mS mL : AMap) : Prop where
  sp : Elem.splitCompoundAttr v = (a, b)
  short : mS cs!"xy" = some v
  sloc : mS cs!"xy-loc" = loc
  s1 : mS (Elem.xyLoc loc).1 = none
  s2 : mS (Elem.xyLoc loc).2 = none
  l0 : mL cs!"xy" = none
  lloc : mL cs!"xy-loc" = none
  l1 : mL (Elem.xyLoc loc).1 = some a
  l2 : mL (Elem.xyLoc loc).2 = some b
  rest : ∀ q, q ≠ cs!"xy" → q ≠ cs!"xy-loc" → q ≠ (Elem.xyLoc loc).1 → q ≠ (Elem.xyLoc loc).2 → mS q = mL q

theorem SpelledXY.own {loc : Option Str} {v a b : Str} {mS mL : AMap} (h : SpelledXY loc v a b mS mL) :
    xyMap mS = mL ∧ xyMap mL = mL := by
  have na := posLonghand_not_xy _ (xyLoc_fst_mem loc)
  have nb := posLonghand_not_xy _ (xyLoc_snd_mem loc)
  simp only [List.mem_cons, List.not_mem_nil, or_false, not_or] at na nb
  constructor
  · funext q
    unfold xyMap stageMap
    rw [h.short]
    simp only [h.sp, h.sloc, h.s1, h.s2, List.mem_cons, List.not_mem_nil, or_false, Option.getD_none]
    by_cases q0 : q = cs!"xy"
    · subst q0; simp [h.l0]
    · by_cases ql : q = cs!"xy-loc"
      · subst ql; simp [h.lloc]
      · by_cases q1 : q = (Elem.xyLoc loc).1
        · rw [q1]; simp [na.1, na.2, h.l1]
        · by_cases q2 : q = (Elem.xyLoc loc).2
          · rw [q2]; simp [nb.1, nb.2, h.l2, (xyLoc_ne loc).symm]
          · simp [q0, ql, q1, q2, h.rest q q0 ql q1 q2]
  · funext q
    unfold xyMap
    rw [h.l0]

/-! the whole of `expand_compound_size` / `expand_compound_pos` -/

theorem size_wh {v a b : Str} {mS mL : AMap} (h : Spelled cs!"wh" cs!"width" cs!"height" v a b mS mL) :
    sizeMap mS = sizeMap mL := by
  have := h.own (by decide) (by decide) (by decide)
  unfold sizeMap
  rw [this.1, this.2]

/-- `rxy`: on every element -/
theorem size_rxy {v a b : Str} {mS mL : AMap} (h : Spelled cs!"rxy" cs!"rx" cs!"ry" v a b mS mL) :
    sizeMap mS = sizeMap mL := by
  have h1 := h.through (pairMap_footprint cs!"wh" cs!"width" cs!"height") (by decide) (by decide) (by decide)
  have := h1.own (by decide) (by decide) (by decide)
  unfold sizeMap
  rw [this.1, this.2]

theorem size_dwh {v a b : Str} {mS mL : AMap} (h : Spelled cs!"dwh" cs!"dw" cs!"dh" v a b mS mL) :
    sizeMap mS = sizeMap mL := by
  have h1 := h.through (pairMap_footprint cs!"wh" cs!"width" cs!"height") (by decide) (by decide) (by decide)
  have h2 := h1.through (pairMap_footprint cs!"rxy" cs!"rx" cs!"ry") (by decide) (by decide) (by decide)
  have := h2.own (by decide) (by decide) (by decide)
  unfold sizeMap
  rw [this.1, this.2]

theorem pos_xy {loc : Option Str} {v a b : Str} {mS mL : AMap} (h : SpelledXY loc v a b mS mL) :
    posMap mS = posMap mL := by
  unfold posMap
  rw [h.own.1, h.own.2]

theorem pos_cxy {v a b : Str} {mS mL : AMap} (h : Spelled cs!"cxy" cs!"cx" cs!"cy" v a b mS mL)
    (hxy : mS cs!"xy" = none ∨ ((Elem.xyLoc (mS cs!"xy-loc")).1 ∉ [cs!"cxy", cs!"cx", cs!"cy"] ∧
      (Elem.xyLoc (mS cs!"xy-loc")).2 ∉ [cs!"cxy", cs!"cx", cs!"cy"])) :
    posMap mS = posMap mL := by
  have h0 := h.through_xy (by decide) (by decide) (by decide) hxy
  have := h0.own (by decide) (by decide) (by decide)
  unfold posMap
  rw [this.1, this.2]

theorem pos_xy1 {v a b : Str} {mS mL : AMap} (h : Spelled cs!"xy1" cs!"x1" cs!"y1" v a b mS mL)
    (hxy : mS cs!"xy" = none ∨ ((Elem.xyLoc (mS cs!"xy-loc")).1 ∉ [cs!"xy1", cs!"x1", cs!"y1"] ∧
      (Elem.xyLoc (mS cs!"xy-loc")).2 ∉ [cs!"xy1", cs!"x1", cs!"y1"])) :
    posMap mS = posMap mL := by
  have h0 := h.through_xy (by decide) (by decide) (by decide) hxy
  have h1 := h0.through (pairMap_footprint cs!"cxy" cs!"cx" cs!"cy") (by decide) (by decide) (by decide)
  have := h1.own (by decide) (by decide) (by decide)
  unfold posMap
  rw [this.1, this.2]

theorem pos_xy2 {v a b : Str} {mS mL : AMap} (h : Spelled cs!"xy2" cs!"x2" cs!"y2" v a b mS mL)
    (hxy : mS cs!"xy" = none ∨ ((Elem.xyLoc (mS cs!"xy-loc")).1 ∉ [cs!"xy2", cs!"x2", cs!"y2"] ∧
      (Elem.xyLoc (mS cs!"xy-loc")).2 ∉ [cs!"xy2", cs!"x2", cs!"y2"])) :
    posMap mS = posMap mL := by
  have h0 := h.through_xy (by decide) (by decide) (by decide) hxy
  have h1 := h0.through (pairMap_footprint cs!"cxy" cs!"cx" cs!"cy") (by decide) (by decide) (by decide)
  have h2 := h1.through (pairMap_footprint cs!"xy1" cs!"x1" cs!"y1") (by decide) (by decide) (by decide)
  have := h2.own (by decide) (by decide) (by decide)
  unfold posMap
  rw [this.1, this.2]

theorem posLonghand_not_dxy : ∀ k ∈ posLonghand, k ∉ [cs!"dxy", cs!"dx", cs!"dy"] := by decide

theorem pos_dxy {v a b : Str} {mS mL : AMap} (h : Spelled cs!"dxy" cs!"dx" cs!"dy" v a b mS mL) :
    posMap mS = posMap mL := by
  have h0 := h.through_xy (by decide) (by decide) (by decide)
    (Or.inr ⟨posLonghand_not_dxy _ (xyLoc_fst_mem _), posLonghand_not_dxy _ (xyLoc_snd_mem _)⟩)
  have h1 := h0.through (pairMap_footprint cs!"cxy" cs!"cx" cs!"cy") (by decide) (by decide) (by decide)
  have h2 := h1.through (pairMap_footprint cs!"xy1" cs!"x1" cs!"y1") (by decide) (by decide) (by decide)
  have h3 := h2.through (pairMap_footprint cs!"xy2" cs!"x2" cs!"y2") (by decide) (by decide) (by decide)
  have := h3.own (by decide) (by decide) (by decide)
  unfold posMap
  rw [this.1, this.2]

/-! ## (c) `set_position_attrs` leaves the native geometry attributes and nothing of its removal list -/

open Gen in
theorem x_def_has_x (p : Position) (h : p.x_def.isSome = true) : p.has_x_position = true := by
  unfold Position.x_def Position.extent at h
  unfold Position.has_x_position
  cases hs : p.xmin <;> cases he : p.xmax <;> cases hm : p.cx <;> simp_all

open Gen in
theorem y_def_has_y (p : Position) (h : p.y_def.isSome = true) : p.has_y_position = true := by
  unfold Position.y_def Position.extent at h
  unfold Position.has_y_position
  cases hs : p.ymin <;> cases he : p.ymax <;> cases hm : p.cy <;> simp_all

theorem has_set_self {e : Elem} (h : NodupKeys e.attrs) (k v : Str) : (e.setAttr k v).hasAttr k = true := by
  simp [Elem.hasAttr, Elem.setAttr, contains, get_insert_self h k v]

theorem has_set_mono {e : Elem} (h : NodupKeys e.attrs) (k v q : Str) (hq : e.hasAttr q = true) :
    (e.setAttr k v).hasAttr q = true := by
  by_cases e : q = k
  · subst e; exact has_set_self h _ _
  · simpa [Elem.hasAttr, Elem.setAttr, contains, get_insert_other h k v q e] using hq

theorem set_nodup {e : Elem} (h : NodupKeys e.attrs) (k v : Str) : NodupKeys (e.setAttr k v).attrs :=
  insert_nodup h k v

theorem lineCoord_nodup {e : Elem} (h : NodupKeys e.attrs) (k : Str) (v : Rat) (d : Option Rat) :
    NodupKeys (e.lineCoord k v d).attrs :=
  (PassThrough.lineCoord_frame (K := [k]) (by simp) v d (PassThrough.Frame.refl h)).nodup

theorem lineCoord_has_self {e : Elem} (h : NodupKeys e.attrs) (k : Str) (v : Rat) (d : Option Rat) :
    (e.lineCoord k v d).hasAttr k = true := by
  unfold Elem.lineCoord
  split
  · exact has_set_self h _ _
  · rename_i cur hg
    have hk : e.hasAttr k = true := by
      simp only [Elem.getAttr] at hg
      simp [Elem.hasAttr, contains, hg]
    split
    · split
      · exact has_set_self h _ _
      · exact hk
    · exact hk

theorem lineCoord_has_mono {e : Elem} (h : NodupKeys e.attrs) (k : Str) (v : Rat) (d : Option Rat) (q : Str)
    (hq : e.hasAttr q = true) : (e.lineCoord k v d).hasAttr q = true := by
  unfold Elem.lineCoord
  split
  · exact has_set_mono h _ _ _ hq
  · split
    · split
      · exact has_set_mono h _ _ _ hq
      · exact hq
    · exact hq

theorem has_remove_mem {X : Elem} (h : NodupKeys X.attrs) (ks : List Str) (k : Str) (hk : k ∈ ks) :
    (X.removeAttrs ks).hasAttr k = false := contains_removeAll h ks k hk

theorem has_remove_other (X : Elem) (ks : List Str) (q : Str) (hq : q ∉ ks) :
    (X.removeAttrs ks).hasAttr q = X.hasAttr q := by
  simp [Elem.hasAttr, Elem.removeAttrs, contains, PassThrough.get_removeAll_other _ _ _ hq]

/-- the four shapes of the property -/
def shapes : List Str := [cs!"rect", cs!"circle", cs!"ellipse", cs!"line"]

def nativeSize (n : Str) : List Str :=
  if n == cs!"rect" then [cs!"width", cs!"height"] else if n == cs!"circle" then [['r']]
  else if n == cs!"ellipse" then [cs!"rx", cs!"ry"] else []

def nativeX (n : Str) : List Str :=
  if n == cs!"rect" then [['x']] else if n == cs!"circle" || n == cs!"ellipse" then [cs!"cx"]
  else if n == cs!"line" then [cs!"x1", cs!"x2"] else []

def nativeY (n : Str) : List Str :=
  if n == cs!"rect" then [['y']] else if n == cs!"circle" || n == cs!"ellipse" then [cs!"cy"]
  else if n == cs!"line" then [cs!"y1", cs!"y2"] else []

/-- x y width height | cx cy r | cx cy rx ry | x1 y1 x2 y2 -/
def nativeAttrs (n : Str) : List Str := nativeX n ++ nativeY n ++ nativeSize n

/-- every longhand geometry / delta attribute name of svgdx -/
def geomLonghand : List Str :=
  [['x'], ['y'], cs!"x1", cs!"y1", cs!"x2", cs!"y2", cs!"cx", cs!"cy", ['r'], cs!"rx", cs!"ry",
   cs!"width", cs!"height", cs!"dx", cs!"dy", cs!"dw", cs!"dh"]

/-- the compound attribute names -/
def shorthandKeys : List Str :=
  [cs!"wh", cs!"rxy", cs!"dwh", cs!"xy", cs!"cxy", cs!"xy1", cs!"xy2", cs!"dxy", cs!"xy-loc"]

open Gen in
/-- the shape of the result: some element with unique keys that has the native attributes, minus the
    removal list -/
theorem setPos_form (p : Position) (e : Elem) (hs : e.name ∈ shapes) (hnd : NodupKeys e.attrs)
    (bb : BoundingBox) (hb : p.to_bbox = some bb) :
    ∃ X : Elem, NodupKeys X.attrs ∧ Elem.setPositionAttrs p e = X.removeAttrs (Elem.removeList e.name) ∧
      (∀ k ∈ nativeSize e.name, X.hasAttr k = true) ∧
      ((e.name = cs!"line" ∨ p.has_x_position = true) → ∀ k ∈ nativeX e.name, X.hasAttr k = true) ∧
      ((e.name = cs!"line" ∨ p.has_y_position = true) → ∀ k ∈ nativeY e.name, X.hasAttr k = true) := by
  simp only [shapes, List.mem_cons, List.not_mem_nil, or_false] at hs
  rcases hs with hn | hn | hn | hn
  · -- rect
    let e1 := if p.has_x_position then e.setAttr ['x'] (fstr ((bb.locspec LocSpec.TopLeft).1 + p.dx.getD 0)) else e
    let e2 := if p.has_y_position then e1.setAttr ['y'] (fstr ((bb.locspec LocSpec.TopLeft).2 + p.dy.getD 0)) else e1
    let e3 := e2.setAttr cs!"width" (fstr bb.width)
    have n1 : NodupKeys e1.attrs := by simp only [e1]; split <;> [exact set_nodup hnd _ _; exact hnd]
    have n2 : NodupKeys e2.attrs := by simp only [e2]; split <;> [exact set_nodup n1 _ _; exact n1]
    have n3 : NodupKeys e3.attrs := set_nodup n2 _ _
    refine ⟨e3.setAttr cs!"height" (fstr bb.height), set_nodup n3 _ _, ?_, ?_, ?_, ?_⟩
    · unfold Elem.setPositionAttrs
      rw [hb]
      simp only [hn]
      rfl
    · intro k hk
      simp only [hn, nativeSize] at hk
      rcases List.mem_cons.mp hk with rfl | hk
      · exact has_set_mono n3 _ _ _ (has_set_self n2 _ _)
      · rcases List.mem_cons.mp hk with rfl | hk
        · exact has_set_self n3 _ _
        · cases hk
    · intro hx k hk
      have hx : p.has_x_position = true := by
        rcases hx with hx | hx
        · rw [hn] at hx; exact absurd hx (by decide)
        · exact hx
      simp only [hn, nativeX] at hk
      rcases List.mem_cons.mp hk with rfl | hk
      · apply has_set_mono n3; apply has_set_mono n2
        have h1 : e1.hasAttr ['x'] = true := by simp only [e1, hx, if_true]; exact has_set_self hnd _ _
        simp only [e2]; split
        · exact has_set_mono n1 _ _ _ h1
        · exact h1
      · cases hk
    · intro hy k hk
      have hy : p.has_y_position = true := by
        rcases hy with hy | hy
        · rw [hn] at hy; exact absurd hy (by decide)
        · exact hy
      simp only [hn, nativeY] at hk
      rcases List.mem_cons.mp hk with rfl | hk
      · apply has_set_mono n3; apply has_set_mono n2
        simp only [e2, hy, if_true]; exact has_set_self n1 _ _
      · cases hk
  · -- circle
    let e1 := if p.has_x_position then e.setAttr cs!"cx" (fstr (bb.center.1 + p.dx.getD 0)) else e
    let e2 := if p.has_y_position then e1.setAttr cs!"cy" (fstr (bb.center.2 + p.dy.getD 0)) else e1
    have n1 : NodupKeys e1.attrs := by simp only [e1]; split <;> [exact set_nodup hnd _ _; exact hnd]
    have n2 : NodupKeys e2.attrs := by simp only [e2]; split <;> [exact set_nodup n1 _ _; exact n1]
    refine ⟨e2.setAttr ['r'] (fstr (bb.width / 2)), set_nodup n2 _ _, ?_, ?_, ?_, ?_⟩
    · unfold Elem.setPositionAttrs
      rw [hb]
      simp only [hn]
      rfl
    · intro k hk
      simp only [hn, nativeSize] at hk
      rcases List.mem_cons.mp hk with rfl | hk
      · exact has_set_self n2 _ _
      · cases hk
    · intro hx k hk
      have hx : p.has_x_position = true := by
        rcases hx with hx | hx
        · rw [hn] at hx; exact absurd hx (by decide)
        · exact hx
      simp only [hn, nativeX] at hk
      rcases List.mem_cons.mp hk with rfl | hk
      · apply has_set_mono n2
        have h1 : e1.hasAttr cs!"cx" = true := by simp only [e1, hx, if_true]; exact has_set_self hnd _ _
        simp only [e2]; split
        · exact has_set_mono n1 _ _ _ h1
        · exact h1
      · cases hk
    · intro hy k hk
      have hy : p.has_y_position = true := by
        rcases hy with hy | hy
        · rw [hn] at hy; exact absurd hy (by decide)
        · exact hy
      simp only [hn, nativeY] at hk
      rcases List.mem_cons.mp hk with rfl | hk
      · apply has_set_mono n2
        simp only [e2, hy, if_true]; exact has_set_self n1 _ _
      · cases hk
  · -- ellipse
    let e1 := if p.has_x_position then e.setAttr cs!"cx" (fstr (bb.center.1 + p.dx.getD 0)) else e
    let e2 := if p.has_y_position then e1.setAttr cs!"cy" (fstr (bb.center.2 + p.dy.getD 0)) else e1
    let e3 := e2.setAttr cs!"rx" (fstr (bb.width / 2))
    have n1 : NodupKeys e1.attrs := by simp only [e1]; split <;> [exact set_nodup hnd _ _; exact hnd]
    have n2 : NodupKeys e2.attrs := by simp only [e2]; split <;> [exact set_nodup n1 _ _; exact n1]
    have n3 : NodupKeys e3.attrs := set_nodup n2 _ _
    refine ⟨e3.setAttr cs!"ry" (fstr (bb.height / 2)), set_nodup n3 _ _, ?_, ?_, ?_, ?_⟩
    · unfold Elem.setPositionAttrs
      rw [hb]
      simp only [hn]
      rfl
    · intro k hk
      simp only [hn, nativeSize] at hk
      rcases List.mem_cons.mp hk with rfl | hk
      · exact has_set_mono n3 _ _ _ (has_set_self n2 _ _)
      · rcases List.mem_cons.mp hk with rfl | hk
        · exact has_set_self n3 _ _
        · cases hk
    · intro hx k hk
      have hx : p.has_x_position = true := by
        rcases hx with hx | hx
        · rw [hn] at hx; exact absurd hx (by decide)
        · exact hx
      simp only [hn, nativeX] at hk
      rcases List.mem_cons.mp hk with rfl | hk
      · apply has_set_mono n3; apply has_set_mono n2
        have h1 : e1.hasAttr cs!"cx" = true := by simp only [e1, hx, if_true]; exact has_set_self hnd _ _
        simp only [e2]; split
        · exact has_set_mono n1 _ _ _ h1
        · exact h1
      · cases hk
    · intro hy k hk
      have hy : p.has_y_position = true := by
        rcases hy with hy | hy
        · rw [hn] at hy; exact absurd hy (by decide)
        · exact hy
      simp only [hn, nativeY] at hk
      rcases List.mem_cons.mp hk with rfl | hk
      · apply has_set_mono n3; apply has_set_mono n2
        simp only [e2, hy, if_true]; exact has_set_self n1 _ _
      · cases hk
  · -- line
    let e1 := e.lineCoord cs!"x1" (bb.locspec LocSpec.TopLeft).1 p.dx
    let e2 := e1.lineCoord cs!"y1" (bb.locspec LocSpec.TopLeft).2 p.dy
    let e3 := e2.lineCoord cs!"x2" (bb.locspec LocSpec.BottomRight).1 p.dx
    have n1 : NodupKeys e1.attrs := lineCoord_nodup hnd _ _ _
    have n2 : NodupKeys e2.attrs := lineCoord_nodup n1 _ _ _
    have n3 : NodupKeys e3.attrs := lineCoord_nodup n2 _ _ _
    refine ⟨e3.lineCoord cs!"y2" (bb.locspec LocSpec.BottomRight).2 p.dy, lineCoord_nodup n3 _ _ _, ?_, ?_, ?_, ?_⟩
    · unfold Elem.setPositionAttrs
      rw [hb]
      simp only [hn]
      rfl
    · intro k hk
      simp [hn, nativeSize] at hk
    · intro _ k hk
      simp only [hn, nativeX] at hk
      rcases List.mem_cons.mp hk with rfl | hk
      · exact lineCoord_has_mono n3 _ _ _ _ (lineCoord_has_mono n2 _ _ _ _ (lineCoord_has_mono n1 _ _ _ _
          (lineCoord_has_self hnd _ _ _)))
      · rcases List.mem_cons.mp hk with rfl | hk
        · exact lineCoord_has_mono n3 _ _ _ _ (lineCoord_has_self n2 _ _ _)
        · cases hk
    · intro _ k hk
      simp only [hn, nativeY] at hk
      rcases List.mem_cons.mp hk with rfl | hk
      · exact lineCoord_has_mono n3 _ _ _ _ (lineCoord_has_mono n2 _ _ _ _ (lineCoord_has_self n1 _ _ _))
      · rcases List.mem_cons.mp hk with rfl | hk
        · exact lineCoord_has_self n3 _ _ _
        · cases hk

/-! ### the compound names are gone after the two expansions -/

theorem pairMap_self (m : AMap) (k k1 k2 : Str) : pairMap m k k1 k2 k = none := by
  unfold pairMap
  cases h : m k with
  | none => simp [h]
  | some v => simp [stageMap]

theorem pairMap_other (m : AMap) (k k1 k2 q : Str) (hq : q ∉ [k, k1, k2]) : pairMap m k k1 k2 q = m q :=
  (pairMap_footprint k k1 k2).frame m q hq

theorem xyMap_self (m : AMap) : xyMap m cs!"xy" = none := by
  unfold xyMap
  cases h : m cs!"xy" with
  | none => simp [h]
  | some v => simp [stageMap]

theorem xyMap_loc (m : AMap) (h : m cs!"xy" ≠ none) : xyMap m cs!"xy-loc" = none := by
  unfold xyMap
  cases h' : m cs!"xy" with
  | none => exact absurd h' h
  | some v => simp [stageMap]

theorem xyMap_other (m : AMap) (q : Str) (hq : q ∉ [cs!"xy", cs!"xy-loc"] ++ posLonghand) : xyMap m q = m q := by
  rw [xyMap_eq]
  apply (blockMap_footprint _ _ _ _ (by simp)).frame
  intro hm
  apply hq
  rcases List.mem_append.mp hm with h | h
  · exact List.mem_append_left _ h
  · apply List.mem_append_right
    rcases List.mem_cons.mp h with h | h
    · rw [h]; exact xyLoc_fst_mem _
    · rcases List.mem_cons.mp h with h | h
      · rw [h]; exact xyLoc_snd_mem _
      · cases h

def posKeysAll : List Str :=
  [cs!"xy", cs!"xy-loc"] ++ posLonghand ++ [cs!"cxy", cs!"xy1", cs!"xy2", cs!"dxy", cs!"dx", cs!"dy"]

theorem dropMap_self (k : Str) (m : AMap) : dropMap k m k = none := by simp [dropMap]

theorem dropMap_other (k : Str) (m : AMap) (q : Str) (hq : q ≠ k) : dropMap k m q = m q := by
  simp [dropMap, hq]

theorem posMap_other (m : AMap) (q : Str) (hq : q ∉ posKeysAll) : posMap m q = m q := by
  have h : ∀ l : List Str, (∀ x ∈ l, x ∈ posKeysAll) → q ∉ l := fun l hl hx => hq (hl q hx)
  have hl : q ≠ cs!"xy-loc" := fun e => hq (e ▸ by decide)
  unfold posMap
  rw [dropMap_other _ _ _ hl, pairMap_other _ _ _ _ _ (h _ (by decide)), pairMap_other _ _ _ _ _ (h _ (by decide)),
    pairMap_other _ _ _ _ _ (h _ (by decide)), pairMap_other _ _ _ _ _ (h _ (by decide)),
    xyMap_other _ _ (h _ (by decide))]

theorem posMap_shorthand (m : AMap) :
    ∀ k ∈ [cs!"xy", cs!"cxy", cs!"xy1", cs!"xy2", cs!"dxy", cs!"xy-loc"], posMap m k = none := by
  intro k hk
  simp only [List.mem_cons, List.not_mem_nil, or_false] at hk
  unfold posMap
  rcases hk with rfl | rfl | rfl | rfl | rfl | rfl
  · rw [dropMap_other _ _ _ (by decide), pairMap_other _ _ _ _ _ (by decide), pairMap_other _ _ _ _ _ (by decide),
      pairMap_other _ _ _ _ _ (by decide), pairMap_other _ _ _ _ _ (by decide), xyMap_self]
  · rw [dropMap_other _ _ _ (by decide), pairMap_other _ _ _ _ _ (by decide), pairMap_other _ _ _ _ _ (by decide),
      pairMap_other _ _ _ _ _ (by decide), pairMap_self]
  · rw [dropMap_other _ _ _ (by decide), pairMap_other _ _ _ _ _ (by decide), pairMap_other _ _ _ _ _ (by decide),
      pairMap_self]
  · rw [dropMap_other _ _ _ (by decide), pairMap_other _ _ _ _ _ (by decide), pairMap_self]
  · rw [dropMap_other _ _ _ (by decide), pairMap_self]
  · rw [dropMap_self]

theorem sizeMap_shorthand (m : AMap) : ∀ k ∈ [cs!"wh", cs!"rxy", cs!"dwh"], sizeMap m k = none := by
  intro k hk
  simp only [List.mem_cons, List.not_mem_nil, or_false] at hk
  unfold sizeMap
  rcases hk with rfl | rfl | rfl
  · rw [pairMap_other _ _ _ _ _ (by decide), pairMap_other _ _ _ _ _ (by decide), pairMap_self]
  · rw [pairMap_other _ _ _ _ _ (by decide), pairMap_self]
  · rw [pairMap_self]

theorem toPosition_congr {eS eL : Elem} (hn : eS.name = eL.name) (hg : eS.getAttr = eL.getAttr) :
    eS.toPosition = eL.toPosition := by
  unfold Elem.toPosition
  simp only [hn, hg]

end Shorthand

/-! ## Public statements -/

namespace Props.C11x
open Shorthand

/-- (a) two values, blank and / or comma between them -/
theorem split_two {a b : Str} (ha : isWord a = true) (hb : isWord b = true) (hp : plainHead a = true) :
    Elem.splitCompoundAttr (a ++ ' ' :: b) = (a, b) ∧ Elem.splitCompoundAttr (a ++ ',' :: b) = (a, b) ∧
    Elem.splitCompoundAttr (a ++ ',' :: ' ' :: b) = (a, b) ∧ Elem.splitCompoundAttr (a ++ ' ' :: ',' :: b) = (a, b) :=
  ⟨split_of_attrSplit_two (plainHead_append _ ha hp) (attrSplit_space ha hb),
   split_of_attrSplit_two (plainHead_append _ ha hp) (attrSplit_comma ha hb),
   split_of_attrSplit_two (plainHead_append _ ha hp) (attrSplit_comma_space ha hb),
   split_of_attrSplit_two (plainHead_append _ ha hp) (attrSplit_space_comma ha hb)⟩

/-- (a) one value stands for both -/
theorem split_single {a : Str} (ha : isWord a = true) : Elem.splitCompoundAttr a = (a, a) := split_one ha

/-- (a) comma and blank spelling give the same pair -/
theorem split_spellings_agree {a b : Str} (ha : isWord a = true) (hb : isWord b = true) (hp : plainHead a = true) :
    Elem.splitCompoundAttr (a ++ ',' :: b) = Elem.splitCompoundAttr (a ++ ' ' :: b) ∧
    Elem.splitCompoundAttr (a ++ ',' :: ' ' :: b) = Elem.splitCompoundAttr (a ++ ' ' :: b) ∧
    Elem.splitCompoundAttr (a ++ ' ' :: ',' :: b) = Elem.splitCompoundAttr (a ++ ' ' :: b) := by
  obtain ⟨h1, h2, h3, h4⟩ := split_two ha hb hp
  exact ⟨h2.trans h1.symm, h3.trans h1.symm, h4.trans h1.symm⟩

example : isWord cs!"10" = true ∧ isWord cs!"-2.5" = true ∧ plainHead cs!"10" = true := by decide +kernel

/-- (b) `expand_compound_size` / `expand_compound_pos` are `sizeMap` / `posMap` on the attribute map -/
theorem expandCompoundSize_is_sizeMap {e : Elem} (h : NodupKeys e.attrs) :
    e.expandCompoundSize.getAttr = sizeMap e.getAttr := expandCompoundSize_getAttr h

theorem expandCompoundPos_is_posMap {e : Elem} (h : NodupKeys e.attrs) :
    e.expandCompoundPos.getAttr = posMap e.getAttr := expandCompoundPos_getAttr h

/-- (b) one block `k ↦ k1, k2`: the compound name goes, `k1` / `k2` get the two values unless the
    element already has them - an existing longhand attribute wins - and nothing else changes -/
theorem existing_longhand_wins {e : Elem} (h : NodupKeys e.attrs) {k k1 k2 v : Str} (h1 : k1 ≠ k) (h2 : k2 ≠ k)
    (h12 : k1 ≠ k2) (hv : e.getAttr k = some v) :
    (e.expandPair k k1 k2).getAttr k = none ∧
    (e.expandPair k k1 k2).getAttr k1 = some ((e.getAttr k1).getD (Elem.splitCompoundAttr v).1) ∧
    (e.expandPair k k1 k2).getAttr k2 = some ((e.getAttr k2).getD (Elem.splitCompoundAttr v).2) ∧
    ∀ q, q ≠ k → q ≠ k1 → q ≠ k2 → (e.expandPair k k1 k2).getAttr q = e.getAttr q := by
  rw [expandPair_getAttr h h1 h2 h12]
  unfold pairMap stageMap
  simp only [hv, List.mem_singleton]
  refine ⟨by simp, by simp [h1], by simp [h2, h12.symm], ?_⟩
  intro q q0 q1 q2
  simp [q0, q1, q2]

/-- `eL` is `eS` with the compound attribute `k = v` written as its longhand pair; decidable -/
def SpelledE (k k1 k2 v : Str) (eS eL : Elem) : Prop :=
  eS.name = eL.name ∧ (keys eS.attrs).Nodup ∧ (keys eL.attrs).Nodup ∧
  eS.getAttr k = some v ∧ eS.getAttr k1 = none ∧ eS.getAttr k2 = none ∧
  eL.getAttr k = none ∧ eL.getAttr k1 = some (Elem.splitCompoundAttr v).1 ∧
  eL.getAttr k2 = some (Elem.splitCompoundAttr v).2 ∧
  ∀ q ∈ keys eS.attrs ++ keys eL.attrs, q = k ∨ q = k1 ∨ q = k2 ∨ eS.getAttr q = eL.getAttr q

instance (k k1 k2 v : Str) (eS eL : Elem) : Decidable (SpelledE k k1 k2 v eS eL) := by
  unfold SpelledE; infer_instance

theorem getAttr_rest {eS eL : Elem} {D : List Str}
    (h : ∀ q ∈ keys eS.attrs ++ keys eL.attrs, q ∈ D ∨ eS.getAttr q = eL.getAttr q) (q : Str) (hq : q ∉ D) :
    eS.getAttr q = eL.getAttr q := by
  by_cases hm : q ∈ keys eS.attrs ++ keys eL.attrs
  · rcases h q hm with h | h
    · exact absurd h hq
    · exact h
  · simp only [List.mem_append, not_or] at hm
    unfold Elem.getAttr Attrs.get
    rw [(lookup_none_iff q).mpr hm.1, (lookup_none_iff q).mpr hm.2]

theorem SpelledE.spelled {k k1 k2 v : Str} {eS eL : Elem} (h : SpelledE k k1 k2 v eS eL) :
    Spelled k k1 k2 v (Elem.splitCompoundAttr v).1 (Elem.splitCompoundAttr v).2 eS.getAttr eL.getAttr := by
  obtain ⟨_, _, _, a, b, c, d, e, f, g⟩ := h
  refine ⟨rfl, a, b, c, d, e, f, ?_⟩
  intro q q0 q1 q2
  apply getAttr_rest (D := [k, k1, k2]) _ q (by simp [q0, q1, q2])
  intro q hq
  rcases g q hq with h | h | h | h
  · left; simp [h]
  · left; simp [h]
  · left; simp [h]
  · right; exact h

def sizeFamily : List (Str × Str × Str) :=
  [(cs!"wh", cs!"width", cs!"height"), (cs!"rxy", cs!"rx", cs!"ry"), (cs!"dwh", cs!"dw", cs!"dh")]

def posFamily : List (Str × Str × Str) :=
  [(cs!"cxy", cs!"cx", cs!"cy"), (cs!"xy1", cs!"x1", cs!"y1"), (cs!"xy2", cs!"x2", cs!"y2"),
   (cs!"dxy", cs!"dx", cs!"dy")]

/-- (b) size family: the element with `wh` / `rxy` / `dwh` (whatever its name) and the element with the
    longhand pair have the same attribute map after `expand_compound_size` -/
theorem size_shorthand_is_longhand {k k1 k2 v : Str} {eS eL : Elem} (hf : (k, k1, k2) ∈ sizeFamily)
    (h : SpelledE k k1 k2 v eS eL) :
    eS.expandCompoundSize.name = eL.expandCompoundSize.name ∧
    eS.expandCompoundSize.getAttr = eL.expandCompoundSize.getAttr := by
  have sp := h.spelled
  obtain ⟨hn, nS, nL, _⟩ := h
  refine ⟨by rw [expandCompoundSize_name nS, expandCompoundSize_name nL, hn], ?_⟩
  rw [expandCompoundSize_getAttr nS, expandCompoundSize_getAttr nL]
  simp only [sizeFamily, List.mem_cons, Prod.mk.injEq, List.not_mem_nil, or_false] at hf
  rcases hf with ⟨rfl, rfl, rfl⟩ | ⟨rfl, rfl, rfl⟩ | ⟨rfl, rfl, rfl⟩
  · exact size_wh sp
  · exact size_rxy sp
  · exact size_dwh sp

/-- (b) position family without `xy`: `cxy`, `xy1`, `xy2`, `dxy`. Side condition: an `xy` attribute of
    the same element does not (through its `xy-loc`) expand to `k1` or `k2` -/
theorem pos_shorthand_is_longhand {k k1 k2 v : Str} {eS eL : Elem} (hf : (k, k1, k2) ∈ posFamily)
    (h : SpelledE k k1 k2 v eS eL)
    (hxy : eS.getAttr cs!"xy" = none ∨ ((Elem.xyLoc (eS.getAttr cs!"xy-loc")).1 ∉ [k, k1, k2] ∧
      (Elem.xyLoc (eS.getAttr cs!"xy-loc")).2 ∉ [k, k1, k2])) :
    eS.expandCompoundPos.name = eL.expandCompoundPos.name ∧
    eS.expandCompoundPos.getAttr = eL.expandCompoundPos.getAttr := by
  have sp := h.spelled
  obtain ⟨hn, nS, nL, _⟩ := h
  refine ⟨by rw [expandCompoundPos_name nS, expandCompoundPos_name nL, hn], ?_⟩
  rw [expandCompoundPos_getAttr nS, expandCompoundPos_getAttr nL]
  simp only [posFamily, List.mem_cons, Prod.mk.injEq, List.not_mem_nil, or_false] at hf
  rcases hf with ⟨rfl, rfl, rfl⟩ | ⟨rfl, rfl, rfl⟩ | ⟨rfl, rfl, rfl⟩ | ⟨rfl, rfl, rfl⟩
  · exact pos_cxy sp hxy
  · exact pos_xy1 sp hxy
  · exact pos_xy2 sp hxy
  · exact pos_dxy sp

/-- `eL` is `eS` with `xy = v` (and its `xy-loc`, if any) written as the pair `xyLoc`; decidable -/
def SpelledXYE (v : Str) (eS eL : Elem) : Prop :=
  eS.name = eL.name ∧ (keys eS.attrs).Nodup ∧ (keys eL.attrs).Nodup ∧
  eS.getAttr cs!"xy" = some v ∧ eS.getAttr (Elem.xyLoc (eS.getAttr cs!"xy-loc")).1 = none ∧
  eS.getAttr (Elem.xyLoc (eS.getAttr cs!"xy-loc")).2 = none ∧
  eL.getAttr cs!"xy" = none ∧ eL.getAttr cs!"xy-loc" = none ∧
  eL.getAttr (Elem.xyLoc (eS.getAttr cs!"xy-loc")).1 = some (Elem.splitCompoundAttr v).1 ∧
  eL.getAttr (Elem.xyLoc (eS.getAttr cs!"xy-loc")).2 = some (Elem.splitCompoundAttr v).2 ∧
  ∀ q ∈ keys eS.attrs ++ keys eL.attrs, q = cs!"xy" ∨ q = cs!"xy-loc" ∨
    q = (Elem.xyLoc (eS.getAttr cs!"xy-loc")).1 ∨ q = (Elem.xyLoc (eS.getAttr cs!"xy-loc")).2 ∨
    eS.getAttr q = eL.getAttr q

instance (v : Str) (eS eL : Elem) : Decidable (SpelledXYE v eS eL) := by
  unfold SpelledXYE; infer_instance

/-- (b) `xy` with any `xy-loc` (t, tr, r, br, b, bl, l, c, anything else or none = x / y) -/
theorem xy_shorthand_is_longhand {v : Str} {eS eL : Elem} (h : SpelledXYE v eS eL) :
    eS.expandCompoundPos.name = eL.expandCompoundPos.name ∧
    eS.expandCompoundPos.getAttr = eL.expandCompoundPos.getAttr := by
  obtain ⟨hn, nS, nL, a, b, c, d, dl, e, f, g⟩ := h
  refine ⟨by rw [expandCompoundPos_name nS, expandCompoundPos_name nL, hn], ?_⟩
  rw [expandCompoundPos_getAttr nS, expandCompoundPos_getAttr nL]
  refine pos_xy (loc := eS.getAttr cs!"xy-loc") (v := v) ⟨rfl, a, rfl, b, c, d, dl, e, f, ?_⟩
  intro q q0 ql q1 q2
  apply getAttr_rest (D := [cs!"xy", cs!"xy-loc", (Elem.xyLoc (eS.getAttr cs!"xy-loc")).1,
    (Elem.xyLoc (eS.getAttr cs!"xy-loc")).2]) _ q (by simp [q0, ql, q1, q2])
  intro q hq
  rcases g q hq with h | h | h | h | h
  · left; simp [h]
  · left; simp [h]
  · left; simp [h]
  · left; simp [h]
  · right; exact h

/-- (b) the compound names - all of them, `rxy` on every element and `xy-loc` with or without an `xy` -
    are gone after the two expansions -/
theorem expand_drops_shorthand {e : Elem} (h : NodupKeys e.attrs) :
    ∀ k ∈ shorthandKeys, e.expandCompoundSize.expandCompoundPos.getAttr k = none := by
  rw [expandCompoundPos_getAttr (expandCompoundSize_nodup h), expandCompoundSize_getAttr h]
  intro k hk
  simp only [shorthandKeys, List.mem_cons, List.not_mem_nil, or_false] at hk
  rcases hk with rfl | rfl | rfl | hk
  · rw [posMap_other _ _ (by decide)]; exact sizeMap_shorthand _ _ (by decide)
  · rw [posMap_other _ _ (by decide)]; exact sizeMap_shorthand _ _ (by decide)
  · rw [posMap_other _ _ (by decide)]; exact sizeMap_shorthand _ _ (by decide)
  · apply posMap_shorthand
    simp only [List.mem_cons, List.not_mem_nil, or_false]
    exact hk

/-! (c) -/

theorem native_not_removed : ∀ n ∈ shapes, ∀ k ∈ nativeAttrs n, k ∉ Elem.removeList n := by decide

theorem geom_partition : ∀ n ∈ shapes, ∀ k ∈ geomLonghand,
    k ∈ Elem.removeList n ∨ k ∈ nativeAttrs n ∨ (n = cs!"rect" ∧ k ∈ [cs!"rx", cs!"ry"]) := by decide

open Gen in
/-- (c) none of the names of the removal list (delta attributes and the geometry attributes of other
    shapes) is left -/
theorem nothing_foreign_left (p : Position) (e : Elem) (hs : e.name ∈ shapes) (hnd : NodupKeys e.attrs)
    (hb : p.to_bbox.isSome = true) :
    ∀ k ∈ Elem.removeList e.name, (Elem.setPositionAttrs p e).hasAttr k = false := by
  obtain ⟨bb, hbb⟩ := Option.isSome_iff_exists.mp hb
  obtain ⟨X, nX, hX, -, -, -⟩ := setPos_form p e hs hnd bb hbb
  intro k hk
  rw [hX]; exact has_remove_mem nX _ k hk

open Gen in
/-- (c) the native attributes are there: the size attributes always, the position attributes of an axis
    when the `Position` has a position on that axis (always, for a line) -/
theorem native_present (p : Position) (e : Elem) (hs : e.name ∈ shapes) (hnd : NodupKeys e.attrs)
    (hb : p.to_bbox.isSome = true) :
    (∀ k ∈ nativeSize e.name, (Elem.setPositionAttrs p e).hasAttr k = true) ∧
    ((e.name = cs!"line" ∨ p.has_x_position = true) →
      ∀ k ∈ nativeX e.name, (Elem.setPositionAttrs p e).hasAttr k = true) ∧
    ((e.name = cs!"line" ∨ p.has_y_position = true) →
      ∀ k ∈ nativeY e.name, (Elem.setPositionAttrs p e).hasAttr k = true) := by
  obtain ⟨bb, hbb⟩ := Option.isSome_iff_exists.mp hb
  obtain ⟨X, nX, hX, h1, h2, h3⟩ := setPos_form p e hs hnd bb hbb
  have nr := native_not_removed e.name hs
  rw [hX]
  refine ⟨?_, ?_, ?_⟩
  · intro k hk
    rw [has_remove_other _ _ _ (nr k (by simp [nativeAttrs, hk]))]; exact h1 k hk
  · intro hx k hk
    rw [has_remove_other _ _ _ (nr k (by simp [nativeAttrs, hk]))]; exact h2 hx k hk
  · intro hy k hk
    rw [has_remove_other _ _ _ (nr k (by simp [nativeAttrs, hk]))]; exact h3 hy k hk

open Gen in
/-- (c) of all longhand geometry and delta names only the native ones of the shape can be present
    (a rect may also keep `rx` / `ry`, its corner radii) -/
theorem only_native_longhand (p : Position) (e : Elem) (hs : e.name ∈ shapes) (hnd : NodupKeys e.attrs)
    (hb : p.to_bbox.isSome = true) :
    ∀ k ∈ geomLonghand, (Elem.setPositionAttrs p e).hasAttr k = true →
      k ∈ nativeAttrs e.name ∨ (e.name = cs!"rect" ∧ k ∈ [cs!"rx", cs!"ry"]) := by
  intro k hk hh
  rcases geom_partition e.name hs k hk with h | h
  · rw [nothing_foreign_left p e hs hnd hb k h] at hh; cases hh
  · exact h

open Gen in
/-- (c) exactly the native set, when both axes have a position (circle, ellipse, line) -/
theorem native_exact (p : Position) (e : Elem) (hs : e.name ∈ shapes) (hr : e.name ≠ cs!"rect")
    (hnd : NodupKeys e.attrs) (hb : p.to_bbox.isSome = true)
    (hx : e.name = cs!"line" ∨ p.has_x_position = true) (hy : e.name = cs!"line" ∨ p.has_y_position = true) :
    ∀ k ∈ geomLonghand, ((Elem.setPositionAttrs p e).hasAttr k = true ↔ k ∈ nativeAttrs e.name) := by
  intro k hk
  constructor
  · intro hh
    rcases only_native_longhand p e hs hnd hb k hk hh with h | h
    · exact h
    · exact absurd h.1 hr
  · intro hm
    obtain ⟨h1, h2, h3⟩ := native_present p e hs hnd hb
    simp only [nativeAttrs, List.mem_append] at hm
    rcases hm with (hm | hm) | hm
    · exact h2 hx k hm
    · exact h3 hy k hm
    · exact h1 k hm

open Gen in
/-- a solved axis has a position -/
theorem solved_axes_have_position (p : Position) (hx : p.x_def.isSome = true) (hy : p.y_def.isSome = true) :
    p.has_x_position = true ∧ p.has_y_position = true := ⟨x_def_has_x p hx, y_def_has_y p hy⟩

theorem shorthand_not_setPos : ∀ k ∈ shorthandKeys, k ∉ PassThrough.setPosKeys := by decide

open Gen in
/-- (b) + (c): expansion, then `set_position_attrs`: neither a compound name nor a name of the removal
    list is left -/
theorem output_clean (p : Position) (e : Elem) (hs : e.name ∈ shapes) (hnd : NodupKeys e.attrs)
    (hb : p.to_bbox.isSome = true) :
    ∀ k ∈ shorthandKeys ++ Elem.removeList e.name,
      (Elem.setPositionAttrs p e.expandCompoundSize.expandCompoundPos).hasAttr k = false := by
  have n1 := expandCompoundSize_nodup hnd
  have n2 := expandCompoundPos_nodup n1
  have hname : e.expandCompoundSize.expandCompoundPos.name = e.name := by
    rw [expandCompoundPos_name n1, expandCompoundSize_name hnd]
  intro k hk
  rcases List.mem_append.mp hk with hk | hk
  · have F := PassThrough.setPositionAttrs_frame (K := PassThrough.setPosKeys) (fun _ h => h) p
      (PassThrough.Frame.refl n2)
    have := F.get k (shorthand_not_setPos k hk)
    have h0 := expand_drops_shorthand hnd k hk
    unfold Elem.hasAttr Attrs.contains
    unfold Elem.getAttr at this h0
    rw [this, h0]; rfl
  · have hs' : e.expandCompoundSize.expandCompoundPos.name ∈ shapes := by rw [hname]; exact hs
    have hk' : k ∈ Elem.removeList e.expandCompoundSize.expandCompoundPos.name := by rw [hname]; exact hk
    exact nothing_foreign_left p _ hs' n2 hb k hk'

/-- (d), first step only: the `Position` read from two elements with the same name and attribute map is
    the same -/
theorem position_of_same_map {eS eL : Elem} (hn : eS.name = eL.name) (hg : eS.getAttr = eL.getAttr) :
    eS.toPosition = eL.toPosition := toPosition_congr hn hg

/-! ## Concrete instances: the hypotheses are satisfiable, and the places where the clause fails -/

namespace Examples

def attrsOf (r : Except Err Elem) : List (Str × Str) :=
  match r with
  | .ok e => e.attrs
  | .error _ => [([], [])]

/-- `<rect wh="10 20" fill="red" dxy="1 2" xy="5"/>` and the same with `width="10" height="20"` -/
def rS : Elem := Elem.new cs!"rect" [(cs!"wh", cs!"10 20"), (cs!"fill", cs!"red"), (cs!"dxy", cs!"1 2"), (cs!"xy", cs!"5")]
def rL : Elem := Elem.new cs!"rect" [(cs!"width", cs!"10"), (cs!"height", cs!"20"), (cs!"fill", cs!"red"),
  (cs!"dxy", cs!"1 2"), (cs!"xy", cs!"5")]
/-- … and with `dx="1" dy="2"` for `dxy` -/
def rL2 : Elem := Elem.new cs!"rect" [(cs!"wh", cs!"10 20"), (cs!"fill", cs!"red"), (cs!"dx", cs!"1"), (cs!"dy", cs!"2"),
  (cs!"xy", cs!"5")]

theorem rS_rL_spelled : SpelledE cs!"wh" cs!"width" cs!"height" cs!"10 20" rS rL := by decide +kernel
theorem rS_family : (cs!"wh", cs!"width", cs!"height") ∈ sizeFamily := by decide +kernel
theorem rS_rL2_spelled : SpelledE cs!"dxy" cs!"dx" cs!"dy" cs!"1 2" rS rL2 := by decide +kernel
theorem rS_rL_resolve : attrsOf (rS.resolvePosition {}) = attrsOf (rL.resolvePosition {}) ∧
    attrsOf (rS.resolvePosition {}) = attrsOf (rL2.resolvePosition {}) ∧
    attrsOf (rS.resolvePosition {}) =
      [(['x'], cs!"6"), (['y'], cs!"7"), (cs!"width", cs!"10"), (cs!"height", cs!"20"), (cs!"fill", cs!"red")] := by
  decide +kernel

/-- `<circle xy="5, 6" xy-loc="br" r="2"/>` and `<circle x2="5" y2="6" r="2"/>` -/
def cS : Elem := Elem.new cs!"circle" [(cs!"xy", cs!"5, 6"), (cs!"xy-loc", cs!"br"), (['r'], cs!"2")]
def cL : Elem := Elem.new cs!"circle" [(cs!"x2", cs!"5"), (cs!"y2", cs!"6"), (['r'], cs!"2")]
theorem cS_cL_spelled : SpelledXYE cs!"5, 6" cS cL := by decide +kernel
theorem cS_cL_resolve : attrsOf (cS.resolvePosition {}) = attrsOf (cL.resolvePosition {}) ∧
    attrsOf (cS.resolvePosition {}) = [(cs!"cx", cs!"3"), (cs!"cy", cs!"4"), (['r'], cs!"2")] := by
  decide +kernel

/-- hypotheses of (c) -/
theorem cL_hyp : cL.name ∈ shapes ∧ (keys cL.attrs).Nodup ∧ cL.toPosition.to_bbox.isSome = true ∧
    cL.toPosition.has_x_position = true ∧ cL.toPosition.has_y_position = true := by decide +kernel

/-- an existing longhand attribute wins over the compound one: `<rect xy="0" width="7" wh="10 20"/>` -/
theorem longhand_wins :
    attrsOf ((Elem.new cs!"rect" [(cs!"xy", cs!"0"), (cs!"width", cs!"7"), (cs!"wh", cs!"10 20")]).resolvePosition {}) =
      [(['x'], cs!"0"), (['y'], cs!"0"), (cs!"width", cs!"7"), (cs!"height", cs!"20")] := by decide +kernel

/-- REPAIRED (was: `xy-loc` without `xy` stayed in the output): `<rect x="0" y="0" wh="10" xy-loc="c"/>` -/
theorem xy_loc_consumed :
    attrsOf ((Elem.new cs!"rect" [(['x'], cs!"0"), (['y'], cs!"0"), (cs!"wh", cs!"10"), (cs!"xy-loc", ['c'])]).resolvePosition {}) =
      [(['x'], cs!"0"), (['y'], cs!"0"), (cs!"width", cs!"10"), (cs!"height", cs!"10")] := by
  decide +kernel

/-- REPAIRED (was: `rxy` on anything but an ellipse was kept by the model and silently discarded by the
    code): `<rect xy="0" wh="10" rxy="3"/>` has the corner radii `rx="3" ry="3"`, and
    `<circle cxy="0" rxy="5"/>` is the circle of radius 5 that `rx="5" ry="5"` gives -/
theorem rxy_on_rect_model :
    attrsOf ((Elem.new cs!"rect" [(cs!"xy", cs!"0"), (cs!"wh", cs!"10"), (cs!"rxy", cs!"3")]).resolvePosition {}) =
      [(['x'], cs!"0"), (['y'], cs!"0"), (cs!"width", cs!"10"), (cs!"height", cs!"10"), (cs!"rx", cs!"3"),
       (cs!"ry", cs!"3")] ∧
    attrsOf ((Elem.new cs!"circle" [(cs!"cxy", cs!"0"), (cs!"rxy", cs!"5")]).resolvePosition {}) =
      [(cs!"cx", cs!"0"), (cs!"cy", cs!"0"), (['r'], cs!"5")] ∧
    attrsOf ((Elem.new cs!"circle" [(cs!"cxy", cs!"0"), (cs!"rx", cs!"5"), (cs!"ry", cs!"5")]).resolvePosition {}) =
      [(cs!"cx", cs!"0"), (cs!"cy", cs!"0"), (['r'], cs!"5")] := by
  decide +kernel

/-- FAILS (model = code): two compound attributes that expand to the same longhand names. The earlier
    block wins against a later compound attribute but loses against a longhand attribute:
    `<rect xy="1 2" xy-loc="c" cxy="3 4" wh="2"/>` vs `<rect xy="1 2" xy-loc="c" cx="3" cy="4" wh="2"/>` -/
theorem compound_against_compound :
    attrsOf ((Elem.new cs!"rect" [(cs!"xy", cs!"1 2"), (cs!"xy-loc", ['c']), (cs!"cxy", cs!"3 4"), (cs!"wh", ['2'])]).resolvePosition {}) =
      [(['x'], cs!"0"), (['y'], cs!"1"), (cs!"width", cs!"2"), (cs!"height", cs!"2")] ∧
    attrsOf ((Elem.new cs!"rect" [(cs!"xy", cs!"1 2"), (cs!"xy-loc", ['c']), (cs!"cx", ['3']), (cs!"cy", ['4']), (cs!"wh", ['2'])]).resolvePosition {}) =
      [(['x'], cs!"2"), (['y'], cs!"3"), (cs!"width", cs!"2"), (cs!"height", cs!"2")] := by
  decide +kernel

/-- a box without a position on either axis: `<rect wh="10"/>` keeps no `x` / `y` -/
theorem size_only :
    attrsOf ((Elem.new cs!"rect" [(cs!"wh", cs!"10")]).resolvePosition {}) =
      [(cs!"width", cs!"10"), (cs!"height", cs!"10")] := by decide +kernel

end Examples

end Props.C11x
end Svgdx
