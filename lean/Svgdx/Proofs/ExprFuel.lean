/-
  Svgdx.Proofs.ExprFuel — TOTALITY WITHOUT A FUEL ARTEFACT, for arbitrary input.

  Every recursion of the expression model (`Svgdx.Expr.{Token,Funcs,Eval}`) takes a `Nat` fuel, and the
  entry points choose it: `fuelFor ts = 16 * ts.length + 16` for the recursive descent,
  `env.length + 1` for nested variable lookups, `value.length + 1` for the string scanners.
  `Proofs/ExprTop` shows that this fuel is enough on PRINTED GRAMMAR TREES.  Here it is shown to be
  enough on EVERY token list and EVERY string, well formed or not:

  * `evaluate_ne_outOfFuel`  — the descent never runs out of `fuelFor ts`;
  * `lookup_ne_outOfFuel`    — nested lookups never run out of `env.length + 1` levels (cycle check);
  * `evalStr/evalExpr/evalAttr/evalCondition/evalList_ne_outOfFuel` — the entry points;
  * `evalExprAux_fuel_irrelevant`, `evalVarsAux_fuel_irrelevant`, `splitOnStrAux_fuel_irrelevant` —
    the scanners that silently STOP (rather than fail) at fuel 0 never get there: every fuel above the
    length of the input gives the same answer.

  No statement had to be weakened; no counterexample exists (see the sharpness examples at the end for
  how tight `env.length + 1` is).
-/
import Svgdx.Proofs.ExprInvAll
namespace Svgdx
namespace Expr
open Str

/-! ### 0. The leaves never answer `outOfFuel` -/

section
variable {α σ : Type}

theorem oneNumber_error (v : Value α) (e : Err) (h : v.oneNumber = .error e) : e = .parse := by
  unfold Value.oneNumber at h
  split at h <;> simp at h <;> exact h.symm

theorem numberList_error (v : Value α) (e : Err) (h : v.numberList = .error e) : e = .parse := by
  unfold Value.numberList at h
  split at h <;> simp at h <;> exact h.symm

theorem stringList_error (v : Value α) (e : Err) (h : v.stringList = .error e) : e = .parse := by
  unfold Value.stringList at h
  split at h <;> simp at h <;> exact h.symm

theorem numberPair_error (v : Value α) (e : Err) (h : v.numberPair = .error e) : e = .parse := by
  unfold Value.numberPair at h
  split at h <;> simp at h <;> exact h.symm

theorem numberTriple_error (v : Value α) (e : Err) (h : v.numberTriple = .error e) : e = .parse := by
  unfold Value.numberTriple at h
  split at h <;> simp at h <;> exact h.symm

theorem pair_error (v : Value α) (e : Err) (h : v.pair = .error e) : e = .parse := by
  unfold Value.pair at h
  split at h <;> simp at h <;> exact h.symm

theorem oneString_error (v : Value α) (e : Err) (h : v.oneString = .error e) : e = .parse := by
  unfold Value.oneString at h
  split at h <;> simp at h <;> exact h.symm

theorem stringPair_error (v : Value α) (e : Err) (h : v.stringPair = .error e) : e = .parse := by
  unfold Value.stringPair at h
  split at h <;> simp at h <;> exact h.symm

@[simp] theorem oneNumber_ne_oof (v : Value α) : (v.oneNumber = .error .outOfFuel) = False :=
  eq_false fun h => by cases oneNumber_error v _ h
@[simp] theorem numberList_ne_oof (v : Value α) : (v.numberList = .error .outOfFuel) = False :=
  eq_false fun h => by cases numberList_error v _ h
@[simp] theorem stringList_ne_oof (v : Value α) : (v.stringList = .error .outOfFuel) = False :=
  eq_false fun h => by cases stringList_error v _ h
@[simp] theorem numberPair_ne_oof (v : Value α) : (v.numberPair = .error .outOfFuel) = False :=
  eq_false fun h => by cases numberPair_error v _ h
@[simp] theorem numberTriple_ne_oof (v : Value α) : (v.numberTriple = .error .outOfFuel) = False :=
  eq_false fun h => by cases numberTriple_error v _ h
@[simp] theorem pair_ne_oof (v : Value α) : (v.pair = .error .outOfFuel) = False :=
  eq_false fun h => by cases pair_error v _ h
@[simp] theorem oneString_ne_oof (v : Value α) : (v.oneString = .error .outOfFuel) = False :=
  eq_false fun h => by cases oneString_error v _ h
@[simp] theorem stringPair_ne_oof (v : Value α) : (v.stringPair = .error .outOfFuel) = False :=
  eq_false fun h => by cases stringPair_error v _ h

variable (o : Ops α σ)

/-- no built-in function answers `outOfFuel` -/
theorem evalFunction_ne_outOfFuel (f : Func) (args : Value α) (st : σ) :
    evalFunction o f args st ≠ .error .outOfFuel := by
  intro h
  cases f <;> simp only [evalFunction] at h <;> (repeat' split at h) <;> simp_all

end

/-! ### 1. The recursive descent never runs out of `16 * ts.length + 16`

  Every call either consumes a token or moves down the fixed chain
  `exprList(7) → exprListLoop(6) → logical(5) → comparison(4) → term(3) → factor(2) → primary(1)`
  (the three operator loops sit at level 1), and a successful call never returns more tokens than it
  was given (`allInv` of `Proofs/ExprInvAll`).  So fuel `16 * ts.length + level` is enough for a function
  at that level; the number 16 only has to be at least 7.  `ck` is fixed: the descent never changes it,
  which is what lets `lookupN` below use the theorem with its own smaller instance as `lk`. -/

section
variable {α σ : Type} (o : Ops α σ) (lk : Lookup α σ) (elref : Str → Res α) (ck : List Str)

theorem Pre.length_le {ts ts' : List (Token α)} (h : Pre lk elref ts ts') :
    ts'.length ≤ ts.length := by
  obtain ⟨p, rfl, _, _⟩ := h
  simp

/-- fuel `16 * (tokens) + (level)` is enough, for every function of the descent at fuel `n` -/
structure AllFuel (n : Nat) : Prop where
  primary : ∀ ts st, 16 * ts.length + 1 ≤ n → primary o lk elref n ck ts st ≠ .error .outOfFuel
  factorLoop : ∀ acc ts st, 16 * ts.length + 1 ≤ n →
    factorLoop o lk elref n ck acc ts st ≠ .error .outOfFuel
  factor : ∀ ts st, 16 * ts.length + 2 ≤ n → factor o lk elref n ck ts st ≠ .error .outOfFuel
  termLoop : ∀ acc ts st, 16 * ts.length + 1 ≤ n →
    termLoop o lk elref n ck acc ts st ≠ .error .outOfFuel
  term : ∀ ts st, 16 * ts.length + 3 ≤ n → term o lk elref n ck ts st ≠ .error .outOfFuel
  comparison : ∀ ts st, 16 * ts.length + 4 ≤ n →
    comparison o lk elref n ck ts st ≠ .error .outOfFuel
  logicalLoop : ∀ acc ts st, 16 * ts.length + 1 ≤ n →
    logicalLoop o lk elref n ck acc ts st ≠ .error .outOfFuel
  logical : ∀ ts st, 16 * ts.length + 5 ≤ n → logical o lk elref n ck ts st ≠ .error .outOfFuel
  exprListLoop : ∀ out ts st, 16 * ts.length + 6 ≤ n →
    exprListLoop o lk elref n ck out ts st ≠ .error .outOfFuel
  exprList : ∀ b ts st, 16 * ts.length + 7 ≤ n →
    exprList o lk elref n ck b ts st ≠ .error .outOfFuel

theorem allFuel_zero : AllFuel o lk elref ck 0 := by
  constructor <;> intros <;> omega

theorem primary_fuel (hlk : ∀ v st, lk v ck st ≠ .error .outOfFuel)
    (hel : ∀ v, elref v ≠ .error .outOfFuel)
    (n : Nat) (ih : AllFuel o lk elref ck n) (ts : List (Token α)) (st : σ)
    (hf : 16 * ts.length + 1 ≤ n + 1) : primary o lk elref (n + 1) ck ts st ≠ .error .outOfFuel := by
  cases ts with
  | nil => simp [primary]
  | cons t r =>
    simp only [List.length_cons] at hf
    cases t with
    | number x => simp [primary]
    | string s => simp [primary]
    | var x =>
      have hv := hlk x st
      cases hl : lk x ck st with
      | error e => simp [primary, hl]; intro h; subst h; exact hv hl
      | ok res => obtain ⟨e, st1⟩ := res; simp [primary, hl]
    | elref x =>
      have hv := hel x
      cases hl : elref x with
      | error e => simp [primary, hl]; intro h; subst h; exact hv hl
      | ok y => simp [primary, hl]
    | openParen =>
      have hv := ih.exprList true r st (by omega)
      cases hx : exprList o lk elref n ck true r st with
      | error e => simp [primary, hx]; intro h; subst h; exact hv hx
      | ok res =>
        obtain ⟨e, ts1, st1⟩ := res
        cases ts1 with
        | nil => simp [primary, hx]
        | cons t1 ts2 => cases t1 <;> simp [primary, hx]
    | sub =>
      have hv := ih.primary r st (by omega)
      cases hx : primary o lk elref n ck r st with
      | error e => simp [primary, hx]; intro h; subst h; exact hv hx
      | ok res =>
        obtain ⟨v1, ts1, st1⟩ := res
        cases hn : v1.oneNumber with
        | error e => simp [primary, hx, hn]; intro h; subst h; simp at hn
        | ok x => simp [primary, hx, hn]
    | symbol name =>
      cases hp : parseFunction name with
      | unknown => simp [primary, hp]
      | unmodelled => simp [primary, hp]
      | known f =>
        cases r with
        | nil => simp [primary, hp]
        | cons t0 ts1 =>
          simp only [List.length_cons] at hf
          cases t0 <;> try (simp [primary, hp]; done)
          have hv := ih.exprList true ts1 st (by omega)
          cases hx : exprList o lk elref n ck true ts1 st with
          | error e => simp [primary, hp, hx]; intro h; subst h; exact hv hx
          | ok res =>
            obtain ⟨args, ts2, st1⟩ := res
            have hfn := evalFunction_ne_outOfFuel o f args st1
            cases he : evalFunction o f args st1 with
            | error e => simp [primary, hp, hx, he]; intro h; subst h; exact hfn he
            | ok res2 =>
              obtain ⟨e, st2⟩ := res2
              cases ts2 with
              | nil => simp [primary, hp, hx, he]
              | cons t2 ts3 => cases t2 <;> simp [primary, hp, hx, he]
    | closeParen => simp [primary]
    | comma => simp [primary]
    | add => simp [primary]
    | mul => simp [primary]
    | div => simp [primary]
    | mod => simp [primary]

theorem factorLoop_fuel (n : Nat) (ih : AllFuel o lk elref ck n) (acc : α) (ts : List (Token α))
    (st : σ) (hf : 16 * ts.length + 1 ≤ n + 1) :
    factorLoop o lk elref (n + 1) ck acc ts st ≠ .error .outOfFuel := by
  cases ts with
  | nil => simp [factorLoop]
  | cons t r =>
    simp only [List.length_cons] at hf
    have hv := ih.primary r st (by omega)
    cases t <;> try (simp [factorLoop]; done)
    all_goals
      cases hx : primary o lk elref n ck r st with
      | error e => simp [factorLoop, hx]; intro h; subst h; exact hv hx
      | ok res =>
        obtain ⟨v1, ts1, st1⟩ := res
        have hlen := Pre.length_le lk elref ((allInv o lk elref n).primary ck r st v1 ts1 st1 hx)
        cases hn : v1.oneNumber with
        | error e => simp [factorLoop, hx, hn]; intro h; subst h; simp at hn
        | ok y => simp [factorLoop, hx, hn]; exact ih.factorLoop _ ts1 st1 (by omega)

theorem factor_fuel (n : Nat) (ih : AllFuel o lk elref ck n) (ts : List (Token α)) (st : σ)
    (hf : 16 * ts.length + 2 ≤ n + 1) : factor o lk elref (n + 1) ck ts st ≠ .error .outOfFuel := by
  have hv := ih.primary ts st (by omega)
  cases hx : primary o lk elref n ck ts st with
  | error e => simp [factor, hx]; intro h; subst h; exact hv hx
  | ok res =>
    obtain ⟨v1, ts1, st1⟩ := res
    have hlen := Pre.length_le lk elref ((allInv o lk elref n).primary ck ts st v1 ts1 st1 hx)
    cases hn : v1.oneNumber with
    | error e => simp [factor, hx, hn]
    | ok x =>
      have hl := ih.factorLoop x ts1 st1 (by omega)
      cases hy : factorLoop o lk elref n ck x ts1 st1 with
      | error e => simp [factor, hx, hn, hy]; intro h; subst h; exact hl hy
      | ok res2 => obtain ⟨y, ts2, st2⟩ := res2; simp [factor, hx, hn, hy]

theorem termLoop_fuel (n : Nat) (ih : AllFuel o lk elref ck n) (acc : α) (ts : List (Token α))
    (st : σ) (hf : 16 * ts.length + 1 ≤ n + 1) :
    termLoop o lk elref (n + 1) ck acc ts st ≠ .error .outOfFuel := by
  cases ts with
  | nil => simp [termLoop]
  | cons t r =>
    simp only [List.length_cons] at hf
    have hv := ih.factor r st (by omega)
    cases t <;> try (simp [termLoop]; done)
    all_goals
      cases hx : factor o lk elref n ck r st with
      | error e => simp [termLoop, hx]; intro h; subst h; exact hv hx
      | ok res =>
        obtain ⟨v1, ts1, st1⟩ := res
        have hlen := Pre.length_le lk elref ((allInv o lk elref n).factor ck r st v1 ts1 st1 hx)
        cases hn : v1.oneNumber with
        | error e => simp [termLoop, hx, hn]; intro h; subst h; simp at hn
        | ok y => simp [termLoop, hx, hn]; exact ih.termLoop _ ts1 st1 (by omega)

theorem term_fuel (n : Nat) (ih : AllFuel o lk elref ck n) (ts : List (Token α)) (st : σ)
    (hf : 16 * ts.length + 3 ≤ n + 1) : term o lk elref (n + 1) ck ts st ≠ .error .outOfFuel := by
  have hv := ih.factor ts st (by omega)
  cases hx : factor o lk elref n ck ts st with
  | error e => simp [term, hx]; intro h; subst h; exact hv hx
  | ok res =>
    obtain ⟨v1, ts1, st1⟩ := res
    have hlen := Pre.length_le lk elref ((allInv o lk elref n).factor ck ts st v1 ts1 st1 hx)
    cases hn : v1.oneNumber with
    | error e => simp [term, hx, hn]
    | ok x =>
      have hl := ih.termLoop x ts1 st1 (by omega)
      cases hy : termLoop o lk elref n ck x ts1 st1 with
      | error e => simp [term, hx, hn, hy]; intro h; subst h; exact hl hy
      | ok res2 => obtain ⟨y, ts2, st2⟩ := res2; simp [term, hx, hn, hy]

theorem comparison_fuel (n : Nat) (ih : AllFuel o lk elref ck n) (ts : List (Token α)) (st : σ)
    (hf : 16 * ts.length + 4 ≤ n + 1) :
    comparison o lk elref (n + 1) ck ts st ≠ .error .outOfFuel := by
  have hv := ih.term ts st (by omega)
  cases hx : term o lk elref n ck ts st with
  | error e => simp [comparison, hx]; intro h; subst h; exact hv hx
  | ok res =>
    obtain ⟨v1, ts1, st1⟩ := res
    have hlen := Pre.length_le lk elref ((allInv o lk elref n).term ck ts st v1 ts1 st1 hx)
    cases hn : v1.oneNumber with
    | error e => simp [comparison, hx, hn]
    | ok first =>
      cases ts1 with
      | nil => simp [comparison, hx, hn]
      | cons t r =>
        simp only [List.length_cons] at hlen
        cases t <;> try (simp [comparison, hx, hn]; done)
        rename_i s
        cases hc : parseCmpOp s with
        | none => simp [comparison, hx, hn, hc]
        | some op =>
          have hv2 := ih.term r st1 (by omega)
          cases hx2 : term o lk elref n ck r st1 with
          | error e => simp [comparison, hx, hn, hc, hx2]; intro h; subst h; exact hv2 hx2
          | ok res2 =>
            obtain ⟨v2, ts2, st2⟩ := res2
            cases hn2 : v2.oneNumber with
            | error e => simp [comparison, hx, hn, hc, hx2, hn2]; intro h; subst h; simp at hn2
            | ok second => simp [comparison, hx, hn, hc, hx2, hn2]

theorem logicalLoop_fuel (n : Nat) (ih : AllFuel o lk elref ck n) (acc : Value α)
    (ts : List (Token α)) (st : σ) (hf : 16 * ts.length + 1 ≤ n + 1) :
    logicalLoop o lk elref (n + 1) ck acc ts st ≠ .error .outOfFuel := by
  cases ts with
  | nil => simp [logicalLoop]
  | cons t r =>
    simp only [List.length_cons] at hf
    cases t <;> try (simp [logicalLoop]; done)
    rename_i s
    cases hc : parseLogOp s with
    | none => simp [logicalLoop, hc]
    | some op =>
      have hv := ih.comparison r st (by omega)
      cases hx : comparison o lk elref n ck r st with
      | error e => simp [logicalLoop, hc, hx]; intro h; subst h; exact hv hx
      | ok res =>
        obtain ⟨v1, ts1, st1⟩ := res
        have hlen := Pre.length_le lk elref
          ((allInv o lk elref n).comparison ck r st v1 ts1 st1 hx)
        cases hn : v1.oneNumber with
        | error e => simp [logicalLoop, hc, hx, hn]; intro h; subst h; simp at hn
        | ok other =>
          cases ha : acc.oneNumber with
          | error e => simp [logicalLoop, hc, hx, hn, ha]; intro h; subst h; simp at ha
          | ok x =>
            simp [logicalLoop, hc, hx, hn, ha]
            exact ih.logicalLoop _ ts1 st1 (by omega)

theorem logical_fuel (n : Nat) (ih : AllFuel o lk elref ck n) (ts : List (Token α)) (st : σ)
    (hf : 16 * ts.length + 5 ≤ n + 1) : logical o lk elref (n + 1) ck ts st ≠ .error .outOfFuel := by
  have hv := ih.comparison ts st (by omega)
  cases hx : comparison o lk elref n ck ts st with
  | error e => simp [logical, hx]; intro h; subst h; exact hv hx
  | ok res =>
    obtain ⟨v1, ts1, st1⟩ := res
    have hlen := Pre.length_le lk elref ((allInv o lk elref n).comparison ck ts st v1 ts1 st1 hx)
    simp [logical, hx]
    exact ih.logicalLoop v1 ts1 st1 (by omega)

theorem exprListLoop_fuel (n : Nat) (ih : AllFuel o lk elref ck n) (out : List (Atom α))
    (ts : List (Token α)) (st : σ) (hf : 16 * ts.length + 6 ≤ n + 1) :
    exprListLoop o lk elref (n + 1) ck out ts st ≠ .error .outOfFuel := by
  have hv := ih.logical ts st (by omega)
  cases hx : logical o lk elref n ck ts st with
  | error e => simp [exprListLoop, hx]; intro h; subst h; exact hv hx
  | ok res =>
    obtain ⟨v1, ts1, st1⟩ := res
    have hlen := Pre.length_le lk elref ((allInv o lk elref n).logical ck ts st v1 ts1 st1 hx)
    cases ts1 with
    | nil => simp [exprListLoop, hx]
    | cons t r =>
      simp only [List.length_cons] at hlen
      cases t <;> try (simp [exprListLoop, hx]; done)
      simp [exprListLoop, hx]
      exact ih.exprListLoop _ r st1 (by omega)

theorem exprList_fuel (n : Nat) (ih : AllFuel o lk elref ck n) (b : Bool) (ts : List (Token α))
    (st : σ) (hf : 16 * ts.length + 7 ≤ n + 1) :
    exprList o lk elref (n + 1) ck b ts st ≠ .error .outOfFuel := by
  have loop := ih.exprListLoop [] ts st (by omega)
  cases b with
  | false => simp [exprList]; exact loop
  | true =>
    cases ts with
    | nil => simp [exprList]; exact loop
    | cons t r => cases t <;> simp [exprList] <;> exact loop

theorem allFuel (hlk : ∀ v st, lk v ck st ≠ .error .outOfFuel)
    (hel : ∀ v, elref v ≠ .error .outOfFuel) : ∀ n, AllFuel o lk elref ck n
  | 0 => allFuel_zero o lk elref ck
  | n + 1 =>
    have ih := allFuel hlk hel n
    { primary := primary_fuel o lk elref ck hlk hel n ih
      factorLoop := factorLoop_fuel o lk elref ck n ih
      factor := factor_fuel o lk elref ck n ih
      termLoop := termLoop_fuel o lk elref ck n ih
      term := term_fuel o lk elref ck n ih
      comparison := comparison_fuel o lk elref ck n ih
      logicalLoop := logicalLoop_fuel o lk elref ck n ih
      logical := logical_fuel o lk elref ck n ih
      exprListLoop := exprListLoop_fuel o lk elref ck n ih
      exprList := exprList_fuel o lk elref ck n ih }

/-- (1), sharp form: only the lookups made WITH THIS `ck` matter (the descent never changes `ck`) -/
theorem evaluate_ne_outOfFuel_ck (hlk : ∀ v st, lk v ck st ≠ .error .outOfFuel)
    (hel : ∀ v, elref v ≠ .error .outOfFuel) (ts : List (Token α)) (st : σ) :
    evaluate o lk elref ck ts st ≠ .error .outOfFuel := by
  have hv := (allFuel o lk elref ck hlk hel (fuelFor ts)).exprList false ts st
    (by unfold fuelFor; omega)
  unfold evaluate
  cases hx : exprList o lk elref (fuelFor ts) ck false ts st with
  | error e => simp; intro h; subst h; exact hv hx
  | ok res =>
    obtain ⟨e, ts1, st1⟩ := res
    cases ts1 <;> simp

end

section
variable {α σ : Type} (o : Ops α σ) (lk : Lookup α σ) (elref : Str → Res α)

/-- (1) the descent never runs out of `fuelFor ts = 16 * ts.length + 16`, on ANY token list -/
theorem evaluate_ne_outOfFuel (hlk : ∀ v ck st, lk v ck st ≠ .error .outOfFuel)
    (hel : ∀ v, elref v ≠ .error .outOfFuel) (ck : List Str) (ts : List (Token α)) (st : σ) :
    evaluate o lk elref ck ts st ≠ .error .outOfFuel :=
  evaluate_ne_outOfFuel_ck o lk elref ck (fun v st => hlk v ck st) hel ts st

end

/-! ### 2. The tokenizer has no fuel and never answers `outOfFuel` -/

section
variable {α σ : Type} (o : Ops α σ)

theorem tokenizeAtom_error (s : Str) (e : Err) (h : tokenizeAtom o s = .error e) : e = .parse := by
  unfold tokenizeAtom at h
  repeat' split at h
  all_goals first | (cases h; done) | (cases h; rfl) | skip
  all_goals (dsimp only at h; repeat' split at h)
  all_goals first | (cases h; done) | (cases h; rfl)

theorem flushBuf_error (buf : Str) (toks : List (Token α)) (e : Err)
    (h : flushBuf o buf toks = .error e) : e = .parse := by
  unfold flushBuf at h
  repeat' split at h
  all_goals first | (cases h; done) | skip
  rename_i e' he
  simp at h
  subst h
  exact tokenizeAtom_error o _ _ he

theorem tokLoop_error (s : Str) (toks : List (Token α)) (buf : Str) (ie : Bool) (q : Option Char)
    (esc : Bool) (e : Err) (h : tokLoop o s toks buf ie q esc = .error e) : e = .parse := by
  induction s generalizing toks buf ie q esc with
  | nil =>
    unfold tokLoop at h
    repeat' split at h
    all_goals first | (cases h; done) | (cases h; rfl) | skip
    · rename_i e' he
      simp at h
      subst h
      exact flushBuf_error o _ _ _ he
  | cons ch rest ih =>
    cases q with
    | some qt =>
      unfold tokLoop at h
      repeat' split at h
      all_goals exact ih _ _ _ _ _ h
    | none =>
      unfold tokLoop at h
      repeat' split at h
      all_goals first | exact ih _ _ _ _ _ h | skip
      all_goals
        rename_i e' he
        simp at h
        subst h
        exact flushBuf_error o _ _ _ he

theorem tokenize_error (s : Str) (e : Err) (h : tokenize o s = .error e) : e = .parse :=
  tokLoop_error o s _ _ _ _ _ e h

theorem tokenize_ne_outOfFuel (s : Str) : tokenize o s ≠ .error .outOfFuel := by
  intro h
  cases tokenize_error o s _ h

end

/-! ### 3. Nested variable lookups never run out of `env.length + 1` levels

  The measure is the number of entries of `env` whose key is not yet in `checked_vars`.  `lookupN`
  refuses a name that is in `ck` (`circular`) and a name that is not a key of `env` (`parse`); otherwise
  the name it pushes removes at least one entry from the count.  No side condition on `ck` is needed. -/

section
variable {α σ : Type} (o : Ops α σ)

/-- entries of `env` whose key is not in `ck` -/
def freeCount : Env → List Str → Nat
  | [], _ => 0
  | (k, _) :: r, ck => (if ck.contains k then 0 else 1) + freeCount r ck

theorem freeCount_le (env : Env) (ck : List Str) : freeCount env ck ≤ env.length := by
  induction env with
  | nil => simp [freeCount]
  | cons p env ih =>
    obtain ⟨k, w⟩ := p
    simp only [freeCount, List.length_cons]
    split <;> omega

theorem freeCount_cons_le (env : Env) (v : Str) (ck : List Str) :
    freeCount env (v :: ck) ≤ freeCount env ck := by
  induction env with
  | nil => simp [freeCount]
  | cons p env ih =>
    obtain ⟨k, w⟩ := p
    simp only [freeCount, List.contains_cons]
    cases h1 : (k == v) <;> cases h2 : ck.contains k <;> simp <;> omega

theorem freeCount_cons_lt (env : Env) (v : Str) (ck : List Str) (inner : Str)
    (hv : ck.contains v = false) (ha : assoc v env = some inner) :
    freeCount env (v :: ck) < freeCount env ck := by
  induction env with
  | nil => simp [assoc] at ha
  | cons p env ih =>
    obtain ⟨k, w⟩ := p
    simp only [assoc] at ha
    split at ha
    · rename_i hk
      have hkv : v = k := by simpa using hk
      subst hkv
      have hle := freeCount_cons_le env v ck
      have hvv : (v == v) = true := by simp
      simp only [freeCount, List.contains_cons, hv, hvv, Bool.true_or]
      simp
      omega
    · rename_i hk
      have hlt := ih ha
      have hkv : (k == v) = false := by
        cases h : k == v
        · rfl
        · exfalso
          have hkv : k = v := by simpa using h
          subst hkv
          simp at hk
      simp only [freeCount, List.contains_cons, hkv, Bool.false_or]
      omega

variable (env : Env) (elref : Str → Res α)

theorem lookupN_ne_outOfFuel (hel : ∀ v, elref v ≠ .error .outOfFuel) :
    ∀ (n base : Nat) (v : Str) (ck : List Str) (st : σ), freeCount env ck + 1 ≤ n →
      lookupN o env elref n base v ck st ≠ .error .outOfFuel := by
  intro n
  induction n with
  | zero => intro base v ck st h; omega
  | succ n ih =>
    intro base v ck st hn
    unfold lookupN
    split
    · simp
    · rename_i hc
      have hc' : ck.contains v = false := by simpa using hc
      split
      · simp
      · rename_i inner ha
        have hlt := freeCount_cons_lt env v ck inner hc' ha
        split
        · rename_i e he
          intro h
          have := tokenize_error o inner e he
          simp at h
          subst h
          cases this
        · simp
        · unfold evaluateAt
          split
          · simp
          · exact evaluate_ne_outOfFuel_ck o (lookupN o env elref n _) elref (v :: ck)
              (fun v' st' => ih _ v' (v :: ck) st' (by omega)) hel _ st

/-- (2) the cycle check bounds the nesting depth: `env.length + 1` levels are always enough,
    whatever `checked_vars` the caller starts from -/
theorem lookup_ne_outOfFuel (hel : ∀ v, elref v ≠ .error .outOfFuel) (base : Nat) (v : Str)
    (ck : List Str) (st : σ) : lookup o env elref base v ck st ≠ .error .outOfFuel :=
  lookupN_ne_outOfFuel o env elref hel (env.length + 1) base v ck st
    (by have := freeCount_le env ck; omega)

end

/-! ### 4. The string scanners

  `evalExprAux` (the `{{…}}` scanner), `evalVarsAux` (the `$var` scanner) and `splitOnStrAux` (the
  `split` built-in) do not FAIL at fuel 0, they STOP and return the rest of the text unprocessed.  That
  branch is never the reason for an answer: each step removes at least one character (`{{`, `$`, the
  separator), so every fuel above the length of the text gives the same result as the
  `length + 1` the entry points supply. -/

theorem breakOn_some_length (f : Char → Bool) (s pre : Str) (c : Char) (rem : Str)
    (h : breakOn f s = (pre, some (c, rem))) : pre.length + rem.length + 1 = s.length := by
  induction s generalizing pre with
  | nil => simp [breakOn] at h
  | cons d ds ih =>
    simp only [breakOn] at h
    split at h
    · simp at h
      obtain ⟨rfl, rfl, rfl⟩ := h
      simp
    · cases hb : breakOn f ds with
      | mk a r =>
        rw [hb] at h
        simp at h
        obtain ⟨rfl, rfl⟩ := h
        have := ih a hb
        simp
        omega

theorem evalVarsAux_stable (env : Env) : ∀ (fuel fuel' : Nat) (value : Str),
    value.length < fuel → value.length < fuel' →
    evalVarsAux env fuel value = evalVarsAux env fuel' value := by
  intro fuel
  induction fuel with
  | zero => intros; omega
  | succ n ih =>
    intro fuel' value h1 h2
    cases fuel' with
    | zero => omega
    | succ m =>
      simp only [evalVarsAux]
      split
      · rfl
      · rename_i pre c remain hb
        have hlen := breakOn_some_length _ _ _ _ _ hb
        split
        · rw [ih m remain (by omega) (by omega)]
        · split
          · rename_i inner
            simp only [List.length_cons] at hlen
            split
            · rename_i name c2 after hb2
              have hlen2 := breakOn_some_length _ _ _ _ _ hb2
              rw [ih m after (by omega) (by omega)]
            · rfl
          · split
            · rename_i name c2 after hb2
              have hlen2 := breakOn_some_length _ _ _ _ _ hb2
              rw [ih m (c2 :: after) (by simp only [List.length_cons]; omega) (by simp only [List.length_cons]; omega)]
            · rfl

theorem findSub_lt (pat s : Str) (i : Nat) (hp : pat ≠ []) (h : findSub pat s = some i) :
    i < s.length := by
  induction s generalizing i with
  | nil =>
    cases pat with
    | nil => exact absurd rfl hp
    | cons a b => simp [findSub] at h
  | cons c cs ih =>
    simp only [findSub] at h
    split at h
    · simp at h; subst h; simp
    · cases hf : findSub pat cs with
      | none => simp [hf] at h
      | some j =>
        simp [hf] at h
        subst h
        have := ih j hf
        simp
        omega

theorem splitOnSub_length (pat s pre rest : Str) (hp : pat ≠ [])
    (h : splitOnSub pat s = some (pre, rest)) : rest.length < s.length := by
  unfold splitOnSub at h
  cases hf : findSub pat s with
  | none => simp [hf] at h
  | some i =>
    have hi := findSub_lt pat s i hp hf
    simp [hf] at h
    obtain ⟨_, rfl⟩ := h
    have hpl : 0 < pat.length := by
      cases pat with
      | nil => exact absurd rfl hp
      | cons a b => simp
    rw [List.length_drop]
    omega

section
variable {α σ : Type} (o : Ops α σ) (env : Env) (elref : Str → Res α)

theorem evalExprAux_stable : ∀ (fuel fuel' : Nat) (value : Str) (st : σ),
    value.length < fuel → value.length < fuel' →
    evalExprAux o env elref fuel value st = evalExprAux o env elref fuel' value st := by
  intro fuel
  induction fuel with
  | zero => intros; omega
  | succ n ih =>
    intro fuel' value st h1 h2
    cases fuel' with
    | zero => omega
    | succ m =>
      simp only [evalExprAux]
      split
      · rfl
      · rename_i pre rest hs1
        have hl1 := splitOnSub_length _ _ _ _ (by simp) hs1
        split
        · rfl
        · rename_i inner after hs2
          have hl2 := splitOnSub_length _ _ _ _ (by simp) hs2
          split
          · rfl
          · rename_i s st' hev
            rw [ih m after st' (by omega) (by omega)]

theorem evalStr_ne_outOfFuel (hel : ∀ v, elref v ≠ .error .outOfFuel) (value : Str) (st : σ) :
    evalStr o env elref value st ≠ .error .outOfFuel := by
  unfold evalStr
  split
  · rename_i e he
    intro h
    simp at h
    subst h
    cases tokenize_error o _ _ he
  · rename_i ts hts
    have hv : evaluateAt o (lookup o env elref) elref 0 [] ts st ≠ .error .outOfFuel := by
      unfold evaluateAt
      split
      · simp
      · exact evaluate_ne_outOfFuel o (lookup o env elref _) elref
          (fun v ck st => lookup_ne_outOfFuel o env elref hel _ v ck st) hel [] ts st
    split
    · simp
    · rename_i e he
      intro h
      simp at h
      subst h
      exact hv he

theorem evalExprAux_ne_outOfFuel (hel : ∀ v, elref v ≠ .error .outOfFuel) :
    ∀ (fuel : Nat) (value : Str) (st : σ),
      evalExprAux o env elref fuel value st ≠ .error .outOfFuel := by
  intro fuel
  induction fuel with
  | zero => intro value st; simp [evalExprAux]
  | succ n ih =>
    intro value st
    simp only [evalExprAux]
    split
    · simp
    · split
      · simp
      · rename_i inner after _
        split
        · rename_i e he
          intro h
          simp at h
          subst h
          exact evalStr_ne_outOfFuel o env elref hel _ _ he
        · rename_i s st' _
          have := ih after st'
          split
          · simp
          · rename_i e he
            intro h
            simp at h
            subst h
            exact this he

end

section
variable {α σ : Type} (o : Ops α σ) (env : Env) (elref : Str → Res α)

/-- the fuel-0 branch of the `{{…}}` scanner is never reached from `evalExpr`: any larger fuel gives
    the same answer -/
theorem evalExprAux_fuel_irrelevant (fuel : Nat) (value : Str) (st : σ)
    (h : value.length + 1 ≤ fuel) :
    evalExprAux o env elref fuel value st = evalExpr o env elref value st :=
  evalExprAux_stable o env elref fuel (value.length + 1) value st (by omega) (by omega)

/-- the fuel-0 branch of the `$var` scanner is never reached from `evalVars` -/
theorem evalVarsAux_fuel_irrelevant (fuel : Nat) (value : Str) (h : value.length + 1 ≤ fuel) :
    evalVarsAux env fuel value = evalVars env value :=
  evalVarsAux_stable env fuel (value.length + 1) value (by omega) (by omega)

/-! ### 5. The entry points -/

variable (hel : ∀ v, elref v ≠ .error .outOfFuel)
include hel

theorem evalExpr_ne_outOfFuel (value : Str) (st : σ) :
    evalExpr o env elref value st ≠ .error .outOfFuel :=
  evalExprAux_ne_outOfFuel o env elref hel _ value st

/-- (3) `eval_attr` -/
theorem evalAttr_ne_outOfFuel (value : Str) (st : σ) :
    evalAttr o env elref value st ≠ .error .outOfFuel :=
  evalExpr_ne_outOfFuel o env elref hel _ st

omit hel in
theorem stripExprBraces_error (value : Str) (e : Err) (h : stripExprBraces value = .error e) :
    e = .parse := by
  unfold stripExprBraces at h
  repeat' split at h
  all_goals first | (cases h; done) | (cases h; rfl)

/-- (3) `eval_condition` -/
theorem evalCondition_ne_outOfFuel (value : Str) (st : σ) :
    evalCondition o env elref value st ≠ .error .outOfFuel := by
  unfold evalCondition
  split
  · rename_i e he
    intro h
    simp at h
    subst h
    cases stripExprBraces_error _ _ he
  · rename_i v _
    split
    · rename_i e he
      intro h
      simp at h
      subst h
      exact evalStr_ne_outOfFuel o env elref hel _ _ he
    · split <;> simp

/-- (3) `eval_list` -/
theorem evalList_ne_outOfFuel (value : Str) (st : σ) :
    evalList o env elref value st ≠ .error .outOfFuel := by
  unfold evalList
  split
  · rename_i e he
    intro h
    simp at h
    subst h
    cases stripExprBraces_error _ _ he
  · rename_i v _
    split
    · rename_i e he
      intro h
      simp at h
      subst h
      cases tokenize_error o _ _ he
    · rename_i ts _
      have hv : evaluateAt o (lookup o env elref) elref 0 [] ts st ≠ .error .outOfFuel := by
        unfold evaluateAt
        split
        · simp
        · exact evaluate_ne_outOfFuel o (lookup o env elref _) elref
            (fun v ck st => lookup_ne_outOfFuel o env elref hel _ v ck st) hel [] ts st
      split
      · simp
      · rename_i e he
        intro h
        simp at h
        subst h
        exact hv he

end

/-! ### 6. The `split` built-in -/

theorem stripPrefix_length (p s rest : Str) (h : stripPrefix p s = some rest) :
    rest.length + p.length = s.length := by
  induction p generalizing s with
  | nil => simp [stripPrefix] at h; subst h; simp
  | cons a p' ih =>
    cases s with
    | nil => simp [stripPrefix] at h
    | cons b s' =>
      simp only [stripPrefix] at h
      split at h
      · have := ih s' h
        simp only [List.length_cons]
        omega
      · cases h

theorem splitOnStrAux_stable (pat : Str) (hp : pat ≠ []) : ∀ (fuel fuel' : Nat) (s cur : Str),
    s.length < fuel → s.length < fuel' →
    splitOnStrAux pat fuel s cur = splitOnStrAux pat fuel' s cur := by
  have hpl : 0 < pat.length := by
    cases pat with
    | nil => exact absurd rfl hp
    | cons a b => simp
  intro fuel
  induction fuel with
  | zero => intros; omega
  | succ n ih =>
    intro fuel' s cur h1 h2
    cases fuel' with
    | zero => omega
    | succ m =>
      cases s with
      | nil => simp [splitOnStrAux]
      | cons c cs =>
        simp only [List.length_cons] at h1 h2
        simp only [splitOnStrAux]
        split
        · rename_i rest hr
          have := stripPrefix_length _ _ _ hr
          simp only [List.length_cons] at this
          rw [ih m rest [] (by omega) (by omega)]
        · rw [ih m cs _ (by omega) (by omega)]

/-- the fuel-0 branch of `split` (the built-in) is never reached from `splitOnStr` -/
theorem splitOnStrAux_fuel_irrelevant (pat s : Str) (hp : pat ≠ []) (fuel : Nat)
    (h : s.length + 1 ≤ fuel) : splitOnStrAux pat fuel s [] = splitOnStr pat s := by
  have hne : pat.isEmpty = false := by
    cases pat with
    | nil => exact absurd rfl hp
    | cons a b => rfl
  simp only [splitOnStr, hne]
  exact splitOnStrAux_stable pat hp fuel (s.length + 1) s [] (by omega) (by omega)

/-! ### 7. Non-vacuity -/

namespace FuelDemo

def showNat : Nat → Nat → Str
  | 0, _ => []
  | fuel + 1, n =>
    if n < 10 then [Char.ofNat (48 + n)] else showNat fuel (n / 10) ++ [Char.ofNat (48 + n % 10)]

def showInt (i : Int) : Str :=
  if i < 0 then '-' :: showNat 20 i.natAbs else showNat 20 i.toNat

/-- the small kernel-evaluable `Int` instance of `Props/C14` (`demoOps`), copied: this module is below
    `Props/C14` in the import order -/
def ops : Ops Int Nat where
  parse := fun s => if !s.isEmpty && s.all Str.isDigit then some (Num.digitsToNat s : Int) else none
  fstr := showInt
  zero := 0
  one := 1
  add := (· + ·)
  sub := (· - ·)
  mul := (· * ·)
  div := Int.tdiv
  remEuclid := Int.emod
  divEuclid := Int.ediv
  neg := fun x => -x
  lt := fun a b => decide (a < b)
  le := fun a b => decide (a ≤ b)
  eq := fun a b => a == b
  totalLe := fun a b => decide (a ≤ b)
  isNaN := fun _ => false
  floor := id
  ceil := id
  trunc := id
  abs := fun x => (x.natAbs : Int)
  signum := Int.sign
  sqrt := id
  ln := id
  exp := id
  pow := fun a b => a ^ b.toNat
  sin := id
  cos := id
  tan := id
  asin := id
  acos := id
  atan := id
  atan2 := fun a _ => a
  hypot := fun a _ => a
  toRadians := id
  toDegrees := id
  toUsize := Int.toNat
  toI32 := id
  ofNat := fun n => (n : Int)
  random := fun n => ((n : Int) + 10, n + 1)
  randint := fun lo _ n => (lo, n + 1)

def noRef : Str → Res Int := fun _ => .error .reference

/-- the error class of a result (results of `evaluate` have no decidable equality) -/
def errOf {β : Type} : Res β → Option Err
  | .ok _ => none
  | .error e => some e

/-- core has no `DecidableEq (Except ε β)`; kept local to these examples -/
@[instance_reducible] def decEqExcept {ε β : Type} [DecidableEq ε] [DecidableEq β] : DecidableEq (Except ε β)
  | .ok a, .ok b => if h : a = b then isTrue (by rw [h]) else isFalse (fun h' => h (by cases h'; rfl))
  | .error a, .error b =>
    if h : a = b then isTrue (by rw [h]) else isFalse (fun h' => h (by cases h'; rfl))
  | .ok _, .error _ => isFalse (fun h => by cases h)
  | .error _, .ok _ => isFalse (fun h => by cases h)

attribute [local instance] decEqExcept

def chainEnv : Env := [(cs!"a", cs!"$b + 1"), (cs!"b", cs!"$c + 1"), (cs!"c", cs!"7")]
def loopEnv : Env := [(cs!"a", cs!"$b"), (cs!"b", cs!"$a")]

-- the hypothesis on `elref` is satisfiable
example : ∀ v, noRef v ≠ .error .outOfFuel := by intro v h; cases h

-- deeply nested malformed input: a proper `ParseError`, not `outOfFuel`
example : evalStr ops [] noRef cs!"((((" 0 = .error .parse := by decide
example : evalStr ops [] noRef cs!"((((((((((((((((1" 0 = .error .parse := by decide
example : evalStr ops [] noRef cs!"1 + (2 * (3 - (4 / (" 0 = .error .parse := by decide
example : evalStr ops [] noRef cs!"- - - - - - - -" 0 = .error .parse := by decide
example : evalStr ops [] noRef cs!"abs(abs(abs(abs(" 0 = .error .parse := by decide
example : errOf (evaluate ops (fun _ _ _ => .error .parse) noRef [] (List.replicate 12 .openParen) 0)
    = some .parse := by decide
/-- 200 unclosed-by-one parentheses (fuel 6416): still a `ParseError` (kernel evaluation) -/
theorem deep_parens_parse_error : errOf (evaluate ops (fun _ _ _ => .error .parse) noRef []
    (List.replicate 200 .openParen ++ [.number 1] ++ List.replicate 199 .closeParen) 0)
    = some .parse := by decide +kernel
-- deeply nested well-formed input and a long chain: a value
example : evalStr ops [] noRef cs!"((((((((((((1))))))))))))" 0 = .ok (cs!"1", 0) := by decide
example : evalStr ops [] noRef cs!"- - - - - - - - 5" 0 = .ok (cs!"5", 0) := by decide
example : evalStr ops [] noRef
    cs!"1 + 1 + 1 + 1 + 1 + 1 + 1 + 1 + 1 + 1 + 1 + 1 + 1 + 1 + 1 + 1 + 1 + 1 + 1 + 1" 0
    = .ok (cs!"20", 0) := by decide
example : evalStr ops [] noRef cs!"1, 2, 3, 4, 5, 6, 7, 8, 9, 10, 11, 12" 0
    = .ok (cs!"1, 2, 3, 4, 5, 6, 7, 8, 9, 10, 11, 12", 0) := by decide
-- the other entry points, on malformed input
example : evalAttr ops [] noRef cs!"x={{((((}} y={{1 +}} $z ${" 0 = .error .parse := by decide
example : evalAttr ops [] noRef cs!"x={{1 + 2}} {{ {{ $z ${" 0 = .ok (cs!"x=3  {{ $z ${", 0) := by
  decide
example : evalCondition ops [] noRef cs!"{{(1 lt 2" 0 = .error .parse := by decide
example : evalList ops [] noRef cs!"{{1, (2, (3, (4}}" 0 = .error .parse := by decide
-- variable nesting as deep as the environment is long: a value
example : evalStr ops chainEnv noRef cs!"$a" 0 = .ok (cs!"9", 0) := by decide
-- a cycle through the whole environment: `CircularRefError`, not `outOfFuel`
example : evalStr ops loopEnv noRef cs!"$a" 0 = .error .circular := by decide
-- sharpness of `env.length + 1`: with only `env.length` levels the cycle WOULD be an `outOfFuel`
example : errOf (lookupN ops loopEnv noRef loopEnv.length 0 cs!"a" [] 0) = some .outOfFuel := by decide
example : errOf (lookup ops loopEnv noRef 0 cs!"a" [] 0) = some .circular := by decide

end FuelDemo

/-! ### 8. Axioms -/

#print axioms evaluate_ne_outOfFuel_ck
#print axioms evaluate_ne_outOfFuel
#print axioms tokenize_ne_outOfFuel
#print axioms lookupN_ne_outOfFuel
#print axioms lookup_ne_outOfFuel
#print axioms evalStr_ne_outOfFuel
#print axioms evalExprAux_ne_outOfFuel
#print axioms evalExpr_ne_outOfFuel
#print axioms evalAttr_ne_outOfFuel
#print axioms evalCondition_ne_outOfFuel
#print axioms evalList_ne_outOfFuel
#print axioms evalExprAux_fuel_irrelevant
#print axioms evalVarsAux_fuel_irrelevant
#print axioms splitOnStrAux_fuel_irrelevant
#print axioms FuelDemo.deep_parens_parse_error

end Expr
end Svgdx
