/-
  Svgdx.Proofs.ExprDraws — how the state of the random source moves: only `random()` and `randint()`
  touch it, each exactly once per evaluated occurrence; every operand of every operator and every
  argument of every function is evaluated (no short circuit).
-/
import Svgdx.Proofs.ExprTop
namespace Svgdx
namespace Expr
open Str

section
variable {α σ : Type} (o : Ops α σ)

/-- a successful function call leaves the random source alone, except `random` / `randint`,
    which advance it by exactly one call -/
theorem evalFunction_state (f : Func) (args : Value α) (st st' : σ) (v : Value α)
    (h : evalFunction o f args st = .ok (v, st')) :
    (f ≠ .Random ∧ f ≠ .RandInt ∧ st' = st) ∨ (f = .Random ∧ st' = (o.random st).2) ∨
      (f = .RandInt ∧ ∃ lo hi, st' = (o.randint lo hi st).2) := by
  cases f
  case RandInt =>
    simp only [evalFunction] at h
    (repeat' split at h) <;> simp_all
    exact ⟨_, _, h.2.symm⟩
  all_goals (simp only [evalFunction] at h <;> (repeat' split at h) <;> simp_all)

variable (lk : Lookup α σ) (elref : Str → Res α)
variable (m : σ → Nat) (vd : Str → Nat)

/-- the hypotheses of the counting theorem: `m` observes the number of `random()`/`randint()` calls
    made on a state, and evaluating variable `v` makes `vd v` of them -/
structure Counts : Prop where
  random : ∀ s, m (o.random s).2 = m s + 1
  randint : ∀ lo hi s, m (o.randint lo hi s).2 = m s + 1
  lookup : ∀ v ck s r s', lk v ck s = .ok (r, s') → m s' = m s + vd v

theorem evalFunction_count (hc : Counts o lk m vd) (f : Func) (args : Value α) (st st' : σ)
    (v : Value α) (h : evalFunction o f args st = .ok (v, st')) :
    m st' = m st + (if f = .Random ∨ f = .RandInt then 1 else 0) := by
  rcases evalFunction_state o f args st st' v h with ⟨h1, h2, rfl⟩ | ⟨rfl, rfl⟩ | ⟨rfl, lo, hi, rfl⟩
  · simp [h1, h2]
  · simp [hc.random]
  · simp [hc.randint]

mutual
theorem dPrim_count (hc : Counts o lk m vd) (p : Prim α) (ck : List Str) (st st' : σ) (v : Value α)
    (hd : dPrim o lk elref p ck st = .ok (v, st')) : m st' = m st + rcPrim vd p := by
  cases p with
  | num x => simp [dPrim] at hd; simp [rcPrim, hd.2.symm]
  | str s => simp [dPrim] at hd; simp [rcPrim, hd.2.symm]
  | var x => simp [dPrim] at hd; simpa [rcPrim] using hc.lookup x ck st v st' hd
  | elref x =>
    cases he : elref x with
    | error e => simp [dPrim, he] at hd
    | ok y => simp [dPrim, he] at hd; simp [rcPrim, hd.2.symm]
  | paren a => simp [dPrim] at hd; simpa [rcPrim] using dArgs_count hc a ck st st' v hd
  | neg q =>
    cases hq : dPrim o lk elref q ck st with
    | error e => simp [dPrim, hq] at hd
    | ok r =>
      obtain ⟨v1, st1⟩ := r
      have ih := dPrim_count hc q ck st st1 v1 hq
      cases hn : v1.oneNumber with
      | error e => simp [dPrim, hq, hn] at hd
      | ok x => simp [dPrim, hq, hn] at hd; simp [rcPrim, ← hd.2, ih]
  | call f a =>
    cases ha : dArgs o lk elref a ck st with
    | error e => simp [dPrim, ha] at hd
    | ok r =>
      obtain ⟨args, st1⟩ := r
      simp [dPrim, ha] at hd
      have ih := dArgs_count hc a ck st st1 args ha
      have hf := evalFunction_count o lk m vd hc f args st1 st' v hd
      simp [rcPrim, hf, ih, Nat.add_assoc]
theorem dMulTail_count (hc : Counts o lk m vd) (tl : MulTail α) (acc y : α) (ck : List Str)
    (st st' : σ) (hd : dMulTail o lk elref acc tl ck st = .ok (y, st')) :
    m st' = m st + rcMulTail vd tl := by
  cases tl with
  | nil => simp [dMulTail] at hd; simp [rcMulTail, hd.2.symm]
  | cons op p tl =>
    cases hp : dPrim o lk elref p ck st with
    | error e => simp [dMulTail, hp] at hd
    | ok r =>
      obtain ⟨v1, st1⟩ := r
      have ih1 := dPrim_count hc p ck st st1 v1 hp
      cases hn : v1.oneNumber with
      | error e => simp [dMulTail, hp, hn] at hd
      | ok x =>
        simp [dMulTail, hp, hn] at hd
        have ih2 := dMulTail_count hc tl _ y ck st1 st' hd
        simp [rcMulTail, ih2, ih1, Nat.add_assoc]
theorem dFact_count (hc : Counts o lk m vd) (f : Fact α) (ck : List Str) (st st' : σ) (v : Value α)
    (hd : dFact o lk elref f ck st = .ok (v, st')) : m st' = m st + rcFact vd f := by
  cases f with
  | mk p tl =>
    cases hp : dPrim o lk elref p ck st with
    | error e => simp [dFact, hp] at hd
    | ok r =>
      obtain ⟨v1, st1⟩ := r
      have ih1 := dPrim_count hc p ck st st1 v1 hp
      cases hn : v1.oneNumber with
      | error e =>
        cases tl with
        | nil => simp [dFact, hp, hn] at hd; simp [rcFact, rcMulTail, ← hd.2, ih1]
        | cons op q tl => simp [dFact, hp, hn] at hd
      | ok x =>
        cases ht : dMulTail o lk elref x tl ck st1 with
        | error e => simp [dFact, hp, hn, ht] at hd
        | ok r2 =>
          obtain ⟨y, st2⟩ := r2
          simp [dFact, hp, hn, ht] at hd
          have ih2 := dMulTail_count hc tl x y ck st1 st2 ht
          simp [rcFact, ← hd.2, ih2, ih1, Nat.add_assoc]
theorem dAddTail_count (hc : Counts o lk m vd) (tl : AddTail α) (acc y : α) (ck : List Str)
    (st st' : σ) (hd : dAddTail o lk elref acc tl ck st = .ok (y, st')) :
    m st' = m st + rcAddTail vd tl := by
  cases tl with
  | nil => simp [dAddTail] at hd; simp [rcAddTail, hd.2.symm]
  | cons b f tl =>
    cases hp : dFact o lk elref f ck st with
    | error e => simp [dAddTail, hp] at hd
    | ok r =>
      obtain ⟨v1, st1⟩ := r
      have ih1 := dFact_count hc f ck st st1 v1 hp
      cases hn : v1.oneNumber with
      | error e => simp [dAddTail, hp, hn] at hd
      | ok x =>
        simp [dAddTail, hp, hn] at hd
        have ih2 := dAddTail_count hc tl _ y ck st1 st' hd
        simp [rcAddTail, ih2, ih1, Nat.add_assoc]
theorem dTerm_count (hc : Counts o lk m vd) (t : Term α) (ck : List Str) (st st' : σ) (v : Value α)
    (hd : dTerm o lk elref t ck st = .ok (v, st')) : m st' = m st + rcTerm vd t := by
  cases t with
  | mk f tl =>
    cases hp : dFact o lk elref f ck st with
    | error e => simp [dTerm, hp] at hd
    | ok r =>
      obtain ⟨v1, st1⟩ := r
      have ih1 := dFact_count hc f ck st st1 v1 hp
      cases hn : v1.oneNumber with
      | error e =>
        cases tl with
        | nil => simp [dTerm, hp, hn] at hd; simp [rcTerm, rcAddTail, ← hd.2, ih1]
        | cons b q tl => simp [dTerm, hp, hn] at hd
      | ok x =>
        cases ht : dAddTail o lk elref x tl ck st1 with
        | error e => simp [dTerm, hp, hn, ht] at hd
        | ok r2 =>
          obtain ⟨y, st2⟩ := r2
          simp [dTerm, hp, hn, ht] at hd
          have ih2 := dAddTail_count hc tl x y ck st1 st2 ht
          simp [rcTerm, ← hd.2, ih2, ih1, Nat.add_assoc]
theorem dCmp_count (hc : Counts o lk m vd) (c : Cmp α) (ck : List Str) (st st' : σ) (v : Value α)
    (hd : dCmp o lk elref c ck st = .ok (v, st')) : m st' = m st + rcCmp vd c := by
  cases c with
  | single t =>
    cases hp : dTerm o lk elref t ck st with
    | error e => simp [dCmp, hp] at hd
    | ok r =>
      obtain ⟨v1, st1⟩ := r
      have ih1 := dTerm_count hc t ck st st1 v1 hp
      simp [dCmp, hp] at hd
      simp [rcCmp, ← hd.2, ih1]
  | pair t op t2 =>
    cases hp : dTerm o lk elref t ck st with
    | error e => simp [dCmp, hp] at hd
    | ok r =>
      obtain ⟨v1, st1⟩ := r
      have ih1 := dTerm_count hc t ck st st1 v1 hp
      cases hn : v1.oneNumber with
      | error e => simp [dCmp, hp, hn] at hd
      | ok a =>
        cases hp2 : dTerm o lk elref t2 ck st1 with
        | error e => simp [dCmp, hp, hn, hp2] at hd
        | ok r2 =>
          obtain ⟨v2, st2⟩ := r2
          have ih2 := dTerm_count hc t2 ck st1 st2 v2 hp2
          cases hn2 : v2.oneNumber with
          | error e => simp [dCmp, hp, hn, hp2, hn2] at hd
          | ok b =>
            simp [dCmp, hp, hn, hp2, hn2] at hd
            simp [rcCmp, ← hd.2, ih2, ih1, Nat.add_assoc]
theorem dLogTail_count (hc : Counts o lk m vd) (tl : LogTail α) (acc v : Value α) (ck : List Str)
    (st st' : σ) (hd : dLogTail o lk elref acc tl ck st = .ok (v, st')) :
    m st' = m st + rcLogTail vd tl := by
  cases tl with
  | nil => simp [dLogTail] at hd; simp [rcLogTail, hd.2.symm]
  | cons op c tl =>
    cases hp : dCmp o lk elref c ck st with
    | error e => simp [dLogTail, hp] at hd
    | ok r =>
      obtain ⟨v1, st1⟩ := r
      have ih1 := dCmp_count hc c ck st st1 v1 hp
      cases hn : v1.oneNumber with
      | error e => simp [dLogTail, hp, hn] at hd
      | ok b =>
        cases ha : acc.oneNumber with
        | error e => simp [dLogTail, hp, hn, ha] at hd
        | ok a =>
          simp [dLogTail, hp, hn, ha] at hd
          have ih2 := dLogTail_count hc tl _ v ck st1 st' hd
          simp [rcLogTail, ih2, ih1, Nat.add_assoc]
theorem dLogic_count (hc : Counts o lk m vd) (e : Logic α) (ck : List Str) (st st' : σ)
    (v : Value α) (hd : dLogic o lk elref e ck st = .ok (v, st')) :
    m st' = m st + rcLogic vd e := by
  cases e with
  | mk c tl =>
    cases hp : dCmp o lk elref c ck st with
    | error e => simp [dLogic, hp] at hd
    | ok r =>
      obtain ⟨v1, st1⟩ := r
      have ih1 := dCmp_count hc c ck st st1 v1 hp
      simp [dLogic, hp] at hd
      have ih2 := dLogTail_count hc tl v1 v ck st1 st' hd
      simp [rcLogic, ih2, ih1, Nat.add_assoc]
theorem dETail_count (hc : Counts o lk m vd) (tl : ETail α) (out : List (Atom α)) (v : Value α)
    (ck : List Str) (st st' : σ) (hd : dETail o lk elref out tl ck st = .ok (v, st')) :
    m st' = m st + rcETail vd tl := by
  cases tl with
  | nil => simp [dETail] at hd; simp [rcETail, hd.2.symm]
  | cons e tl =>
    cases hp : dLogic o lk elref e ck st with
    | error er => simp [dETail, hp] at hd
    | ok r =>
      obtain ⟨v1, st1⟩ := r
      have ih1 := dLogic_count hc e ck st st1 v1 hp
      simp [dETail, hp] at hd
      have ih2 := dETail_count hc tl _ v ck st1 st' hd
      simp [rcETail, ih2, ih1, Nat.add_assoc]
theorem dEList_count (hc : Counts o lk m vd) (l : EList α) (ck : List Str) (st st' : σ)
    (v : Value α) (hd : dEList o lk elref l ck st = .ok (v, st')) :
    m st' = m st + rcEList vd l := by
  cases l with
  | mk e tl =>
    cases hp : dLogic o lk elref e ck st with
    | error er => simp [dEList, hp] at hd
    | ok r =>
      obtain ⟨v1, st1⟩ := r
      have ih1 := dLogic_count hc e ck st st1 v1 hp
      simp [dEList, hp] at hd
      have ih2 := dETail_count hc tl _ v ck st1 st' hd
      simp [rcEList, ih2, ih1, Nat.add_assoc]
theorem dArgs_count (hc : Counts o lk m vd) (a : Args α) (ck : List Str) (st st' : σ)
    (v : Value α) (hd : dArgs o lk elref a ck st = .ok (v, st')) :
    m st' = m st + rcArgs vd a := by
  cases a with
  | none => simp [dArgs] at hd; simp [rcArgs, hd.2.symm]
  | some l => simp [dArgs] at hd; simpa [rcArgs] using dEList_count hc l ck st st' v hd
end

end
end Expr
end Svgdx
