/-
  Svgdx.Proofs.SchedLoop — the CONCRETE retry loop of the control skeleton (`Ctl.onePass`, `Ctl.retry`,
  `Ctl.processNodes`) refines the ABSTRACT scheduler (`Sched.onePass`, `Sched.retry`, `Sched.run`).

  This file is the loop part, generic in what one tag does: `LeafSpec` says that processing one tag in a
  `Good` state behaves like the abstract item of its node (success: the value is registered under the
  item's id, at the head of the element table, and the generation counter moves; failure: an ordinary
  error, nothing registered). Under `LeafSpec` the concrete loop, with its two extra stopping rules
  (the futile-retry test on `failGen` and the idle-pass budget), is in lockstep with the abstract loop
  except that the futile-retry test may stop ONE pass earlier - in a state where the abstract loop would
  make one more pass without progress (`retry_stuck`).

  The instantiation for leaf elements is `Svgdx.Proofs.SchedRefine`.
-/
import Svgdx.Proofs.Sched
import Svgdx.Ctl.Gen
namespace Svgdx.SchedLoop
open Svgdx Ctl Gen

variable {ρ : Type}

/-- what `onePass` does with one tag -/
def tagStep (ev : Evalr ρ) (fuel : Nat) (st : St ρ) (n : Node) : St ρ × Res :=
  genNode ev fuel (registerEarly ev st n) n

/-- one tag behaves like its abstract item -/
structure LeafSpec (ev : Evalr ρ) (Good : St ρ → Prop) (P : Node → Prop)
    (itemOf : Node → Sched.Item Str Elem) (k : Nat) : Prop where
  notSpecs : ∀ st, Good st → st.inSpecs = false
  ok : ∀ fuel st n v, k ≤ fuel → Good st → P n → Sched.view st.geo.elems (itemOf n).id = none →
    (itemOf n).eval (Sched.view st.geo.elems) = some v →
    (∃ evs b, (tagStep ev fuel st n).2 = .ok (evs, b)) ∧
    (tagStep ev fuel st n).1.geo.elems = ((itemOf n).id, v) :: st.geo.elems ∧
    Good (tagStep ev fuel st n).1 ∧ st.gen < (tagStep ev fuel st n).1.gen
  fail : ∀ fuel st n, k ≤ fuel → Good st → P n → Sched.view st.geo.elems (itemOf n).id = none →
    (itemOf n).eval (Sched.view st.geo.elems) = none →
    (∃ er, (tagStep ev fuel st n).2 = .error er ∧ er.isLimit = false ∧ er ≠ .fuel) ∧
    (tagStep ev fuel st n).1.geo.elems = st.geo.elems ∧
    Good (tagStep ev fuel st n).1 ∧ st.gen ≤ (tagStep ev fuel st n).1.gen

/-- the abstract items of a list of tags -/
def its (itemOf : Node → Sched.Item Str Elem) (ts : List Tag) : List (Sched.Item Str Elem) :=
  ts.map (fun t => itemOf t.node)

/-! ### unfolding `Ctl.onePass` -/

theorem onePass_nil (ev : Evalr ρ) (fuel : Nat) (st : St ρ) (outs : List (Nat × List Ev))
    (bb : Option BoundingBox) (cr : List Tag) :
    Ctl.onePass ev (fuel + 1) st [] outs bb cr = (st, .ok (outs, bb, cr.reverse)) := by
  rw [Ctl.onePass]

theorem onePass_cons_ok (ev : Evalr ρ) (fuel : Nat) (st : St ρ) (t : Tag) (ts : List Tag)
    (outs : List (Nat × List Ev)) (bb : Option BoundingBox) (cr : List Tag) {evs : List Ev}
    {b : Option BoundingBox} (h2 : (tagStep ev fuel st t.node).2 = .ok (evs, b))
    (hs : (tagStep ev fuel st t.node).1.inSpecs = false) :
    Ctl.onePass ev (fuel + 1) st (t :: ts) outs bb cr =
      Ctl.onePass ev fuel (tagStep ev fuel st t.node).1 ts
        (if evs.isEmpty then outs else outs ++ [(t.idx, evs)]) (unionOpt bb b) cr := by
  unfold tagStep at h2 hs ⊢
  rw [Ctl.onePass]
  simp only [h2, hs]
  simp

theorem onePass_cons_err (ev : Evalr ρ) (fuel : Nat) (st : St ρ) (t : Tag) (ts : List Tag)
    (outs : List (Nat × List Ev)) (bb : Option BoundingBox) (cr : List Tag) {er : CErr}
    (h2 : (tagStep ev fuel st t.node).2 = .error er) (hl : er.isLimit = false) (hf : er ≠ .fuel)
    (hs : (tagStep ev fuel st t.node).1.inSpecs = false) :
    Ctl.onePass ev (fuel + 1) st (t :: ts) outs bb cr =
      Ctl.onePass ev fuel (tagStep ev fuel st t.node).1 ts outs bb
        ({ t with failGen := some (tagStep ev fuel st t.node).1.gen } :: cr) := by
  unfold tagStep at h2 hs ⊢
  rw [Ctl.onePass]
  simp only [h2, hs, hl]
  simp [hf]

/-! ### the futile-retry bookkeeping

  `Futile st cr`: the FIRST tag that failed in this pass (the last of the reversed accumulator `cr`)
  carries the generation of its failure; if the generation still stands there, nothing has been
  registered since, so every tag that failed in this pass fails in the environment of `st`. -/

def Futile (itemOf : Node → Sched.Item Str Elem) (st : St ρ) (cr : List Tag) : Prop :=
  ∀ f, cr.getLast? = some f → ∃ g, f.failGen = some g ∧ g ≤ st.gen ∧
    (g = st.gen → ∀ t ∈ cr, (itemOf t.node).eval (Sched.view st.geo.elems) = none)

theorem getLast?_cons_of_ne {α : Type} (a : α) {l : List α} (h : l ≠ []) :
    (a :: l).getLast? = l.getLast? := by
  cases l with
  | nil => exact absurd rfl h
  | cons b l => simp [List.getLast?_cons_cons]

/-! ### one pass -/

theorem onePass_sim {ev : Evalr ρ} {Good : St ρ → Prop} {P : Node → Prop}
    {itemOf : Node → Sched.Item Str Elem} {k : Nat} (S : LeafSpec ev Good P itemOf k) :
    ∀ (ts : List Tag) (fuel : Nat) (st : St ρ) (outs : List (Nat × List Ev)) (bb : Option BoundingBox)
      (cr : List Tag),
      ts.length + k < fuel → Good st → (∀ t ∈ ts, P t.node) →
      ((its itemOf ts).map (·.id)).Nodup →
      (∀ t ∈ ts, Sched.view st.geo.elems (itemOf t.node).id = none) →
      Futile itemOf st cr →
      ∃ st' outs' bb' rem, Ctl.onePass ev fuel st ts outs bb cr = (st', .ok (outs', bb', rem)) ∧
        Sched.onePass st.geo.elems (its itemOf ts) (its itemOf cr) = (st'.geo.elems, its itemOf rem) ∧
        Good st' ∧ st.gen ≤ st'.gen ∧ Futile itemOf st' rem.reverse ∧
        (∀ t ∈ rem, P t.node ∨ ∃ t0 ∈ cr, t = t0) := by
  intro ts
  induction ts with
  | nil =>
    intro fuel st outs bb cr hf hg _ _ _ hfu
    cases fuel with
    | zero => omega
    | succ fuel =>
      refine ⟨st, outs, bb, cr.reverse, onePass_nil ev fuel st outs bb cr, ?_, hg, Nat.le_refl _, ?_, ?_⟩
      · simp [its, Sched.onePass]
      · simpa using hfu
      · intro t ht; exact Or.inr ⟨t, by simpa using ht, rfl⟩
  | cons t ts ih =>
    intro fuel st outs bb cr hf hg hP hnd hfresh hfu
    cases fuel with
    | zero => omega
    | succ fuel =>
      simp only [List.length_cons] at hf
      have hk : k ≤ fuel := by omega
      have hPt : P t.node := hP t List.mem_cons_self
      have hft : Sched.view st.geo.elems (itemOf t.node).id = none := hfresh t List.mem_cons_self
      have hnd0 : (itemOf t.node).id ∉ (its itemOf ts).map (·.id) ∧ ((its itemOf ts).map (·.id)).Nodup :=
        List.nodup_cons.1 hnd
      have hnd' : ((its itemOf ts).map (·.id)).Nodup := hnd0.2
      cases hev : (itemOf t.node).eval (Sched.view st.geo.elems) with
      | some v =>
        obtain ⟨⟨evs, b, h2⟩, hel, hg1, hgen⟩ := S.ok fuel st t.node v hk hg hPt hft hev
        have hs1 := S.notSpecs _ hg1
        rw [onePass_cons_ok ev fuel st t ts outs bb cr h2 hs1]
        have hfresh' : ∀ t' ∈ ts, Sched.view (tagStep ev fuel st t.node).1.geo.elems (itemOf t'.node).id = none := by
          intro t' ht'
          rw [hel, Sched.view_cons]
          have hne : ¬ (itemOf t.node).id = (itemOf t'.node).id := by
            intro h
            exact hnd0.1 (List.mem_map.2 ⟨itemOf t'.node, List.mem_map.2 ⟨t', ht', rfl⟩, h.symm⟩)
          rw [if_neg hne]
          exact hfresh t' (List.mem_cons_of_mem _ ht')
        have hfu' : Futile itemOf (tagStep ev fuel st t.node).1 cr := by
          intro f hfl
          obtain ⟨g, hg0, hle, _⟩ := hfu f hfl
          exact ⟨g, hg0, by omega, fun h => by omega⟩
        obtain ⟨st', outs', bb', rem, he, ha, hg', hge, hfu'', hrem⟩ :=
          ih fuel _ _ (unionOpt bb b) cr (by omega) hg1 (fun t' ht' => hP t' (List.mem_cons_of_mem _ ht'))
            hnd' hfresh' hfu'
        refine ⟨st', outs', bb', rem, he, ?_, hg', by omega, hfu'', hrem⟩
        simp only [its, List.map_cons, Sched.onePass, hev]
        rw [← hel]
        exact ha
      | none =>
        obtain ⟨⟨er, h2, hl, hnf⟩, hel, hg1, hgen⟩ := S.fail fuel st t.node hk hg hPt hft hev
        have hs1 := S.notSpecs _ hg1
        rw [onePass_cons_err ev fuel st t ts outs bb cr h2 hl hnf hs1]
        have hfresh' : ∀ t' ∈ ts, Sched.view (tagStep ev fuel st t.node).1.geo.elems (itemOf t'.node).id = none := by
          intro t' ht'
          rw [hel]
          exact hfresh t' (List.mem_cons_of_mem _ ht')
        have hfu' : Futile itemOf (tagStep ev fuel st t.node).1
            ({ t with failGen := some (tagStep ev fuel st t.node).1.gen } :: cr) := by
          intro f hfl
          by_cases hcr : cr = []
          · subst hcr
            simp only [List.getLast?_singleton, Option.some.injEq] at hfl
            subst hfl
            refine ⟨_, rfl, Nat.le_refl _, fun _ t' ht' => ?_⟩
            simp only [List.mem_singleton] at ht'
            subst ht'
            rw [hel]; exact hev
          · rw [getLast?_cons_of_ne _ hcr] at hfl
            obtain ⟨g, hg0, hle, hall⟩ := hfu f hfl
            refine ⟨g, hg0, by omega, fun h t' ht' => ?_⟩
            have hgg : g = st.gen := by omega
            rw [hel]
            rcases List.mem_cons.1 ht' with rfl | ht'
            · exact hev
            · exact hall hgg t' ht'
        obtain ⟨st', outs', bb', rem, he, ha, hg', hge, hfu'', hrem⟩ :=
          ih fuel _ outs bb _ (by omega) hg1 (fun t' ht' => hP t' (List.mem_cons_of_mem _ ht'))
            hnd' hfresh' hfu'
        refine ⟨st', outs', bb', rem, he, ?_, hg', by omega, hfu'', ?_⟩
        · simp only [its, List.map_cons, Sched.onePass, hev]
          rw [← hel]
          exact ha
        · intro t' ht'
          rcases hrem t' ht' with h | ⟨t0, ht0, rfl⟩
          · exact Or.inl h
          · rcases List.mem_cons.1 ht0 with rfl | ht0
            · exact Or.inl hPt
            · exact Or.inr ⟨t', ht0, rfl⟩

/-! ### the abstract loop when every pending item fails -/

theorem pass_stuck (env : Sched.Env Str Elem) (q : List (Sched.Item Str Elem))
    (h : ∀ t ∈ q, t.eval (Sched.view env) = none) : Sched.pass env q = (env, q) := by
  induction q with
  | nil => rfl
  | cons t ts ih =>
    rw [Sched.pass_cons_none ts (h t List.mem_cons_self),
      ih (fun t' ht' => h t' (List.mem_cons_of_mem _ ht'))]

/-- the pass the futile-retry test saves: it would end the abstract loop without progress -/
theorem retry_stuck (m : Nat) (env : Sched.Env Str Elem) (q : List (Sched.Item Str Elem)) (hq : q ≠ [])
    (h : ∀ t ∈ q, t.eval (Sched.view env) = none) : Sched.retry m env q = none := by
  cases m with
  | zero => rfl
  | succ m => rw [Sched.retry_succ m env hq, pass_stuck env q h]; simp

/-! ### the loop -/

/-- what the concrete loop returns, against what the abstract loop returns -/
def Outcome (Good : St ρ → Prop) (x : St ρ × Except CErr (List (Nat × List Ev) × Option BoundingBox))
    (a : Option (Sched.Env Str Elem)) : Prop :=
  match a with
  | some env => (∃ r, x.2 = .ok r) ∧ x.1.geo.elems = env ∧ Good x.1
  | none => (∃ ids, x.2 = .error (.multi ids)) ∧ Good x.1

theorem retry_sim {ev : Evalr ρ} {Good : St ρ → Prop} {P : Node → Prop}
    {itemOf : Node → Sched.Item Str Elem} {k : Nat} (S : LeafSpec ev Good P itemOf k)
    (L : List (Sched.Item Str Elem)) :
    ∀ (fuel : Nat) (ts : List Tag) (st : St ρ) (outs : List (Nat × List Ev)) (bb : Option BoundingBox),
      2 * ts.length + k + 1 < fuel → Good st → (∀ t ∈ ts, P t.node) →
      Sched.Inv L st.geo.elems (its itemOf ts) →
      Outcome Good (Ctl.retry ev fuel st ts outs bb)
        (Sched.retry (ts.length + 1) st.geo.elems (its itemOf ts)) := by
  intro fuel
  induction fuel with
  | zero => intro ts st outs bb hf; omega
  | succ fuel ih =>
    intro ts st outs bb hf hg hP hI
    cases ts with
    | nil =>
      rw [Ctl.retry]
      simp only [its, List.map_nil, List.length_nil, Sched.retry, Outcome]
      exact ⟨⟨_, rfl⟩, trivial, hg⟩
    | cons t ts =>
      simp only [List.length_cons] at hf
      have hfu0 : Futile itemOf st ([] : List Tag) := by intro f hfl; simp at hfl
      obtain ⟨st', outs', bb', rem, he, ha, hg', hge, hfu, hrem⟩ :=
        onePass_sim S (t :: ts) fuel st outs bb [] (by simp only [List.length_cons]; omega) hg hP
          hI.nodup (by
            intro t' ht'
            exact hI.fresh _ (List.mem_map.2 ⟨t', ht', rfl⟩)) hfu0
      have hPrem : ∀ t' ∈ rem, P t'.node := by
        intro t' ht'
        rcases hrem t' ht' with h | ⟨_, h0, _⟩
        · exact h
        · cases h0
      -- the abstract pass
      have hpass : Sched.pass st.geo.elems (its itemOf (t :: ts)) = (st'.geo.elems, its itemOf rem) := by
        have := Sched.onePass_eq st.geo.elems (its itemOf (t :: ts)) (its itemOf [])
        rw [ha] at this
        simp only [its, List.map_nil, List.reverse_nil, List.nil_append] at this
        simp only [its]
        rw [Prod.ext_iff] at this ⊢
        exact ⟨this.1.symm, this.2.symm⟩
      have hI' : Sched.Inv L st'.geo.elems (its itemOf rem) := by
        have := hI.pass
        rw [hpass] at this
        exact this
      have hne : its itemOf (t :: ts) ≠ [] := by simp [its]
      have hlen_its : ∀ l : List Tag, (its itemOf l).length = l.length := fun l => by simp [its]
      have habs : Sched.retry ((t :: ts).length + 1) st.geo.elems (its itemOf (t :: ts)) =
          if rem.length = (t :: ts).length then none
          else Sched.retry (t :: ts).length st'.geo.elems (its itemOf rem) := by
        have := Sched.retry_succ (t :: ts).length st.geo.elems hne
        rw [this, hpass]
        simp only [hlen_its]
      have hle : rem.length ≤ (t :: ts).length := by
        have := Sched.pass_length_le st.geo.elems (its itemOf (t :: ts))
        rw [hpass] at this
        simpa only [hlen_its] using this
      rw [habs]
      rw [Ctl.retry]
      simp only [seq, he]
      by_cases hfut : (rem.head?.bind (·.failGen)) = some st'.gen
      · -- the futile-retry test fires
        rw [if_pos (by simp [hfut])]
        cases rem with
        | nil => simp at hfut
        | cons f rem' =>
          have hall : ∀ t' ∈ its itemOf (f :: rem'), t'.eval (Sched.view st'.geo.elems) = none := by
            obtain ⟨g, hg0, _, hall⟩ := hfu f (by simp)
            simp only [List.head?_cons, Option.bind_some] at hfut
            rw [hg0] at hfut
            have hgg : g = st'.gen := by simpa using hfut
            intro t' ht'
            obtain ⟨t0, ht0, rfl⟩ := List.mem_map.1 ht'
            exact hall hgg t0 (List.mem_reverse.2 ht0)
          have hnone : (if (f :: rem').length = (t :: ts).length then none
              else Sched.retry (t :: ts).length st'.geo.elems (its itemOf (f :: rem'))) = none := by
            split
            · rfl
            · exact retry_stuck _ _ _ (by simp [its]) hall
          rw [hnone]
          exact ⟨⟨_, rfl⟩, hg'⟩
      · rw [if_neg (by simpa using hfut)]
        by_cases hlen : rem.length = (t :: ts).length
        · -- no tag completed
          rw [if_pos hlen, if_pos (by simpa using hlen)]
          have hnp := Sched.pass_noprogress (env := st.geo.elems) (ts := its itemOf (t :: ts))
            (by rw [hpass]; simp only [hlen_its]; exact hlen)
          rw [hpass] at hnp
          have hsame : st'.geo.elems = st.geo.elems := hnp.1
          rw [if_pos (by simp [hsame])]
          exact ⟨⟨_, rfl⟩, hg'⟩
        · rw [if_neg hlen, if_neg (by simpa using hlen)]
          have hlt : rem.length < (t :: ts).length := by omega
          simp only [List.length_cons] at hlt
          have := ih rem st' outs' bb' (by omega) hg' hPrem hI'
          rw [Sched.retry_fuel (rem.length + 1) (t :: ts).length _ _ (by simp [hlen_its])
            (by simp only [hlen_its, List.length_cons]; omega)] at this
          exact this

/-- **the concrete loop refines the abstract one** (`processNodes` against `Sched.run`): from a `Good`
    state with nothing registered, on a sibling list all of whose nodes satisfy `P` and whose items
    have pairwise distinct ids -/
theorem processNodes_sim {ev : Evalr ρ} {Good : St ρ → Prop} {P : Node → Prop}
    {itemOf : Node → Sched.Item Str Elem} {k : Nat} (S : LeafSpec ev Good P itemOf k)
    (fuel : Nat) (st : St ρ) (ks : Nodes)
    (hf : 2 * ks.toList.length + k + 2 < fuel) (hg : Good st) (hP : ∀ n ∈ ks.toList, P n)
    (hnd : ((ks.toList.map itemOf).map (·.id)).Nodup) (he : st.geo.elems = []) :
    match Sched.run (ks.toList.map itemOf) with
    | some env => (∃ r, (processNodes ev fuel st ks).2 = .ok r) ∧
        (processNodes ev fuel st ks).1.geo.elems = env ∧ Good (processNodes ev fuel st ks).1
    | none => (∃ ids, (processNodes ev fuel st ks).2 = .error (.multi ids)) ∧
        Good (processNodes ev fuel st ks).1 := by
  cases fuel with
  | zero => omega
  | succ fuel =>
    have hits : its itemOf (ks.toList.zipIdx.map fun (n, i) => ({ idx := i, node := n } : Tag)) =
        ks.toList.map itemOf := by
      simp only [its, List.map_map]
      have : ((fun t : Tag => itemOf t.node) ∘ fun (x : Node × Nat) => ({ idx := x.2, node := x.1 } : Tag)) =
          itemOf ∘ Prod.fst := rfl
      rw [this, ← List.map_map, List.zipIdx_map_fst]
    have hI : Sched.Inv (ks.toList.map itemOf) st.geo.elems
        (its itemOf (ks.toList.zipIdx.map fun (n, i) => ({ idx := i, node := n } : Tag))) := by
      rw [hits, he]
      exact Sched.Inv.init (List.Perm.refl _) hnd
    have hlen : (ks.toList.zipIdx.map fun (n, i) => ({ idx := i, node := n } : Tag)).length =
        ks.toList.length := by simp
    have hsim := retry_sim S (ks.toList.map itemOf) fuel
      (ks.toList.zipIdx.map fun (n, i) => ({ idx := i, node := n } : Tag)) st [] none
      (by rw [hlen]; omega) hg (by
        intro t ht
        obtain ⟨⟨n, i⟩, hm, rfl⟩ := List.mem_map.1 ht
        exact hP n (List.fst_mem_of_mem_zipIdx hm)) hI
    rw [hits, hlen, he] at hsim
    have hrun : Sched.run (ks.toList.map itemOf) =
        Sched.retry (ks.toList.length + 1) [] (ks.toList.map itemOf) := by
      simp [Sched.run]
    rw [hrun]
    rw [Ctl.processNodes]
    generalize Ctl.retry ev fuel st _ [] none = x at hsim ⊢
    cases ha : Sched.retry (ks.toList.length + 1) [] (ks.toList.map itemOf) with
    | some env =>
      rw [ha] at hsim
      obtain ⟨⟨r, hr⟩, hel, hgo⟩ := hsim
      simp only [seq, hr]
      exact ⟨⟨_, rfl⟩, hel, hgo⟩
    | none =>
      rw [ha] at hsim
      obtain ⟨⟨ids, hr⟩, hgo⟩ := hsim
      simp only [seq, hr]
      exact ⟨⟨_, rfl⟩, hgo⟩

end Svgdx.SchedLoop

#print axioms Svgdx.SchedLoop.onePass_sim
#print axioms Svgdx.SchedLoop.retry_sim
#print axioms Svgdx.SchedLoop.processNodes_sim
