/-
  Svgdx.Proofs.RelPlace — the string / attribute level of relative positioning (C09): what
  `split_relspec`, `eval_rel_position`, `eval_pos_attr`, `eval_size_attr`, `resolve_size_delta` and
  `eval_rel_attributes` of element.rs (hand model: Svgdx/Geom/Resolve.lean) do on the relspec strings
  `#id|h gap`, `^|V`, `#id@loc dx dy`, `#id~x2`, `#id 50%`, as whole-function equations.
-/
import Svgdx.Geom.Resolve
import Svgdx.Proofs.Attrs
import Svgdx.Props.C09

namespace Svgdx.RelPlace
open Svgdx Str Num Gen

/-! ### strings -/

/-- how a reference is written -/
def refStr : ElRef → Str
  | .id s => '#' :: s
  | .prev => ['^']

/-- a reference that `extract_elref` reads back: an identifier `[A-Za-z_][A-Za-z0-9_-]*`, or `^` -/
def IdOk : ElRef → Bool
  | .id s => (match s with | c :: _ => idFirst c | [] => false) && s.all idRest
  | .prev => true

/-- what follows the reference does not continue the identifier (`^` is a single character: anything
    may follow) -/
def notHead (p : Char → Bool) (rest : Str) : Bool :=
  match rest with
  | [] => true
  | c :: _ => !p c

def endsId (r : ElRef) (rest : Str) : Bool :=
  match r with
  | .prev => true
  | .id _ => notHead idRest rest

theorem takeWhile_all (p : Char → Bool) (l r : Str) (hl : l.all p = true)
    (hr : notHead p r = true) :
    (l ++ r).takeWhile p = l ∧ (l ++ r).dropWhile p = r := by
  induction l with
  | nil =>
    cases r with
    | nil => simp
    | cons c t =>
      have : p c = false := by simpa [notHead] using hr
      simp [this]
  | cons a l ih =>
    simp only [List.all_cons, Bool.and_eq_true] at hl
    simp [hl.1, ih hl.2]

theorem extractElref_refStr (r : ElRef) (rest : Str) (h : IdOk r = true) (he : endsId r rest = true) :
    extractElref (refStr r ++ rest) = some (r, rest) := by
  cases r with
  | prev => rfl
  | id s =>
    cases s with
    | nil => simp [IdOk] at h
    | cons c t =>
      simp only [IdOk, Bool.and_eq_true] at h
      obtain ⟨h1, h2⟩ := h
      have := takeWhile_all idRest (c :: t) rest h2 he
      show extractElref ('#' :: ((c :: t) ++ rest)) = _
      simp only [extractElref, List.cons_append, h1, if_true]
      rw [show c :: (t ++ rest) = (c :: t) ++ rest from rfl, this.1, this.2]

theorem breakOn_none (f : Char → Bool) (a : Str) (ha : a.all (fun c => !f c) = true) :
    breakOn f a = (a, none) := by
  induction a with
  | nil => rfl
  | cons x xs ih =>
    simp only [List.all_cons, Bool.and_eq_true, Bool.not_eq_true'] at ha
    simp [breakOn, ha.1, ih (by simpa using ha.2)]

theorem breakOn_hit (f : Char → Bool) (a : Str) (c : Char) (b : Str)
    (ha : a.all (fun c => !f c) = true) (hc : f c = true) :
    breakOn f (a ++ c :: b) = (a, some (c, b)) := by
  induction a with
  | nil => simp [breakOn, hc]
  | cons x xs ih =>
    simp only [List.all_cons, Bool.and_eq_true, Bool.not_eq_true'] at ha
    simp [breakOn, ha.1, ih (by simpa using ha.2)]

/-! ### `split_relspec` -/

theorem splitRelspec_ref (c : Ctx) (r : ElRef) (rest : Str) (el : Elem) (h : IdOk r = true)
    (he : endsId r rest = true) (hg : c.get r = some el) :
    Elem.splitRelspec c (refStr r ++ rest) = .ok (some el, rest) := by
  simp [Elem.splitRelspec, extractElref_refStr r rest h he, hg]

/-- **a reference to an element that is not there is the reference error** -/
theorem splitRelspec_missing (c : Ctx) (r : ElRef) (rest : Str) (h : IdOk r = true)
    (he : endsId r rest = true) (hg : c.get r = none) :
    Elem.splitRelspec c (refStr r ++ rest) = .error .reference := by
  simp [Elem.splitRelspec, extractElref_refStr r rest h he, hg]

/-- … and what does not read as a reference at all is handed back untouched -/
theorem splitRelspec_noref (c : Ctx) (v : Str) (h : extractElref v = none) :
    Elem.splitRelspec c v = .ok (none, v) := by
  simp [Elem.splitRelspec, h]

/-- the only way `split_relspec` fails is the reference error -/
theorem splitRelspec_error_only_reference (c : Ctx) (v : Str) (er : Err)
    (h : Elem.splitRelspec c v = .error er) : er = .reference := by
  unfold Elem.splitRelspec at h
  split at h
  · split at h
    · cases h
    · cases h; rfl
  · cases h


/-! ### attributes -/

instance (a : Attrs) : Decidable (Attrs.NodupKeys a) := inferInstanceAs (Decidable (List.Nodup _))

theorem get_remove_other (a : Attrs) (k k2 : Str) (hne : k2 ≠ k) :
    Attrs.get (Attrs.remove a k) k2 = Attrs.get a k2 := by
  induction a with
  | nil => rfl
  | cons x xs ih =>
    obtain ⟨k', v'⟩ := x
    by_cases hk : k' = k
    · subst hk
      have : (k' == k2) = false := by simpa using (fun e => hne e.symm)
      simp [Attrs.remove, Attrs.pop, Attrs.get, Attrs.lookupTable, this]
    · have hb : (k' == k) = false := by simpa using hk
      simp only [Attrs.remove, Attrs.get] at ih
      simp only [Attrs.remove, Attrs.pop, hb, Attrs.get, Attrs.lookupTable, Bool.false_eq_true, if_false, ih]

theorem get_remove_self {a : Attrs} (h : Attrs.NodupKeys a) (k : Str) :
    Attrs.get (Attrs.remove a k) k = none := by
  have := Attrs.contains_remove_self h k
  simpa [Attrs.contains] using this

theorem popAttr_fst (e : Elem) (k : Str) : (e.popAttr k).1 = { e with attrs := Attrs.remove e.attrs k } := rfl

theorem popAttr_snd (e : Elem) (k : Str) (hk : Attrs.NodupKeys e.attrs) : (e.popAttr k).2 = e.attrs.get k := by
  show (Attrs.pop e.attrs k).2 = _
  generalize e.attrs = a at hk
  induction a with
  | nil => rfl
  | cons x xs ih =>
    obtain ⟨k', v'⟩ := x
    have hn : Attrs.NodupKeys xs := by
      have : k' ∉ Attrs.keys xs ∧ Attrs.NodupKeys xs := by simpa [Attrs.NodupKeys, Attrs.keys] using hk
      exact this.2
    by_cases hkk : k' = k
    · subst hkk; simp [Attrs.pop, Attrs.get, Attrs.lookupTable]
    · have hb : (k' == k) = false := by simpa using hkk
      simp only [Attrs.get] at ih
      simp [Attrs.pop, hb, Attrs.get, Attrs.lookupTable, ih hn]

/-! ### sizes and boxes of plain elements -/

/-- the elements whose box is `x y width height` -/
def boxLike (n : Str) : Bool :=
  n == cs!"rect" || n == cs!"box" || n == cs!"image" || n == cs!"svg" || n == cs!"foreignObject"

theorem boxLike_cases {n : Str} (h : boxLike n = true) :
    n = cs!"rect" ∨ n = cs!"box" ∨ n = cs!"image" ∨ n = cs!"svg" ∨ n = cs!"foreignObject" := by
  simpa [boxLike, or_assoc] using h

/-- `size` of a box-like element with literal `width` / `height` -/
theorem size_boxLike (c : Ctx) (e : Elem) (hn : boxLike e.name = true) (ws hs : Str) (tw th : Rat)
    (hw : e.attrs.get cs!"width" = some ws) (hh : e.attrs.get cs!"height" = some hs)
    (hws : strp ws = some tw) (hhs : strp hs = some th) :
    e.size c = .ok (some (tw, th)) := by
  show Elem.sizeRaw c ((c.elems.length + 1) + 1) e = _
  rcases boxLike_cases hn with h | h | h | h | h <;>
    simp [Elem.sizeRaw, h, hw, hh, Elem.num, hws, hhs, bind, Except.bind, pure, Except.pure, Except.map]

/-- `get_element_bbox` of an element that is not a `use` / `reuse` and is not clipped: its own box -/
theorem bb_plain (c : Ctx) (e : Elem) (h1 : (e.name == cs!"use") = false) (h2 : (e.name == cs!"reuse") = false)
    (hc : e.getAttr cs!"clip-path" = none) : c.bb e = e.bbox := by
  show Ctx.bboxOf c ((c.elems.length + 1) + 1) [] e = _
  have ht : c.target ((c.elems.length + 1) + 1) e = .ok e := by simp [Ctx.target, h1, h2]
  cases hb : e.bbox with
  | error er => simp [Ctx.bboxOf, ht, hb, bind, Except.bind]
  | ok b => simp [Ctx.bboxOf, ht, hb, h1, h2, hc, bind, Except.bind, pure, Except.pure]

/-- box of a box-like element with literal attributes, no `transform`, no content box -/
theorem bbox_boxLike (e : Elem) (hn : boxLike e.name = true) (hcb : e.contentBBox = none)
    (ht : e.attrs.get cs!"transform" = none) (xs ys ws hs : Str) (x y w h : Rat)
    (hx : e.attrs.get ['x'] = some xs) (hy : e.attrs.get ['y'] = some ys)
    (hw : e.attrs.get cs!"width" = some ws) (hh : e.attrs.get cs!"height" = some hs)
    (hxs : strp xs = some x) (hys : strp ys = some y) (hws : strp ws = some w) (hhs : strp hs = some h) :
    e.bbox = .ok (some ⟨x, y, x + w, y + h⟩) := by
  rcases boxLike_cases hn with hnm | hnm | hnm | hnm | hnm <;>
    simp [Elem.bbox, Elem.bboxRaw, hcb, ht, hnm, hx, hy, hw, hh, passthrough, hxs, hys, hws, hhs, Elem.num,
      bind, Except.bind, pure, Except.pure]

/-! ### (a) DIRECTION: `xy="#id|h gap"` -/

/-- how a direction is written -/
def dirStr : DirSpec → Str
  | .InFront => ['h'] | .Behind => ['H'] | .Below => ['v'] | .Above => ['V']

theorem parseDirSpec_dirStr (rel : DirSpec) : parseDirSpec (dirStr rel) = some rel := by
  cases rel <;> rfl

/-- `h H v V` are the only directions -/
theorem parseDirSpec_iff (s : Str) (rel : DirSpec) : parseDirSpec s = some rel ↔ s = dirStr rel := by
  constructor
  · intro h
    simp only [parseDirSpec, DirSpec.fromStrTable, Attrs.lookupTable] at h
    repeat' split at h
    all_goals first
      | (cases h; simp_all [dirStr])
      | cases h
  · rintro rfl; exact parseDirSpec_dirStr rel

/-- what may follow the direction letter: nothing, or white space and the gap -/
def wsHead (tail : Str) : Bool :=
  match tail with
  | [] => true
  | c :: _ => isWs c

/-- the gap as `eval_rel_position` reads it from what follows the direction letter: nothing there is
    gap 0, otherwise the first whitespace / comma separated word must be a number -/
def gapOf (tail : Str) : Except Err Rat :=
  if (trimStart tail).isEmpty then .ok 0
  else Elem.num (((attrSplit (trimStart tail)).head?).getD zstr)

theorem placeAt_plain (c : Ctx) (e : Elem) (x y : Rat) (h : (e.name == cs!"use") = false) :
    e.placeAt c x y = .ok ((e.setAttr ['x'] (fstr x)).setAttr ['y'] (fstr y)) := by
  simp [Elem.placeAt, h, pure, Except.pure]

theorem breakOn_dir (rel : DirSpec) (tail : Str) (h : wsHead tail = true) :
    breakOn isWs (dirStr rel ++ tail) =
      (dirStr rel, match tail with | [] => none | w :: t => some (w, t)) := by
  have h1 : isWs 'h' = false := by decide
  have h2 : isWs 'H' = false := by decide
  have h3 : isWs 'v' = false := by decide
  have h4 : isWs 'V' = false := by decide
  cases tail with
  | nil => cases rel <;> simp [dirStr, breakOn, h1, h2, h3, h4]
  | cons w t =>
    have hw : isWs w = true := h
    cases rel <;> simp [dirStr, breakOn, hw, h1, h2, h3, h4]

/-- **(a) the direction form, whole function.** `xy = ref|D tail` where `ref` (`#id` or `^`) names an
    element with box `refBox`, `D` one of `h H v V`, `tail` empty or white space and a gap: the element
    loses `xy` and is placed (`place_at`) with its top-left corner at
    `dirPlace D refBox tw th gap`, `(tw, th)` its own size (0 × 0 if it has none). -/
theorem evalRelPosition_dir (c : Ctx) (e refEl : Elem) (r : ElRef) (rel : DirSpec) (tail : Str)
    (refBox : BoundingBox) (sz : Option (Rat × Rat)) (gap : Rat)
    (hxy : e.attrs.get cs!"xy" = some (refStr r ++ '|' :: (dirStr rel ++ tail)))
    (hid : IdOk r = true) (hget : c.get r = some refEl) (hbb : c.bb refEl = .ok (some refBox))
    (htail : wsHead tail = true) (hsize : e.size c = .ok sz) (hgap : gapOf tail = .ok gap) :
    e.evalRelPosition c =
      (e.popAttr cs!"xy").1.placeAt c
        (Elem.dirPlace rel refBox (sz.getD (0, 0)).1 (sz.getD (0, 0)).2 gap).1
        (Elem.dirPlace rel refBox (sz.getD (0, 0)).1 (sz.getD (0, 0)).2 gap).2 := by
  have he : endsId r ('|' :: (dirStr rel ++ tail)) = true := by
    cases r <;> simp [endsId, notHead, idRest, isAsciiAlnum, isAsciiAlpha, isDigit]
  have hsp := splitRelspec_ref c r _ refEl hid he hget
  unfold Elem.evalRelPosition
  simp only [hxy, hsp, bind, Except.bind, hbb, stripPrefix, beq_self_eq_true, if_true, breakOn_dir rel tail htail]
  unfold gapOf at hgap
  cases tail with
  | nil =>
    have : gap = 0 := by simpa [trimStart] using hgap.symm
    subst this
    simp [parseDirSpec_dirStr, hsize, pure, Except.pure]
  | cons w t =>
    have hw : isWs w = true := htail
    have hts : trimStart (w :: t) = trimStart t := by simp [trimStart, List.dropWhile, hw]
    rw [hts] at hgap
    simp only [parseDirSpec_dirStr, hsize, hts]
    by_cases hemp : (trimStart t).isEmpty = true
    · simp only [hemp, if_true] at hgap ⊢
      cases hgap
      simp [pure, Except.pure]
    · simp only [hemp] at hgap ⊢
      simp only [Bool.false_eq_true, if_false] at hgap ⊢
      simp [hgap]


/-! ### words: `attr_split` on whitespace-free, comma-free words -/

/-- a non-empty word without white space or comma -/
def isWord (t : Str) : Bool := !t.isEmpty && t.all (fun c => !isWs c && !(c == ','))

theorem splitBy_go_run (f : Char → Bool) (a s cur : Str) (ha : a.all (fun c => !f c) = true) :
    splitBy.go f (a ++ s) cur = splitBy.go f s (a.reverse ++ cur) := by
  induction a generalizing cur with
  | nil => rfl
  | cons x xs ih =>
    simp only [List.all_cons, Bool.and_eq_true, Bool.not_eq_true'] at ha
    simp only [List.cons_append, splitBy.go, ha.1, Bool.false_eq_true, if_false]
    rw [ih (x :: cur) (by simpa using ha.2)]
    simp

theorem splitBy_word (f : Char → Bool) (a : Str) (ha : a.all (fun c => !f c) = true) : splitBy f a = [a] := by
  have := splitBy_go_run f a [] [] ha
  simp only [List.append_nil] at this
  simp [splitBy, this, splitBy.go]

theorem splitBy_word_sep (f : Char → Bool) (a : Str) (c : Char) (b : Str) (ha : a.all (fun c => !f c) = true)
    (hc : f c = true) : splitBy f (a ++ c :: b) = a :: splitBy f b := by
  simp [splitBy, splitBy_go_run f a (c :: b) [] ha, splitBy.go, hc]

theorem word_parts {t : Str} (h : isWord t = true) :
    t ≠ [] ∧ t.all (fun c => !isWs c) = true ∧ t.all (fun c => !(c == ',')) = true := by
  simp only [isWord, Bool.and_eq_true, Bool.not_eq_true', List.all_eq_true] at h
  refine ⟨by intro e; simp [e] at h, ?_, ?_⟩
  · simp only [List.all_eq_true]; intro c hc; have := h.2 c hc; simp_all
  · simp only [List.all_eq_true]; intro c hc; have := h.2 c hc; simp_all

theorem attrSplit_word (t : Str) (h : isWord t = true) : attrSplit t = [t] := by
  obtain ⟨h0, h1, h2⟩ := word_parts h
  simp [attrSplit, splitWhitespace, splitBy_word isWs t h1, splitBy_word (· == ',') t h2, h0]

theorem attrSplit_two_words (a b : Str) (ha : isWord a = true) (hb : isWord b = true) :
    attrSplit (a ++ ' ' :: b) = [a, b] := by
  obtain ⟨a0, a1, a2⟩ := word_parts ha
  obtain ⟨b0, b1, b2⟩ := word_parts hb
  have hs : isWs ' ' = true := by decide
  simp [attrSplit, splitWhitespace, splitBy_word_sep isWs a ' ' b a1 hs, splitBy_word isWs b b1,
    splitBy_word (· == ',') a a2, splitBy_word (· == ',') b b2, a0, b0]

theorem attrSplit_nil : attrSplit [] = [] := by decide

theorem trimStart_word (t : Str) (h : isWord t = true) : trimStart t = t := by
  obtain ⟨h0, h1, _⟩ := word_parts h
  cases t with
  | nil => exact absurd rfl h0
  | cons x xs =>
    have : isWs x = false := by simpa using (List.all_eq_true.mp h1) x (by simp)
    simp [trimStart, List.dropWhile, this]

/-- `|h 5`: one space and a number word is that gap -/
theorem gapOf_word (g : Str) (h : isWord g = true) : gapOf (' ' :: g) = Elem.num g := by
  have hs : isWs ' ' = true := by decide
  have h1 : trimStart (' ' :: g) = g := by
    rw [show trimStart (' ' :: g) = trimStart g by simp [trimStart, List.dropWhile, hs]]
    exact trimStart_word g h
  have h0 := (word_parts h).1
  have : g.isEmpty = false := by cases g <;> simp_all
  simp [gapOf, h1, this, attrSplit_word g h]

theorem gapOf_nil : gapOf [] = .ok 0 := rfl


/-! ### (a) continued: the attributes and the box of the placed element -/

/-- the attributes after `pop xy; set x; set y` -/
theorem placed_attrs (e : Elem) (hk : Attrs.NodupKeys e.attrs) (X Y : Str) :
    let e' := ((e.popAttr cs!"xy").1.setAttr ['x'] X).setAttr ['y'] Y
    e'.name = e.name ∧ e'.contentBBox = e.contentBBox ∧ Attrs.NodupKeys e'.attrs ∧
    e'.attrs.get cs!"xy" = none ∧ e'.attrs.get ['x'] = some X ∧ e'.attrs.get ['y'] = some Y ∧
    ∀ k, k ≠ cs!"xy" → k ≠ ['x'] → k ≠ ['y'] → e'.attrs.get k = e.attrs.get k := by
  intro e'
  have n1 : Attrs.NodupKeys (Attrs.remove e.attrs cs!"xy") := Attrs.remove_nodup hk _
  have n2 : Attrs.NodupKeys (Attrs.insert (Attrs.remove e.attrs cs!"xy") ['x'] X) := Attrs.insert_nodup n1 _ _
  have n3 := Attrs.insert_nodup n2 ['y'] Y
  refine ⟨rfl, rfl, n3, ?_, ?_, ?_, ?_⟩
  · show Attrs.get (Attrs.insert (Attrs.insert (Attrs.remove e.attrs cs!"xy") ['x'] X) ['y'] Y) cs!"xy" = none
    rw [Attrs.get_insert_other n2 _ _ _ (by decide), Attrs.get_insert_other n1 _ _ _ (by decide)]
    exact get_remove_self hk _
  · show Attrs.get (Attrs.insert (Attrs.insert (Attrs.remove e.attrs cs!"xy") ['x'] X) ['y'] Y) ['x'] = some X
    rw [Attrs.get_insert_other n2 _ _ _ (by decide)]
    exact Attrs.get_insert_self n1 _ _
  · exact Attrs.get_insert_self n2 _ _
  · intro k h1 h2 h3
    show Attrs.get (Attrs.insert (Attrs.insert (Attrs.remove e.attrs cs!"xy") ['x'] X) ['y'] Y) k = _
    rw [Attrs.get_insert_other n2 _ _ _ h3, Attrs.get_insert_other n1 _ _ _ h2]
    exact get_remove_other _ _ _ h1

theorem boxLike_not_use {n : Str} (h : boxLike n = true) : (n == cs!"use") = false ∧ (n == cs!"reuse") = false := by
  rcases boxLike_cases h with h | h | h | h | h <;> subst h <;> decide

/-- **(a) the direction form on a box-like element (`rect`, `box`, `image`, `svg`, `foreignObject`) with
    literal `width` / `height`**: `eval_rel_position` succeeds; the result has no `xy`, has
    `x` / `y` = the printed corner `dirPlace …`, every other attribute as before; and if the two corner
    coordinates print and parse back exactly, the element's box IS `Props.C09.placed …` - the box that
    `dir_h … dir_size` of Props/C09 show to lie beside the reference, centred, at the gap. -/
theorem dir_places_box (c : Ctx) (e refEl : Elem) (r : ElRef) (rel : DirSpec) (tail : Str)
    (refBox : BoundingBox) (ws hs : Str) (tw th gap : Rat)
    (hk : Attrs.NodupKeys e.attrs) (hn : boxLike e.name = true)
    (hxy : e.attrs.get cs!"xy" = some (refStr r ++ '|' :: (dirStr rel ++ tail)))
    (hw : e.attrs.get cs!"width" = some ws) (hh : e.attrs.get cs!"height" = some hs)
    (hws : strp ws = some tw) (hhs : strp hs = some th)
    (hid : IdOk r = true) (hget : c.get r = some refEl) (hbb : c.bb refEl = .ok (some refBox))
    (htail : wsHead tail = true) (hgap : gapOf tail = .ok gap) :
    ∃ e', e.evalRelPosition c = .ok e' ∧ e'.name = e.name ∧ e'.attrs.get cs!"xy" = none ∧
      e'.attrs.get ['x'] = some (fstr (Elem.dirPlace rel refBox tw th gap).1) ∧
      e'.attrs.get ['y'] = some (fstr (Elem.dirPlace rel refBox tw th gap).2) ∧
      (∀ k, k ≠ cs!"xy" → k ≠ ['x'] → k ≠ ['y'] → e'.attrs.get k = e.attrs.get k) ∧
      (e.contentBBox = none → e.attrs.get cs!"transform" = none →
        strp (fstr (Elem.dirPlace rel refBox tw th gap).1) = some (Elem.dirPlace rel refBox tw th gap).1 →
        strp (fstr (Elem.dirPlace rel refBox tw th gap).2) = some (Elem.dirPlace rel refBox tw th gap).2 →
        e'.bbox = .ok (some (Props.C09.placed rel refBox tw th gap))) := by
  have hsize := size_boxLike c e hn ws hs tw th hw hh hws hhs
  have hev := evalRelPosition_dir c e refEl r rel tail refBox (some (tw, th)) gap hxy hid hget hbb htail hsize hgap
  simp only [Option.getD_some] at hev
  have hnu : ((e.popAttr cs!"xy").1.name == cs!"use") = false := (boxLike_not_use hn).1
  rw [placeAt_plain c _ _ _ hnu] at hev
  obtain ⟨a1, a2, a3, a4, a5, a6, a7⟩ := placed_attrs e hk (fstr (Elem.dirPlace rel refBox tw th gap).1)
    (fstr (Elem.dirPlace rel refBox tw th gap).2)
  refine ⟨_, hev, a1, a4, a5, a6, a7, ?_⟩
  intro hcb htr hrx hry
  have := bbox_boxLike _ (a1 ▸ hn) (a2.trans hcb) ((a7 _ (by decide) (by decide) (by decide)).trans htr)
    _ _ ws hs _ _ tw th a5 a6 ((a7 _ (by decide) (by decide) (by decide)).trans hw)
    ((a7 _ (by decide) (by decide) (by decide)).trans hh) hrx hry hws hhs
  rw [this]; rfl

/-- the hypotheses are satisfiable: `<rect id="a" x="0" y="0" width="10" height="20"/>` then
    `<rect xy="#a|h 5" width="4" height="6"/>` and the same with `^` -/
def exA : Elem := Elem.new cs!"rect" [(cs!"id", ['a']), (['x'], ['0']), (['y'], ['0']), (cs!"width", cs!"10"), (cs!"height", cs!"20")]
def exCtx : Ctx := { elems := [(['a'], exA)], prev := some exA }
def exE (xy : Str) : Elem := Elem.new cs!"rect" [(cs!"xy", xy), (cs!"width", ['4']), (cs!"height", ['6'])]

example : (exE cs!"#a|h 5").evalRelPosition exCtx =
    .ok (Elem.new cs!"rect" [(['x'], cs!"15"), (['y'], ['7']), (cs!"width", ['4']), (cs!"height", ['6'])]) := by
  decide +kernel

example : ∃ e', (exE cs!"#a|h 5").evalRelPosition exCtx = .ok e' ∧
    e'.bbox = .ok (some (Props.C09.placed .InFront ⟨0, 0, 10, 20⟩ 4 6 5)) := by
  obtain ⟨e', h1, _, _, _, _, _, h7⟩ := dir_places_box exCtx (exE cs!"#a|h 5") exA (.id ['a']) .InFront cs!" 5"
    ⟨0, 0, 10, 20⟩ ['4'] ['6'] 4 6 5 (by decide +kernel) (by decide) (by decide +kernel) (by decide +kernel)
    (by decide +kernel) (by decide +kernel) (by decide +kernel) (by decide) (by decide +kernel) (by decide +kernel)
    (by decide) (by decide +kernel)
  exact ⟨e', h1, h7 (by decide +kernel) (by decide +kernel) (by decide +kernel) (by decide +kernel)⟩

example : ∃ e', (exE cs!"^|V").evalRelPosition exCtx = .ok e' ∧
    e'.bbox = .ok (some (Props.C09.placed .Above ⟨0, 0, 10, 20⟩ 4 6 0)) := by
  obtain ⟨e', h1, _, _, _, _, _, h7⟩ := dir_places_box exCtx (exE cs!"^|V") exA .prev .Above []
    ⟨0, 0, 10, 20⟩ ['4'] ['6'] 4 6 0 (by decide +kernel) (by decide) (by decide +kernel) (by decide +kernel)
    (by decide +kernel) (by decide +kernel) (by decide +kernel) (by decide) (by decide +kernel) (by decide +kernel)
    (by decide) (by decide +kernel)
  exact ⟨e', h1, h7 (by decide +kernel) (by decide +kernel) (by decide +kernel) (by decide +kernel)⟩


/-! ### `eval_pos_attr` / `eval_size_attr`: from the string to `pos_attr_helper` -/

def noSpace (a : Str) : Bool := a.all (fun c => !(c == ' '))

theorem splitOnceSpace_none (a : Str) (h : noSpace a = true) : Elem.splitOnceSpace a = (a, []) := by
  simp [Elem.splitOnceSpace, splitOnce, breakOn_none (· == ' ') a h]

theorem splitOnceSpace_sp (a b : Str) (h : noSpace a = true) : Elem.splitOnceSpace (a ++ ' ' :: b) = (a, b) := by
  simp [Elem.splitOnceSpace, splitOnce, breakOn_hit (· == ' ') a ' ' b h (by decide)]

/-- after the reference every remainder starts with a character that ends the identifier, or is empty -/
def remOk (r : ElRef) (remain : Str) : Bool := endsId r remain

theorem evalPosAttr_ref (c : Ctx) (e refEl : Elem) (name : Str) (ss : ScalarSpec) (r : ElRef) (remain : Str)
    (refBox : BoundingBox) (hname : parseScalarSpec name = some ss) (hid : IdOk r = true)
    (hrem : endsId r remain = true) (hget : c.get r = some refEl) (hbb : c.bb refEl = .ok (some refBox)) :
    e.evalPosAttr c name (refStr r ++ remain) = e.posAttrHelper remain refBox ss := by
  simp [Elem.evalPosAttr, hname, splitRelspec_ref c r remain refEl hid hrem hget, hbb, bind, Except.bind]

/-- the optional ` delta` after a scalar: a length adjusts (`3` adds, `50%` scales), anything else is ignored -/
def adjBy (dxy : Str) (v : Rat) : Rat :=
  match parseLength dxy with
  | some len => len.adjust v
  | none => v

theorem adjBy_nil (v : Rat) : adjBy [] v = v := by
  have : parseLength [] = none := by decide +kernel
  simp [adjBy, this]

theorem adjBy_len (d : Str) (len : Length) (v : Rat) (h : parseLength d = some len) : adjBy d v = len.adjust v := by
  simp [adjBy, h]

/-- the value a position attribute of kind `ss` takes from the point `loc` of `bbox`, moved by `(dx, dy)`:
    x-like attributes take the x of the point, y-like the y -/
def axisVal (ss : ScalarSpec) (bbox : BoundingBox) (loc : LocSpec) (dx dy : Rat) : Rat :=
  match ss with
  | .Minx | .Maxx | .Cx => (bbox.locspec loc).1 + dx
  | .Miny | .Maxy | .Cy => (bbox.locspec loc).2 + dy
  | _ => bbox.scalarspec ss

/-- text elements read their default location first: it must be a location even when `@loc` overrides it -/
def textLocOk (e : Elem) : Bool :=
  !(e.name == cs!"text") || (parseLocSpec ((e.getAttr cs!"text-loc").getD ['c'])).isSome

theorem posAttrHelper_scalar (e : Elem) (remain sstr dxy : Str) (bbox : BoundingBox) (ss s : ScalarSpec)
    (hsp : Elem.splitOnceSpace remain = ('~' :: sstr, dxy)) (hs : parseScalarSpec sstr = some s) :
    e.posAttrHelper remain bbox ss = .ok (fstr (adjBy dxy (bbox.scalarspec s))) := by
  cases hp : parseLength dxy <;>
    simp [Elem.posAttrHelper, hsp, stripPrefix, hs, adjBy, hp]

theorem posAttrHelper_at (e : Elem) (remain ls dxy : Str) (bbox : BoundingBox) (ss : ScalarSpec) (loc : LocSpec)
    (dx dy : Rat) (hsp : Elem.splitOnceSpace remain = ('@' :: ls, dxy)) (ht : textLocOk e = true)
    (hloc : parseLocSpec ls = some loc) (hd : Elem.extractDxDy dxy = .ok (dx, dy)) :
    e.posAttrHelper remain bbox ss = .ok (fstr (axisVal ss bbox loc dx dy)) := by
  have h1 : stripPrefix ['~'] ('@' :: ls) = none := by simp [stripPrefix]
  have h2 : stripPrefix ['@'] ('@' :: ls) = some ls := by simp [stripPrefix]
  simp only [Elem.posAttrHelper, hsp, h1, h2, hloc, hd, bind, Except.bind, pure, Except.pure]
  by_cases hn : (e.name == cs!"text") = true
  · simp only [textLocOk, hn, Bool.not_true, Bool.false_or] at ht
    obtain ⟨l0, hl0⟩ := Option.isSome_iff_exists.mp ht
    simp only [hn, if_true, hl0]
    cases ss <;> rfl
  · simp only [hn]
    cases ss <;> rfl

/-- no `@loc`: the point on the same side as the attribute (`x2="#a"` is the right edge of `#a`); a text
    element takes its `text-loc` (default centre) -/
theorem posAttrHelper_plain (e : Elem) (remain dxy : Str) (bbox : BoundingBox) (ss : ScalarSpec)
    (dx dy : Rat) (hsp : Elem.splitOnceSpace remain = ([], dxy)) (hn : (e.name == cs!"text") = false)
    (hd : Elem.extractDxDy dxy = .ok (dx, dy)) :
    e.posAttrHelper remain bbox ss = .ok (fstr (axisVal ss bbox (LocSpec.from_scalarspec ss) dx dy)) := by
  have h1 : stripPrefix ['~'] ([] : Str) = none := rfl
  have h2 : stripPrefix ['@'] ([] : Str) = none := rfl
  simp only [Elem.posAttrHelper, hsp, h1, h2, hd, hn, bind, Except.bind, pure, Except.pure]
  cases ss <;> rfl

theorem extractDxDy_nil : Elem.extractDxDy [] = .ok (0, 0) := by decide +kernel

/-- one word: the same offset on both axes (each axis uses its own) -/
theorem extractDxDy_word (d : Str) (q : Rat) (h : isWord d = true) (hq : strp d = some q) :
    Elem.extractDxDy d = .ok (q, q) := by
  simp [Elem.extractDxDy, attrSplit_word d h, Elem.num, hq, bind, Except.bind, pure, Except.pure]

theorem endsId_at (r : ElRef) (t : Str) : endsId r ('@' :: t) = true := by
  cases r <;> simp [endsId, notHead, idRest, isAsciiAlnum, isAsciiAlpha, isDigit]
theorem endsId_tilde (r : ElRef) (t : Str) : endsId r ('~' :: t) = true := by
  cases r <;> simp [endsId, notHead, idRest, isAsciiAlnum, isAsciiAlpha, isDigit]
theorem endsId_space (r : ElRef) (t : Str) : endsId r (' ' :: t) = true := by
  cases r <;> simp [endsId, notHead, idRest, isAsciiAlnum, isAsciiAlpha, isDigit]
theorem endsId_nil (r : ElRef) : endsId r [] = true := by
  cases r <;> simp [endsId, notHead]

/-! ### (b) LOCATION -/

/-- **`x="#id@loc"`** (any position attribute, any location that parses - the nine names and the edge
    forms): the x-like attributes become the printed x of `refBox.locspec loc`, the y-like the y -/
theorem evalPosAttr_at (c : Ctx) (e refEl : Elem) (name ls : Str) (ss : ScalarSpec) (r : ElRef) (loc : LocSpec)
    (refBox : BoundingBox) (hname : parseScalarSpec name = some ss) (hid : IdOk r = true)
    (hget : c.get r = some refEl) (hbb : c.bb refEl = .ok (some refBox)) (ht : textLocOk e = true)
    (hls : noSpace ls = true) (hloc : parseLocSpec ls = some loc) :
    e.evalPosAttr c name (refStr r ++ '@' :: ls) = .ok (fstr (axisVal ss refBox loc 0 0)) := by
  rw [evalPosAttr_ref c e refEl name ss r _ refBox hname hid (endsId_at r ls) hget hbb]
  exact posAttrHelper_at e _ ls [] refBox ss loc 0 0
    (splitOnceSpace_none ('@' :: ls) (by simpa [noSpace] using hls)) ht hloc extractDxDy_nil

/-- **`x="#id@loc d"`**: … plus the offset (this is what `xy="#id@loc dx dy"` hands to x with `dx` and to
    y with `dy`: `splitCompoundAttr_ref_two`) -/
theorem evalPosAttr_at_d (c : Ctx) (e refEl : Elem) (name ls d : Str) (ss : ScalarSpec) (r : ElRef) (loc : LocSpec)
    (q : Rat) (refBox : BoundingBox) (hname : parseScalarSpec name = some ss) (hid : IdOk r = true)
    (hget : c.get r = some refEl) (hbb : c.bb refEl = .ok (some refBox)) (ht : textLocOk e = true)
    (hls : noSpace ls = true) (hloc : parseLocSpec ls = some loc) (hd : isWord d = true) (hq : strp d = some q) :
    e.evalPosAttr c name (refStr r ++ ('@' :: ls ++ ' ' :: d)) = .ok (fstr (axisVal ss refBox loc q q)) := by
  rw [evalPosAttr_ref c e refEl name ss r (('@' :: ls) ++ ' ' :: d) refBox hname hid
    (endsId_at r (ls ++ ' ' :: d)) hget hbb]
  exact posAttrHelper_at e _ ls d refBox ss loc q q
    (splitOnceSpace_sp ('@' :: ls) d (by simpa [noSpace] using hls)) ht hloc (extractDxDy_word d q hd hq)

/-- `x="#id"` / `x="#id d"` without a location: the same side as the attribute -/
theorem evalPosAttr_plain (c : Ctx) (e refEl : Elem) (name : Str) (ss : ScalarSpec) (r : ElRef)
    (refBox : BoundingBox) (hname : parseScalarSpec name = some ss) (hid : IdOk r = true)
    (hget : c.get r = some refEl) (hbb : c.bb refEl = .ok (some refBox)) (hn : (e.name == cs!"text") = false) :
    e.evalPosAttr c name (refStr r) = .ok (fstr (axisVal ss refBox (LocSpec.from_scalarspec ss) 0 0)) := by
  have := evalPosAttr_ref c e refEl name ss r [] refBox hname hid (endsId_nil r) hget hbb
  rw [List.append_nil] at this
  rw [this]
  exact posAttrHelper_plain e [] [] refBox ss 0 0 (by rfl) hn extractDxDy_nil

/-- the nine names -/
theorem parseLocSpec_named :
    parseLocSpec cs!"tl" = some .TopLeft ∧ parseLocSpec ['t'] = some .Top ∧ parseLocSpec cs!"tr" = some .TopRight ∧
    parseLocSpec ['r'] = some .Right ∧ parseLocSpec cs!"br" = some .BottomRight ∧ parseLocSpec ['b'] = some .Bottom ∧
    parseLocSpec cs!"bl" = some .BottomLeft ∧ parseLocSpec ['l'] = some .Left ∧ parseLocSpec ['c'] = some .Center := by
  decide

/-- the edge forms `t:len r:len b:len l:len` for every length that parses -/
theorem parseLocSpec_edge (len : Str) (l : Length) (h : parseLength len = some l) :
    parseLocSpec ('t' :: ':' :: len) = some (.TopEdge l) ∧ parseLocSpec ('r' :: ':' :: len) = some (.RightEdge l) ∧
    parseLocSpec ('b' :: ':' :: len) = some (.BottomEdge l) ∧ parseLocSpec ('l' :: ':' :: len) = some (.LeftEdge l) := by
  refine ⟨?_, ?_, ?_, ?_⟩ <;>
    simp [parseLocSpec, Attrs.lookupTable, LocSpec.fromStrTable, LocSpec.edgeTable, splitOnce, breakOn, h]

example : parseLength cs!"25%" = some (.Ratio (1/4)) ∧ parseLength cs!"-3" = some (.Absolute (-3)) ∧
    parseLength ['2'] = some (.Absolute 2) := by decide +kernel

/-! ### (c) SCALARS AND SIZES -/

/-- **`x="#id~x2"`** (every position attribute, every ScalarSpec name): the printed scalar of the box -/
theorem evalPosAttr_scalar (c : Ctx) (e refEl : Elem) (name sstr : Str) (ss s : ScalarSpec) (r : ElRef)
    (refBox : BoundingBox) (hname : parseScalarSpec name = some ss) (hid : IdOk r = true)
    (hget : c.get r = some refEl) (hbb : c.bb refEl = .ok (some refBox))
    (hsp : noSpace sstr = true) (hs : parseScalarSpec sstr = some s) :
    e.evalPosAttr c name (refStr r ++ '~' :: sstr) = .ok (fstr (refBox.scalarspec s)) := by
  rw [evalPosAttr_ref c e refEl name ss r _ refBox hname hid (endsId_tilde r sstr) hget hbb,
    posAttrHelper_scalar e _ sstr [] refBox ss s (splitOnceSpace_none ('~' :: sstr) (by simpa [noSpace] using hsp)) hs,
    adjBy_nil]

/-- `x="#id~x2 3"` / `"#id~w 50%"`: the scalar adjusted by the length -/
theorem evalPosAttr_scalar_d (c : Ctx) (e refEl : Elem) (name sstr d : Str) (ss s : ScalarSpec) (r : ElRef)
    (refBox : BoundingBox) (hname : parseScalarSpec name = some ss) (hid : IdOk r = true)
    (hget : c.get r = some refEl) (hbb : c.bb refEl = .ok (some refBox))
    (hsp : noSpace sstr = true) (hs : parseScalarSpec sstr = some s) :
    e.evalPosAttr c name (refStr r ++ ('~' :: sstr ++ ' ' :: d)) = .ok (fstr (adjBy d (refBox.scalarspec s))) := by
  rw [evalPosAttr_ref c e refEl name ss r (('~' :: sstr) ++ ' ' :: d) refBox hname hid
      (endsId_tilde r (sstr ++ ' ' :: d)) hget hbb,
    posAttrHelper_scalar e _ sstr d refBox ss s (splitOnceSpace_sp ('~' :: sstr) d (by simpa [noSpace] using hsp)) hs]

/-- `eval_size_attr` on a reference: `[~scalar][ delta]`; a first word that does not start with `~` is not
    looked at -/
theorem evalSizeAttr_ref (c : Ctx) (refEl : Elem) (name : Str) (ss : ScalarSpec) (r : ElRef) (remain w dxy : Str)
    (refBox : BoundingBox) (hname : parseScalarSpec name = some ss) (hid : IdOk r = true)
    (hrem : endsId r remain = true) (hget : c.get r = some refEl) (hbb : c.bb refEl = .ok (some refBox))
    (hsp : Elem.splitOnceSpace remain = (w, dxy)) :
    Elem.evalSizeAttr c name (refStr r ++ remain) =
      match stripPrefix ['~'] w with
      | some sstr =>
        (match parseScalarSpec sstr with
         | some s => .ok (fstr (adjBy dxy (refBox.scalarspec s)))
         | none => .error .invalidData)
      | none => .ok (fstr (adjBy dxy (refBox.scalarspec ss))) := by
  cases h1 : stripPrefix ['~'] w with
  | none =>
    cases hp : parseLength dxy <;>
      simp [Elem.evalSizeAttr, hname, splitRelspec_ref c r remain refEl hid hrem hget, hbb, bind, Except.bind, hsp,
        h1, hp, adjBy, pure, Except.pure]
  | some sstr =>
    cases h2 : parseScalarSpec sstr with
    | none =>
      simp [Elem.evalSizeAttr, hname, splitRelspec_ref c r remain refEl hid hrem hget, hbb, bind, Except.bind, hsp,
        h1, h2, throw, throwThe, MonadExceptOf.throw]
    | some s =>
      cases hp : parseLength dxy <;>
        simp [Elem.evalSizeAttr, hname, splitRelspec_ref c r remain refEl hid hrem hget, hbb, bind, Except.bind, hsp,
          h1, h2, hp, adjBy, pure, Except.pure]

/-- **`width="#id"`** (what `wh="#id"` gives both attributes): the same kind of scalar of the box -/
theorem evalSizeAttr_same (c : Ctx) (refEl : Elem) (name : Str) (ss : ScalarSpec) (r : ElRef)
    (refBox : BoundingBox) (hname : parseScalarSpec name = some ss) (hid : IdOk r = true)
    (hget : c.get r = some refEl) (hbb : c.bb refEl = .ok (some refBox)) :
    Elem.evalSizeAttr c name (refStr r) = .ok (fstr (refBox.scalarspec ss)) := by
  have := evalSizeAttr_ref c refEl name ss r [] [] [] refBox hname hid (endsId_nil r) hget hbb (by rfl)
  rw [List.append_nil] at this
  rw [this]; simp [stripPrefix, adjBy_nil]

/-- **`width="#id 50%"`, `width="#id 2"`** (what `wh="#id 50%"` / `wh="#id 2 3"` give): adjusted by the length -/
theorem evalSizeAttr_delta (c : Ctx) (refEl : Elem) (name d : Str) (ss : ScalarSpec) (r : ElRef) (len : Length)
    (refBox : BoundingBox) (hname : parseScalarSpec name = some ss) (hid : IdOk r = true)
    (hget : c.get r = some refEl) (hbb : c.bb refEl = .ok (some refBox)) (hd : parseLength d = some len) :
    Elem.evalSizeAttr c name (refStr r ++ ' ' :: d) = .ok (fstr (len.adjust (refBox.scalarspec ss))) := by
  rw [evalSizeAttr_ref c refEl name ss r (' ' :: d) [] d refBox hname hid (endsId_space r d) hget hbb
    (splitOnceSpace_sp [] d (by rfl))]
  simp [stripPrefix, adjBy_len d len _ hd]

/-- **`width="#id~h"`**: another scalar of the box -/
theorem evalSizeAttr_scalar (c : Ctx) (refEl : Elem) (name sstr : Str) (ss s : ScalarSpec) (r : ElRef)
    (refBox : BoundingBox) (hname : parseScalarSpec name = some ss) (hid : IdOk r = true)
    (hget : c.get r = some refEl) (hbb : c.bb refEl = .ok (some refBox))
    (hsp : noSpace sstr = true) (hs : parseScalarSpec sstr = some s) :
    Elem.evalSizeAttr c name (refStr r ++ '~' :: sstr) = .ok (fstr (refBox.scalarspec s)) := by
  rw [evalSizeAttr_ref c refEl name ss r ('~' :: sstr) ('~' :: sstr) [] refBox hname hid (endsId_tilde r sstr) hget hbb
    (splitOnceSpace_none ('~' :: sstr) (by simpa [noSpace] using hsp))]
  simp [stripPrefix, hs, adjBy_nil]


/-! ### (b) continued: `xy="#id@loc dx dy"` through `split_compound_attr` and the `xy-loc` table -/

def startsRef (v : Str) : Bool := match v with | c :: _ => c == '#' || c == '^' | [] => false
def noWs (a : Str) : Bool := a.all (fun c => !isWs c)

/-- `xy="#id@loc"`: both axes get the whole value -/
theorem splitCompoundAttr_ref_alone (v : Str) (h1 : startsRef v = true) (h2 : noWs v = true) :
    Elem.splitCompoundAttr v = (v, v) := by
  cases v with
  | nil => simp [startsRef] at h1
  | cons c t =>
    have hc : (c == '#' || c == '^') = true := h1
    simp [Elem.splitCompoundAttr, hc, breakOn_none isWs (c :: t) h2]

/-- `xy="#id@loc d"`: both axes get the one offset -/
theorem splitCompoundAttr_ref_one (p a : Str) (h1 : startsRef p = true) (h2 : noWs p = true) (ha : isWord a = true) :
    Elem.splitCompoundAttr (p ++ ' ' :: a) = (p ++ ' ' :: a, p ++ ' ' :: a) := by
  cases p with
  | nil => simp [startsRef] at h1
  | cons c t =>
    have hc : (c == '#' || c == '^') = true := h1
    have hb := breakOn_hit isWs (c :: t) ' ' a h2 (by decide)
    simp only [List.cons_append] at hb
    simp [Elem.splitCompoundAttr, hc, hb, Elem.cyclePair, attrSplit_word a ha]

/-- `xy="#id@loc dx dy"`: x gets `#id@loc dx`, y gets `#id@loc dy` -/
theorem splitCompoundAttr_ref_two (p a b : Str) (h1 : startsRef p = true) (h2 : noWs p = true)
    (ha : isWord a = true) (hb' : isWord b = true) :
    Elem.splitCompoundAttr (p ++ ' ' :: (a ++ ' ' :: b)) = (p ++ ' ' :: a, p ++ ' ' :: b) := by
  cases p with
  | nil => simp [startsRef] at h1
  | cons c t =>
    have hc : (c == '#' || c == '^') = true := h1
    have hb := breakOn_hit isWs (c :: t) ' ' (a ++ ' ' :: b) h2 (by decide)
    simp only [List.cons_append] at hb
    simp [Elem.splitCompoundAttr, hc, hb, Elem.cyclePair, attrSplit_two_words a b ha hb']

def isXSpec : ScalarSpec → Bool | .Minx | .Maxx | .Cx => true | _ => false
def isYSpec : ScalarSpec → Bool | .Miny | .Maxy | .Cy => true | _ => false

theorem axisVal_x (ss : ScalarSpec) (h : isXSpec ss = true) (b : BoundingBox) (loc : LocSpec) (dx dy : Rat) :
    axisVal ss b loc dx dy = (b.locspec loc).1 + dx := by cases ss <;> simp_all [isXSpec, axisVal]
theorem axisVal_y (ss : ScalarSpec) (h : isYSpec ss = true) (b : BoundingBox) (loc : LocSpec) (dx dy : Rat) :
    axisVal ss b loc dx dy = (b.locspec loc).2 + dy := by cases ss <;> simp_all [isYSpec, axisVal]

/-- whatever `xy-loc` says (one of the eight keys, anything else, or nothing): `xy` is written into an
    x-like and a y-like attribute -/
theorem xyLoc_axes (l : Option Str) :
    (parseScalarSpec (Elem.xyLoc l).1).map isXSpec = some true ∧
    (parseScalarSpec (Elem.xyLoc l).2).map isYSpec = some true := by
  cases l with
  | none => decide
  | some l =>
    simp only [Elem.xyLoc]
    split
    · rename_i p heq
      simp only [Gen.Element.xyLocTable, List.map, Attrs.lookupTable] at heq
      repeat' split at heq
      all_goals first | (cases heq; decide) | cases heq
    · decide

/-- `cxy` is written into `cx` / `cy`; these are x-like / y-like too -/
theorem cxy_axes : (parseScalarSpec cs!"cx").map isXSpec = some true ∧ (parseScalarSpec cs!"cy").map isYSpec = some true := by
  decide

/-- **(b) the location form.** With `(xa, ya)` the attribute pair that `expand_compound_pos` writes `xy`
    into for the given `xy-loc` (absent: `x` / `y`; for `cxy`: take `xa = cx`, `ya = cy` - `cxy_axes`), and
    `(vx, vy)` the two halves of `xy = #id@loc dx dy`: `eval_pos_attr` turns `xa` into the printed x of
    `refBox.locspec loc` plus `dx` and `ya` into the printed y plus `dy`. By
    `Props.C09.xy_loc_anchor_on_target` / `default_and_centre_anchor` that is the element's anchor. -/
theorem evalPosAttr_xy_at (c : Ctx) (e refEl : Elem) (xa ya ls dxs dys : Str) (r : ElRef) (loc : LocSpec)
    (dx dy : Rat) (refBox : BoundingBox)
    (hxa : (parseScalarSpec xa).map isXSpec = some true) (hya : (parseScalarSpec ya).map isYSpec = some true)
    (hid : IdOk r = true) (hget : c.get r = some refEl) (hbb : c.bb refEl = .ok (some refBox))
    (ht : textLocOk e = true) (hls : noSpace ls = true) (hloc : parseLocSpec ls = some loc)
    (hdx : isWord dxs = true) (hdy : isWord dys = true) (hqx : strp dxs = some dx) (hqy : strp dys = some dy) :
    e.evalPosAttr c xa (refStr r ++ ('@' :: ls ++ ' ' :: dxs)) = .ok (fstr ((refBox.locspec loc).1 + dx)) ∧
    e.evalPosAttr c ya (refStr r ++ ('@' :: ls ++ ' ' :: dys)) = .ok (fstr ((refBox.locspec loc).2 + dy)) ∧
    e.evalPosAttr c xa (refStr r ++ '@' :: ls) = .ok (fstr (refBox.locspec loc).1) ∧
    e.evalPosAttr c ya (refStr r ++ '@' :: ls) = .ok (fstr (refBox.locspec loc).2) := by
  obtain ⟨sx, hsx, hsx'⟩ := Option.map_eq_some_iff.mp hxa
  obtain ⟨sy, hsy, hsy'⟩ := Option.map_eq_some_iff.mp hya
  refine ⟨?_, ?_, ?_, ?_⟩
  · rw [evalPosAttr_at_d c e refEl xa ls dxs sx r loc dx refBox hsx hid hget hbb ht hls hloc hdx hqx, axisVal_x sx hsx']
  · rw [evalPosAttr_at_d c e refEl ya ls dys sy r loc dy refBox hsy hid hget hbb ht hls hloc hdy hqy, axisVal_y sy hsy']
  · rw [evalPosAttr_at c e refEl xa ls sx r loc refBox hsx hid hget hbb ht hls hloc, axisVal_x sx hsx']; simp
  · rw [evalPosAttr_at c e refEl ya ls sy r loc refBox hsy hid hget hbb ht hls hloc, axisVal_y sy hsy']; simp

/-! ### (d) ERRORS, and exactly what is left unevaluated -/

/-- **`eval_pos_attr`, every case**: evaluated iff the attribute name is a scalar name AND the value reads
    as a reference; then a missing element is the reference error, a missing box the missing-box error,
    and otherwise `pos_attr_helper` decides. In every other case the value comes back verbatim. -/
theorem evalPosAttr_cases (c : Ctx) (e : Elem) (name value : Str) :
    e.evalPosAttr c name value =
      match parseScalarSpec name, extractElref value with
      | some ss, some (r, remain) =>
        (match c.get r with
         | none => .error .reference
         | some el =>
           match c.bb el with
           | .ok (some b) => e.posAttrHelper remain b ss
           | .ok none => .error .missingBBox
           | .error er => .error er)
      | _, _ => .ok value := by
  cases h1 : parseScalarSpec name with
  | none => simp [Elem.evalPosAttr, h1]
  | some ss =>
    cases h2 : extractElref value with
    | none => simp [Elem.evalPosAttr, Elem.splitRelspec, h1, h2, bind, Except.bind, pure, Except.pure]
    | some p =>
      obtain ⟨r, remain⟩ := p
      cases h3 : c.get r with
      | none => simp [Elem.evalPosAttr, Elem.splitRelspec, h1, h2, h3, bind, Except.bind]
      | some el =>
        cases h4 : c.bb el with
        | error er =>
          simp [Elem.evalPosAttr, Elem.splitRelspec, h1, h2, h3, h4, bind, Except.bind, throw, throwThe,
            MonadExceptOf.throw]
        | ok ob =>
          cases ob <;>
            simp [Elem.evalPosAttr, Elem.splitRelspec, h1, h2, h3, h4, bind, Except.bind, throw, throwThe,
              MonadExceptOf.throw]

/-- the same for `eval_size_attr` -/
theorem evalSizeAttr_cases (c : Ctx) (name value : Str) :
    (parseScalarSpec name = none ∨ extractElref value = none → Elem.evalSizeAttr c name value = .ok value) ∧
    (∀ ss r remain, parseScalarSpec name = some ss → extractElref value = some (r, remain) → c.get r = none →
      Elem.evalSizeAttr c name value = .error .reference) ∧
    (∀ ss r remain el, parseScalarSpec name = some ss → extractElref value = some (r, remain) → c.get r = some el →
      c.bb el = .ok none → Elem.evalSizeAttr c name value = .error .missingBBox) := by
  refine ⟨?_, ?_, ?_⟩
  · rintro (h | h)
    · simp [Elem.evalSizeAttr, h]
    · cases h1 : parseScalarSpec name <;> simp [Elem.evalSizeAttr, h1, Elem.splitRelspec, h, bind, Except.bind, pure, Except.pure]
  · intro ss r remain h1 h2 h3
    simp [Elem.evalSizeAttr, h1, Elem.splitRelspec, h2, h3, bind, Except.bind]
  · intro ss r remain el h1 h2 h3 h4
    simp [Elem.evalSizeAttr, h1, Elem.splitRelspec, h2, h3, h4, bind, Except.bind, throw, throwThe, MonadExceptOf.throw]

/-- **a reference to an element that is not in the context** (string form) -/
theorem evalPosAttr_missing (c : Ctx) (e : Elem) (name remain : Str) (ss : ScalarSpec) (r : ElRef)
    (hname : parseScalarSpec name = some ss) (hid : IdOk r = true) (hrem : endsId r remain = true)
    (hget : c.get r = none) : e.evalPosAttr c name (refStr r ++ remain) = .error .reference := by
  rw [evalPosAttr_cases, hname, extractElref_refStr r remain hid hrem]; simp [hget]

theorem evalSizeAttr_missing (c : Ctx) (name remain : Str) (ss : ScalarSpec) (r : ElRef)
    (hname : parseScalarSpec name = some ss) (hid : IdOk r = true) (hrem : endsId r remain = true)
    (hget : c.get r = none) : Elem.evalSizeAttr c name (refStr r ++ remain) = .error .reference :=
  (evalSizeAttr_cases c name _).2.1 ss r remain hname (extractElref_refStr r remain hid hrem) hget

/-- the attribute names `eval_rel_attributes` hands to the two evaluators are all scalar names: from there
    the "name is not a scalar name" way out is never taken -/
theorem isPosAttr_scalar (k : Str) (h : Elem.isPosAttr k = true) : (parseScalarSpec k).isSome = true := by
  simp only [Elem.isPosAttr, Bool.or_eq_true, beq_iff_eq] at h
  rcases h with ((((((h | h) | h) | h) | h) | h) | h) | h <;> subst h <;> decide

theorem isSizeAttr_scalar (e : Elem) (k : Str) (h : e.isSizeAttr k = true) : (parseScalarSpec k).isSome = true := by
  unfold Elem.isSizeAttr at h
  split at h
  · cases h
  · simp only [Bool.or_eq_true, Bool.and_eq_true, beq_iff_eq] at h
    rcases h with ((h | h) | ⟨_, h⟩) | ⟨_, h | h⟩ <;> subst h <;> decide

/-- **`eval_rel_position`, every case.** -/
theorem evalRelPosition_cases (c : Ctx) (e : Elem) :
    (e.attrs.get cs!"xy" = none → e.evalRelPosition c = .ok e) ∧
    (∀ v, e.attrs.get cs!"xy" = some v → extractElref v = none → e.evalRelPosition c = .ok e) ∧
    (∀ v r remain, e.attrs.get cs!"xy" = some v → extractElref v = some (r, remain) → c.get r = none →
      e.evalRelPosition c = .error .reference) ∧
    (∀ v r remain el er, e.attrs.get cs!"xy" = some v → extractElref v = some (r, remain) → c.get r = some el →
      c.bb el = .error er → e.evalRelPosition c = .error er) ∧
    (∀ v r remain el ob, e.attrs.get cs!"xy" = some v → extractElref v = some (r, remain) → c.get r = some el →
      c.bb el = .ok ob → (ob = none ∨ stripPrefix ['|'] remain = none) → e.evalRelPosition c = .ok e) := by
  refine ⟨?_, ?_, ?_, ?_, ?_⟩
  · intro h; simp [Elem.evalRelPosition, h]
  · intro v h1 h2; simp [Elem.evalRelPosition, h1, Elem.splitRelspec, h2, bind, Except.bind, pure, Except.pure]
  · intro v r remain h1 h2 h3; simp [Elem.evalRelPosition, h1, Elem.splitRelspec, h2, h3, bind, Except.bind]
  · intro v r remain el er h1 h2 h3 h4
    simp [Elem.evalRelPosition, h1, Elem.splitRelspec, h2, h3, h4, bind, Except.bind]
  · intro v r remain el ob h1 h2 h3 h4 h5
    rcases h5 with h5 | h5
    · subst h5; simp [Elem.evalRelPosition, h1, Elem.splitRelspec, h2, h3, h4, bind, Except.bind, pure, Except.pure]
    · cases ob <;> simp [Elem.evalRelPosition, h1, Elem.splitRelspec, h2, h3, h4, h5, bind, Except.bind, pure, Except.pure]

/-- **`xy="#nowhere|h"`, `xy="#nowhere@tl"`, …: the reference error, never a default position** -/
theorem evalRelPosition_missing (c : Ctx) (e : Elem) (r : ElRef) (remain : Str)
    (hxy : e.attrs.get cs!"xy" = some (refStr r ++ remain)) (hid : IdOk r = true) (hrem : endsId r remain = true)
    (hget : c.get r = none) : e.evalRelPosition c = .error .reference :=
  (evalRelPosition_cases c e).2.2.1 _ r remain hxy (extractElref_refStr r remain hid hrem) hget

/-- `xy="#id@loc …"` is not `eval_rel_position`'s business: the element goes on unchanged to
    `expand_compound_pos` -/
theorem evalRelPosition_at (c : Ctx) (e refEl : Elem) (r : ElRef) (t : Str) (ob : Option BoundingBox)
    (hxy : e.attrs.get cs!"xy" = some (refStr r ++ '@' :: t)) (hid : IdOk r = true)
    (hget : c.get r = some refEl) (hbb : c.bb refEl = .ok ob) : e.evalRelPosition c = .ok e :=
  (evalRelPosition_cases c e).2.2.2.2 _ r _ refEl ob hxy (extractElref_refStr r _ hid (endsId_at r t)) hget hbb
    (Or.inr (by simp [stripPrefix]))

/-- a direction that is none of `h H v V` -/
theorem evalRelPosition_bad_dir (c : Ctx) (e refEl : Elem) (r : ElRef) (d : Str) (refBox : BoundingBox)
    (hxy : e.attrs.get cs!"xy" = some (refStr r ++ '|' :: d)) (hid : IdOk r = true)
    (hget : c.get r = some refEl) (hbb : c.bb refEl = .ok (some refBox))
    (hd : noWs d = true) (hp : parseDirSpec d = none) : e.evalRelPosition c = .error .invalidData := by
  have he : endsId r ('|' :: d) = true := by
    cases r <;> simp [endsId, notHead, idRest, isAsciiAlnum, isAsciiAlpha, isDigit]
  simp [Elem.evalRelPosition, hxy, splitRelspec_ref c r _ refEl hid he hget, hbb, bind, Except.bind, stripPrefix,
    breakOn_none isWs d hd, hp, throw, throwThe, MonadExceptOf.throw]


/-! ### (c) continued: `resolve_size_delta` -/

theorem pop_absent (a : Attrs) (k : Str) (h : Attrs.get a k = none) : Attrs.pop a k = (a, none) := by
  induction a with
  | nil => rfl
  | cons x xs ih =>
    obtain ⟨k', v'⟩ := x
    by_cases hk : (k' == k) = true
    · simp [Attrs.get, Attrs.lookupTable, hk] at h
    · have hb : (k' == k) = false := by simpa using hk
      have h' : Attrs.get xs k = none := by simpa [Attrs.get, Attrs.lookupTable, hb] using h
      simp [Attrs.pop, hb, ih h']

theorem popAttr_eq (e : Elem) (k : Str) (hk : Attrs.NodupKeys e.attrs) :
    e.popAttr k = ({ e with attrs := Attrs.remove e.attrs k }, e.attrs.get k) :=
  Prod.ext (popAttr_fst e k) (popAttr_snd e k hk)

theorem popAttr_absent (e : Elem) (k : Str) (h : e.attrs.get k = none) : e.popAttr k = (e, none) := by
  simp [Elem.popAttr, pop_absent e.attrs k h]

/-- the width / height that `dw` / `dh` start from: the diameter(s) for circle / ellipse, else the literal
    `width` / `height` -/
def baseWH (e : Elem) : Option Rat × Option Rat :=
  if e.name == cs!"circle" then
    ((e.getAttr ['r']).map fun r => 2 * (strp r).getD 0, (e.getAttr ['r']).map fun r => 2 * (strp r).getD 0)
  else if e.name == cs!"ellipse" then
    (((e.getAttr cs!"rx").bind strp).map (· * 2), ((e.getAttr cs!"ry").bind strp).map (· * 2))
  else ((e.getAttr cs!"width").bind strp, (e.getAttr cs!"height").bind strp)

/-- **`dw`**: removed, and `width` set to the length applied to the base width (`3` adds, `50%` scales) -/
theorem resolveSizeDelta_dw (e : Elem) (hk : Attrs.NodupKeys e.attrs) (dws : Str) (l : Length) (w : Rat)
    (hdw : e.attrs.get cs!"dw" = some dws) (hdh : e.attrs.get cs!"dh" = none)
    (hl : parseLength dws = some l) (hw : (baseWH e).1 = some w) :
    e.resolveSizeDelta = (e.popAttr cs!"dw").1.setAttr cs!"width" (fstr (l.adjust w)) := by
  have hp1 : e.popAttr cs!"dw" = ({ e with attrs := Attrs.remove e.attrs cs!"dw" }, some dws) := by
    rw [popAttr_eq e _ hk, hdw]
  have n1 : Attrs.NodupKeys (Attrs.remove e.attrs cs!"dw") := Attrs.remove_nodup hk _
  have hp2 : (({ e with attrs := Attrs.remove e.attrs cs!"dw" } : Elem).setAttr cs!"width" (fstr (l.adjust w))).popAttr
      cs!"dh" = (({ e with attrs := Attrs.remove e.attrs cs!"dw" } : Elem).setAttr cs!"width" (fstr (l.adjust w)), none) := by
    apply popAttr_absent
    show Attrs.get (Attrs.insert (Attrs.remove e.attrs cs!"dw") cs!"width" _) cs!"dh" = none
    rw [Attrs.get_insert_other n1 _ _ _ (by decide), get_remove_other _ _ _ (by decide)]
    exact hdh
  by_cases hc : (e.name == cs!"circle") = true
  · simp only [baseWH, hc, if_true] at hw
    simp only [Elem.resolveSizeDelta, hc, if_true, hp1, hl, hw, hp2]
  · by_cases he : (e.name == cs!"ellipse") = true
    · simp only [baseWH, hc, he, if_true] at hw
      simp only [Elem.resolveSizeDelta, hc, he, if_true, hp1, hl, hw, hp2]
    · simp only [baseWH, hc, he] at hw
      simp only [Elem.resolveSizeDelta, hc, he, hp1, hl, hw, hp2]

/-- **`dh`** likewise -/
theorem resolveSizeDelta_dh (e : Elem) (hk : Attrs.NodupKeys e.attrs) (dhs : Str) (l : Length) (h : Rat)
    (hdw : e.attrs.get cs!"dw" = none) (hdh : e.attrs.get cs!"dh" = some dhs)
    (hl : parseLength dhs = some l) (hh : (baseWH e).2 = some h) :
    e.resolveSizeDelta = (e.popAttr cs!"dh").1.setAttr cs!"height" (fstr (l.adjust h)) := by
  have hp1 : e.popAttr cs!"dw" = (e, none) := popAttr_absent e _ hdw
  have hp2 : e.popAttr cs!"dh" = ({ e with attrs := Attrs.remove e.attrs cs!"dh" }, some dhs) := by
    rw [popAttr_eq e _ hk, hdh]
  by_cases hc : (e.name == cs!"circle") = true
  · simp only [baseWH, hc, if_true] at hh
    simp only [Elem.resolveSizeDelta, hc, if_true, hp1, hl, hh, hp2]
  · by_cases he : (e.name == cs!"ellipse") = true
    · simp only [baseWH, hc, he, if_true] at hh
      simp only [Elem.resolveSizeDelta, hc, he, if_true, hp1, hl, hh, hp2]
    · simp only [baseWH, hc, he] at hh
      simp only [Elem.resolveSizeDelta, hc, he, hp1, hl, hh, hp2]

/-- neither: nothing happens -/
theorem resolveSizeDelta_none (e : Elem) (hdw : e.attrs.get cs!"dw" = none) (hdh : e.attrs.get cs!"dh" = none) :
    e.resolveSizeDelta = e := by
  simp only [Elem.resolveSizeDelta, popAttr_absent e _ hdw, popAttr_absent e _ hdh]

/-! ### worked instances through the whole of `resolve_position` (hypotheses satisfiable, pipeline joined) -/

/-- `xy="#a@br 1 2" xy-loc="c"`: the centre of the 4 × 6 box lands on (10, 20) + (1, 2) -/
example : (Elem.new cs!"rect" [(cs!"xy", cs!"#a@br 1 2"), (cs!"xy-loc", ['c']), (cs!"wh", cs!"4 6")]).resolvePosition exCtx
    = .ok (Elem.new cs!"rect" [(['x'], ['9']), (['y'], cs!"19"), (cs!"width", ['4']), (cs!"height", ['6'])]) := by
  decide +kernel

/-- `cxy="#a@t:25%"`: the centre lands a quarter along the top edge -/
example : (Elem.new cs!"rect" [(cs!"cxy", cs!"#a@t:25%"), (cs!"wh", cs!"4 6")]).resolvePosition exCtx
    = .ok (Elem.new cs!"rect" [(['x'], cs!"0.5"), (['y'], cs!"-3"), (cs!"width", ['4']), (cs!"height", ['6'])]) := by
  decide +kernel

/-- `xy="^@l:-3" wh="#a 50%"`: top-left 3 up from the bottom of the left edge; half the size -/
example : (Elem.new cs!"rect" [(cs!"xy", cs!"^@l:-3"), (cs!"wh", cs!"#a 50%")]).resolvePosition exCtx
    = .ok (Elem.new cs!"rect" [(['x'], ['0']), (['y'], cs!"17"), (cs!"width", ['5']), (cs!"height", cs!"10")]) := by
  decide +kernel

/-- `xy="#a|h 5" wh="4 6" dw="200%"`: the size delta is applied before the placement -/
example : (Elem.new cs!"rect" [(cs!"xy", cs!"#a|h 5"), (cs!"wh", cs!"4 6"), (cs!"dw", cs!"200%")]).resolvePosition exCtx
    = .ok (Elem.new cs!"rect" [(['x'], cs!"15"), (['y'], ['7']), (cs!"width", ['8']), (cs!"height", ['6'])]) := by
  decide +kernel

/-- a missing reference fails the whole element -/
example : (Elem.new cs!"rect" [(cs!"xy", cs!"#zz|h 5"), (cs!"wh", cs!"4 6")]).resolvePosition exCtx = .error .reference := by
  decide +kernel

/-- FINDING (model = code): what looks like a reference but does not read as one (`#1z`: an id cannot start
    with a digit) is not an error and not a default position - the text is copied into `x` and `y` -/
example : (Elem.new cs!"rect" [(cs!"xy", cs!"#1z|h 5"), (cs!"wh", cs!"4 6")]).resolvePosition exCtx
    = .ok (Elem.new cs!"rect" [(['x'], cs!"#1z|h 5"), (['y'], cs!"#1z|h 5"), (cs!"width", ['4']), (cs!"height", ['6'])]) := by
  decide +kernel

/-- FINDING (model = code): on a circle with `r`, `dw` is consumed but has no effect on the result:
    `resolve_size_delta` writes `width`, `Position::from` prefers `r` -/
example : (Elem.new cs!"circle" [(cs!"cxy", cs!"#a@c"), (['r'], ['5']), (cs!"dw", ['4'])]).resolvePosition exCtx
    = (Elem.new cs!"circle" [(cs!"cxy", cs!"#a@c"), (['r'], ['5'])]).resolvePosition exCtx := by
  decide +kernel

/-- FINDING (model = code): in a size attribute a first word after the reference that does not start with
    `~`, and a delta that is not a length, are ignored without error -/
example : (Elem.new cs!"rect" [(cs!"width", cs!"#a@tl"), (cs!"height", cs!"#a junk")]).resolvePosition exCtx
    = .ok (Elem.new cs!"rect" [(cs!"width", cs!"10"), (cs!"height", cs!"20")]) := by
  decide +kernel

/-- text / point elements have no size attributes: `width="#zz"` on a text is not looked at -/
example : (Elem.new cs!"text" [(cs!"width", cs!"#zz")]).resolvePosition exCtx
    = .ok (Elem.new cs!"text" [(cs!"width", cs!"#zz")]) := by
  decide +kernel


/-! ### the hypotheses of the general theorems are satisfiable (instances on `exCtx`) -/

def exBox : BoundingBox := ⟨0, 0, 10, 20⟩
theorem exBB : exCtx.bb exA = .ok (some exBox) := by decide +kernel

example : (exE []).evalPosAttr exCtx cs!"cx" (refStr (.id ['a']) ++ ('@' :: cs!"t:25%" ++ ' ' :: ['1'])) = .ok (fstr (5/2 + 1)) ∧
    (exE []).evalPosAttr exCtx cs!"y2" (refStr (.id ['a']) ++ ('@' :: cs!"t:25%" ++ ' ' :: ['2'])) = .ok (fstr (0 + 2)) := by
  have h := evalPosAttr_xy_at exCtx (exE []) exA cs!"cx" cs!"y2" cs!"t:25%" ['1'] ['2'] (.id ['a'])
    (.TopEdge (.Ratio (1/4))) 1 2 exBox (by decide) (by decide) (by decide) (by decide +kernel) exBB (by decide)
    (by decide) (by decide +kernel) (by decide) (by decide) (by decide +kernel) (by decide +kernel)
  refine ⟨?_, ?_⟩
  · rw [h.1]; decide +kernel
  · rw [h.2.1]; decide +kernel

example : (exE []).evalPosAttr exCtx ['x'] (refStr .prev ++ '~' :: cs!"x2") = .ok (fstr (exBox.scalarspec .Maxx)) :=
  evalPosAttr_scalar exCtx (exE []) exA ['x'] cs!"x2" .Minx .Maxx .prev exBox (by decide) (by decide)
    (by decide +kernel) exBB (by decide) (by decide)

example : Elem.evalSizeAttr exCtx cs!"width" (refStr (.id ['a']) ++ ' ' :: cs!"50%") =
    .ok (fstr ((Length.Ratio (1/2)).adjust (exBox.scalarspec .Width))) :=
  evalSizeAttr_delta exCtx exA cs!"width" cs!"50%" .Width (.id ['a']) (.Ratio (1/2)) exBox (by decide) (by decide)
    (by decide +kernel) exBB (by decide +kernel)

example : (Elem.new cs!"circle" [(['r'], ['5']), (cs!"dw", ['4'])]).resolveSizeDelta =
    ((Elem.new cs!"circle" [(['r'], ['5']), (cs!"dw", ['4'])]).popAttr cs!"dw").1.setAttr cs!"width"
      (fstr ((Length.Absolute 4).adjust 10)) :=
  resolveSizeDelta_dw _ (by decide +kernel) ['4'] (.Absolute 4) 10 (by decide +kernel) (by decide +kernel)
    (by decide +kernel) (by decide +kernel)

example : (exE cs!"#zz@tl").evalRelPosition exCtx = .error .reference :=
  evalRelPosition_missing exCtx _ (.id cs!"zz") cs!"@tl" (by decide +kernel) (by decide) (by decide) (by decide +kernel)

end Svgdx.RelPlace
