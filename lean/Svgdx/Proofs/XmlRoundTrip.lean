/-
  Svgdx.Proofs.XmlRoundTrip — the reader's tokenizer reads back exactly what the writer wrote:
  `tokenize (write evs) = tokensOf evs` for every `Writable` event list (a condition on NAMES only; values, text,
  comments and CDATA are arbitrary), hence `passThroughW (write evs) = some (write evs)`: the second pass over any
  output of the writer is the identity, with no side condition on the output text.
-/
import Svgdx.Xml.WriteTok
import Svgdx.Proofs.XmlScan
namespace Svgdx.Xml
open Svgdx Str

/-! ## `scanTag` over a rendered tag body -/

/-- a piece of a tag that `scanTag` walks through outside quotes, ending outside quotes -/
def TagBody (b : Str) : Prop := ∀ s acc, scanTag (b ++ s) none acc = scanTag s none (b.reverse ++ acc)

theorem tagBody_nil : TagBody [] := by intro s acc; simp

theorem tagBody_append {a b : Str} (ha : TagBody a) (hb : TagBody b) : TagBody (a ++ b) := by
  intro s acc
  rw [List.append_assoc, ha, hb]; simp

theorem tagBody_safe (a : Str) (h : a.all tagSafe = true) : TagBody a := by
  induction a with
  | nil => exact tagBody_nil
  | cons c a ih =>
    intro s acc
    simp only [List.all_cons, Bool.and_eq_true] at h
    have hc := h.1
    simp only [tagSafe, Bool.and_eq_true, bne_iff_ne, ne_eq] at hc
    have h1 : (c == '>') = false := by simpa using hc.1.1
    have h2 : (c == '"') = false := by simpa using hc.1.2
    have h3 : (c == '\'') = false := by simpa using hc.2
    have := ih h.2 s (c :: acc)
    simp [scanTag, h1, h2, h3, this]

theorem scanTag_inQuote (v s acc : Str) (h : ∀ c ∈ v, c ≠ '"') :
    scanTag (v ++ '"' :: s) (some '"') acc = scanTag s none ('"' :: v.reverse ++ acc) := by
  induction v generalizing acc with
  | nil => simp [scanTag]
  | cons c v ih =>
    have hc : (c == '"') = false := by simpa using h c (by simp)
    have := ih (c :: acc) (fun d hd => h d (by simp [hd]))
    simp [scanTag, hc, this]

theorem tagBody_quoted (v : Str) (h : ∀ c ∈ v, c ≠ '"') : TagBody ('"' :: v ++ ['"']) := by
  intro s acc
  have := scanTag_inQuote v s ('"' :: acc) h
  simp [scanTag, this]

theorem tagBody_attrText (k v : Str) (hk : k.all tagSafe = true) : TagBody (attrText k v) := by
  unfold attrText
  have h1 : TagBody ([' '] ++ k ++ ['=']) := tagBody_safe _ (by simp [hk, tagSafe])
  have h2 : TagBody ('"' :: escape v ++ ['"']) := tagBody_quoted _ (fun c hc => (escape_safe v c hc).2.2.1)
  have := tagBody_append h1 h2
  simpa using this

theorem tagBody_attrs (a : Attrs) (h : keysW a = true) : TagBody (a.flatMap fun kv => attrText kv.1 kv.2) := by
  induction a with
  | nil => exact tagBody_nil
  | cons kv a ih =>
    simp only [keysW, List.all_cons, Bool.and_eq_true] at h
    simp only [List.flatMap_cons]
    exact tagBody_append (tagBody_attrText _ _ h.1) (ih h.2)

theorem nameW_all {n : Str} (h : nameW n = true) : n.all tagSafe = true := by
  unfold nameW at h
  split at h
  · cases h
  · simp only [Bool.and_eq_true] at h; exact h.2

theorem tagBody_startContent (e : Elem) (hn : nameW e.name = true) (hk : keysW e.attrs = true) :
    TagBody (startContent e) := by
  unfold startContent
  refine tagBody_append (tagBody_append (tagBody_safe _ (nameW_all hn)) (tagBody_attrs _ hk)) ?_
  split
  · exact tagBody_nil
  · exact tagBody_attrText _ _ (by decide)

theorem scanTag_body (b rest : Str) (h : TagBody b) : scanTag (b ++ '>' :: rest) none [] = some (b, rest) := by
  rw [h]; simp [scanTag]

/-! ## one event at a time -/

theorem startContent_head (e : Elem) (hn : nameW e.name = true) :
    ∃ h t, startContent e = h :: t ∧ h ≠ '!' ∧ h ≠ '?' ∧ h ≠ '/' := by
  unfold nameW at hn
  split at hn
  · cases hn
  · rename_i h t heq
    simp only [Bool.and_eq_true, bne_iff_ne, ne_eq] at hn
    have : startContent e = h :: (t ++ (e.attrs.flatMap (fun kv => attrText kv.1 kv.2) ++
        (if e.classes.isEmpty then [] else attrText cs!"class" (intercalate [' '] e.classes)))) := by
      unfold startContent
      rw [heq]; simp only [List.cons_append, List.append_assoc]
    exact ⟨h, _, this, hn.1.1.1, hn.1.1.2, hn.1.2⟩

/-- the generic branch of `nextTok`: a `<` followed by something that is not `!`, `?`, `/` -/
theorem nextTok_tag (h : Char) (t : Str) (h1 : h ≠ '!') (h2 : h ≠ '?') (h3 : h ≠ '/') :
    nextTok ('<' :: h :: t) = (scanTag (h :: t) none []).map fun (c, after) =>
      match c.reverse with
      | '/' :: body => (⟨.empty, ['<'], body.reverse, cs!"/>"⟩, after)
      | _ => (⟨.start, ['<'], c, ['>']⟩, after) := by
  have e1 : ('!' == h) = false := by simpa using fun e => h1 e.symm
  unfold nextTok
  simp only [stripPrefix, e1]
  split
  · rename_i heq; simp at heq
  · split
    · rename_i heq; simp at heq
    · split
      · rename_i heq; simp at heq
      · split
        · rename_i heq; injection heq with heq; exact absurd heq h2
        · rename_i heq; injection heq with heq; exact absurd heq h3
        · rfl

theorem getLast_attrText (pre k v : Str) : (pre ++ attrText k v).getLast? = some '"' := by
  have : pre ++ attrText k v = (pre ++ [' '] ++ k ++ cs!"=\"" ++ escape v) ++ ['"'] := by simp [attrText]
  rw [this]; exact List.getLast?_concat

theorem startContent_last (e : Elem)
    (hl : (!(e.attrs.isEmpty && e.classes.isEmpty) || e.name.getLast? != some '/') = true) :
    (startContent e).getLast? ≠ some '/' := by
  unfold startContent
  by_cases hc : e.classes.isEmpty = true
  · simp only [hc, if_true, List.append_nil]
    cases ha : e.attrs with
    | nil =>
      simp only [ha, List.isEmpty_nil, hc, Bool.and_self, Bool.not_true, Bool.false_or, bne_iff_ne, ne_eq] at hl
      simpa using hl
    | cons kv a =>
      rcases List.eq_nil_or_concat (kv :: a) with h | ⟨a', kv', h⟩
      · cases h
      · rw [h, List.concat_eq_append, List.flatMap_append]
        simp only [List.flatMap_cons, List.flatMap_nil, List.append_nil, ← List.append_assoc]
        rw [getLast_attrText]; simp
  · simp only [hc, Bool.false_eq_true, if_false]
    rw [getLast_attrText]; simp

theorem nextTok_start (e : Elem) (rest : Str) (h : writableEv (.start e) = true) :
    nextTok (renderEv (.start e) ++ rest) = some (⟨.start, ['<'], startContent e, ['>']⟩, rest) := by
  simp only [writableEv, Bool.and_eq_true] at h
  obtain ⟨⟨hn, hk⟩, hl⟩ := h
  obtain ⟨c, t, hct, h1, h2, h3⟩ := startContent_head e hn
  have hs := scanTag_body _ rest (tagBody_startContent e hn hk)
  have hlast := startContent_last e hl
  simp only [renderEv, List.cons_append, List.nil_append, List.append_assoc]
  rw [hct] at hs ⊢
  simp only [List.cons_append] at hs ⊢
  rw [nextTok_tag c _ h1 h2 h3, hs]
  simp only [Option.map_some]
  split
  · rename_i body hb
    exfalso; apply hlast
    rw [hct, List.getLast?_eq_head?_reverse, hb]; rfl
  · rfl

theorem nextTok_empty (e : Elem) (rest : Str) (h : writableEv (.empty e) = true) :
    nextTok (renderEv (.empty e) ++ rest) = some (⟨.empty, ['<'], startContent e, cs!"/>"⟩, rest) := by
  simp only [writableEv, Bool.and_eq_true] at h
  obtain ⟨hn, hk⟩ := h
  obtain ⟨c, t, hct, h1, h2, h3⟩ := startContent_head e hn
  have hb : TagBody (startContent e ++ ['/']) :=
    tagBody_append (tagBody_startContent e hn hk) (tagBody_safe _ (by decide))
  have hs := scanTag_body _ rest hb
  simp only [renderEv, List.cons_append, List.nil_append, List.append_assoc]
  rw [hct] at hs ⊢
  simp only [List.cons_append, List.append_assoc, List.nil_append] at hs ⊢
  rw [nextTok_tag c _ h1 h2 h3, hs]
  simp

theorem nextTok_end (n rest : Str) (h : writableEv (.end_ n) = true) :
    nextTok (renderEv (.end_ n) ++ rest) = some (⟨.end_, cs!"</", n, ['>']⟩, rest) := by
  simp only [writableEv, Bool.and_eq_true] at h
  obtain ⟨hs, hw⟩ := h
  have hsc := scanTag_body _ rest (tagBody_safe n hs)
  have hd : n.reverse.dropWhile isAsciiWs = n.reverse ∧ n.reverse.takeWhile isAsciiWs = [] := by
    unfold noTrailingWs at hw
    cases hr : n.reverse with
    | nil => simp
    | cons x r =>
      have : n.getLast? = some x := by
        rw [List.getLast?_eq_head?_reverse, hr]; rfl
      rw [this] at hw
      simp only [Bool.not_eq_true'] at hw
      simp [hw]
  simp only [renderEv, List.cons_append, List.nil_append, List.append_assoc]
  unfold nextTok
  simp only [stripPrefix]
  simp [hsc, hd]

theorem nextTok_comment (c rest : Str) :
    nextTok (renderEv (.comment c) ++ rest) = some (⟨.comment, cs!"<!--", commentSafe c, cs!"-->"⟩, rest) := by
  have hs := splitAt_first cs!"-->" (commentSafe c) rest
    (firstAt_comment _ _ (commentSafe_ok c).1 (commentSafe_ok c).2)
  simp only [renderEv, List.cons_append, List.nil_append, List.append_assoc]
  unfold nextTok
  simp only [stripPrefix]
  simp only [List.cons_append, List.nil_append] at hs
  simp [hs]

theorem nextTok_cdata (p rest : Str) (h : NoCE p) :
    nextTok ((cdataTok p).render ++ rest) = some (cdataTok p, rest) := by
  have hs := splitAt_first cs!"]]>" p rest (firstAt_cdata _ _ h)
  simp only [cdataTok, Tok.render, List.cons_append, List.nil_append, List.append_assoc]
  unfold nextTok
  simp only [stripPrefix]
  simp only [List.cons_append, List.nil_append] at hs
  simp [hs]

theorem nextTok_text (t rest : Str) (hne : t ≠ []) (ht : ∀ c ∈ t, c ≠ '<') (hr : StartsLt rest) :
    nextTok (t ++ rest) = some (⟨.text, [], t, []⟩, rest) := by
  obtain ⟨h1, h2⟩ := takeWhile_lt t rest ht hr
  cases t with
  | nil => exact absurd rfl hne
  | cons c t' =>
    have hc := ht c (by simp)
    simp only [List.cons_append] at h1 h2 ⊢
    unfold nextTok
    split
    · rename_i heq; cases heq
    · rename_i heq; injection heq with heq; exact absurd heq hc
    · simp only [h1, h2]

/-! ## a list of tokens, each of which the tokenizer cuts off correctly -/

/-- the tokenizer cuts `t` off the front of `t.render ++ rest` (for character data: when markup or the end follows) -/
def GoodTok (t : Tok) : Prop :=
  t.render ≠ [] ∧ ∀ rest, (t.kind = .text → StartsLt rest) → nextTok (t.render ++ rest) = some (t, rest)

def Chain : List Tok → Prop
  | [] => True
  | t :: ts => GoodTok t ∧ (t.kind = .text → StartsLt (render ts)) ∧ Chain ts

theorem tokenize_nil (fuel : Nat) : tokenize fuel [] = some [] := by cases fuel <;> rfl

theorem tokenize_chain (ts : List Tok) (h : Chain ts) :
    ∀ fuel, (render ts).length ≤ fuel → tokenize fuel (render ts) = some ts := by
  induction ts with
  | nil => intro fuel _; exact tokenize_nil fuel
  | cons t ts ih =>
    intro fuel hf
    obtain ⟨⟨hne, hg⟩, hk, hc⟩ := h
    have hn := hg (render ts) hk
    have hr : render (t :: ts) = t.render ++ render ts := by simp [render]
    rw [hr] at hf ⊢
    cases hs : t.render ++ render ts with
    | nil => exact absurd (List.append_eq_nil_iff.mp hs).1 hne
    | cons c cs =>
      have hl : 1 ≤ t.render.length := by
        cases ht : t.render with
        | nil => exact absurd ht hne
        | cons _ _ => simp
      simp only [List.length_append] at hf
      obtain ⟨k, rfl⟩ : ∃ k, fuel = k + 1 := ⟨fuel - 1, by omega⟩
      rw [hs] at hn
      simp only [tokenize, hn, ih hc k (by omega), Option.map_some]

theorem chain_cons_markup {t : Tok} {ts : List Tok} (hk : t.kind ≠ .text) (hg : GoodTok t) (hc : Chain ts) :
    Chain (t :: ts) := ⟨hg, fun h => absurd h hk, hc⟩

/-! ## the tokens of an event list -/

theorem render_toksOf (e : Ctl.Ev) : render (toksOf e) = renderEv e := by
  cases e with
  | text t =>
    simp only [toksOf, renderEv]
    split
    · rename_i h; simp [render, h]
    · simp [render, Tok.render]
  | cdata c =>
    simp only [toksOf, renderEv, render, List.flatMap_map]
    rfl
  | _ => simp [toksOf, renderEv, render, Tok.render]

theorem renderW_toksOf (e : Ctl.Ev) : renderW (toksOf e) = renderEv e := by
  cases e with
  | text t =>
    simp only [toksOf, renderEv]
    split
    · rename_i h; simp [renderW, h]
    · simp [renderW, Tok.renderW, Tok.render]
  | cdata c =>
    simp only [toksOf, renderEv, renderW, List.flatMap_map]
    rfl
  | _ => simp [toksOf, renderEv, renderW, Tok.renderW, Tok.render]

theorem render_flatMap_toksOf (l : List Ctl.Ev) : render (l.flatMap toksOf) = l.flatMap renderEv := by
  induction l with
  | nil => rfl
  | cons e l ih =>
    have : render (toksOf e ++ l.flatMap toksOf) = render (toksOf e) ++ render (l.flatMap toksOf) := by
      simp [render]
    simp only [List.flatMap_cons, this, ih, render_toksOf]

theorem renderW_flatMap_toksOf (l : List Ctl.Ev) : renderW (l.flatMap toksOf) = l.flatMap renderEv := by
  induction l with
  | nil => rfl
  | cons e l ih =>
    have : renderW (toksOf e ++ l.flatMap toksOf) = renderW (toksOf e) ++ renderW (l.flatMap toksOf) := by
      simp [renderW]
    simp only [List.flatMap_cons, this, ih, renderW_toksOf]

theorem chain_cdata (parts : List Str) (ts : List Tok) (hp : ∀ p ∈ parts, NoCE p) (hc : Chain ts) :
    Chain (parts.map cdataTok ++ ts) := by
  induction parts with
  | nil => exact hc
  | cons p ps ih =>
    refine chain_cons_markup (by simp [cdataTok]) ⟨by simp [cdataTok, Tok.render], fun rest _ => ?_⟩
      (ih fun q hq => hp q (by simp [hq]))
    exact nextTok_cdata p rest (hp p (by simp))

theorem chain_tokens (l : List Ctl.Ev) (hw : ∀ e ∈ l, writableEv e = true) (ha : NoAdjText l) :
    Chain (l.flatMap toksOf) := by
  induction l with
  | nil => trivial
  | cons e l ih =>
    have ha' : NoAdjText l := by
      cases l with
      | nil => trivial
      | cons b r => exact ha.2
    have hc := ih (fun x hx => hw x (by simp [hx])) ha'
    have he := hw e (by simp)
    simp only [List.flatMap_cons]
    cases e with
    | start el =>
      exact chain_cons_markup (by simp) ⟨by simp [Tok.render], fun rest _ => by
        simpa [renderEv, Tok.render] using nextTok_start el rest he⟩ hc
    | empty el =>
      exact chain_cons_markup (by simp) ⟨by simp [Tok.render], fun rest _ => by
        simpa [renderEv, Tok.render] using nextTok_empty el rest he⟩ hc
    | end_ n =>
      exact chain_cons_markup (by simp) ⟨by simp [Tok.render], fun rest _ => by
        simpa [renderEv, Tok.render] using nextTok_end n rest he⟩ hc
    | comment c =>
      exact chain_cons_markup (by simp) ⟨by simp [Tok.render], fun rest _ => by
        simpa [renderEv, Tok.render] using nextTok_comment c rest⟩ hc
    | cdata c => exact chain_cdata _ _ (cdataSplit_noCE c) hc
    | text t =>
      simp only [toksOf]
      split
      · exact hc
      · rename_i hne
        refine ⟨⟨by simpa [Tok.render] using hne, fun rest hr => ?_⟩, fun _ => ?_, hc⟩
        · have := nextTok_text (escape (blankLineRemover t)) rest hne
            (fun c hc => (escape_safe _ c hc).1) (hr rfl)
          simpa [Tok.render] using this
        · show StartsLt (render (l.flatMap toksOf))
          rw [render_flatMap_toksOf]
          apply startsLt_flatMap
          intro e' he'
          cases l with
          | nil => simp at he'
          | cons b r =>
            simp only [List.head?_cons, Option.some.injEq] at he'
            subst he'
            have := ha.1
            cases hb : isTextEv b with
            | false => rfl
            | true => exact absurd ⟨rfl, hb⟩ this

/-- **the tokenizer reads back exactly the events that were written** (one token per event; none for a text event
    that writes nothing; one per section for CDATA) -/
theorem tokenize_write (evs : List Ctl.Ev) (h : Writable evs) :
    tokenize ((write evs).length + 1) (write evs) = some (tokensOf evs) := by
  have hw : ∀ e ∈ coalesce evs, writableEv e = true := by
    intro e he
    rcases coalesce_mem evs e he with ht | hm
    · cases e <;> simp_all [isTextEv, writableEv]
    · exact (List.all_eq_true.mp h) e hm
  have hc := chain_tokens (coalesce evs) hw (coalesce_noAdjText evs)
  have hr : render (tokensOf evs) = write evs := by
    rw [tokensOf, render_flatMap_toksOf, write_eq]
  have := tokenize_chain _ hc ((write evs).length + 1) (by rw [← tokensOf, hr]; omega)
  rw [← tokensOf, hr] at this
  exact this

/-- **the second pass is the identity on every output of the writer** -/
theorem write_passthrough (evs : List Ctl.Ev) (h : Writable evs) : passThroughW (write evs) = some (write evs) := by
  simp only [passThroughW, tokenize_write evs h, Option.map_some, Option.some.injEq]
  rw [tokensOf, renderW_flatMap_toksOf, write_eq]

/-- and in the reader's own rendering of its events, too -/
theorem write_passthrough_raw (evs : List Ctl.Ev) (h : Writable evs) : passThrough (write evs) = some (write evs) := by
  simp only [passThrough, tokenize_write evs h, Option.map_some, Option.some.injEq]
  rw [tokensOf, render_flatMap_toksOf, write_eq]

end Svgdx.Xml
