/-
  Svgdx.Proofs.ThemeUrl — `url(#id)` references and `id="…"` declarations of the emitted rules and
  definitions: what each rule refers to, what each definition declares, and that the declared ids
  are pairwise different.
-/
import Svgdx.Proofs.ThemeIff
namespace Svgdx.Theme
open Svgdx Str

def urlPat : Str := cs!"url(#"
def idPat : Str := cs!"id=\""

theorem urlRefs_def (s : Str) : urlRefs s = occs urlPat ')' s := rfl
theorem declIds_def (s : Str) : declIds s = occs idPat '"' s := rfl

/-! ### more about `safe` -/

theorem mism_append_right {p t : Str} (h : mism p t = true) (r : Str) : mism p (t ++ r) = true := by
  induction p generalizing t with
  | nil => cases t <;> simp [mism] at h
  | cons a p ih =>
    cases t with
    | nil => simp [mism] at h
    | cons b t =>
      simp only [mism, Bool.or_eq_true, bne_iff_ne, ne_eq] at h
      simp only [List.cons_append, mism, Bool.or_eq_true, bne_iff_ne, ne_eq]
      rcases h with h | h
      · exact Or.inl h
      · exact Or.inr (ih h)

theorem safe_append {pat a b : Str} (ha : safe pat a = true) (hb : safe pat b = true) : safe pat (a ++ b) = true := by
  induction a with
  | nil => exact hb
  | cons c r ih =>
    simp only [safe, Bool.and_eq_true] at ha
    simp only [List.cons_append, safe, Bool.and_eq_true]
    exact ⟨by simpa using mism_append_right ha.1 b, ih ha.2⟩

theorem safe_nil (pat : Str) : safe pat [] = true := rfl

theorem safe_flatMap {α : Type} {pat : Str} (l : List α) (f : α → Str) (h : ∀ x ∈ l, safe pat (f x) = true) :
    safe pat (l.flatMap f) = true := by
  induction l with
  | nil => rfl
  | cons x xs ih =>
    simp only [List.flatMap_cons]
    exact safe_append (h x (by simp)) (ih (fun y hy => h y (by simp [hy])))

/-- one occurrence: `pat ++ body ++ stop :: rest`, nothing else starting in `pat.tail` or in `body ++ [stop]` -/
theorem occs_hit' {pat : Str} {a : Char} {p : Str} (hp : pat = a :: p) (hsp : safe pat p = true)
    (stop : Char) (body rest : Str) (hb : ∀ x ∈ body, x ≠ stop) (hsb : safe pat (body ++ [stop]) = true) :
    occs pat stop (pat ++ (body ++ stop :: rest)) = body :: occs pat stop rest := by
  subst hp
  have h1 : stripPrefix (a :: p) (a :: (p ++ (body ++ stop :: rest))) = some (body ++ stop :: rest) := by
    have := stripPrefix_append (a :: p) (body ++ stop :: rest)
    simpa using this
  have h2 : occs (a :: p) stop (p ++ (body ++ stop :: rest)) = occs (a :: p) stop rest := by
    rw [occs_safe_append hsp]
    have : body ++ stop :: rest = (body ++ [stop]) ++ rest := by simp
    rw [this, occs_safe_append hsb]
  generalize occs (a :: p) stop rest = R at h2 ⊢
  simp only [List.cons_append, occs, h1, h2]
  rw [takeWhile_append_stop _ body stop rest (by simpa using hb) (by simp)]

/-- all characters differ from `a` -/
def noCh (a : Char) (s : Str) : Bool := s.all (· != a)

theorem noCh_iff {a : Char} {s : Str} : noCh a s = true ↔ ∀ x ∈ s, x ≠ a := by
  simp [noCh, List.all_eq_true]

theorem noCh_append {a : Char} {s t : Str} (hs : noCh a s = true) (ht : noCh a t = true) : noCh a (s ++ t) = true := by
  simp only [noCh, List.all_append, Bool.and_eq_true] at *
  exact ⟨hs, ht⟩

theorem safe_of_noCh {pat : Str} {a : Char} {p : Str} (hp : pat = a :: p) {s : Str} (h : noCh a s = true) :
    safe pat s = true := safe_of_not_mem hp (noCh_iff.mp h)

theorem noCh_of_numChar {a : Char} (ha : numChar a = false) {s : Str} (h : ∀ x ∈ s, numChar x = true) :
    noCh a s = true := by
  apply noCh_iff.mpr
  intro x hx e
  subst e
  rw [h x hx] at ha
  exact absurd ha (by simp)

/-- characters of a valid `u32` suffix -/
theorem noCh_of_parseU32 {a : Char} (ha : a ≠ '+' ∧ isDigit a = false) {s : Str} {n : Nat}
    (h : parseU32 s = some n) : noCh a s = true := by
  apply noCh_iff.mpr
  intro x hx e
  subst e
  rcases (parseU32_chars h).2 x hx with h1 | h1
  · exact ha.1 h1
  · rw [ha.2] at h1; exact absurd h1 (by simp)

/-! ### the texts of `pattern_defs`, written out -/

def rotStr (rot : Option Str) : Str :=
  match rot with
  | some r => fmt (nth pds 0) [(cs!"r", r)] []
  | none => []

set_option maxRecDepth 8000 in
theorem patternDef_eq (stroke c : Str) (n : Nat) (ty : Str) (rot : Option Str) :
    patternDef stroke c n ty rot =
      cs!"<pattern " ++ (idPat ++ (ptnId c ++ '"' :: (cs!" x=\"0\" y=\"0\" width=\"" ++ (natToStr n ++ (cs!"\" height=\"" ++
        (natToStr n ++ (cs!"\"" ++ (rotStr rot ++ (cs!" patternUnits=\"userSpaceOnUse\" >\n  <rect width=\"100%\" height=\"100%\" style=\"stroke: none;\"/>\n  " ++
          (patternLines stroke n ty ++ cs!"\n</pattern>")))))))))) := by
  cases rot <;> rfl

def lineNamed (stroke : Str) (n : Nat) : List (Str × Str) :=
    [ (cs!"spacing", natToStr n), (cs!"sw", Num.fstr (sqrtMilli n (pdNum 0))),
      (cs!"t_stroke", stroke), (cs!"gs", Num.fstr ((n : Rat) / pdNum 1)),
      (cs!"r", Num.fstr (sqrtMilli n (pdNum 2))) ]

def branch (i : Nat) : List Str × Str := Gen.Theme.pattern_defs_branches.getD i ([], [])

theorem branches_eq : Gen.Theme.pattern_defs_branches = [branch 0, branch 1, branch 2] := by decide +kernel

theorem patternLines_eq (stroke : Str) (n : Nat) (ty : Str) :
    patternLines stroke n ty =
      Gen.Theme.pattern_defs_branches.flatMap fun b => if b.1.contains ty then fmt b.2 (lineNamed stroke n) [] else [] := rfl

set_option maxRecDepth 8000 in
theorem line0_eq (stroke : Str) (n : Nat) :
    fmt (branch 0).2 (lineNamed stroke n) [] =
      cs!"<line x1=\"0\" y1=\"0\" x2=\"" ++ (natToStr n ++ (cs!"\" y2=\"0\" style=\"stroke-width: " ++
        (Num.fstr (sqrtMilli n (pdNum 0)) ++ (cs!"; stroke: " ++ (stroke ++ cs!"\"/>"))))) := by rfl

set_option maxRecDepth 8000 in
theorem line1_eq (stroke : Str) (n : Nat) :
    fmt (branch 1).2 (lineNamed stroke n) [] =
      cs!"<line x1=\"0\" y1=\"0\" x2=\"0\" y2=\"" ++ (natToStr n ++ (cs!"\" style=\"stroke-width: " ++
        (Num.fstr (sqrtMilli n (pdNum 0)) ++ (cs!"; stroke: " ++ (stroke ++ cs!"\"/>"))))) := by rfl

set_option maxRecDepth 8000 in
theorem line2_eq (stroke : Str) (n : Nat) :
    fmt (branch 2).2 (lineNamed stroke n) [] =
      cs!"<circle cx=\"" ++ (Num.fstr ((n : Rat) / pdNum 1) ++ (cs!"\" cy=\"" ++ (Num.fstr ((n : Rat) / pdNum 1) ++ (cs!"\" r=\"" ++
        (Num.fstr (sqrtMilli n (pdNum 2)) ++ (cs!"\" style=\"stroke: none; fill: " ++ (stroke ++ cs!"\"/>"))))))) := by rfl

/-- the literal pieces of the templates above -/
def literalPieces : List Str :=
  [ cs!"<pattern ", cs!" x=\"0\" y=\"0\" width=\"", cs!"\" height=\"", cs!"\"",
    cs!" patternUnits=\"userSpaceOnUse\" >\n  <rect width=\"100%\" height=\"100%\" style=\"stroke: none;\"/>\n  ",
    cs!"\n</pattern>", cs!"<line x1=\"0\" y1=\"0\" x2=\"", cs!"\" y2=\"0\" style=\"stroke-width: ", cs!"; stroke: ",
    cs!"\"/>", cs!"<line x1=\"0\" y1=\"0\" x2=\"0\" y2=\"", cs!"\" style=\"stroke-width: ", cs!"<circle cx=\"",
    cs!"\" cy=\"", cs!"\" r=\"", cs!"\" style=\"stroke: none; fill: " ]

/-- what a proof about pattern `pat` needs to know about the pieces -/
structure PieceSafe (pat : Str) : Prop where
  lit : ∀ P ∈ literalPieces, safe pat P = true
  num : ∀ s : Str, (∀ x ∈ s, numChar x = true) → safe pat s = true

theorem pieceSafe_url : PieceSafe urlPat :=
  ⟨by decide +kernel, fun _ h => safe_of_noCh (a := 'u') rfl (noCh_of_numChar (by decide) h)⟩

theorem pieceSafe_id : PieceSafe idPat :=
  ⟨by decide +kernel, fun _ h => safe_of_noCh (a := 'i') rfl (noCh_of_numChar (by decide) h)⟩

/-! ### scanning the pattern texts -/

section scan
variable {pat : Str} (ps : PieceSafe pat)
include ps

theorem safe_lit {P : Str} (h : P ∈ literalPieces) : safe pat P = true := ps.lit P h

theorem safe_patternLines {stroke : Str} (hs : safe pat stroke = true) (n : Nat) (ty : Str) :
    safe pat (patternLines stroke n ty) = true := by
  have hN : safe pat (natToStr n) = true := ps.num _ (natToStr_numChar _)
  have hF : ∀ q : Rat, safe pat (Num.fstr q) = true := fun q => ps.num _ (fstr_numChar q)
  have l1 : safe pat cs!"<line x1=\"0\" y1=\"0\" x2=\"" = true := ps.lit _ (by decide +kernel)
  have l2 : safe pat cs!"\" y2=\"0\" style=\"stroke-width: " = true := ps.lit _ (by decide +kernel)
  have l3 : safe pat cs!"; stroke: " = true := ps.lit _ (by decide +kernel)
  have l4 : safe pat cs!"\"/>" = true := ps.lit _ (by decide +kernel)
  have l5 : safe pat cs!"<line x1=\"0\" y1=\"0\" x2=\"0\" y2=\"" = true := ps.lit _ (by decide +kernel)
  have l6 : safe pat cs!"\" style=\"stroke-width: " = true := ps.lit _ (by decide +kernel)
  have l7 : safe pat cs!"<circle cx=\"" = true := ps.lit _ (by decide +kernel)
  have l8 : safe pat cs!"\" cy=\"" = true := ps.lit _ (by decide +kernel)
  have l9 : safe pat cs!"\" r=\"" = true := ps.lit _ (by decide +kernel)
  have l10 : safe pat cs!"\" style=\"stroke: none; fill: " = true := ps.lit _ (by decide +kernel)
  rw [patternLines_eq, branches_eq]
  apply safe_flatMap
  intro b hb
  simp only [List.mem_cons, List.not_mem_nil, or_false] at hb
  split
  · rcases hb with rfl | rfl | rfl
    · rw [line0_eq]
      exact safe_append l1 (safe_append hN (safe_append l2 (safe_append (hF _) (safe_append l3 (safe_append hs l4)))))
    · rw [line1_eq]
      exact safe_append l5 (safe_append hN (safe_append l6 (safe_append (hF _) (safe_append l3 (safe_append hs l4)))))
    · rw [line2_eq]
      exact safe_append l7 (safe_append (hF _) (safe_append l8 (safe_append (hF _) (safe_append l9
        (safe_append (hF _) (safe_append l10 (safe_append hs l4)))))))
  · rfl

/-- the part of a pattern definition after the closing quote of its id -/
def defRest (stroke : Str) (n : Nat) (ty : Str) (rot : Option Str) : Str :=
  cs!" x=\"0\" y=\"0\" width=\"" ++ (natToStr n ++ (cs!"\" height=\"" ++
    (natToStr n ++ (cs!"\"" ++ (rotStr rot ++ (cs!" patternUnits=\"userSpaceOnUse\" >\n  <rect width=\"100%\" height=\"100%\" style=\"stroke: none;\"/>\n  " ++
      (patternLines stroke n ty ++ cs!"\n</pattern>")))))))

theorem safe_defRest {stroke : Str} (hs : safe pat stroke = true) (n : Nat) (ty : Str) {rot : Option Str}
    (hrot : safe pat (rotStr rot) = true) : safe pat (defRest stroke n ty rot) = true := by
  have hN : safe pat (natToStr n) = true := ps.num _ (natToStr_numChar _)
  have d1 : safe pat cs!" x=\"0\" y=\"0\" width=\"" = true := ps.lit _ (by decide +kernel)
  have d2 : safe pat cs!"\" height=\"" = true := ps.lit _ (by decide +kernel)
  have d3 : safe pat cs!"\"" = true := ps.lit _ (by decide +kernel)
  have d4 : safe pat cs!" patternUnits=\"userSpaceOnUse\" >\n  <rect width=\"100%\" height=\"100%\" style=\"stroke: none;\"/>\n  " = true :=
    ps.lit _ (by decide +kernel)
  have d5 : safe pat cs!"\n</pattern>" = true := ps.lit _ (by decide +kernel)
  unfold defRest
  exact safe_append d1 (safe_append hN (safe_append d2 (safe_append hN (safe_append d3 (safe_append hrot
    (safe_append d4 (safe_append (safe_patternLines ps hs n ty) d5)))))))

end scan

theorem patternDef_eq' (stroke c : Str) (n : Nat) (ty : Str) (rot : Option Str) :
    patternDef stroke c n ty rot = cs!"<pattern " ++ (idPat ++ (ptnId c ++ '"' :: defRest stroke n ty rot)) :=
  patternDef_eq stroke c n ty rot

/-- a pattern definition declares exactly its own id -/
theorem declIds_patternDef {stroke c : Str} (n : Nat) (ty : Str) {rot : Option Str}
    (hs : safe idPat stroke = true) (hrot : safe idPat (rotStr rot) = true)
    (hq : noCh '"' (ptnId c) = true) (hid : safe idPat (ptnId c ++ ['"']) = true) :
    declIds (patternDef stroke c n ty rot) = [ptnId c] := by
  rw [declIds_def, patternDef_eq', occs_safe_append (pieceSafe_id.lit _ (by decide +kernel))]
  rw [occs_hit' (pat := idPat) (a := 'i') (p := cs!"d=\"") rfl (by decide +kernel) '"' (ptnId c) _ (noCh_iff.mp hq) hid]
  rw [occs_safe (safe_defRest pieceSafe_id hs n ty hrot)]

/-- … and refers to nothing -/
theorem urlRefs_patternDef {stroke c : Str} (n : Nat) (ty : Str) {rot : Option Str}
    (hs : safe urlPat stroke = true) (hrot : safe urlPat (rotStr rot) = true)
    (hu : noCh 'u' (ptnId c) = true) :
    urlRefs (patternDef stroke c n ty rot) = [] := by
  rw [urlRefs_def, patternDef_eq']
  apply occs_safe
  have h1 : safe urlPat (ptnId c) = true := safe_of_noCh (a := 'u') rfl hu
  have h2 : safe urlPat ('"' :: defRest stroke n ty rot) = true :=
    safe_append (a := cs!"\"") (by decide +kernel) (safe_defRest pieceSafe_url hs n ty hrot)
  exact safe_append (pieceSafe_url.lit _ (by decide +kernel))
    (safe_append (by decide +kernel) (safe_append h1 h2))

/-- a pattern rule refers to exactly its own id -/
theorem urlRefs_patternRule {c : Str} (hc : noCh 'u' c = true) (hu : noCh 'u' (ptnId c) = true)
    (hp : noCh ')' (ptnId c) = true) : urlRefs (patternRule c) = [ptnId c] := by
  have e : patternRule c = ('.' :: (c ++ cs!" {fill: ")) ++ (urlPat ++ (ptnId c ++ ')' :: cs!"}")) := by
    rw [patternRule_eq]
    simp [urlPat]
  have h0 : safe urlPat ('.' :: (c ++ cs!" {fill: ")) = true :=
    safe_of_noCh (a := 'u') rfl (noCh_append (s := ['.']) (by decide) (noCh_append hc (by decide)))
  rw [urlRefs_def, e, occs_safe_append h0]
  rw [occs_hit' (pat := urlPat) (a := 'u') (p := cs!"rl(#") rfl (by decide +kernel) ')' (ptnId c) _ (noCh_iff.mp hp)
    (safe_of_noCh (a := 'u') rfl (noCh_append hu (by decide)))]
  rfl

end Svgdx.Theme
