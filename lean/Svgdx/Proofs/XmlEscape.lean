/-
  Svgdx.Proofs.XmlEscape — escaping is exact and safe; comments and CDATA sections are correctly delimited.
-/
import Svgdx.Xml.Escape
import Mathlib.Tactic.Linarith
namespace Svgdx.Xml
open Svgdx Str

theorem escChar_length_pos (c : Char) : 1 ≤ (escChar c).length := by
  unfold escChar; split <;> simp

/-- resolving the references of escaped text gives the text back -/
theorem unescape_go_escape (s : Str) : ∀ fuel, (escape s).length ≤ fuel → unescape.go fuel (escape s) = some s := by
  induction s with
  | nil => intro fuel _; cases fuel <;> simp [escape, unescape.go]
  | cons c cs ih =>
    intro fuel hf
    simp only [escape, List.length_append] at hf
    have hp := escChar_length_pos c
    obtain ⟨k, rfl⟩ : ∃ k, fuel = k + 1 := ⟨fuel - 1, by omega⟩
    by_cases h1 : c = '<'
    · subst h1
      have := ih k (by simp [escChar] at hf; omega)
      simp [escape, escChar, unescape.go, breakOn, resolveRef, this]
    by_cases h2 : c = '>'
    · subst h2
      have := ih k (by simp [escChar] at hf; omega)
      simp [escape, escChar, unescape.go, breakOn, resolveRef, this]
    by_cases h3 : c = '&'
    · subst h3
      have := ih k (by simp [escChar] at hf; omega)
      simp [escape, escChar, unescape.go, breakOn, resolveRef, this]
    by_cases h4 : c = '\''
    · subst h4
      have := ih k (by simp [escChar] at hf; omega)
      simp [escape, escChar, unescape.go, breakOn, resolveRef, this]
    by_cases h5 : c = '"'
    · subst h5
      have := ih k (by simp [escChar] at hf; omega)
      simp [escape, escChar, unescape.go, breakOn, resolveRef, this]
    have he : escChar c = [c] := by unfold escChar; split <;> simp_all
    have := ih k (by rw [he] at hf; simp at hf; omega)
    have hb : (c == '&') = false := by simpa using h3
    simp [escape, he, unescape.go, hb, this]

/-- **escaping is exact**: `unescape (escape s) = s` for every string -/
theorem unescape_escape (s : Str) : unescape (escape s) = some s :=
  unescape_go_escape s _ (le_refl _)

/-- **escaped text contains no markup characters** (so it cannot end an attribute value or open a tag) -/
theorem escape_safe (s : Str) : ∀ c ∈ escape s, c ≠ '<' ∧ c ≠ '>' ∧ c ≠ '"' ∧ c ≠ '\'' := by
  induction s with
  | nil => simp [escape]
  | cons c cs ih =>
    intro d hd
    simp only [escape, List.mem_append] at hd
    rcases hd with hd | hd
    · unfold escChar at hd
      split at hd <;> simp_all <;> (try (rcases hd with rfl | rfl | rfl | rfl | rfl | rfl <;> decide))
    · exact ih d hd

/-- no two adjacent dashes -/
def NoDD : Str → Prop
  | '-' :: '-' :: _ => False
  | _ :: r => NoDD r
  | [] => True

theorem noDD_cons_of_ne (c : Char) (r : Str) (h : c ≠ '-') (hr : NoDD r) : NoDD (c :: r) := by
  cases r with
  | nil => simp [NoDD]
  | cons d r' =>
    unfold NoDD
    split
    · rename_i heq; injection heq with h1 _; exact h h1
    · rename_i heq; injection heq with _ h2; rw [← h2]; exact hr
    · rename_i heq; cases heq

theorem csf_true_ne_nil (r : Str) : commentSafeFrom true r ≠ [] := by
  cases r with
  | nil => simp [commentSafeFrom]
  | cons x xs => simp only [commentSafeFrom]; split <;> simp

theorem commentSafeFrom_spec (s : Str) : ∀ pd,
    NoDD (commentSafeFrom pd s) ∧ (pd = true → (commentSafeFrom pd s).head? ≠ some '-') ∧
    (commentSafeFrom pd s).getLast? ≠ some '-' := by
  induction s with
  | nil => intro pd; cases pd <;> simp [commentSafeFrom, NoDD]
  | cons c r ih =>
    intro pd
    simp only [commentSafeFrom]
    by_cases hc : c = '-'
    · subst hc
      cases pd with
      | true =>
        obtain ⟨h1, h2, h3⟩ := ih true
        simp only [beq_self_eq_true, Bool.and_self, if_true]
        refine ⟨?_, by simp, ?_⟩
        · apply noDD_cons_of_ne _ _ (by decide)
          -- '-' followed by a string that does not start with '-'
          cases hr : commentSafeFrom true r with
          | nil => simp [NoDD]
          | cons d r' =>
            have hd : d ≠ '-' := by
              intro hd; apply h2 rfl; simp [hr, hd]
            unfold NoDD
            split
            · rename_i heq; injection heq with _ h'; injection h' with h'' _; exact hd h''
            · rename_i heq; injection heq with _ h'; rw [← h', ← hr]; exact h1
            · rename_i heq; cases heq
        · cases hr : commentSafeFrom true r with
          | nil => exact absurd hr (csf_true_ne_nil r)
          | cons d r' =>
            rw [hr] at h3
            simpa [List.getLast?_cons_cons] using h3
      | false =>
        obtain ⟨h1, h2, h3⟩ := ih true
        simp only [beq_self_eq_true, Bool.and_false, Bool.false_eq_true, if_false]
        refine ⟨?_, by simp, ?_⟩
        · cases hr : commentSafeFrom true r with
          | nil => simp [NoDD]
          | cons d r' =>
            have hd : d ≠ '-' := by
              intro hd; apply h2 rfl; simp [hr, hd]
            unfold NoDD
            split
            · rename_i heq; injection heq with _ h'; injection h' with h'' _; exact hd h''
            · rename_i heq; injection heq with _ h'; rw [← h', ← hr]; exact h1
            · rename_i heq; cases heq
        · cases hr : commentSafeFrom true r with
          | nil => exact absurd hr (csf_true_ne_nil r)
          | cons d r' =>
            rw [hr] at h3
            simpa [List.getLast?_cons_cons] using h3
    · have hb : (c == '-') = false := by simpa using hc
      obtain ⟨h1, h2, h3⟩ := ih false
      simp only [hb, Bool.false_and, Bool.false_eq_true, if_false]
      refine ⟨noDD_cons_of_ne _ _ hc h1, ?_, ?_⟩
      · intro _; simp [hc]
      · cases hr : commentSafeFrom false r with
        | nil => simp [List.getLast?, hc]
        | cons d r' =>
          rw [hr] at h3
          simpa [List.getLast?_cons_cons] using h3

/-- **generated comments are correctly delimited**: no `--` inside and no dash before `-->` -/
theorem commentSafe_ok (s : Str) : NoDD (commentSafe s) ∧ (commentSafe s).getLast? ≠ some '-' :=
  ⟨(commentSafeFrom_spec s false).1, (commentSafeFrom_spec s false).2.2⟩

end Svgdx.Xml
