/-
  Svgdx.Proofs.Balanced — every successful result of the control skeleton (`Svgdx.Ctl.Gen`) is a BALANCED event
  list: start / end events are well nested and every `end_` carries the name of the `start` it closes.

  * `check`     : the executable stack checker (names of the open elements, innermost first);
  * `Balanced`  : the inductive formulation that composes (nil / leaf / wrap / append);
  * `balanced_iff_check` : the two agree exactly, so `Balanced` is neither more generous nor stricter than the checker;
  * `rawNodes_balanced`  : the pass-through of real SVG is balanced for every tree;
  * `AllBal` / `allBal`  : balance for all 15 functions of the mutual block, by induction on fuel (the architecture
    of `Svgdx.Proofs.CtlInv`); `processNodes_balanced`, `genNode_balanced`, `genElem_balanced` are its corollaries.

  How names flow: events carry `adapt e` (name untouched, `adapt_name`); containers close with the name of the
  as-written element while opening with the evaluated one (`evalAttributes_name`); the text shorthand closes with the
  literals `text` / `tspan`, which is right because `process_text_attr` only ever produces elements of these names
  (`processTextAttr_names`).
-/
import Svgdx.Ctl.Gen
import Svgdx.Ctl.SimpleEval
namespace Svgdx.Ctl
open Svgdx

variable {ρ : Type}

/-- executable stack checker: the stack holds the names of the open elements, innermost first -/
def check : List Str → List Ev → Option (List Str)
  | stk, [] => some stk
  | stk, .start e :: r => check (e.name :: stk) r
  | [], .end_ _ :: _ => none
  | n :: stk, .end_ m :: r => if n = m then check stk r else none
  | stk, .empty _ :: r => check stk r
  | stk, .text _ :: r => check stk r
  | stk, .comment _ :: r => check stk r
  | stk, .cdata _ :: r => check stk r

/-- an event that neither opens nor closes an element -/
def Ev.isLeaf : Ev → Bool
  | .start _ | .end_ _ => false
  | _ => true

inductive Balanced : List Ev → Prop
  | nil : Balanced []
  | leaf (x : Ev) : x.isLeaf = true → Balanced [x]
  | wrap (e : Elem) (xs : List Ev) : Balanced xs → Balanced ([Ev.start e] ++ xs ++ [Ev.end_ e.name])
  | append (xs ys : List Ev) : Balanced xs → Balanced ys → Balanced (xs ++ ys)

theorem check_leaf (stk : List Str) (x : Ev) (r : List Ev) (h : x.isLeaf = true) :
    check stk (x :: r) = check stk r := by
  cases x <;> simp [Ev.isLeaf] at h <;> simp [check]

theorem check_append (xs ys : List Ev) : ∀ stk, check stk (xs ++ ys) = (check stk xs).bind (fun s => check s ys) := by
  induction xs with
  | nil => intro stk; simp [check]
  | cons x xs ih =>
    intro stk
    cases x with
    | start e => simp [check, ih]
    | end_ m =>
      cases stk with
      | nil => simp [check]
      | cons n s =>
        simp only [List.cons_append, check]
        split
        · exact ih s
        · rfl
    | empty e => simp [check, ih]
    | text e => simp [check, ih]
    | comment e => simp [check, ih]
    | cdata e => simp [check, ih]

theorem Balanced.check_stack {evs : List Ev} (h : Balanced evs) : ∀ stk, check stk evs = some stk := by
  induction h with
  | nil => intro stk; rfl
  | leaf x hx => intro stk; rw [check_leaf _ _ _ hx]; rfl
  | wrap e xs _ ih =>
    intro stk
    rw [List.append_assoc, check_append]
    simp only [check, Option.bind]
    rw [check_append, ih]
    simp [check]
  | append xs ys _ _ ih1 ih2 =>
    intro stk
    rw [check_append, ih1]
    exact ih2 stk

/-- soundness of the inductive formulation w.r.t. the executable checker -/
theorem Balanced.sound {evs : List Ev} (h : Balanced evs) : check [] evs = some [] := h.check_stack []

/-- what remains to be closed: `Closes [n₁, n₂, …] evs` iff `evs = b₀ ++ [end n₁] ++ b₁ ++ [end n₂] ++ … ++ b_k`
    with every `bᵢ` balanced -/
def Closes : List Str → List Ev → Prop
  | [], evs => Balanced evs
  | n :: stk, evs => ∃ b rest, evs = b ++ Ev.end_ n :: rest ∧ Balanced b ∧ Closes stk rest

theorem Closes.prepend {p : List Ev} (hp : Balanced p) : ∀ {stk evs}, Closes stk evs → Closes stk (p ++ evs)
  | [], _, h => Balanced.append _ _ hp h
  | _ :: _, _, ⟨b, rest, he, hb, hr⟩ => ⟨p ++ b, rest, by rw [he, List.append_assoc], Balanced.append _ _ hp hb, hr⟩

theorem closes_of_check : ∀ (evs : List Ev) (stk : List Str), check stk evs = some [] → Closes stk evs := by
  intro evs
  induction evs with
  | nil => intro stk h; simp [check] at h; subst h; exact Balanced.nil
  | cons x r ih =>
    intro stk h
    cases x with
    | start e =>
      simp only [check] at h
      obtain ⟨b, rest, he, hb, hr⟩ := ih _ h
      have : Ev.start e :: r = ([Ev.start e] ++ b ++ [Ev.end_ e.name]) ++ rest := by simp [he]
      rw [this]
      exact Closes.prepend (Balanced.wrap e b hb) hr
    | end_ m =>
      cases stk with
      | nil => simp [check] at h
      | cons n s =>
        simp only [check] at h
        split at h
        · rename_i hn
          subst hn
          exact ⟨[], r, rfl, Balanced.nil, ih _ h⟩
        · cases h
    | empty e => exact Closes.prepend (p := [Ev.empty e]) (Balanced.leaf _ rfl) (ih _ (by simpa [check] using h))
    | text e => exact Closes.prepend (p := [Ev.text e]) (Balanced.leaf _ rfl) (ih _ (by simpa [check] using h))
    | comment e => exact Closes.prepend (p := [Ev.comment e]) (Balanced.leaf _ rfl) (ih _ (by simpa [check] using h))
    | cdata e => exact Closes.prepend (p := [Ev.cdata e]) (Balanced.leaf _ rfl) (ih _ (by simpa [check] using h))

/-- the inductive formulation and the executable checker agree exactly -/
theorem balanced_iff_check (evs : List Ev) : Balanced evs ↔ check [] evs = some [] :=
  ⟨Balanced.sound, closes_of_check evs []⟩

/-! ### names -/

@[simp] theorem setAttr_name (e : Elem) (k v : Str) : (e.setAttr k v).name = e.name := rfl

@[simp] theorem new_name (n : Str) (a : List (Str × Str)) : (Elem.new n a).name = n := by
  unfold Elem.new
  split
  rfl

theorem foldl_name {β : Type} (f : Elem → β → Elem) (hf : ∀ a b, (f a b).name = a.name) (l : List β) (e : Elem) :
    (l.foldl f e).name = e.name := by
  induction l generalizing e with
  | nil => rfl
  | cons x xs ih => rw [List.foldl_cons, ih, hf]

theorem adapt_name (e : Elem) : (adapt e).name = e.name := by
  unfold adapt
  dsimp only
  rw [foldl_name]
  · exact new_name _ _
  · intro a b
    split <;> rfl

/-- invariant rule for `foldlM` in `Except` -/
theorem foldlM_except_inv {ε α β : Type} (P : α → Prop) (f : α → β → Except ε α)
    (hf : ∀ a b a', P a → f a b = .ok a' → P a') :
    ∀ (l : List β) (a a' : α), P a → l.foldlM f a = .ok a' → P a' := by
  intro l
  induction l with
  | nil => intro a a' ha h; simp [List.foldlM, pure, Except.pure] at h; subst h; exact ha
  | cons x xs ih =>
    intro a a' ha h
    simp only [List.foldlM, bind, Except.bind] at h
    split at h
    · cases h
    · rename_i v hv
      exact ih v a' (hf a x v ha hv) h

theorem evalAttributes_name (ev : Evalr ρ) (st : St ρ) (e e' : Elem) (rng : ρ)
    (h : evalAttributes ev st e = .ok (e', rng)) : e'.name = e.name := by
  unfold evalAttributes at h
  simp only [bind, Except.bind] at h
  split at h
  · cases h
  · rename_i p1 hp1
    have h1 : p1.1.name = e.name := by
      refine foldlM_except_inv (fun (a : Elem × ρ) => a.1.name = e.name) _ ?_ _ _ _ rfl hp1
      intro a b a' ha hab
      split at hab
      · cases hab; exact ha
      · split at hab
        · cases hab
        · cases hab; exact ha
    split at h
    · cases h
    · simp only [pure, Except.pure] at h
      cases h
      exact h1

theorem foldl_snd_name {α β : Type} (f : α × Elem → β → α × Elem) (hf : ∀ a b, (f a b).2.name = a.2.name)
    (l : List β) (a : α × Elem) : (l.foldl f a).2.name = a.2.name := by
  induction l generalizing a with
  | nil => rfl
  | cons x xs ih => rw [List.foldl_cons, ih, hf]

/-- the generated text element is called `text`, every further one `tspan` -/
def TextOk : List Text.TextEl → Prop
  | [] => True
  | t :: spans => t.el.name = cs!"text" ∧ ∀ sp ∈ spans, sp.el.name = cs!"tspan"

theorem text_base_name (o : Elem) :
    (if (o.name == cs!"text") = true then o else Elem.new cs!"text" []).name = cs!"text" := by
  split
  · rename_i h; exact eq_of_beq h
  · exact new_name _ _

theorem processTextAttr_names (e orig : Elem) (tes : List Text.TextEl)
    (h : Text.processTextAttr e = .ok (orig, tes)) : TextOk tes := by
  unfold Text.processTextAttr at h
  simp only [bind, Except.bind] at h
  split at h
  · cases h
  split at h
  · cases h
  split at h
  · simp only [pure, Except.pure, Except.ok.injEq, Prod.mk.injEq] at h
    obtain ⟨-, rfl⟩ := h
    refine ⟨?_, by simp⟩
    dsimp only
    rw [foldl_snd_name]
    · dsimp only
      split <;> simp only [setAttr_name] <;> split <;> simp only [setAttr_name, text_base_name]
    · intro a b
      split <;> simp_all
  · simp only [pure, Except.pure, Except.ok.injEq, Prod.mk.injEq] at h
    obtain ⟨-, rfl⟩ := h
    refine ⟨?_, ?_⟩
    · dsimp only
      rw [foldl_snd_name]
      · dsimp only
        split <;> simp only [setAttr_name] <;> split <;> simp only [setAttr_name, text_base_name]
      · intro a b
        split <;> simp_all
    · intro sp hsp
      simp only [List.mem_map] at hsp
      obtain ⟨p, -, rfl⟩ := hsp
      simp only [setAttr_name]
      split <;> simp only [setAttr_name] <;> split <;> simp only [setAttr_name, new_name]

/-! ### composition rules -/

theorem Balanced.cons_leaf {x : Ev} {xs : List Ev} (hx : x.isLeaf = true) (h : Balanced xs) : Balanced (x :: xs) :=
  Balanced.append [x] xs (Balanced.leaf x hx) h

theorem Balanced.snoc_leaf {x : Ev} {xs : List Ev} (h : Balanced xs) (hx : x.isLeaf = true) : Balanced (xs ++ [x]) :=
  Balanced.append xs [x] h (Balanced.leaf x hx)

/-- `wrap` with the end name given separately -/
theorem Balanced.wrap' {e : Elem} {n : Str} {xs : List Ev} (hn : e.name = n) (h : Balanced xs) :
    Balanced ([Ev.start e] ++ xs ++ [Ev.end_ n]) := by
  subst hn; exact Balanced.wrap e xs h

theorem balanced_flatMap {α : Type} (f : α → List Ev) (l : List α) (h : ∀ a ∈ l, Balanced (f a)) :
    Balanced (l.flatMap f) := by
  induction l with
  | nil => exact Balanced.nil
  | cons a as ih =>
    rw [List.flatMap_cons]
    exact Balanced.append _ _ (h a (by simp)) (ih fun b hb => h b (by simp [hb]))

theorem balanced_tailEvs (tail : Option Str) : Balanced (tailEvs tail) := by
  unfold tailEvs
  split
  · exact Balanced.leaf _ rfl
  · exact Balanced.nil

theorem balanced_withTail (tail : Option Str) (evs : List Ev) (h : Balanced evs) : Balanced (withTail tail evs) := by
  unfold withTail
  split
  · exact h.snoc_leaf rfl
  · exact h

/-! ### pass-through of real SVG -/

theorem balanced_tailMatch (tail : Option Str) :
    Balanced (match tail with | some t => [Ev.text t] | none => []) := by
  split
  · exact Balanced.leaf _ rfl
  · exact Balanced.nil

mutual
theorem rawNode_balanced : ∀ n : Node, Balanced (rawNode n)
  | .elem e none tail => by
    unfold rawNode
    exact Balanced.append _ _ (Balanced.leaf _ rfl) (balanced_tailMatch tail)
  | .elem e (some kids) tail => by
    unfold rawNode
    exact Balanced.append _ _ (Balanced.wrap e _ (rawNodes_balanced kids)) (balanced_tailMatch tail)
  | .comment c tail => by
    unfold rawNode
    exact Balanced.append _ _ (Balanced.leaf _ rfl) (balanced_tailMatch tail)
  | .text t => by unfold rawNode; exact Balanced.leaf _ rfl
  | .cdata t => by unfold rawNode; exact Balanced.leaf _ rfl
/-- **the pass-through of real SVG is balanced for every tree** -/
theorem rawNodes_balanced : ∀ ks : Nodes, Balanced (rawNodes ks)
  | .nil => by unfold rawNodes; exact Balanced.nil
  | .cons n r => by
    unfold rawNodes
    exact Balanced.append _ _ (rawNode_balanced n) (rawNodes_balanced r)
end

/-! ### postconditions of successful results -/

/-- `Q` holds of the value if the computation succeeded -/
inductive OkP {α : Type} (Q : α → Prop) : Except CErr α → Prop
  | error (e : CErr) : OkP Q (.error e)
  | ok (a : α) : Q a → OkP Q (.ok a)

theorem OkP.get {α : Type} {Q : α → Prop} {r : Except CErr α} (h : OkP Q r) {a : α} (hr : r = .ok a) : Q a := by
  cases h with
  | error e => cases hr
  | ok b hb => cases hr; exact hb

/-- a successful result carries a balanced event list -/
abbrev BalRes (r : Res) : Prop := OkP (fun p => Balanced p.1) r

/-- every piece collected by `process_tags` is balanced -/
def Pieces (outs : List (Nat × List Ev)) : Prop := ∀ p ∈ outs, Balanced p.2

theorem okP_error {α : Type} (Q : α → Prop) (e : CErr) : OkP Q (.error e) := OkP.error e

theorem okP_ok {α : Type} {Q : α → Prop} {a : α} (h : Q a) : OkP Q (.ok a) := OkP.ok a h

theorem okP_seq {α β : Type} {Q : α → Prop} {R : β → Prop} (x : St ρ × Except CErr α)
    (f : St ρ → α → St ρ × Except CErr β) (hx : OkP Q x.2) (hf : ∀ a, Q a → OkP R (f x.1 a).2) :
    OkP R (seq x f).2 := by
  unfold seq
  split
  · exact okP_error _ _
  · rename_i a ha
    exact hf a (hx.get ha)

theorem okP_withRng {α : Type} {Q : α → Prop} (st : St ρ) (r : Except Err (α × ρ))
    (h : ∀ a rng, r = .ok (a, rng) → Q a) : OkP Q (withRng st r).2 := by
  unfold withRng
  split
  · exact okP_ok (h _ _ rfl)
  · exact okP_error _ _

theorem okP_true {α : Type} (r : Except CErr α) : OkP (fun _ => True) r := by
  cases r with
  | error e => exact OkP.error e
  | ok a => exact OkP.ok a trivial

theorem okP_evalAttributes (ev : Evalr ρ) (st st' : St ρ) (e : Elem) :
    OkP (fun ne : Elem => ne.name = e.name) (withRng st' (evalAttributes ev st e)).2 :=
  okP_withRng _ _ fun _ _ h => evalAttributes_name ev st e _ _ h

theorem okP_popAfter {α : Type} {Q : α → Prop} (x : St ρ × Except CErr α) (h : OkP Q x.2) : OkP Q (popAfter x).2 := h

/-! ### the non-recursive generators -/

theorem bal_genVar (ev : Evalr ρ) (st : St ρ) (e : Elem) : BalRes (genVar ev st e).2 := by
  unfold genVar
  dsimp only
  split
  · exact okP_error _ _
  · exact okP_ok Balanced.nil

theorem bal_commentEvents (ev : Evalr ρ) (st : St ρ) (e : Elem) :
    OkP Balanced (commentEvents ev st e).2 := by
  unfold commentEvents
  split
  · split
    · exact okP_ok (Balanced.cons_leaf rfl (Balanced.leaf _ rfl))
    · exact okP_error _ _
  · exact okP_ok Balanced.nil

theorem balanced_spans (spans : List Text.TextEl) (h : ∀ sp ∈ spans, sp.el.name = cs!"tspan") :
    Balanced (spans.flatMap fun sp => [Ev.start (adapt sp.el), Ev.text sp.content, Ev.end_ cs!"tspan"]) := by
  apply balanced_flatMap
  intro sp hsp
  exact Balanced.wrap' (xs := [Ev.text sp.content]) ((adapt_name _).trans (h sp hsp)) (Balanced.leaf _ rfl)

theorem bal_shapeEvents (e : Elem) : OkP Balanced (shapeEvents e) := by
  unfold shapeEvents
  dsimp only
  have h2 : Balanced (match e.getAttr cs!"__" with
      | some c => [Ev.comment ([' '] ++ c ++ [' ']), Ev.text ['\n']]
      | none => []) := by
    split
    · exact Balanced.cons_leaf rfl (Balanced.leaf _ rfl)
    · exact Balanced.nil
  split
  · split
    · exact okP_error _ _
    · rename_i orig tes htes
      have hn := processTextAttr_names e orig tes htes
      apply okP_ok
      refine Balanced.append _ _ (Balanced.append _ _ h2 ?_) ?_
      · split
        · exact Balanced.cons_leaf rfl (Balanced.leaf _ rfl)
        · exact Balanced.nil
      · split
        · exact Balanced.nil
        · exact Balanced.wrap' (xs := [Ev.text _]) ((adapt_name _).trans hn.1) (Balanced.leaf _ rfl)
        · rename_i t spans _
          have := Balanced.wrap' (e := adapt t.el) (n := cs!"text")
            (xs := [Ev.text ['\n']] ++ spans.flatMap (fun sp => [Ev.start (adapt sp.el), Ev.text sp.content, Ev.end_ cs!"tspan"]) ++ [Ev.text ['\n']])
            ((adapt_name _).trans hn.1)
            (Balanced.snoc_leaf (Balanced.cons_leaf rfl (balanced_spans spans hn.2)) rfl)
          simpa using this
  · apply okP_ok
    refine Balanced.append _ _ h2 ?_
    split
    · exact Balanced.nil
    · exact Balanced.leaf _ rfl

theorem bal_elementEvents (ev : Evalr ρ) (st : St ρ) (e : Elem) : OkP Balanced (elementEvents ev st e).2 := by
  unfold elementEvents
  apply okP_seq _ _ (bal_commentEvents ev st e)
  intro evs1 h1
  have := bal_shapeEvents e
  dsimp only
  cases hs : shapeEvents e with
  | error er => exact okP_error _ _
  | ok evs =>
    rw [hs] at this
    exact okP_ok (Balanced.append _ _ h1 (this.get rfl))

theorem bal_genOther (ev : Evalr ρ) (st : St ρ) (e : Elem) : BalRes (genOther ev st e).2 := by
  unfold genOther
  apply okP_seq _ _ (okP_true _)
  intro e' _
  dsimp only
  split
  · exact okP_error _ _
  · apply okP_seq _ _ (bal_elementEvents ev _ e')
    intro evs h
    exact okP_ok h

theorem bal_groupFinish (ev : Evalr ρ) (st : St ρ) (e : Elem) (r : List Ev × Option Gen.BoundingBox)
    (h : Balanced r.1) : BalRes (groupFinish ev st e r).2 := by
  unfold groupFinish
  dsimp only
  split
  · exact okP_ok h
  · split
    · exact okP_ok h
    · exact okP_error _ _

theorem bal_clipPost (ev : Evalr ρ) (e : Elem) (x : St ρ × Res) (h : BalRes x.2) : BalRes (clipPost ev e x).2 := by
  unfold clipPost
  split
  · rename_i evs bb hx
    have hb : Balanced evs := h.get hx
    split
    · split
      · exact okP_error _ _
      · split
        · split
          · exact okP_error _ _
          · exact okP_ok hb
          · exact h
        · exact h
    · exact h
  · exact h

theorem okP_reusePrepare (ev : Evalr ρ) (st : St ρ) (re : Elem) :
    OkP (fun _ => True) (reusePrepare ev st re).2 := okP_true _

/-! ### document order -/

theorem mem_sortOuts_fold (outs acc : List (Nat × List Ev)) :
    ∀ p ∈ outs.foldl
      (fun (acc : List (Nat × List Ev)) (o : Nat × List Ev) =>
        let (lo, hi) := acc.partition (fun p => p.1 ≤ o.1)
        lo ++ [o] ++ hi) acc, p ∈ acc ∨ p ∈ outs := by
  induction outs generalizing acc with
  | nil => intro p hp; exact Or.inl hp
  | cons o os ih =>
    intro p hp
    rw [List.foldl_cons] at hp
    rcases ih _ p hp with h | h
    · simp only [List.partition_eq_filter_filter, List.append_assoc, List.mem_append, List.mem_filter,
        List.mem_cons, List.not_mem_nil, or_false] at h
      rcases h with h | h | h
      · exact Or.inl h.1
      · exact Or.inr (by simp [h])
      · exact Or.inl h.1
    · exact Or.inr (by simp [h])

theorem pieces_sortOuts (outs : List (Nat × List Ev)) (h : Pieces outs) : Pieces (sortOuts outs) := by
  intro p hp
  unfold sortOuts at hp
  rcases mem_sortOuts_fold outs [] p hp with h1 | h1
  · cases h1
  · exact h p h1

theorem pieces_nil : Pieces [] := by intro p hp; cases hp

theorem pieces_snoc {outs : List (Nat × List Ev)} (h : Pieces outs) (i : Nat) {evs : List Ev} (he : Balanced evs) :
    Pieces (outs ++ [(i, evs)]) := by
  intro p hp
  simp only [List.mem_append, List.mem_cons, List.not_mem_nil, or_false] at hp
  rcases hp with hp | rfl
  · exact h p hp
  · exact he

/-! ### the mutual block, by induction on fuel -/

/-- balance of every successful result, for every function of the mutual block at a given fuel -/
structure AllBal (ev : Evalr ρ) (fuel : Nat) : Prop where
  genElem : ∀ (st : St ρ) e kids, BalRes (genElem ev fuel st e kids).2
  dispatch : ∀ (st : St ρ) e kids, BalRes (dispatch ev fuel st e kids).2
  genSpecs : ∀ (st : St ρ) kids, BalRes (genSpecs ev fuel st kids).2
  genReuse : ∀ (st : St ρ) e, BalRes (genReuse ev fuel st e).2
  genIf : ∀ (st : St ρ) e kids, BalRes (genIf ev fuel st e kids).2
  genContainer : ∀ (st : St ρ) e ks, BalRes (genContainer ev fuel st e ks).2
  genGroup : ∀ (st : St ρ) e kids, BalRes (genGroup ev fuel st e kids).2
  genLoop : ∀ (st : St ρ) e kids, BalRes (genLoop ev fuel st e kids).2
  loopIter : ∀ (st : St ρ) ks c w u n v s i acc bb, Balanced acc →
    BalRes (loopIter ev fuel st ks c w u n v s i acc bb).2
  genFor : ∀ (st : St ρ) e kids, BalRes (genFor ev fuel st e kids).2
  forIter : ∀ (st : St ρ) ks v iv items idx acc bb, Balanced acc →
    BalRes (forIter ev fuel st ks v iv items idx acc bb).2
  genNode : ∀ (st : St ρ) n, BalRes (genNode ev fuel st n).2
  onePass : ∀ (st : St ρ) ts outs bb rem, Pieces outs →
    OkP (fun r => Pieces r.1) (onePass ev fuel st ts outs bb rem).2
  retry : ∀ (st : St ρ) ts outs bb, Pieces outs → OkP (fun r => Pieces r.1) (retry ev fuel st ts outs bb).2
  processNodes : ∀ (st : St ρ) ks, BalRes (processNodes ev fuel st ks).2

theorem allBal_zero (ev : Evalr ρ) : AllBal ev 0 := by
  constructor <;> intros <;> simp only [Ctl.genElem, Ctl.dispatch, Ctl.genSpecs, Ctl.genReuse, Ctl.genIf, Ctl.genContainer,
    Ctl.genGroup, Ctl.genLoop, Ctl.loopIter, Ctl.genFor, Ctl.forIter, Ctl.genNode, Ctl.onePass, Ctl.retry,
    Ctl.processNodes] <;> exact okP_error _ _

section step
variable (ev : Evalr ρ) (fuel : Nat) (ih : AllBal ev fuel)
include ih

theorem genElem_bal (st : St ρ) e kids : BalRes (Ctl.genElem ev (fuel + 1) st e kids).2 := by
  unfold Ctl.genElem
  split
  · exact okP_error _ _
  · dsimp only
    exact bal_clipPost ev e _ (ih.dispatch _ e kids)

theorem dispatch_bal (st : St ρ) e kids : BalRes (Ctl.dispatch ev (fuel + 1) st e kids).2 := by
  unfold Ctl.dispatch
  dsimp only
  split; · exact ih.genLoop st e kids
  split
  · split
    · exact okP_ok Balanced.nil
    · exact okP_error _ _
  split; · exact ih.genReuse st e
  split; · exact ih.genSpecs st kids
  split; · exact bal_genVar ev st e
  split; · exact ih.genIf st e kids
  split; · exact okP_ok Balanced.nil
  split; · exact ih.genFor st e kids
  split; · exact ih.genGroup st e kids
  split
  · exact ih.genContainer st e _
  · exact bal_genOther ev st e

omit ih in
theorem genSpecs_bal (st : St ρ) kids : BalRes (Ctl.genSpecs ev (fuel + 1) st kids).2 := by
  unfold Ctl.genSpecs
  split
  · exact okP_error _ _
  · split
    · dsimp only
      split
      · exact okP_ok Balanced.nil
      · exact okP_error _ _
    · exact okP_ok Balanced.nil

theorem genReuse_bal (st : St ρ) e : BalRes (Ctl.genReuse ev (fuel + 1) st e).2 := by
  unfold Ctl.genReuse
  apply okP_seq _ _ (okP_true _)
  intro re _
  apply okP_popAfter
  apply okP_seq _ _ (okP_true _)
  intro ik _
  split
  · exact ih.processNodes _ _
  · exact ih.genElem _ _ _

theorem genIf_bal (st : St ρ) e kids : BalRes (Ctl.genIf ev (fuel + 1) st e kids).2 := by
  unfold Ctl.genIf
  split
  · exact okP_error _ _
  · split
    · apply okP_seq _ _ (okP_true _)
      intro b _
      split
      · exact ih.processNodes _ _
      · exact okP_ok Balanced.nil
    · exact okP_ok Balanced.nil

theorem genContainer_bal (st : St ρ) e ks : BalRes (Ctl.genContainer ev (fuel + 1) st e ks).2 := by
  unfold Ctl.genContainer
  split
  · split
    · exact okP_error _ _
    · dsimp only
      exact ih.genElem _ _ _
  · split
    · exact okP_ok (rawNode_balanced _)
    · apply okP_seq _ _ (okP_evalAttributes ev st st e)
      intro ne hne
      apply okP_seq (Q := fun p : List Ev × Option Gen.BoundingBox => Balanced p.1)
      · split
        · exact okP_ok (rawNodes_balanced ks)
        · exact ih.processNodes _ _
      · intro r hr
        exact okP_ok (Balanced.wrap' ((adapt_name ne).trans hne) hr)

theorem genGroup_bal (st : St ρ) e kids : BalRes (Ctl.genGroup ev (fuel + 1) st e kids).2 := by
  unfold Ctl.genGroup
  apply okP_seq _ _ (okP_true _)
  intro ne _
  apply okP_seq (Q := fun p : List Ev × Option Gen.BoundingBox => Balanced p.1)
  · apply okP_popAfter
    split
    · exact okP_ok (Balanced.leaf _ rfl)
    · apply okP_seq _ _ (ih.processNodes _ _)
      intro r hr
      exact okP_ok (Balanced.wrap' (adapt_name ne) hr)
  · intro r hr
    exact bal_groupFinish ev _ e r hr

theorem loopIter_bal (st : St ρ) ks c w u n v s i acc bb (hacc : Balanced acc) :
    BalRes (Ctl.loopIter ev (fuel + 1) st ks c w u n v s i acc bb).2 := by
  unfold Ctl.loopIter
  apply okP_seq _ _ (okP_true _)
  intro go _
  split
  · exact okP_ok hacc
  · apply okP_seq _ _ (ih.processNodes _ _)
    intro r hr
    split
    · exact okP_error _ _
    · apply okP_seq _ _ (okP_true _)
      intro stop _
      split
      · exact okP_ok (Balanced.append _ _ hacc hr)
      · exact ih.loopIter _ _ _ _ _ _ _ _ _ _ _ (Balanced.append _ _ hacc hr)

theorem genLoop_bal (st : St ρ) e kids : BalRes (Ctl.genLoop ev (fuel + 1) st e kids).2 := by
  unfold Ctl.genLoop
  dsimp only
  split
  · split
    · exact okP_error _ _
    · exact ih.loopIter _ _ _ _ _ _ _ _ _ _ _ Balanced.nil
  all_goals exact okP_ok Balanced.nil

theorem forIter_bal (st : St ρ) ks v iv items idx acc bb (hacc : Balanced acc) :
    BalRes (Ctl.forIter ev (fuel + 1) st ks v iv items idx acc bb).2 := by
  cases items with
  | nil => unfold Ctl.forIter; exact okP_ok hacc
  | cons item items =>
    unfold Ctl.forIter
    apply okP_seq _ _ (ih.processNodes _ _)
    intro r hr
    split
    · exact okP_error _ _
    · exact ih.forIter _ _ _ _ _ _ _ _ (Balanced.append _ _ hacc hr)

theorem genFor_bal (st : St ρ) e kids : BalRes (Ctl.genFor ev (fuel + 1) st e kids).2 := by
  unfold Ctl.genFor
  split
  · apply okP_seq _ _ (okP_true _)
    intro items _
    exact ih.forIter _ _ _ _ _ _ _ _ Balanced.nil
  all_goals exact okP_error _ _

theorem genNode_bal (st : St ρ) n : BalRes (Ctl.genNode ev (fuel + 1) st n).2 := by
  cases n with
  | elem e kids tail =>
    unfold Ctl.genNode
    apply okP_seq _ _ (ih.genElem st (leafDefaults st e kids) kids)
    intro r hr
    exact okP_ok (balanced_withTail tail _ hr)
  | comment c tail =>
    unfold Ctl.genNode
    exact okP_ok (Balanced.append _ _ (Balanced.leaf _ rfl) (balanced_tailEvs tail))
  | text t => unfold Ctl.genNode; exact okP_ok (Balanced.leaf _ rfl)
  | cdata c => unfold Ctl.genNode; exact okP_ok (Balanced.leaf _ rfl)

theorem onePass_bal (st : St ρ) ts outs bb rem (ho : Pieces outs) :
    OkP (fun r => Pieces r.1) (Ctl.onePass ev (fuel + 1) st ts outs bb rem).2 := by
  cases ts with
  | nil => unfold Ctl.onePass; exact okP_ok ho
  | cons t ts =>
    unfold Ctl.onePass
    have hg := ih.genNode (registerEarly ev st t.node) t.node
    dsimp only
    split
    · split
      · exact okP_error _ _
      · split
        · exact ih.onePass _ _ _ _ _ ho
        · exact ih.onePass _ _ _ _ _ ho
    · rename_i evs b hr
      split
      · exact ih.onePass _ _ _ _ _ ho
      · apply ih.onePass
        split
        · exact ho
        · exact pieces_snoc ho _ (hg.get hr)

theorem retry_bal (st : St ρ) ts outs bb (ho : Pieces outs) :
    OkP (fun r => Pieces r.1) (Ctl.retry ev (fuel + 1) st ts outs bb).2 := by
  cases ts with
  | nil => unfold Ctl.retry; exact okP_ok ho
  | cons t ts =>
    unfold Ctl.retry
    apply okP_seq _ _ (ih.onePass st _ _ _ _ ho)
    intro r hr
    split
    · exact okP_error _ _
    · split
      · split
        · exact okP_error _ _
        · split
          · exact okP_error _ _
          · exact ih.retry _ _ _ _ hr
      · exact ih.retry _ _ _ _ hr

theorem processNodes_bal (st : St ρ) ks : BalRes (Ctl.processNodes ev (fuel + 1) st ks).2 := by
  unfold Ctl.processNodes
  apply okP_seq _ _ (ih.retry st _ _ _ pieces_nil)
  intro r hr
  exact okP_ok (balanced_flatMap _ _ (pieces_sortOuts _ hr))

end step

/-- **balance, all functions, all fuel** -/
theorem allBal (ev : Evalr ρ) : ∀ fuel, AllBal ev fuel
  | 0 => allBal_zero ev
  | fuel + 1 =>
    let ih := allBal ev fuel
    { genElem := genElem_bal ev fuel ih
      dispatch := dispatch_bal ev fuel ih
      genSpecs := genSpecs_bal ev fuel
      genReuse := genReuse_bal ev fuel ih
      genIf := genIf_bal ev fuel ih
      genContainer := genContainer_bal ev fuel ih
      genGroup := genGroup_bal ev fuel ih
      genLoop := genLoop_bal ev fuel ih
      loopIter := loopIter_bal ev fuel ih
      genFor := genFor_bal ev fuel ih
      forIter := forIter_bal ev fuel ih
      genNode := genNode_bal ev fuel ih
      onePass := onePass_bal ev fuel ih
      retry := retry_bal ev fuel ih
      processNodes := processNodes_bal ev fuel ih }

/-- **MAIN THEOREM: every successful `process_events` result is a balanced event list** -/
theorem processNodes_balanced (ev : Evalr ρ) (fuel : Nat) (st : St ρ) (ks : Nodes) (evs : List Ev)
    (bb : Option Gen.BoundingBox) (h : (processNodes ev fuel st ks).2 = .ok (evs, bb)) : Balanced evs :=
  ((allBal ev fuel).processNodes st ks).get h

/-- … and therefore accepted by the executable stack checker -/
theorem processNodes_check (ev : Evalr ρ) (fuel : Nat) (st : St ρ) (ks : Nodes) (evs : List Ev)
    (bb : Option Gen.BoundingBox) (h : (processNodes ev fuel st ks).2 = .ok (evs, bb)) : check [] evs = some [] :=
  (processNodes_balanced ev fuel st ks evs bb h).sound

theorem genNode_balanced (ev : Evalr ρ) (fuel : Nat) (st : St ρ) (n : Node) (evs : List Ev)
    (bb : Option Gen.BoundingBox) (h : (genNode ev fuel st n).2 = .ok (evs, bb)) : Balanced evs :=
  ((allBal ev fuel).genNode st n).get h

theorem genElem_balanced (ev : Evalr ρ) (fuel : Nat) (st : St ρ) (e : Elem) (kids : Option Nodes) (evs : List Ev)
    (bb : Option Gen.BoundingBox) (h : (genElem ev fuel st e kids).2 = .ok (evs, bb)) : Balanced evs :=
  ((allBal ev fuel).genElem st e kids).get h

/-- the pieces handed to `process_events` by the retry loop are balanced one by one -/
theorem retry_pieces (ev : Evalr ρ) (fuel : Nat) (st : St ρ) (ts : List Tag) (bb : Option Gen.BoundingBox)
    (r : List (Nat × List Ev) × Option Gen.BoundingBox) (h : (retry ev fuel st ts [] bb).2 = .ok r) : Pieces r.1 :=
  ((allBal ev fuel).retry st ts [] bb pieces_nil).get h


/-! ### non-vacuity -/

/-- the checker rejects an element that is never closed … -/
example (e : Elem) : check [] [Ev.start e] ≠ some [] := by simp [check]
example (e : Elem) : ¬ Balanced [Ev.start e] := fun h => by simpa [check] using h.sound
/-- … an end without a start … -/
example (n : Str) : check [] [Ev.end_ n] = none := rfl
example (n : Str) : ¬ Balanced [Ev.end_ n] := fun h => by simpa [check] using h.sound
/-- … a pair whose names differ … -/
theorem check_mismatch (e : Elem) (n : Str) (h : e.name ≠ n) : check [] [Ev.start e, Ev.end_ n] = none := by
  simp [check, h]
example : check [] [Ev.start (Elem.new ['a'] []), Ev.end_ ['b']] = none := by decide
/-- … and overlapping elements `<a><b></a></b>` -/
example : check [] [Ev.start (Elem.new ['a'] []), Ev.start (Elem.new ['b'] []), Ev.end_ ['a'], Ev.end_ ['b']] = none := by
  decide
example : check [] [Ev.start (Elem.new ['a'] []), Ev.start (Elem.new ['b'] []), Ev.end_ ['b'], Ev.end_ ['a']] = some [] := by
  decide

/-- `<g id="a"><rect x="0" y="0" width="4" height="2" text="hi\nyo"/>⏎<!--c--></g>` -/
def demoDoc : Nodes :=
  .cons (.elem (Elem.new ['g'] [(cs!"id", cs!"a")])
    (some (.cons (.elem (Elem.new cs!"rect" [(['x'], ['0']), (['y'], ['0']), (cs!"width", ['4']), (cs!"height", ['2']),
        (cs!"text", cs!"hi\\nyo")]) none (some ['\n']))
      (.cons (.comment cs!"c" none) .nil))) none) .nil

/-- what the model generates for `demoDoc` (empty if it failed) -/
def demoEvs : List Ev := match (processNodes simpleEvalr 40 { rng := 0, scopes := [{}] } demoDoc).2 with
  | .ok (evs, _) => evs | .error _ => []

/-- the nesting skeleton of an event list, for display -/
def Ev.shape : Ev → Str
  | .start e => ['<'] ++ e.name
  | .empty e => ['<'] ++ e.name ++ ['/']
  | .end_ n => ['/'] ++ n
  | .text _ => ['T']
  | .comment _ => ['C']
  | .cdata _ => ['D']

/-- a generated list (group, shape, multi-line text with two tspans, comment) and the checker's verdict on it -/
example : demoEvs.map Ev.shape =
    [cs!"<g", cs!"<rect/", cs!"T", cs!"<text", cs!"T", cs!"<tspan", cs!"T", cs!"/tspan", cs!"<tspan", cs!"T", cs!"/tspan",
     cs!"T", cs!"/text", cs!"T", cs!"C", cs!"/g"] ∧ check [] demoEvs = some [] := by decide +kernel
/-- dropping the last event (the `</g>`) is noticed -/
example : check [] demoEvs.dropLast = some [['g']] := by decide +kernel

#print axioms balanced_iff_check
#print axioms rawNodes_balanced
#print axioms allBal
#print axioms processNodes_balanced
#print axioms processNodes_check
#print axioms genNode_balanced
#print axioms genElem_balanced
#print axioms retry_pieces

end Svgdx.Ctl
