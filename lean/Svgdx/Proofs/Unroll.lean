/-
  Svgdx.Proofs.Unroll — a `<loop count=N>` renders what its manual unrolling renders (model `Svgdx.Ctl.Gen`).

  (0) definitions: `Ok`, `NF`, the statement structures `AllOk`, `AllMono`;
  (1) `allOk`    : `Ok` (not inside `<specs>`, a scope exists) is kept by all 15 functions of the mutual block, for
                   every outcome (a repackaging of `allInv`);
  (A) `allMono`  : FUEL ROBUSTNESS, WITHOUT SIDE CONDITION — for all 15 functions, every state and every tree: a result
                   that is not `.error .fuel` is the result (same state, same value) for every larger fuel;
  (B) `loop_eq_unroll`, `loop_unroll_fuel_exists`, `loop_eq_unroll_eventually`, `loop_unroll_ok`, `genLoop_eq_unroll`:
                   THE UNROLLING THEOREM — under first-attempt success of every pass, `loopIter` for N passes and
                   `processNodes` on `unroll name [start, start+step, …] ks` from the same state give the same final
                   state (all fields) and the same result (events and bounding box), for all fuels on which neither side
                   reports the fuel error; such fuels exist;
  (C) `UnrollExample` : a concrete instance checked by kernel evaluation.

  HISTORY of (A): while `onePass` ignored EVERYTHING that happened inside `<specs>` (including `.error .fuel`), fuel
  robustness was false as a blanket statement and needed "no `<specs>` with content in the tree or in the reuse
  templates" (`specsFree`, `OrigOK`). Since limit / fuel errors are final inside `<specs>` too, a fuel error always
  reaches the caller, and the statement holds unconditionally; the other errors inside `<specs>` are still dropped, but
  such results are not the fuel error, so the induction hypothesis makes them equal at both fuels.

  WHY `Ok` in (B): inside `<specs>` `onePass` drops the outputs, and `allInv` needs a scope.

  WHY `name ≠ "id"`: `registerEarly` looks at the `id` attribute of every tag; `<var id="3"/>` in the unrolled world
  would be registered as a reuse template, which the loop never does (difference in `originals`).

  Scope of (B): the comparison is between `loopIter` and `processNodes` FROM THE SAME STATE, as sibling lists; the
  embedding into a parent tag list (index shift of later siblings, the loop body running one `depth` level deeper than
  the unrolled copies) is not covered here.
-/
import Svgdx.Proofs.CtlInv
import Svgdx.Proofs.C16Laws
import Svgdx.Ctl.SimpleEval
namespace Svgdx.Ctl
open Svgdx

variable {ρ : Type}

/-! ## (0) definitions -/

/-- the states of the unrolling theorem: not inside `<specs>` (there `onePass` drops every output), and a scope
    exists (`AllInv` needs it) -/
structure Ok (st : St ρ) : Prop where
  inSpecs : st.inSpecs = false
  scopes : st.scopes ≠ []

/-- "not the fuel error" -/
def NF {α : Type} (x : St ρ × Except CErr α) : Prop := x.2 ≠ .error .fuel

/-- `Ok` is kept by every function of the mutual block, whatever the outcome -/
structure AllOk (ev : Evalr ρ) (fuel : Nat) : Prop where
  genElem : ∀ (st : St ρ) e kids, Ok st → Ok (genElem ev fuel st e kids).1
  dispatch : ∀ (st : St ρ) e kids, Ok st → Ok (dispatch ev fuel st e kids).1
  genSpecs : ∀ (st : St ρ) kids, Ok st → Ok (genSpecs ev fuel st kids).1
  genReuse : ∀ (st : St ρ) e, Ok st → Ok (genReuse ev fuel st e).1
  genIf : ∀ (st : St ρ) e kids, Ok st → Ok (genIf ev fuel st e kids).1
  genContainer : ∀ (st : St ρ) e ks, Ok st → Ok (genContainer ev fuel st e ks).1
  genGroup : ∀ (st : St ρ) e kids, Ok st → Ok (genGroup ev fuel st e kids).1
  genLoop : ∀ (st : St ρ) e kids, Ok st → Ok (genLoop ev fuel st e kids).1
  loopIter : ∀ (st : St ρ) ks c w u n v s i acc bb, Ok st → Ok (loopIter ev fuel st ks c w u n v s i acc bb).1
  genFor : ∀ (st : St ρ) e kids, Ok st → Ok (genFor ev fuel st e kids).1
  forIter : ∀ (st : St ρ) ks v iv items idx acc bb, Ok st → Ok (forIter ev fuel st ks v iv items idx acc bb).1
  genNode : ∀ (st : St ρ) n, Ok st → Ok (genNode ev fuel st n).1
  onePass : ∀ (st : St ρ) ts outs bb rem, Ok st → Ok (onePass ev fuel st ts outs bb rem).1
  retry : ∀ (st : St ρ) ts outs bb, Ok st → Ok (retry ev fuel st ts outs bb).1
  processNodes : ∀ (st : St ρ) ks, Ok st → Ok (processNodes ev fuel st ks).1

/-- **fuel robustness**: a result that is not the fuel error is the result for every larger fuel -/
structure AllMono (ev : Evalr ρ) (f : Nat) : Prop where
  genElem : ∀ (st : St ρ) e kids f', f ≤ f' →
    NF (genElem ev f st e kids) → genElem ev f' st e kids = genElem ev f st e kids
  dispatch : ∀ (st : St ρ) e kids f', f ≤ f' →
    NF (dispatch ev f st e kids) → dispatch ev f' st e kids = dispatch ev f st e kids
  genSpecs : ∀ (st : St ρ) kids f', f ≤ f' →
    NF (genSpecs ev f st kids) → genSpecs ev f' st kids = genSpecs ev f st kids
  genReuse : ∀ (st : St ρ) e f', f ≤ f' → NF (genReuse ev f st e) → genReuse ev f' st e = genReuse ev f st e
  genIf : ∀ (st : St ρ) e kids f', f ≤ f' →
    NF (genIf ev f st e kids) → genIf ev f' st e kids = genIf ev f st e kids
  genContainer : ∀ (st : St ρ) e ks f', f ≤ f' →
    NF (genContainer ev f st e ks) → genContainer ev f' st e ks = genContainer ev f st e ks
  genGroup : ∀ (st : St ρ) e kids f', f ≤ f' →
    NF (genGroup ev f st e kids) → genGroup ev f' st e kids = genGroup ev f st e kids
  genLoop : ∀ (st : St ρ) e kids f', f ≤ f' →
    NF (genLoop ev f st e kids) → genLoop ev f' st e kids = genLoop ev f st e kids
  loopIter : ∀ (st : St ρ) ks c w u n v s i acc bb f', f ≤ f' →
    NF (loopIter ev f st ks c w u n v s i acc bb) →
    loopIter ev f' st ks c w u n v s i acc bb = loopIter ev f st ks c w u n v s i acc bb
  genFor : ∀ (st : St ρ) e kids f', f ≤ f' →
    NF (genFor ev f st e kids) → genFor ev f' st e kids = genFor ev f st e kids
  forIter : ∀ (st : St ρ) ks v iv items idx acc bb f', f ≤ f' →
    NF (forIter ev f st ks v iv items idx acc bb) →
    forIter ev f' st ks v iv items idx acc bb = forIter ev f st ks v iv items idx acc bb
  genNode : ∀ (st : St ρ) n f', f ≤ f' → NF (genNode ev f st n) → genNode ev f' st n = genNode ev f st n
  onePass : ∀ (st : St ρ) ts outs bb rem f', f ≤ f' →
    NF (onePass ev f st ts outs bb rem) → onePass ev f' st ts outs bb rem = onePass ev f st ts outs bb rem
  retry : ∀ (st : St ρ) ts outs bb f', f ≤ f' →
    NF (retry ev f st ts outs bb) → retry ev f' st ts outs bb = retry ev f st ts outs bb
  processNodes : ∀ (st : St ρ) ks f', f ≤ f' →
    NF (processNodes ev f st ks) → processNodes ev f' st ks = processNodes ev f st ks

/-! ## (1) `Ok` is an invariant of the whole mutual block (from `allInv`) -/

theorem ok_of_inv {a b : St ρ} (h : Ok a) (hi : Inv a b) : Ok b :=
  ⟨hi.2.2.2.2.trans h.inSpecs, hi.2.2.1⟩

theorem ok_of_fields {a b : St ρ} (h : Ok a) (h1 : b.inSpecs = a.inSpecs) (h2 : b.scopes = a.scopes) : Ok b :=
  ⟨h1.trans h.inSpecs, by rw [h2]; exact h.scopes⟩

theorem ok_setVar (st : St ρ) (k v : Str) (h : Ok st) : Ok (st.setVar k v) :=
  ok_of_inv h (inv_setVar st k v h.scopes)

theorem ok_bindLoopVar (st : St ρ) n v (h : Ok st) : Ok (bindLoopVar st n v) :=
  ok_of_inv h (inv_bindLoopVar st n v h.scopes)

theorem ok_registerEarly (ev : Evalr ρ) (st : St ρ) (n : Node) (h : Ok st) : Ok (registerEarly ev st n) :=
  ok_of_inv h (inv_registerEarly ev st n h.scopes)

theorem allOk (ev : Evalr ρ) : ∀ fuel, AllOk ev fuel := fun fuel =>
  let I := allInv ev fuel
  { genElem := fun st e kids h => ok_of_inv h (I.genElem st e kids h.scopes)
    dispatch := fun st e kids h => ok_of_inv h (I.dispatch st e kids h.scopes)
    genSpecs := fun st kids h => ok_of_inv h (I.genSpecs st kids h.scopes)
    genReuse := fun st e h => ok_of_inv h (I.genReuse st e h.scopes)
    genIf := fun st e kids h => ok_of_inv h (I.genIf st e kids h.scopes)
    genContainer := fun st e ks h => ok_of_inv h (I.genContainer st e ks h.scopes)
    genGroup := fun st e kids h => ok_of_inv h (I.genGroup st e kids h.scopes)
    genLoop := fun st e kids h => ok_of_inv h (I.genLoop st e kids h.scopes)
    loopIter := fun st ks c w u n v s i acc bb h => ok_of_inv h (I.loopIter st ks c w u n v s i acc bb h.scopes)
    genFor := fun st e kids h => ok_of_inv h (I.genFor st e kids h.scopes)
    forIter := fun st ks v iv items idx acc bb h => ok_of_inv h (I.forIter st ks v iv items idx acc bb h.scopes)
    genNode := fun st n h => ok_of_inv h (I.genNode st n h.scopes)
    onePass := fun st ts outs bb rem h => ok_of_inv h (I.onePass st ts outs bb rem h.scopes)
    retry := fun st ts outs bb h => ok_of_inv h (I.retry st ts outs bb h.scopes)
    processNodes := fun st ks h => ok_of_inv h (I.processNodes st ks h.scopes) }

/-! ## (A) fuel robustness -/

theorem nf_seq_left {α β : Type} {x : St ρ × Except CErr α} {g : St ρ → α → St ρ × Except CErr β}
    (hnf : NF (seq x g)) : NF x := by
  intro h
  apply hnf
  unfold seq
  rw [h]

/-- `seq` is compatible with fuel robustness of its two parts -/
theorem seq_mono {α β : Type} {x x' : St ρ × Except CErr α} {g g' : St ρ → α → St ρ × Except CErr β}
    (hnf : NF (seq x g)) (hx : NF x → x' = x)
    (hg : ∀ a, x.2 = .ok a → NF (g x.1 a) → g' x.1 a = g x.1 a) : seq x' g' = seq x g := by
  rw [hx (nf_seq_left hnf)]
  unfold seq at hnf ⊢
  split
  · rfl
  · rename_i a ha
    rw [ha] at hnf
    exact hg a ha hnf

theorem clipPost_fuel (ev : Evalr ρ) (e : Elem) (x : St ρ × Res) (h : x.2 = .error .fuel) :
    (clipPost ev e x).2 = .error .fuel := by
  unfold clipPost
  rw [h]
  exact h

theorem nf_popAfter {α : Type} {x : St ρ × Except CErr α} (h : NF (popAfter x)) : NF x := h

section step
variable (ev : Evalr ρ) (fuel : Nat) (ih : AllMono ev fuel)
include ih

theorem genElem_mstep (st : St ρ) e kids f' (hf : fuel + 1 ≤ f')
    (hnf : NF (Ctl.genElem ev (fuel + 1) st e kids)) :
    Ctl.genElem ev f' st e kids = Ctl.genElem ev (fuel + 1) st e kids := by
  obtain ⟨f0, rfl⟩ : ∃ f0, f' = f0 + 1 := ⟨f' - 1, by omega⟩
  rw [Ctl.genElem] at hnf
  rw [Ctl.genElem, Ctl.genElem]
  by_cases hd : st.depth + 1 > st.cfg.depthLimit
  · simp only [hd, if_true]
  · simp only [hd, if_false] at hnf ⊢
    have hsub := ih.dispatch { st with depth := st.depth + 1 } e kids f0 (by omega)
      (fun h => hnf (clipPost_fuel _ _ _ h))
    rw [hsub]

theorem dispatch_mstep (st : St ρ) e kids f' (hf : fuel + 1 ≤ f')
    (hnf : NF (Ctl.dispatch ev (fuel + 1) st e kids)) :
    Ctl.dispatch ev f' st e kids = Ctl.dispatch ev (fuel + 1) st e kids := by
  obtain ⟨f0, rfl⟩ : ∃ f0, f' = f0 + 1 := ⟨f' - 1, by omega⟩
  have hf0 : fuel ≤ f0 := by omega
  unfold Ctl.dispatch at hnf ⊢
  dsimp only at hnf ⊢
  by_cases h1 : (e.name == cs!"loop") = true
  · simp only [h1, if_true] at hnf ⊢
    exact ih.genLoop st e kids f0 hf0 hnf
  simp only [h1, Bool.false_eq_true, if_false] at hnf ⊢
  by_cases h2 : (e.name == cs!"config") = true
  · simp only [h2, if_true]
  simp only [h2, Bool.false_eq_true, if_false] at hnf ⊢
  by_cases h3 : (e.name == cs!"reuse") = true
  · simp only [h3, if_true] at hnf ⊢
    exact ih.genReuse st e f0 hf0 hnf
  simp only [h3, Bool.false_eq_true, if_false] at hnf ⊢
  by_cases h4 : (e.name == cs!"specs") = true
  · simp only [h4, if_true] at hnf ⊢
    exact ih.genSpecs st kids f0 hf0 hnf
  simp only [h4, Bool.false_eq_true, if_false] at hnf ⊢
  by_cases h5 : (e.name == cs!"var") = true
  · simp only [h5, if_true]
  simp only [h5, Bool.false_eq_true, if_false] at hnf ⊢
  by_cases h6 : (e.name == cs!"if") = true
  · simp only [h6, if_true] at hnf ⊢
    exact ih.genIf st e kids f0 hf0 hnf
  simp only [h6, Bool.false_eq_true, if_false] at hnf ⊢
  by_cases h7 : (e.name == cs!"defaults") = true
  · simp only [h7, if_true]
  simp only [h7, Bool.false_eq_true, if_false] at hnf ⊢
  by_cases h8 : (e.name == cs!"for") = true
  · simp only [h8, if_true] at hnf ⊢
    exact ih.genFor st e kids f0 hf0 hnf
  simp only [h8, Bool.false_eq_true, if_false] at hnf ⊢
  by_cases h9 : (e.name == ['g'] || e.name == cs!"symbol") = true
  · simp only [h9, if_true] at hnf ⊢
    exact ih.genGroup st e kids f0 hf0 hnf
  simp only [h9, Bool.false_eq_true, if_false] at hnf ⊢
  cases kids with
  | some ks => exact ih.genContainer st e ks f0 hf0 hnf
  | none => rfl

/-- a fuel error inside `<specs>` comes out of it (`onePass` treats it as final there too) -/
theorem genSpecs_mstep (st : St ρ) kids f' (hf : fuel + 1 ≤ f') (hnf : NF (Ctl.genSpecs ev (fuel + 1) st kids)) :
    Ctl.genSpecs ev f' st kids = Ctl.genSpecs ev (fuel + 1) st kids := by
  obtain ⟨f0, rfl⟩ : ∃ f0, f' = f0 + 1 := ⟨f' - 1, by omega⟩
  have hf0 : fuel ≤ f0 := by omega
  revert hnf
  unfold Ctl.genSpecs
  split
  · intro _; rfl
  · split
    · rename_i ks
      intro hnf
      dsimp only at hnf ⊢
      have hsub := ih.processNodes { st with inSpecs := true } ks f0 hf0 (by
        intro h
        apply hnf
        show (match (Ctl.processNodes ev fuel { st with inSpecs := true } ks).2 with
          | .ok _ => (Except.ok ([], none) : Res)
          | .error er => .error er) = _
        rw [h])
      rw [hsub]
    · intro _; rfl

theorem genReuse_mstep (st : St ρ) e f' (hf : fuel + 1 ≤ f')
    (hnf : NF (Ctl.genReuse ev (fuel + 1) st e)) :
    Ctl.genReuse ev f' st e = Ctl.genReuse ev (fuel + 1) st e := by
  obtain ⟨f0, rfl⟩ : ∃ f0, f' = f0 + 1 := ⟨f' - 1, by omega⟩
  have hf0 : fuel ≤ f0 := by omega
  unfold Ctl.genReuse at hnf ⊢
  refine seq_mono hnf (fun _ => rfl) ?_
  intro re hre hnf1
  have hnf2 := nf_popAfter hnf1
  unfold popAfter
  rw [seq_mono hnf2 (fun _ => rfl) ?_]
  intro ik hik hnf3
  cases hk : ik.2 with
  | some ks =>
    simp only [hk] at hnf3 ⊢
    exact ih.processNodes _ _ f0 hf0 hnf3
  | none =>
    simp only [hk] at hnf3 ⊢
    exact ih.genElem _ _ _ f0 hf0 hnf3

theorem genIf_mstep (st : St ρ) e kids f' (hf : fuel + 1 ≤ f')
    (hnf : NF (Ctl.genIf ev (fuel + 1) st e kids)) :
    Ctl.genIf ev f' st e kids = Ctl.genIf ev (fuel + 1) st e kids := by
  obtain ⟨f0, rfl⟩ : ∃ f0, f' = f0 + 1 := ⟨f' - 1, by omega⟩
  have hf0 : fuel ≤ f0 := by omega
  revert hnf
  unfold Ctl.genIf
  split
  · intro _; rfl
  · split
    · rename_i ks
      intro hnf
      refine seq_mono hnf (fun _ => rfl) ?_
      intro b hb hnf1
      cases b with
      | false => rfl
      | true =>
        simp only [if_true] at hnf1 ⊢
        exact ih.processNodes _ ks f0 hf0 hnf1
    · intro _; rfl

theorem genContainer_mstep (st : St ρ) e ks f' (hf : fuel + 1 ≤ f')
    (hnf : NF (Ctl.genContainer ev (fuel + 1) st e ks)) :
    Ctl.genContainer ev f' st e ks = Ctl.genContainer ev (fuel + 1) st e ks := by
  obtain ⟨f0, rfl⟩ : ∃ f0, f' = f0 + 1 := ⟨f' - 1, by omega⟩
  have hf0 : fuel ≤ f0 := by omega
  revert hnf
  unfold Ctl.genContainer
  split
  · split
    · intro _; rfl
    · intro hnf
      have hsub := fun x => ih.genElem { st with depth := st.depth - 1 } x none f0 hf0
      dsimp only at hnf ⊢
      rw [hsub _ (fun h => hnf h)]
  · split
    · intro _; rfl
    · intro hnf
      refine seq_mono hnf (fun _ => rfl) ?_
      intro ne hne hnf1
      refine seq_mono hnf1 ?_ (fun _ _ _ => rfl)
      intro hnf2
      split
      · rfl
      · rename_i hin
        simp only [hin] at hnf2
        exact ih.processNodes _ ks f0 hf0 hnf2

theorem genGroup_mstep (st : St ρ) e kids f' (hf : fuel + 1 ≤ f')
    (hnf : NF (Ctl.genGroup ev (fuel + 1) st e kids)) :
    Ctl.genGroup ev f' st e kids = Ctl.genGroup ev (fuel + 1) st e kids := by
  obtain ⟨f0, rfl⟩ : ∃ f0, f' = f0 + 1 := ⟨f' - 1, by omega⟩
  have hf0 : fuel ≤ f0 := by omega
  unfold Ctl.genGroup at hnf ⊢
  refine seq_mono hnf (fun _ => rfl) ?_
  intro ne hne hnf1
  refine seq_mono hnf1 ?_ (fun _ _ _ => rfl)
  intro hnf2
  cases kids with
  | none => rfl
  | some ks =>
    have hnf3 := nf_popAfter hnf2
    dsimp only at hnf3 ⊢
    unfold popAfter
    rw [seq_mono hnf3 (fun h => ih.processNodes _ ks f0 hf0 h) (fun _ _ _ => rfl)]

theorem genLoop_mstep (st : St ρ) e kids f' (hf : fuel + 1 ≤ f')
    (hnf : NF (Ctl.genLoop ev (fuel + 1) st e kids)) :
    Ctl.genLoop ev f' st e kids = Ctl.genLoop ev (fuel + 1) st e kids := by
  obtain ⟨f0, rfl⟩ : ∃ f0, f' = f0 + 1 := ⟨f' - 1, by omega⟩
  have hf0 : fuel ≤ f0 := by omega
  revert hnf
  unfold Ctl.genLoop
  dsimp only
  split
  · split
    · intro _; rfl
    · intro hnf
      exact ih.loopIter _ _ _ _ _ _ _ _ _ _ _ f0 hf0 hnf
  · intro _; rfl

theorem loopIter_mstep (st : St ρ) ks c w u n v s i acc bb f' (hf : fuel + 1 ≤ f')
    (hnf : NF (Ctl.loopIter ev (fuel + 1) st ks c w u n v s i acc bb)) :
    Ctl.loopIter ev f' st ks c w u n v s i acc bb = Ctl.loopIter ev (fuel + 1) st ks c w u n v s i acc bb := by
  obtain ⟨f0, rfl⟩ : ∃ f0, f' = f0 + 1 := ⟨f' - 1, by omega⟩
  have hf0 : fuel ≤ f0 := by omega
  unfold Ctl.loopIter at hnf ⊢
  refine seq_mono hnf (fun _ => rfl) ?_
  intro go hgo hnf1
  cases go with
  | false => rfl
  | true =>
    simp only [Bool.not_true, Bool.false_eq_true, if_false] at hnf1 ⊢
    refine seq_mono hnf1 (fun h => ih.processNodes _ ks f0 hf0 h) ?_
    intro r hr hnf2
    split
    · rfl
    · rename_i hlim
      simp only [hlim, if_false] at hnf2
      refine seq_mono hnf2 (fun _ => rfl) ?_
      intro stop hstop hnf3
      cases stop with
      | true => rfl
      | false =>
        simp only [Bool.false_eq_true, if_false] at hnf3 ⊢
        exact ih.loopIter _ _ _ _ _ _ _ _ _ _ _ f0 hf0 hnf3

theorem genFor_mstep (st : St ρ) e kids f' (hf : fuel + 1 ≤ f')
    (hnf : NF (Ctl.genFor ev (fuel + 1) st e kids)) :
    Ctl.genFor ev f' st e kids = Ctl.genFor ev (fuel + 1) st e kids := by
  obtain ⟨f0, rfl⟩ : ∃ f0, f' = f0 + 1 := ⟨f' - 1, by omega⟩
  have hf0 : fuel ≤ f0 := by omega
  revert hnf
  unfold Ctl.genFor
  split
  · intro hnf
    refine seq_mono hnf (fun _ => rfl) ?_
    intro items hitems hnf1
    exact ih.forIter _ _ _ _ _ _ _ _ f0 hf0 hnf1
  · intro _; rfl

theorem forIter_mstep (st : St ρ) ks v iv items idx acc bb f' (hf : fuel + 1 ≤ f')
    (hnf : NF (Ctl.forIter ev (fuel + 1) st ks v iv items idx acc bb)) :
    Ctl.forIter ev f' st ks v iv items idx acc bb = Ctl.forIter ev (fuel + 1) st ks v iv items idx acc bb := by
  obtain ⟨f0, rfl⟩ : ∃ f0, f' = f0 + 1 := ⟨f' - 1, by omega⟩
  have hf0 : fuel ≤ f0 := by omega
  cases items with
  | nil => unfold Ctl.forIter; rfl
  | cons item items =>
    unfold Ctl.forIter at hnf ⊢
    refine seq_mono hnf (fun h => ih.processNodes _ ks f0 hf0 h) ?_
    intro r hr hnf1
    split
    · rfl
    · rename_i hlim
      simp only [hlim, if_false] at hnf1
      exact ih.forIter _ _ _ _ _ _ _ _ f0 hf0 hnf1

theorem genNode_mstep (st : St ρ) n f' (hf : fuel + 1 ≤ f')
    (hnf : NF (Ctl.genNode ev (fuel + 1) st n)) :
    Ctl.genNode ev f' st n = Ctl.genNode ev (fuel + 1) st n := by
  obtain ⟨f0, rfl⟩ : ∃ f0, f' = f0 + 1 := ⟨f' - 1, by omega⟩
  have hf0 : fuel ≤ f0 := by omega
  cases n with
  | elem e kids tail =>
    unfold Ctl.genNode at hnf ⊢
    exact seq_mono hnf (fun h => ih.genElem st _ kids f0 hf0 h) (fun _ _ _ => rfl)
  | comment c tail => unfold Ctl.genNode; rfl
  | text t => unfold Ctl.genNode; rfl
  | cdata c => unfold Ctl.genNode; rfl

theorem onePass_mstep (st : St ρ) ts outs bb rem f' (hf : fuel + 1 ≤ f')
    (hnf : NF (Ctl.onePass ev (fuel + 1) st ts outs bb rem)) :
    Ctl.onePass ev f' st ts outs bb rem = Ctl.onePass ev (fuel + 1) st ts outs bb rem := by
  obtain ⟨f0, rfl⟩ : ∃ f0, f' = f0 + 1 := ⟨f' - 1, by omega⟩
  have hf0 : fuel ≤ f0 := by omega
  cases ts with
  | nil => unfold Ctl.onePass; rfl
  | cons t ts =>
    unfold Ctl.onePass at hnf ⊢
    dsimp only at hnf ⊢
    have hsub : Ctl.genNode ev f0 (registerEarly ev st t.node) t.node =
        Ctl.genNode ev fuel (registerEarly ev st t.node) t.node := by
      refine ih.genNode _ t.node f0 hf0 ?_
      intro h
      apply hnf
      rw [h]
      rfl
    rw [hsub]
    generalize Ctl.genNode ev fuel (registerEarly ev st t.node) t.node = r at hnf ⊢
    obtain ⟨s1, res⟩ := r
    cases res with
    | ok a =>
      obtain ⟨evs, b⟩ := a
      dsimp only at hnf ⊢
      split
      · rename_i hsp
        simp only [hsp, if_true] at hnf
        exact ih.onePass _ _ _ _ _ f0 hf0 hnf
      · rename_i hsp
        simp only [hsp] at hnf
        exact ih.onePass _ _ _ _ _ f0 hf0 hnf
    | error er =>
      dsimp only at hnf ⊢
      split
      · rfl
      · rename_i her
        simp only [her] at hnf
        split
        · rename_i hsp
          simp only [hsp, if_true] at hnf
          exact ih.onePass _ _ _ _ _ f0 hf0 hnf
        · rename_i hsp
          simp only [hsp] at hnf
          exact ih.onePass _ _ _ _ _ f0 hf0 hnf

theorem retry_mstep (st : St ρ) ts outs bb f' (hf : fuel + 1 ≤ f')
    (hnf : NF (Ctl.retry ev (fuel + 1) st ts outs bb)) :
    Ctl.retry ev f' st ts outs bb = Ctl.retry ev (fuel + 1) st ts outs bb := by
  obtain ⟨f0, rfl⟩ : ∃ f0, f' = f0 + 1 := ⟨f' - 1, by omega⟩
  have hf0 : fuel ≤ f0 := by omega
  cases ts with
  | nil => unfold Ctl.retry; rfl
  | cons t ts =>
    unfold Ctl.retry at hnf ⊢
    refine seq_mono hnf (fun h => ih.onePass st _ _ _ _ f0 hf0 h) ?_
    intro r hr hnf1
    split
    · rfl
    rename_i hgen
    simp only [hgen] at hnf1
    split
    · rename_i hlen
      simp only [hlen, if_true] at hnf1
      split
      · rfl
      · rename_i hel
        simp only [hel] at hnf1
        split
        · rfl
        · rename_i hidle
          simp only [hidle, if_false] at hnf1
          exact ih.retry _ _ _ _ f0 hf0 hnf1
    · rename_i hlen
      simp only [hlen] at hnf1
      exact ih.retry _ _ _ _ f0 hf0 hnf1

theorem processNodes_mstep (st : St ρ) ks f' (hf : fuel + 1 ≤ f')
    (hnf : NF (Ctl.processNodes ev (fuel + 1) st ks)) :
    Ctl.processNodes ev f' st ks = Ctl.processNodes ev (fuel + 1) st ks := by
  obtain ⟨f0, rfl⟩ : ∃ f0, f' = f0 + 1 := ⟨f' - 1, by omega⟩
  have hf0 : fuel ≤ f0 := by omega
  unfold Ctl.processNodes at hnf ⊢
  exact seq_mono hnf (fun h => ih.retry st _ _ _ f0 hf0 h) (fun _ _ _ => rfl)

end step

theorem allMono_zero (ev : Evalr ρ) : AllMono ev 0 := by
  constructor <;> intros <;> rename_i h <;> exfalso <;> apply h <;>
    simp only [Ctl.genElem, Ctl.dispatch, Ctl.genSpecs, Ctl.genReuse, Ctl.genIf, Ctl.genContainer,
      Ctl.genGroup, Ctl.genLoop, Ctl.loopIter, Ctl.genFor, Ctl.forIter, Ctl.genNode, Ctl.onePass, Ctl.retry,
      Ctl.processNodes]

/-- **(A) fuel robustness, all 15 functions, no side condition**: a result that is not the fuel error is the result
    for every larger fuel (same state, same value) -/
theorem allMono (ev : Evalr ρ) : ∀ fuel, AllMono ev fuel
  | 0 => allMono_zero ev
  | fuel + 1 =>
    let ih := allMono ev fuel
    { genElem := genElem_mstep ev fuel ih
      dispatch := dispatch_mstep ev fuel ih
      genSpecs := genSpecs_mstep ev fuel ih
      genReuse := genReuse_mstep ev fuel ih
      genIf := genIf_mstep ev fuel ih
      genContainer := genContainer_mstep ev fuel ih
      genGroup := genGroup_mstep ev fuel ih
      genLoop := genLoop_mstep ev fuel ih
      loopIter := loopIter_mstep ev fuel ih
      genFor := genFor_mstep ev fuel ih
      forIter := forIter_mstep ev fuel ih
      genNode := genNode_mstep ev fuel ih
      onePass := onePass_mstep ev fuel ih
      retry := retry_mstep ev fuel ih
      processNodes := processNodes_mstep ev fuel ih }

/-- (A) for the entry point, in plain form: once `processNodes` does not run out of fuel, more fuel changes nothing -/
theorem processNodes_fuel_robust (ev : Evalr ρ) (f f' : Nat) (st : St ρ) (ks : Nodes) (h : f ≤ f')
    (hnf : NF (processNodes ev f st ks)) :
    processNodes ev f' st ks = processNodes ev f st ks :=
  (allMono ev f).processNodes st ks f' h hnf


/-! ## (B) the unrolling theorem -/

open Gen Props

/-! ### definitions -/

def varNode (name : Str) (v : Rat) : Node :=
  .elem { name := cs!"var", attrs := [(name, loopVarStr v)] } none none

def loopVals (start step : Rat) : Nat → List Rat
  | 0 => []
  | n + 1 => start :: loopVals (start + step) step n

def unroll (name : Str) (vals : List Rat) (ks : Nodes) : Nodes :=
  Nodes.ofList (vals.flatMap fun v => varNode name v :: ks.toList)

/-- the tags `processNodes` makes -/
def tagsOf (ks : Nodes) : List Tag := ks.toList.zipIdx.map fun (n, i) => ({ idx := i, node := n } : Tag)

def LitEval (ev : Evalr ρ) (vals : List Rat) : Prop :=
  ∀ v ∈ vals, ∀ geo env rng, ev.evalAttr geo env rng (loopVarStr v) = .ok (loopVarStr v, rng)

/-- the defaults in force leave the `<var name="v"/>` of the unrolling as written. (`apply_defaults` treats
    every empty-element tag alike: a default for `_` or for `var` adds its attributes to a `<var>` element,
    which then sets them as variables - something the loop, which binds its variable directly, does not do.) -/
def VarUntouched (st : St ρ) (name : Str) (v : Rat) : Prop :=
  applyDefaults st { name := cs!"var", attrs := [(name, loopVarStr v)] } = { name := cs!"var", attrs := [(name, loopVarStr v)] }

instance (st : St ρ) (name : Str) (v : Rat) : Decidable (VarUntouched st name v) := by
  unfold VarUntouched; infer_instance

/-- in each of the `n` remaining passes (pass number `it`, value `v`, state `st` at its start) every tag of the body
    succeeds at its FIRST attempt (one `onePass`, at some fuel `g`, leaves nothing pending), no limit is hit, and
    no default in force applies to the `<var>` element the unrolling writes before the pass -/
def FirstTryLoop (ev : Evalr ρ) (name : Str) (step : Rat) (ks : Nodes) : Nat → St ρ → Rat → Nat → Prop
  | 0, _, _, _ => True
  | n + 1, st, v, it =>
    st.depth + 1 ≤ st.cfg.depthLimit ∧ (String.ofList (loopVarStr v)).utf8ByteSize ≤ st.cfg.varLimit ∧
    VarUntouched st name v ∧
    ∃ g st' outs bb, onePass ev g (bindLoopVar st name v) (tagsOf ks) [] none [] = (st', .ok (outs, bb, [])) ∧
      it + 1 ≤ st'.cfg.loopLimit ∧ FirstTryLoop ev name step ks n st' (v + step) (it + 1)

/-! ### small facts -/

theorem unionOpt_none_right (a : Option BoundingBox) : unionOpt a none = a := by
  cases a <;> rfl

theorem toList_ofList (l : List Node) : (Nodes.ofList l).toList = l := by
  induction l with
  | nil => rfl
  | cons n r ih => simp [Nodes.ofList, Nodes.toList, ih]


/-! ### two fuels that both avoid the fuel error agree -/

theorem genNode_agree (ev : Evalr ρ) (f g : Nat) (st : St ρ) (n : Node)
    (hf : NF (genNode ev f st n)) (hg : NF (genNode ev g st n)) : genNode ev f st n = genNode ev g st n := by
  rcases Nat.le_total f g with h | h
  · exact ((allMono ev f).genNode st n g h hf).symm
  · exact (allMono ev g).genNode st n f h hg

theorem NF_of_ok {α : Type} {x : St ρ × Except CErr α} {s : St ρ} {a : α} (h : x = (s, .ok a)) : NF x := by
  subst h; simp [NF]

/-! ### the fuel-free first-try relation -/

inductive FT (ev : Evalr ρ) : St ρ → List Node → St ρ → List Ev → Option BoundingBox → Prop
  | nil (st : St ρ) : FT ev st [] st [] none
  | cons {g : Nat} {st : St ρ} {n : Node} {s1 : St ρ} {evs : List Ev} {b : Option BoundingBox} {ns : List Node}
      {s2 : St ρ} {evs' : List Ev} {bb : Option BoundingBox} :
      genNode ev g (registerEarly ev st n) n = (s1, .ok (evs, b)) → FT ev s1 ns s2 evs' bb →
      FT ev st (n :: ns) s2 (evs ++ evs') (unionOpt b bb)

theorem FT.cast {ev : Evalr ρ} {st s2 : St ρ} {ns ns' : List Node} {evs evs' : List Ev} {b b' : Option BoundingBox}
    (h : FT ev st ns s2 evs b) (h1 : ns' = ns) (h2 : evs' = evs) (h3 : b' = b) : FT ev st ns' s2 evs' b' := by
  subst h1 h2 h3; exact h

theorem FT_append {ev : Evalr ρ} {st s1 s2 : St ρ} {ns ms : List Node} {e1 e2 : List Ev} {b1 b2 : Option BoundingBox}
    (h1 : FT ev st ns s1 e1 b1) (h2 : FT ev s1 ms s2 e2 b2) :
    FT ev st (ns ++ ms) s2 (e1 ++ e2) (unionOpt b1 b2) := by
  induction h1 with
  | nil st => exact h2.cast (by simp) (by simp) (C16.unionOpt_none_left _)
  | cons hg _ ih =>
    exact (FT.cons hg (ih h2)).cast (by simp) (by simp) (C16.unionOpt_assoc _ _ _)

/-- `Ok` is carried along a first-try run -/
theorem FT_ok {ev : Evalr ρ} {st s2 : St ρ} {ns : List Node} {evs : List Ev} {b : Option BoundingBox}
    (h : FT ev st ns s2 evs b) (hok : Ok st) : Ok s2 := by
  induction h with
  | nil st => exact hok
  | @cons g st n s1 evs b ns s2 evs' bb hg _ ih =>
    have h1 : Ok (registerEarly ev st n) := ok_registerEarly ev st n hok
    have h2 := (allOk ev g).genNode _ n h1
    rw [hg] at h2
    exact ih h2

/-! ### the pending list only grows -/

theorem onePass_rem_len (ev : Evalr ρ) : ∀ (f : Nat) (ts : List Tag) (st : St ρ) (outs : List (Nat × List Ev))
    (bb : Option BoundingBox) (rem : List Tag) (s : St ρ) (o : List (Nat × List Ev)) (b : Option BoundingBox)
    (rem' : List Tag), onePass ev f st ts outs bb rem = (s, .ok (o, b, rem')) → rem.length ≤ rem'.length := by
  intro f
  induction f with
  | zero => intro ts st outs bb rem s o b rem' h; simp [onePass] at h
  | succ f ih =>
    intro ts st outs bb rem s o b rem' h
    cases ts with
    | nil =>
      simp only [onePass, Prod.mk.injEq, Except.ok.injEq] at h
      rw [← h.2.2.2]; simp
    | cons t ts =>
      rw [onePass] at h
      split at h
      · split at h
        · simp at h
        · split at h
          · exact ih _ _ _ _ _ _ _ _ _ h
          · have := ih _ _ _ _ _ _ _ _ _ h
            simp at this; omega
      · split at h
        · exact ih _ _ _ _ _ _ _ _ _ h
        · exact ih _ _ _ _ _ _ _ _ _ h

/-- the entry `onePass` appends for a tag that produced `evs` -/
def outOf (idx : Nat) (evs : List Ev) : List (Nat × List Ev) := if evs.isEmpty then [] else [(idx, evs)]

theorem outOf_append (outs : List (Nat × List Ev)) (idx : Nat) (evs : List Ev) :
    (if evs.isEmpty then outs else outs ++ [(idx, evs)]) = outs ++ outOf idx evs := by
  unfold outOf; split <;> simp

theorem outOf_flat (idx : Nat) (evs : List Ev) : (outOf idx evs).flatMap (·.2) = evs := by
  unfold outOf; cases evs <;> simp

theorem outOf_sub (idx : Nat) (evs : List Ev) : ((outOf idx evs).map (·.1)).Sublist [idx] := by
  unfold outOf; split <;> simp

/-! ### from a successful `onePass` to the relation -/

theorem FT_of_onePass (ev : Evalr ρ) : ∀ (ts : List Tag) (g : Nat) (st : St ρ) (outs : List (Nat × List Ev))
    (bb : Option BoundingBox) (st' : St ρ) (outs' : List (Nat × List Ev)) (bb' : Option BoundingBox),
    Ok st →
    onePass ev g st ts outs bb [] = (st', .ok (outs', bb', [])) →
    ∃ evs b, FT ev st (ts.map (·.node)) st' evs b ∧ bb' = unionOpt bb b ∧
      ∃ outs₁, outs' = outs ++ outs₁ ∧ outs₁.flatMap (·.2) = evs := by
  intro ts
  induction ts with
  | nil =>
    intro g st outs bb st' outs' bb' _ h
    cases g with
    | zero => simp [onePass] at h
    | succ g =>
      simp only [onePass, Prod.mk.injEq, Except.ok.injEq] at h
      obtain ⟨rfl, rfl, rfl, _⟩ := h
      exact ⟨[], none, FT.nil _, (unionOpt_none_right _).symm, [], by simp, by simp⟩
  | cons t ts ih =>
    intro g st outs bb st' outs' bb' hok h
    cases g with
    | zero => simp [onePass] at h
    | succ g =>
      have h1 : Ok (registerEarly ev st t.node) := ok_registerEarly ev st _ hok
      have h2 : Ok (genNode ev g (registerEarly ev st t.node) t.node).1 := (allOk ev g).genNode _ _ h1
      have hsp : ¬ ((genNode ev g (registerEarly ev st t.node) t.node).1.inSpecs = true) := by
        rw [h2.inSpecs]; simp
      rw [onePass] at h
      cases hr : (genNode ev g (registerEarly ev st t.node) t.node).2 with
      | error er =>
        rw [hr] at h
        dsimp only at h
        rw [if_neg hsp] at h
        split at h
        · simp at h
        · have := onePass_rem_len ev _ _ _ _ _ _ _ _ _ _ h
          simp at this
      | ok r =>
        obtain ⟨evs, b⟩ := r
        rw [hr] at h
        dsimp only at h
        rw [if_neg hsp, outOf_append] at h
        obtain ⟨evs', b', hft, hbb, outs₁, ho, hfl⟩ :=
          ih g _ _ _ st' outs' bb' h2 h
        have hg : genNode ev g (registerEarly ev st t.node) t.node
            = ((genNode ev g (registerEarly ev st t.node) t.node).1, .ok (evs, b)) := by
          rw [← hr]
        refine ⟨evs ++ evs', unionOpt b b', ?_, ?_, outOf t.idx evs ++ outs₁, ?_, ?_⟩
        · exact FT.cons hg hft
        · rw [hbb, C16.unionOpt_assoc]
        · rw [ho, List.append_assoc]
        · rw [List.flatMap_append, outOf_flat, hfl]

/-! ### from the relation to `onePass` at any fuel that does not report the fuel error -/

theorem onePass_of_FT {ev : Evalr ρ} {st st' : St ρ} {ns : List Node} {evs : List Ev} {b : Option BoundingBox}
    (hft : FT ev st ns st' evs b) : ∀ (ts : List Tag) (F : Nat) (outs : List (Nat × List Ev))
    (bb : Option BoundingBox) (rem : List Tag), ts.map (·.node) = ns → Ok st →
    NF (onePass ev F st ts outs bb rem) →
    ∃ outs₁, onePass ev F st ts outs bb rem = (st', .ok (outs ++ outs₁, unionOpt bb b, rem.reverse)) ∧
      outs₁.flatMap (·.2) = evs ∧ (outs₁.map (·.1)).Sublist (ts.map (·.idx)) := by
  induction hft with
  | nil st =>
    intro ts F outs bb rem hts _ hnf
    have : ts = [] := by simpa using hts
    subst this
    cases F with
    | zero => simp [onePass, NF] at hnf
    | succ F => exact ⟨[], by simp [onePass, unionOpt_none_right], by simp, by simp⟩
  | @cons g st n s1 evs b ns s2 evs' b' hg _ ih =>
    intro ts F outs bb rem hts hok hnf
    cases ts with
    | nil => simp at hts
    | cons t ts =>
      simp only [List.map_cons, List.cons.injEq] at hts
      obtain ⟨rfl, hts⟩ := hts
      cases F with
      | zero => simp [onePass, NF] at hnf
      | succ F =>
        have h1 : Ok (registerEarly ev st t.node) := ok_registerEarly ev st _ hok
        have h2 : Ok (genNode ev F (registerEarly ev st t.node) t.node).1 := (allOk ev F).genNode _ _ h1
        have hnfF : NF (genNode ev F (registerEarly ev st t.node) t.node) := by
          intro hfu
          apply hnf
          rw [onePass, hfu]
          simp
        have hgF : genNode ev F (registerEarly ev st t.node) t.node = (s1, .ok (evs, b)) := by
          rw [genNode_agree ev F g _ _ hnfF (NF_of_ok hg), hg]
        have hs1 : Ok s1 := by rw [hgF] at h2; exact h2
        have hstep : onePass ev (F + 1) st (t :: ts) outs bb rem
            = onePass ev F s1 ts (outs ++ outOf t.idx evs) (unionOpt bb b) rem := by
          rw [onePass, hgF]
          dsimp only
          rw [if_neg (by rw [hs1.inSpecs]; simp), outOf_append]
        rw [hstep] at hnf ⊢
        obtain ⟨outs₁, he, hfl, hsub⟩ := ih ts F _ _ rem hts hs1 hnf
        refine ⟨outOf t.idx evs ++ outs₁, ?_, ?_, ?_⟩
        · rw [he, List.append_assoc, C16.unionOpt_assoc]
        · rw [List.flatMap_append, outOf_flat, hfl]
        · rw [List.map_append, List.map_cons]
          exact (outOf_sub t.idx evs).append hsub

/-! ### `sortOuts` on a list already in document order -/

theorem partition_all {α : Type} (p : α → Bool) (l : List α) (h : ∀ x ∈ l, p x = true) : l.partition p = (l, []) := by
  rw [List.partition_eq_filter_filter]
  simp only [Prod.mk.injEq, List.filter_eq_self, List.filter_eq_nil_iff]
  exact ⟨h, fun x hx => by simp [h x hx]⟩

theorem sortOuts_fold (l : List (Nat × List Ev)) : ∀ (acc : List (Nat × List Ev)),
    (∀ p ∈ acc, ∀ q ∈ l, p.1 ≤ q.1) → l.Pairwise (fun p q => p.1 ≤ q.1) →
    l.foldl (fun (acc : List (Nat × List Ev)) (o : Nat × List Ev) =>
      let (lo, hi) := acc.partition (fun p => p.1 ≤ o.1)
      lo ++ [o] ++ hi) acc = acc ++ l := by
  induction l with
  | nil => intro acc _ _; simp
  | cons o l ih =>
    intro acc hacc hp
    rw [List.foldl_cons]
    have hpart : acc.partition (fun p => decide (p.1 ≤ o.1)) = (acc, []) :=
      partition_all _ _ (fun x hx => by simpa using hacc x hx o (by simp))
    simp only [hpart, List.append_nil]
    rw [List.pairwise_cons] at hp
    rw [ih (acc ++ [o]) ?_ hp.2]
    · simp
    · intro p hp' q hq
      rcases List.mem_append.1 hp' with h | h
      · exact hacc p h q (by simp [hq])
      · have : p = o := by simpa using h
        subst this; exact hp.1 q hq

theorem sortOuts_sorted (l : List (Nat × List Ev)) (h : l.Pairwise (fun p q => p.1 ≤ q.1)) : sortOuts l = l := by
  unfold sortOuts
  rw [sortOuts_fold l [] (by simp) h]; simp

theorem zipIdx_tags_idx (l : List Node) (k : Nat) :
    ((l.zipIdx k).map fun (n, i) => ({ idx := i, node := n } : Tag)).map (·.idx) = List.range' k l.length := by
  induction l generalizing k with
  | nil => simp
  | cons n l ih => simp [List.zipIdx_cons, List.range'_succ, ih]

theorem zipIdx_tags_node (l : List Node) (k : Nat) :
    ((l.zipIdx k).map fun (n, i) => ({ idx := i, node := n } : Tag)).map (·.node) = l := by
  induction l generalizing k with
  | nil => simp
  | cons n l ih => simp [List.zipIdx_cons, ih]

theorem tagsOf_node (ks : Nodes) : (tagsOf ks).map (·.node) = ks.toList := zipIdx_tags_node _ _

theorem sorted_of_sub_tags (ks : Nodes) (outs : List (Nat × List Ev))
    (h : (outs.map (·.1)).Sublist ((tagsOf ks).map (·.idx))) : outs.Pairwise (fun p q => p.1 ≤ q.1) := by
  have h1 : ((tagsOf ks).map (·.idx)).Pairwise (· ≤ ·) := by
    unfold tagsOf
    rw [zipIdx_tags_idx]
    exact (List.pairwise_lt_range' (s := 0) (n := ks.toList.length)).imp Nat.le_of_lt
  have h2 := h1.sublist h
  rwa [List.pairwise_map] at h2

/-! ### `retry` and `processNodes` from the relation -/

theorem retry_of_FT {ev : Evalr ρ} {st st' : St ρ} {evs : List Ev} {b : Option BoundingBox} (ts : List Tag)
    (hft : FT ev st (ts.map (·.node)) st' evs b) (f : Nat) (outs : List (Nat × List Ev)) (bb : Option BoundingBox)
    (hok : Ok st) (hnf : NF (retry ev f st ts outs bb)) :
    ∃ outs₁, retry ev f st ts outs bb = (st', .ok (outs ++ outs₁, unionOpt bb b)) ∧
      outs₁.flatMap (·.2) = evs ∧ (outs₁.map (·.1)).Sublist (ts.map (·.idx)) := by
  cases f with
  | zero => simp [retry, NF] at hnf
  | succ f =>
    cases ts with
    | nil =>
      cases hft
      exact ⟨[], by simp [retry, unionOpt_none_right], by simp, by simp⟩
    | cons t ts =>
      have hnf1 : NF (onePass ev f st (t :: ts) outs bb []) := by
        intro hfu; apply hnf; rw [retry]; unfold seq; rw [hfu]
      obtain ⟨outs₁, he, hfl, hsub⟩ := onePass_of_FT hft (t :: ts) f outs bb [] rfl hok hnf1
      have hstep : retry ev (f + 1) st (t :: ts) outs bb = retry ev f st' [] (outs ++ outs₁) (unionOpt bb b) := by
        rw [retry]; unfold seq; rw [he]; simp
      rw [hstep] at hnf ⊢
      cases f with
      | zero => simp [retry, NF] at hnf
      | succ f => exact ⟨outs₁, by simp [retry], hfl, hsub⟩

theorem processNodes_of_FT {ev : Evalr ρ} {st st' : St ρ} {evs : List Ev} {b : Option BoundingBox} (ks : Nodes)
    (hft : FT ev st ks.toList st' evs b) (f : Nat) (hok : Ok st)
    (hnf : NF (processNodes ev f st ks)) : processNodes ev f st ks = (st', .ok (evs, b)) := by
  cases f with
  | zero => simp [processNodes, NF] at hnf
  | succ f =>
    have hnf1 : NF (retry ev f st (tagsOf ks) [] none) := by
      intro hfu; apply hnf; rw [processNodes]; unfold seq; unfold tagsOf at hfu; rw [hfu]
    have hft' : FT ev st ((tagsOf ks).map (·.node)) st' evs b := by rw [tagsOf_node]; exact hft
    obtain ⟨outs₁, he, hfl, hsub⟩ := retry_of_FT (tagsOf ks) hft' f [] none hok hnf1
    rw [processNodes]; unfold seq
    unfold tagsOf at he
    rw [he]
    simp only [List.nil_append, C16.unionOpt_none_left]
    rw [sortOuts_sorted _ (sorted_of_sub_tags ks outs₁ hsub), hfl]

/-! ### the `<var>` element of the unrolling -/

theorem registerEarly_varNode (ev : Evalr ρ) (st : St ρ) (name : Str) (v : Rat) (hid : name ≠ cs!"id") :
    registerEarly ev st (varNode name v) = st := by
  have : (Elem.getAttr { name := cs!"var", attrs := [(name, loopVarStr v)] } cs!"id") = none := by
    simp [Elem.getAttr, Attrs.get, Attrs.lookupTable, hid]
  simp only [registerEarly, varNode, registerOriginal, this]

theorem setVar_depth_roundtrip (st : St ρ) (k v : Str) :
    ({ (({ st with depth := st.depth + 1 } : St ρ).setVar k v) with
        depth := (({ st with depth := st.depth + 1 } : St ρ).setVar k v).depth - 1 } : St ρ) = st.setVar k v := by
  obtain ⟨geo, originals, scopes, elemStack, depth, inSpecs, cfg, rng, outside, idle⟩ := st
  cases scopes <;> simp [St.setVar]

theorem genNode_varNode (ev : Evalr ρ) (g : Nat) (st : St ρ) (name : Str) (v : Rat)
    (hname : name ≠ [] ∧ name ≠ ['_'] ∧ name ≠ cs!"__" ∧ name ≠ cs!"id")
    (hdepth : st.depth + 1 ≤ st.cfg.depthLimit)
    (hvar : (String.ofList (loopVarStr v)).utf8ByteSize ≤ st.cfg.varLimit)
    (hdef : VarUntouched st name v)
    (hev : ∀ geo env rng, ev.evalAttr geo env rng (loopVarStr v) = .ok (loopVarStr v, rng)) :
    genNode ev (g + 3) st (varNode name v) = (bindLoopVar st name v, .ok ([], none)) := by
  have hd : ¬ (st.depth + 1 > st.cfg.depthLimit) := by omega
  have hgv := C16.var_element_binds_like_loop ev ({ st with depth := st.depth + 1 } : St ρ)
    { name := cs!"var", attrs := [(name, loopVarStr v)] } name (loopVarStr v) st.rng rfl ⟨hname.2.1, hname.2.2.1⟩
    (hev _ _ _) hvar
  have hdisp : dispatch ev (g + 1) ({ st with depth := st.depth + 1 } : St ρ)
      { name := cs!"var", attrs := [(name, loopVarStr v)] } none
      = (({ st with depth := st.depth + 1 } : St ρ).setVar name (loopVarStr v), .ok ([], none)) := by
    rw [dispatch]
    simp only [show (cs!"var" == cs!"loop") = false from by decide, show (cs!"var" == cs!"config") = false from by decide,
      show (cs!"var" == cs!"reuse") = false from by decide, show (cs!"var" == cs!"specs") = false from by decide,
      show (cs!"var" == cs!"var") = true from by decide, Bool.false_eq_true, if_false, if_true]
    exact hgv
  have helem : genElem ev (g + 2) st { name := cs!"var", attrs := [(name, loopVarStr v)] } none
      = (st.setVar name (loopVarStr v), .ok ([], none)) := by
    rw [genElem, if_neg hd]
    simp only [hdisp, clipPost]
    rw [setVar_depth_roundtrip]
  rw [C16.loop_binding st name v hname.1]
  unfold VarUntouched at hdef
  simp only [varNode, genNode, leafDefaults, hdef, helem, seq, withTail]

/-! ### the fuel-free relation for the whole run -/

inductive Passes (ev : Evalr ρ) (name : Str) (step : Rat) (ks : Nodes) :
    Nat → St ρ → Rat → Nat → St ρ → List Ev → Option BoundingBox → Prop
  | done (st : St ρ) (v : Rat) (it : Nat) : Passes ev name step ks 0 st v it st [] none
  | pass {n : Nat} {st : St ρ} {v : Rat} {it : Nat} {s1 : St ρ} {evs : List Ev} {b : Option BoundingBox}
      {s2 : St ρ} {evs' : List Ev} {bb : Option BoundingBox} :
      st.depth + 1 ≤ st.cfg.depthLimit → (String.ofList (loopVarStr v)).utf8ByteSize ≤ st.cfg.varLimit →
      VarUntouched st name v →
      FT ev (bindLoopVar st name v) ks.toList s1 evs b → it + 1 ≤ s1.cfg.loopLimit →
      Passes ev name step ks n s1 (v + step) (it + 1) s2 evs' bb →
      Passes ev name step ks (n + 1) st v it s2 (evs ++ evs') (unionOpt b bb)

theorem passes_of_firstTry (ev : Evalr ρ) (name : Str) (step : Rat) (ks : Nodes) :
    ∀ (n : Nat) (st : St ρ) (v : Rat) (it : Nat), Ok st → FirstTryLoop ev name step ks n st v it →
    ∃ s2 evs bb, Passes ev name step ks n st v it s2 evs bb := by
  intro n
  induction n with
  | zero => intro st v it _ _; exact ⟨st, [], none, Passes.done st v it⟩
  | succ n ih =>
    intro st v it hok h
    obtain ⟨hd, hv, hdf, g, st', outs, bb, hone, hlim, hrest⟩ := h
    have hokb : Ok (bindLoopVar st name v) := ok_bindLoopVar st name v hok
    obtain ⟨evs, b, hft, _, _⟩ := FT_of_onePass ev (tagsOf ks) g _ [] none st' outs bb hokb hone
    rw [tagsOf_node] at hft
    have hok' : Ok st' := FT_ok hft hokb
    obtain ⟨s2, evs', bb', hp⟩ := ih st' (v + step) (it + 1) hok' hrest
    exact ⟨s2, evs ++ evs', unionOpt b bb', Passes.pass hd hv hdf hft hlim hp⟩

/-- LOOP SIDE -/
theorem loopIter_of_passes {ev : Evalr ρ} {name : Str} {step : Rat} {ks : Nodes}
    {n : Nat} {st : St ρ} {v : Rat} {it : Nat} {s2 : St ρ} {evs : List Ev} {bb : Option BoundingBox}
    (hp : Passes ev name step ks n st v it s2 evs bb) :
    ∀ (f : Nat) (acc : List Ev) (bb0 : Option BoundingBox), Ok st →
    NF (loopIter ev f st ks (some (it + n)) none none name v step it acc bb0) →
    loopIter ev f st ks (some (it + n)) none none name v step it acc bb0 = (s2, .ok (acc ++ evs, unionOpt bb0 bb)) := by
  induction hp with
  | done st v it =>
    intro f acc bb0 _ hnf
    cases f with
    | zero => simp [loopIter, NF] at hnf
    | succ f => rw [loopIter]; simp [seq, preTest, unionOpt_none_right]
  | @pass n st v it s1 evs b s2 evs' bb hd hv hdf hft hlim _ ih =>
    intro f acc bb0 hok hnf
    cases f with
    | zero => simp [loopIter, NF] at hnf
    | succ f =>
      have hokb : Ok (bindLoopVar st name v) := ok_bindLoopVar st name v hok
      have hpre : preTest ev st (some (it + (n + 1))) none it = (st, .ok true) := by
        simp [preTest]
      have hnfb : NF (processNodes ev f (bindLoopVar st name v) ks) := by
        intro hfu; apply hnf
        rw [loopIter]; simp only [seq, hpre]; simp [hfu]
      have hbody := processNodes_of_FT ks hft f hokb hnfb
      have hok1 : Ok s1 := FT_ok hft hokb
      have hstep := C16.loop_iteration ev f st st s1 s1 ks (some (it + (n + 1))) none none name v step it acc bb0
        (evs, b) hpre hbody hlim rfl
      have hidx : it + (n + 1) = it + 1 + n := by omega
      rw [hstep] at hnf ⊢
      rw [hidx] at hnf ⊢
      rw [ih f _ _ hok1 hnf, List.append_assoc, C16.unionOpt_assoc]

/-- UNROLL SIDE -/
theorem FT_unroll_of_passes {ev : Evalr ρ} {name : Str} {step : Rat} {ks : Nodes}
    (hname : name ≠ [] ∧ name ≠ ['_'] ∧ name ≠ cs!"__" ∧ name ≠ cs!"id")
    {n : Nat} {st : St ρ} {v : Rat} {it : Nat} {s2 : St ρ} {evs : List Ev} {bb : Option BoundingBox}
    (hp : Passes ev name step ks n st v it s2 evs bb) : LitEval ev (loopVals v step n) →
    FT ev st (unroll name (loopVals v step n) ks).toList s2 evs bb := by
  induction hp with
  | done st v it => intro _; exact (FT.nil st).cast (by simp [unroll, loopVals, toList_ofList]) rfl rfl
  | @pass n st v it s1 evs b s2 evs' bb hd hv hdf hft hlim _ ih =>
    intro hev
    have hev1 := hev v (by simp [loopVals])
    have hev2 : LitEval ev (loopVals (v + step) step n) := fun w hw => hev w (by simp [loopVals, hw])
    have hvar : genNode ev (0 + 3) (registerEarly ev st (varNode name v)) (varNode name v)
        = (bindLoopVar st name v, .ok ([], none)) := by
      rw [registerEarly_varNode ev st name v hname.2.2.2]
      exact genNode_varNode ev 0 st name v hname hd hv hdf hev1
    have h := FT.cons hvar (FT_append hft (ih hev2))
    refine h.cast ?_ (by simp) (C16.unionOpt_none_left _).symm
    simp [unroll, loopVals, toList_ofList]

/-! ### the unrolling theorem -/

/-- **a count loop renders what its manual unrolling renders**: final state and result are the same -/
theorem loop_eq_unroll (ev : Evalr ρ) (name : Str) (start step : Rat) (N : Nat) (ks : Nodes) (st : St ρ)
    (hname : name ≠ [] ∧ name ≠ ['_'] ∧ name ≠ cs!"__" ∧ name ≠ cs!"id")
    (hok : Ok st)
    (hev : LitEval ev (loopVals start step N))
    (hfirst : FirstTryLoop ev name step ks N st start 0)
    (fL fU : Nat)
    (hL : NF (loopIter ev fL st ks (some N) none none name start step 0 [] none))
    (hU : NF (processNodes ev fU st (unroll name (loopVals start step N) ks))) :
    loopIter ev fL st ks (some N) none none name start step 0 [] none
      = processNodes ev fU st (unroll name (loopVals start step N) ks) := by
  obtain ⟨s2, evs, bb, hp⟩ := passes_of_firstTry ev name step ks N st start 0 hok hfirst
  have hl := loopIter_of_passes hp fL [] none hok (by simpa using hL)
  simp only [Nat.zero_add, List.nil_append, C16.unionOpt_none_left] at hl
  have hu := processNodes_of_FT _ (FT_unroll_of_passes hname hp hev) fU hok hU
  rw [hl, hu]

/-! ### non-vacuity: enough fuel exists on both sides -/

theorem onePass_NF_of_FT {ev : Evalr ρ} {st st' : St ρ} {ns : List Node} {evs : List Ev} {b : Option BoundingBox}
    (hft : FT ev st ns st' evs b) : Ok st →
    ∃ G, ∀ f, G ≤ f → ∀ (ts : List Tag) (outs : List (Nat × List Ev)) (bb : Option BoundingBox) (rem : List Tag),
      ts.map (·.node) = ns → NF (onePass ev f st ts outs bb rem) := by
  induction hft with
  | nil st =>
    intro _
    refine ⟨1, fun f hf ts outs bb rem hts => ?_⟩
    have : ts = [] := by simpa using hts
    subst this
    obtain ⟨f, rfl⟩ : ∃ f', f = f' + 1 := ⟨f - 1, by omega⟩
    simp [onePass, NF]
  | @cons g st n s1 evs b ns s2 evs' b' hg hrest ih =>
    intro hok
    have h1 : Ok (registerEarly ev st n) := ok_registerEarly ev st n hok
    have hs1 : Ok s1 := by
      have h2 := (allOk ev g).genNode _ n h1
      rw [hg] at h2; exact h2
    obtain ⟨G, hG⟩ := ih hs1
    refine ⟨max g G + 1, fun f hf ts outs bb rem hts => ?_⟩
    obtain ⟨f, rfl⟩ : ∃ f', f = f' + 1 := ⟨f - 1, by omega⟩
    cases ts with
    | nil => simp at hts
    | cons t ts =>
      simp only [List.map_cons, List.cons.injEq] at hts
      obtain ⟨rfl, hts⟩ := hts
      have hgF : genNode ev f (registerEarly ev st t.node) t.node = (s1, .ok (evs, b)) := by
        rw [(allMono ev g).genNode _ _ f (by omega) (NF_of_ok hg), hg]
      rw [onePass, hgF]
      dsimp only
      rw [if_neg (by rw [hs1.inSpecs]; simp)]
      exact hG f (by omega) ts _ _ rem hts

theorem retry_NF_of_FT {ev : Evalr ρ} {st st' : St ρ} {ns : List Node} {evs : List Ev} {b : Option BoundingBox}
    (hft : FT ev st ns st' evs b) (hok : Ok st) :
    ∃ G, ∀ f, G ≤ f → ∀ (ts : List Tag) (outs : List (Nat × List Ev)) (bb : Option BoundingBox),
      ts.map (·.node) = ns → NF (retry ev f st ts outs bb) := by
  obtain ⟨G, hG⟩ := onePass_NF_of_FT hft hok
  refine ⟨G + 2, fun f hf ts outs bb hts => ?_⟩
  obtain ⟨f, rfl⟩ : ∃ f', f = f' + 2 := ⟨f - 2, by omega⟩
  subst hts
  cases ts with
  | nil => simp [retry, NF]
  | cons t ts =>
    obtain ⟨outs₁, he, _, _⟩ := onePass_of_FT hft (t :: ts) (f + 1) outs bb [] rfl hok
      (hG (f + 1) (by omega) _ _ _ _ rfl)
    rw [retry]; unfold seq; rw [he]
    simp [retry, NF]

theorem processNodes_NF_of_FT {ev : Evalr ρ} {st st' : St ρ} {evs : List Ev} {b : Option BoundingBox} (ks : Nodes)
    (hft : FT ev st ks.toList st' evs b) (hok : Ok st) :
    ∃ G, ∀ f, G ≤ f → NF (processNodes ev f st ks) := by
  obtain ⟨G, hG⟩ := retry_NF_of_FT hft hok
  refine ⟨G + 1, fun f hf => ?_⟩
  obtain ⟨f, rfl⟩ : ∃ f', f = f' + 1 := ⟨f - 1, by omega⟩
  have hnf := hG f (by omega) (tagsOf ks) [] none (tagsOf_node ks)
  have hft' : FT ev st ((tagsOf ks).map (·.node)) st' evs b := by rw [tagsOf_node]; exact hft
  obtain ⟨outs₁, he, _, _⟩ := retry_of_FT (tagsOf ks) hft' f [] none hok hnf
  rw [processNodes]; unfold seq
  unfold tagsOf at he
  rw [he]; simp [NF]

theorem loopIter_NF_of_passes {ev : Evalr ρ} {name : Str} {step : Rat} {ks : Nodes}
    {n : Nat} {st : St ρ} {v : Rat} {it : Nat} {s2 : St ρ} {evs : List Ev} {bb : Option BoundingBox}
    (hp : Passes ev name step ks n st v it s2 evs bb) : Ok st →
    ∃ G, ∀ f, G ≤ f → ∀ (acc : List Ev) (bb0 : Option BoundingBox),
      NF (loopIter ev f st ks (some (it + n)) none none name v step it acc bb0) := by
  induction hp with
  | done st v it =>
    intro _
    refine ⟨1, fun f hf acc bb0 => ?_⟩
    obtain ⟨f, rfl⟩ : ∃ f', f = f' + 1 := ⟨f - 1, by omega⟩
    rw [loopIter]; simp [seq, preTest, NF]
  | @pass n st v it s1 evs b s2 evs' bb hd hv hdf hft hlim _ ih =>
    intro hok
    have hokb : Ok (bindLoopVar st name v) := ok_bindLoopVar st name v hok
    have hok1 : Ok s1 := FT_ok hft hokb
    obtain ⟨G1, hG1⟩ := processNodes_NF_of_FT ks hft hokb
    obtain ⟨G2, hG2⟩ := ih hok1
    refine ⟨max G1 G2 + 1, fun f hf acc bb0 => ?_⟩
    obtain ⟨f, rfl⟩ : ∃ f', f = f' + 1 := ⟨f - 1, by omega⟩
    have hpre : preTest ev st (some (it + (n + 1))) none it = (st, .ok true) := by
      simp [preTest]
    have hbody := processNodes_of_FT ks hft f hokb (hG1 f (by omega))
    have hstep := C16.loop_iteration ev f st st s1 s1 ks (some (it + (n + 1))) none none name v step it acc bb0
      (evs, b) hpre hbody hlim rfl
    have hidx : it + (n + 1) = it + 1 + n := by omega
    rw [hstep, hidx]
    exact hG2 f (by omega) _ _

/-- **the fuel hypotheses of `loop_eq_unroll` can be met**: from some fuel on, neither side reports the fuel error -/
theorem loop_unroll_fuel_exists (ev : Evalr ρ) (name : Str) (start step : Rat) (N : Nat) (ks : Nodes) (st : St ρ)
    (hname : name ≠ [] ∧ name ≠ ['_'] ∧ name ≠ cs!"__" ∧ name ≠ cs!"id")
    (hok : Ok st)
    (hev : LitEval ev (loopVals start step N))
    (hfirst : FirstTryLoop ev name step ks N st start 0) :
    ∃ F, ∀ f, F ≤ f → NF (loopIter ev f st ks (some N) none none name start step 0 [] none) ∧
      NF (processNodes ev f st (unroll name (loopVals start step N) ks)) := by
  obtain ⟨s2, evs, bb, hp⟩ := passes_of_firstTry ev name step ks N st start 0 hok hfirst
  obtain ⟨G1, hG1⟩ := loopIter_NF_of_passes hp hok
  obtain ⟨G2, hG2⟩ := processNodes_NF_of_FT _ (FT_unroll_of_passes hname hp hev) hok
  refine ⟨max G1 G2, fun f hf => ⟨?_, hG2 f (by omega)⟩⟩
  simpa using hG1 f (by omega) [] none

/-- the two theorems together: from some fuel on, both sides succeed or fail alike with the same state and result -/
theorem loop_eq_unroll_eventually (ev : Evalr ρ) (name : Str) (start step : Rat) (N : Nat) (ks : Nodes) (st : St ρ)
    (hname : name ≠ [] ∧ name ≠ ['_'] ∧ name ≠ cs!"__" ∧ name ≠ cs!"id")
    (hok : Ok st)
    (hev : LitEval ev (loopVals start step N))
    (hfirst : FirstTryLoop ev name step ks N st start 0) :
    ∃ F, ∀ fL fU, F ≤ fL → F ≤ fU →
      loopIter ev fL st ks (some N) none none name start step 0 [] none
        = processNodes ev fU st (unroll name (loopVals start step N) ks) := by
  obtain ⟨F, hF⟩ := loop_unroll_fuel_exists ev name start step N ks st hname hok hev hfirst
  exact ⟨F, fun fL fU hL hU =>
    loop_eq_unroll ev name start step N ks st hname hok hev hfirst fL fU (hF fL hL).1 (hF fU hU).2⟩

/-! ### corollaries -/

/-- the common value: from some fuel on, both sides SUCCEED, with the same final state, events and box -/
theorem loop_unroll_ok (ev : Evalr ρ) (name : Str) (start step : Rat) (N : Nat) (ks : Nodes) (st : St ρ)
    (hname : name ≠ [] ∧ name ≠ ['_'] ∧ name ≠ cs!"__" ∧ name ≠ cs!"id")
    (hok : Ok st)
    (hev : LitEval ev (loopVals start step N))
    (hfirst : FirstTryLoop ev name step ks N st start 0) :
    ∃ F s2 evs bb, ∀ fL fU, F ≤ fL → F ≤ fU →
      loopIter ev fL st ks (some N) none none name start step 0 [] none = (s2, .ok (evs, bb)) ∧
      processNodes ev fU st (unroll name (loopVals start step N) ks) = (s2, .ok (evs, bb)) := by
  obtain ⟨s2, evs, bb, hp⟩ := passes_of_firstTry ev name step ks N st start 0 hok hfirst
  obtain ⟨F, hF⟩ := loop_unroll_fuel_exists ev name start step N ks st hname hok hev hfirst
  refine ⟨F, s2, evs, bb, fun fL fU hL hU => ⟨?_, ?_⟩⟩
  · have hl := loopIter_of_passes hp fL [] none hok (by simpa using (hF fL hL).1)
    simpa only [Nat.zero_add, List.nil_append, C16.unionOpt_none_left] using hl
  · exact processNodes_of_FT _ (FT_unroll_of_passes hname hp hev) fU hok (hF fU hU).2

/-- the same at the level of the `<loop>` ELEMENT: when its head evaluates to `count = N`, loop variable `name`,
    `start`, `step` (leaving the random state `rng`), `genLoop` on the element is `processNodes` on the unrolling -/
theorem genLoop_eq_unroll (ev : Evalr ρ) (e : Elem) (name : Str) (start step : Rat) (N : Nat) (ks : Nodes) (st : St ρ)
    (rng : ρ) (hcount : (e.getAttr cs!"count").isSome = true)
    (hhead : loopHead ev st e = .ok (some N, name, start, step, rng))
    (hname : name ≠ [] ∧ name ≠ ['_'] ∧ name ≠ cs!"__" ∧ name ≠ cs!"id")
    (hok : Ok st)
    (hev : LitEval ev (loopVals start step N))
    (hfirst : FirstTryLoop ev name step ks N { st with rng := rng } start 0)
    (fL fU : Nat)
    (hL : NF (genLoop ev fL st e (some ks)))
    (hU : NF (processNodes ev fU { st with rng := rng } (unroll name (loopVals start step N) ks))) :
    genLoop ev fL st e (some ks)
      = processNodes ev fU { st with rng := rng } (unroll name (loopVals start step N) ks) := by
  cases fL with
  | zero => simp [genLoop, NF] at hL
  | succ f =>
    have hg : genLoop ev (f + 1) st e (some ks)
        = loopIter ev f { st with rng := rng } ks (some N) none none name start step 0 [] none := by
      have ht : ((e.getAttr cs!"count").isSome || (e.getAttr cs!"while").isSome ||
          (e.getAttr cs!"until").isSome) = true := by rw [hcount]; rfl
      rw [genLoop]
      · simp only [hhead, Option.isSome_some, if_true]
      · exact ht
    rw [hg] at hL ⊢
    exact loop_eq_unroll ev name start step N ks ({ st with rng := rng } : St ρ) hname
      (ok_of_fields hok rfl rfl) hev hfirst f fU hL hU

/-! ### a decidable form of the first-attempt hypothesis (for concrete instances) -/

/-- `FirstTryLoop` with one fuel `g` for every pass, as a Boolean -/
def firstTryLoopB (ev : Evalr ρ) (name : Str) (step : Rat) (ks : Nodes) (g : Nat) : Nat → St ρ → Rat → Nat → Bool
  | 0, _, _, _ => true
  | n + 1, st, v, it =>
    decide (st.depth + 1 ≤ st.cfg.depthLimit) &&
    decide ((String.ofList (loopVarStr v)).utf8ByteSize ≤ st.cfg.varLimit) &&
    decide (VarUntouched st name v) &&
    match onePass ev g (bindLoopVar st name v) (tagsOf ks) [] none [] with
    | (st', .ok (_, _, [])) =>
      decide (it + 1 ≤ st'.cfg.loopLimit) && firstTryLoopB ev name step ks g n st' (v + step) (it + 1)
    | _ => false

theorem firstTryLoop_of_B (ev : Evalr ρ) (name : Str) (step : Rat) (ks : Nodes) (g : Nat) :
    ∀ (n : Nat) (st : St ρ) (v : Rat) (it : Nat), firstTryLoopB ev name step ks g n st v it = true →
      FirstTryLoop ev name step ks n st v it := by
  intro n
  induction n with
  | zero => intro st v it _; trivial
  | succ n ih =>
    intro st v it h
    unfold firstTryLoopB at h
    simp only [Bool.and_eq_true, decide_eq_true_eq] at h
    obtain ⟨⟨⟨hd, hv⟩, hdf⟩, hm⟩ := h
    split at hm
    · rename_i st' outs bb heq
      simp only [Bool.and_eq_true, decide_eq_true_eq] at hm
      exact ⟨hd, hv, hdf, g, st', outs, bb, heq, hm.1, ih st' _ _ hm.2⟩
    · cases hm

/-! ## (C) non-vacuity: a concrete loop, checked by kernel evaluation

  `<loop count="3" loop-var="i" start="0" step="10"><rect x="$i" y="0" width="5" height="5"/></loop>` with the
  substitution-only evaluator `simpleEvalr`, against
  `<var i="0"/><rect …/><var i="10"/><rect …/><var i="20"/><rect …/>`. -/

namespace UnrollExample

-- (DecidableEq Elem is derived at the definition)
deriving instance DecidableEq for Svgdx.Ctl.Ev

def rect (x : Str) : Elem :=
  { name := cs!"rect", attrs := [(['x'], x), (['y'], ['0']), (cs!"width", ['5']), (cs!"height", ['5'])] }

def body : Nodes := .cons (.elem (rect cs!"$i") none none) .nil
def st0 : St Nat := { rng := 0, scopes := [{}] }
def name : Str := ['i']

theorem name_legal : name ≠ [] ∧ name ≠ ['_'] ∧ name ≠ cs!"__" ∧ name ≠ cs!"id" := by decide

theorem st0_ok : Ok st0 := ⟨rfl, by simp [st0]⟩

theorem vals : (loopVals 0 10 3).map loopVarStr = [['0'], ['1', '0'], ['2', '0']] := by decide +kernel

/-- the evaluator returns the three literals unchanged and leaves the random state alone -/
theorem litEval : LitEval simpleEvalr (loopVals 0 10 3) := by
  have h := vals
  simp only [loopVals, List.map_cons, List.map_nil, List.cons.injEq, and_true] at h
  obtain ⟨h0, h1, h2⟩ := h
  intro v hv geo env rng
  simp only [loopVals, List.mem_cons, List.not_mem_nil, or_false] at hv
  rcases hv with rfl | rfl | rfl
  · rw [h0]; rfl
  · rw [h1]; rfl
  · rw [h2]; rfl

/-- every pass succeeds at the first attempt, no limit is hit -/
theorem firstTry : FirstTryLoop simpleEvalr name 10 body 3 st0 0 0 :=
  firstTryLoop_of_B simpleEvalr name 10 body 8 3 st0 0 0 (by decide +kernel)

/-- neither side reports the fuel error at fuel 20 -/
theorem nf_both : NF (loopIter simpleEvalr 20 st0 body (some 3) none none name 0 10 0 [] none) ∧
    NF (processNodes simpleEvalr 20 st0 (unroll name (loopVals 0 10 3) body)) := by
  unfold NF
  decide +kernel

/-- the theorem applied: same final state, same result -/
theorem loop_is_unrolling :
    loopIter simpleEvalr 20 st0 body (some 3) none none name 0 10 0 [] none
      = processNodes simpleEvalr 20 st0 (unroll name (loopVals 0 10 3) body) :=
  loop_eq_unroll simpleEvalr name 0 10 3 body st0 name_legal st0_ok litEval firstTry 20 20
    nf_both.1 nf_both.2

/-- … and the result, computed by the kernel on each side independently: three rectangles at x = 0, 10, 20 -/
theorem loop_events :
    (loopIter simpleEvalr 20 st0 body (some 3) none none name 0 10 0 [] none).2
      = .ok ([Ev.empty (rect ['0']), Ev.empty (rect cs!"10"), Ev.empty (rect cs!"20")], some ⟨0, 0, 25, 5⟩) := by
  decide +kernel

theorem unrolled_events :
    (processNodes simpleEvalr 20 st0 (unroll name (loopVals 0 10 3) body)).2
      = .ok ([Ev.empty (rect ['0']), Ev.empty (rect cs!"10"), Ev.empty (rect cs!"20")], some ⟨0, 0, 25, 5⟩) := by
  decide +kernel

end UnrollExample

end Svgdx.Ctl

#print axioms Svgdx.Ctl.allOk
#print axioms Svgdx.Ctl.allMono
#print axioms Svgdx.Ctl.processNodes_fuel_robust
#print axioms Svgdx.Ctl.loop_eq_unroll
#print axioms Svgdx.Ctl.loop_unroll_fuel_exists
#print axioms Svgdx.Ctl.loop_eq_unroll_eventually
#print axioms Svgdx.Ctl.loop_unroll_ok
#print axioms Svgdx.Ctl.genLoop_eq_unroll
#print axioms Svgdx.Ctl.firstTryLoop_of_B
#print axioms Svgdx.Ctl.UnrollExample.litEval
#print axioms Svgdx.Ctl.UnrollExample.firstTry
#print axioms Svgdx.Ctl.UnrollExample.nf_both
#print axioms Svgdx.Ctl.UnrollExample.loop_is_unrolling
#print axioms Svgdx.Ctl.UnrollExample.loop_events
#print axioms Svgdx.Ctl.UnrollExample.unrolled_events
